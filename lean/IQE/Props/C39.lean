/-
  C39 — The TPC-H generator is deterministic and self-consistent.
  Model: IQE.Engine.Tpch — the key columns as pure functions of the row index and of ARBITRARY RNG streams (parameters).
  Theorems about foreign keys are for the model with the deviation switches off; for each switch (= defect of the unchanged
  tree, known_findings C39-F1/F2) the exact failure condition or a kernel-checked witness is given.
-/
import IQE.Engine.Tpch
namespace IQE.Props.C39
open IQE.Engine.Tpch

/-- Primary keys are exactly `1 … count`, in order, each once. -/
theorem C39_pk_dense (n : Nat) :
    (pkColumn n).length = n ∧ (∀ i, i < n → (pkColumn n)[i]? = some (i + 1)) ∧ (∀ k, k ∈ pkColumn n ↔ 1 ≤ k ∧ k ≤ n) := by
  refine ⟨by simp [pkColumn], fun i hi => by simp [pkColumn, hi], fun k => ?_⟩
  simp only [pkColumn, List.mem_map, List.mem_range]
  constructor
  · rintro ⟨a, ha, rfl⟩; omega
  · intro h; exact ⟨k - 1, by omega, by omega⟩

theorem sample_in_range (lo hi u : Nat) (h : lo ≤ hi) : lo ≤ sample lo hi u ∧ sample lo hi u ≤ hi := by
  unfold sample
  have : u % (hi - lo + 1) < hi - lo + 1 := Nat.mod_lt _ (by omega)
  omega

theorem orderLine_in_range (orders : Nat) (flip : Nat → Bool) (h : 1 ≤ orders) (i : Nat) :
    1 ≤ (orderLine orders flip i).1 ∧ (orderLine orders flip i).1 ≤ orders := by
  induction i with
  | zero => simp [orderLine]; omega
  | succ i ih =>
    simp only [orderLine]
    split
    · have : (orderLine orders flip i).1 % orders < orders := Nat.mod_lt _ (by omega)
      simp only; omega
    · exact ih

/-- Every foreign key refers to an existing row — for EVERY RNG stream and every positive table size:
    `o_custkey ∈ [1, customers]`, `l_orderkey ∈ [1, orders]`, `ps_partkey, l_partkey ∈ [1, parts]`,
    `ps_suppkey, l_suppkey ∈ [1, suppliers]`, nation keys among the 25 nations, region keys among the 5 regions. -/
theorem C39_fk_in_range (c : Counts) (hp : 1 ≤ c.part) (hs : 1 ≤ c.supplier) (hc : 1 ≤ c.customer) (ho : 1 ≤ c.orders) :
    (∀ u, 1 ≤ oCustkey {} c u ∧ oCustkey {} c u ≤ c.customer) ∧
    (∀ flip i, 1 ≤ (orderLine c.orders flip i).1 ∧ (orderLine c.orders flip i).1 ≤ c.orders) ∧
    (∀ j, 1 ≤ (psKeys c j).1 ∧ (psKeys c j).1 ≤ c.part ∧ 1 ≤ (psKeys c j).2 ∧ (psKeys c j).2 ≤ c.supplier) ∧
    (∀ i, 1 ≤ (lineKeys {} c i).1 ∧ (lineKeys {} c i).1 ≤ c.part ∧ 1 ≤ (lineKeys {} c i).2 ∧ (lineKeys {} c i).2 ≤ c.supplier) ∧
    (∀ u, nationkey u ∈ nationRegion.map (·.1)) ∧
    (∀ p ∈ nationRegion, p.2 ∈ regionKeys) := by
  have hps : ∀ j, 1 ≤ (psKeys c j).1 ∧ (psKeys c j).1 ≤ c.part ∧ 1 ≤ (psKeys c j).2 ∧ (psKeys c j).2 ≤ c.supplier := by
    intro j
    have h1 : j % c.part < c.part := Nat.mod_lt _ (by omega)
    have h2 : j % c.supplier < c.supplier := Nat.mod_lt _ (by omega)
    simp only [psKeys]; omega
  refine ⟨fun u => ?_, fun flip i => orderLine_in_range c.orders flip ho i, hps, fun i => ?_, fun u => ?_, by decide⟩
  · exact sample_in_range 1 c.customer u hc
  · simp only [lineKeys]; exact hps _
  · have := sample_in_range 0 24 u (by omega)
    have h : ∀ k, k ≤ 24 → k ∈ nationRegion.map (·.1) := by decide
    exact h _ this.2

/-- Row counts are the TPC-H ratios scaled and truncated: `count ≤ ratio·sf < count + 1` for the scale factor `num/den`;
    and for a scale factor that makes the supplier count exact (`den ∣ 10000·num`) the ratios between tables are exact. -/
theorem C39_counts (num den : Nat) (hd : 0 < den) :
    (∀ ratio, scaled ratio num den * den ≤ ratio * num ∧ ratio * num < (scaled ratio num den + 1) * den) ∧
    (den ∣ ratioSupplier * num →
      (rowCounts num den).part = 20 * (rowCounts num den).supplier ∧
      (rowCounts num den).partsupp = 80 * (rowCounts num den).supplier ∧
      (rowCounts num den).customer = 15 * (rowCounts num den).supplier ∧
      (rowCounts num den).orders = 150 * (rowCounts num den).supplier ∧
      (rowCounts num den).lineitem = 600 * (rowCounts num den).supplier) := by
  refine ⟨fun ratio => ?_, fun ⟨q, hq⟩ => ?_⟩
  · unfold scaled
    have h1 := Nat.div_add_mod (ratio * num) den
    have h2 := Nat.mod_lt (ratio * num) hd
    generalize ratio * num / den = q at *
    generalize ratio * num % den = r at *
    generalize ratio * num = x at *
    have h3 : q * den = den * q := Nat.mul_comm ..
    refine ⟨by omega, ?_⟩
    rw [Nat.add_mul, Nat.one_mul]; omega
  · have key : ∀ k, (k * ratioSupplier) * num / den = k * (ratioSupplier * num / den) := by
      intro k
      rw [Nat.mul_assoc, hq, Nat.mul_div_cancel_left _ hd, ← Nat.mul_assoc, Nat.mul_comm k den, Nat.mul_assoc,
        Nat.mul_div_cancel_left _ hd]
    simp only [rowCounts, scaled]
    exact ⟨key 20, key 80, key 15, key 150, key 600⟩

theorem mod_eq_iff_dvd_sub (P i j : Nat) (hji : j ≤ i) : i % P = j % P ↔ P ∣ i - j := by
  constructor
  · intro h; exact Nat.dvd_of_mod_eq_zero (Nat.sub_mod_eq_zero_of_mod_eq h)
  · rintro ⟨q, hq⟩
    have : i = j + P * q := by omega
    rw [this, Nat.add_mul_mod_self_left]

theorem mem_partsuppKeys (c : Counts) (x : Nat × Nat) : x ∈ partsuppKeys c ↔ ∃ j, j < c.partsupp ∧ psKeys c j = x := by
  simp [partsuppKeys, List.mem_map, List.mem_range]

/-- The composite foreign key of the index-derived scheme (the code as it is: switch `lineitemIgnoresPartsupp`):
    every `(l_partkey, l_suppkey)` occurs in partsupp IFF `lineitems ≤ partsupp` or `lcm(parts, suppliers) ≤ partsupp`. -/
theorem C39_ps_fk (c : Counts) (hp : 0 < c.part) (hs : 0 < c.supplier) :
    (∀ i, i < c.lineitem → lineKeys { lineitemIgnoresPartsupp := true } c i ∈ partsuppKeys c)
      ↔ (c.lineitem ≤ c.partsupp ∨ Nat.lcm c.part c.supplier ≤ c.partsupp) := by
  have hkeys : ∀ i, lineKeys { lineitemIgnoresPartsupp := true } c i = psKeys c i := fun i => by simp [lineKeys, psKeys]
  constructor
  · intro h
    by_cases h1 : c.lineitem ≤ c.partsupp
    · exact Or.inl h1
    by_cases h2 : Nat.lcm c.part c.supplier ≤ c.partsupp
    · exact Or.inr h2
    exfalso
    have := h c.partsupp (by omega)
    rw [hkeys, mem_partsuppKeys] at this
    obtain ⟨j, hj, he⟩ := this
    simp only [psKeys, Prod.mk.injEq] at he
    have e1 : c.partsupp % c.part = j % c.part := by omega
    have e2 : c.partsupp % c.supplier = j % c.supplier := by omega
    have d1 := (mod_eq_iff_dvd_sub c.part c.partsupp j (by omega)).mp e1
    have d2 := (mod_eq_iff_dvd_sub c.supplier c.partsupp j (by omega)).mp e2
    have d := Nat.lcm_dvd d1 d2
    have := Nat.le_of_dvd (by omega) d
    omega
  · rintro (h | h) i hi
    · rw [hkeys, mem_partsuppKeys]; exact ⟨i, by omega, rfl⟩
    · rw [hkeys, mem_partsuppKeys]
      have hl : 0 < Nat.lcm c.part c.supplier := Nat.lcm_pos hp hs
      refine ⟨i % Nat.lcm c.part c.supplier, by have := Nat.mod_lt i hl; omega, ?_⟩
      simp only [psKeys, Nat.mod_mod_of_dvd i (Nat.dvd_lcm_left c.part c.supplier),
        Nat.mod_mod_of_dvd i (Nat.dvd_lcm_right c.part c.supplier)]

/-- With the switch off (lineitem row `i` references partsupp row `i % partsupp`) the composite key always exists. -/
theorem C39_ps_fk_fixed (c : Counts) (h : 0 < c.partsupp) (i : Nat) : lineKeys {} c i ∈ partsuppKeys c := by
  rw [mem_partsuppKeys]
  exact ⟨i % c.partsupp, Nat.mod_lt _ h, by simp [lineKeys]⟩

/-- For the scale factors that keep the TPC-H ratios exact (`parts = 20·suppliers`, `partsupp = 80·suppliers`, see `C39_counts`)
    both schemes produce the same keys, and the composite key exists. -/
theorem C39_ps_fk_round_sf (c : Counts) (hs : 0 < c.supplier) (hP : c.part = 20 * c.supplier) (hPS : c.partsupp = 80 * c.supplier)
    (i : Nat) : lineKeys { lineitemIgnoresPartsupp := true } c i = lineKeys {} c i ∧ lineKeys {} c i ∈ partsuppKeys c := by
  refine ⟨?_, C39_ps_fk_fixed c (by omega) i⟩
  have d1 : c.part ∣ c.partsupp := ⟨4, by omega⟩
  have d2 : c.supplier ∣ c.partsupp := ⟨80, by omega⟩
  simp [lineKeys, psKeys, Nat.mod_mod_of_dvd i d1, Nat.mod_mod_of_dvd i d2]

/-- The generated keys are a function of the counts and of the values of the RNG streams only (no other state). -/
theorem C39_pure (dev : Dev) (c : Counts) (uS uC uO uS' uC' uO' : Nat → Nat) (flip flip' : Nat → Bool)
    (h1 : ∀ k, uS k = uS' k) (h2 : ∀ k, uC k = uC' k) (h3 : ∀ k, uO k = uO' k) (h4 : ∀ k, flip k = flip' k) :
    generate dev c uS uC uO flip = generate dev c uS' uC' uO' flip' := by
  have e1 : uS = uS' := funext h1
  have e2 : uC = uC' := funext h2
  have e3 : uO = uO' := funext h3
  have e4 : flip = flip' := funext h4
  subst e1 e2 e3 e4
  rfl

/-! ### negation witnesses -/

/-- C39-F1: with 150 customers the code draws `o_custkey` from 1..=225; raw output 199 gives key 200, which is no customer -/
example : oCustkey { custkeyOneAndHalf := true } (rowCounts 1 1000) 199 = 200 ∧ (rowCounts 1 1000).customer = 150 := by decide
example : oCustkey {} (rowCounts 1 1000) 199 = 50 := by decide
/-- C39-F2: scale factor 0.00125 → 250 parts, 12 suppliers, 1000 partsupp rows, 7500 lineitems; lcm(250,12) = 1500 > 1000 -/
example : rowCounts 125 100000 = ⟨250, 12, 1000, 187, 1875, 7500⟩ := by decide
example : ¬ ((rowCounts 125 100000).lineitem ≤ (rowCounts 125 100000).partsupp
    ∨ Nat.lcm (rowCounts 125 100000).part (rowCounts 125 100000).supplier ≤ (rowCounts 125 100000).partsupp) := by decide
example : lineKeys { lineitemIgnoresPartsupp := true } (rowCounts 125 100000) 1000 = (1, 5) := by decide
-- non-vacuity
example : pkColumn 4 = [1, 2, 3, 4] := by decide
example : (List.range 6).map (orderLine 2 (fun i => i % 2 == 0)) = [(1, 1), (1, 2), (2, 1), (2, 2), (1, 1), (1, 2)] := by decide

end IQE.Props.C39
