/-
  C23 — Subqueries follow SQL semantics, decorrelated or not.
  Property theorems only (helper lemmas: IQE/Lemmas/Subquery.lean, IQE/Lemmas/JoinDecomp.lean, IQE/Lemmas/Bag.lean).
  Model: IQE.Engine.Subquery (mirror of src/physical/operators/subquery.rs, `precompute_uncorrelated_scalars` of
  src/physical/planner.rs and the rewrites of src/optimizer/rules/subquery_decorrelation.rs).
  Reference: `Spec.eval` (`.exists_`, `.inSub`, `.scalarSub`: "re-run the subplan with the outer row in the environment")
  and `Spec.run` (`.filter`, `.join`).

  Vocabulary of the decorrelation theorems.  `R` / `S` are the results of the outer plan `qR` and of the decorrelated inner
  plan `qS`; the subquery `sub` is *correlated by a predicate* `m`: run with the outer row `l` on top of the environment it
  returns `S.filter (m l)` (hypothesis `hsub`; `m = fun _ _ => true` is the uncorrelated case).  `nodeCx fo fns cat subs ctes`
  is the evaluation context `Spec.run` builds for a node with subqueries `subs`.  Comparisons are assumed well-typed
  (`comparable`: `Val.cmp3` does not raise) — `Spec.inVals` evaluates every comparison, the engine's loop stops at the first
  match, so on ill-typed sets one may raise where the other answers.
-/
import IQE.Lemmas.Subquery
namespace IQE.Props.C23
open List IQE IQE.Spec IQE.Engine.Subquery IQE.Subq IQE.Join IQE.Bag

/-! ## IN / NOT IN, row by row -/

/-- The loop of `evaluate_in_subquery` with the intended NULL handling IS SQL's three-valued IN / NOT IN, for every left
    value and every set whose comparisons with it are well-typed (any mix of NULLs with values of one comparable type,
    including int against f64). -/
theorem C23_in_3vl (fo : FloatOps) (x : Val) (set : List Val) (neg : Bool)
    (hty : ∀ v ∈ set, comparable fo x v = true) :
    evalInSubquery {} fo x set neg =
      (do let r ← Spec.inVals fo x set; if neg then Val.not3 r else pure r) := by
  rw [evalInSubquery_eq_in3 fo x set neg hty, inVals_eq_in3 fo x set hty]
  cases neg <;> rfl

/-- Instance: `x` and the elements are NULL or of ONE type (bool, int, f64, str, date) — no typing hypothesis left. -/
theorem C23_in_3vl_typed (fo : FloatOps) (x : Val) (set : List Val) (neg : Bool)
    (hty : ∀ v ∈ set, (x.isNull || v.isNull || x.tyOf == v.tyOf) = true) :
    evalInSubquery {} fo x set neg =
      (do let r ← Spec.inVals fo x set; if neg then Val.not3 r else pure r) :=
  C23_in_3vl fo x set neg (wellTyped_of_sameTy fo x set hty)

/-- Instance: a NULL left operand, any set whatever. -/
theorem C23_in_3vl_null_left (fo : FloatOps) (set : List Val) (neg : Bool) :
    evalInSubquery {} fo .null set neg =
      (do let r ← Spec.inVals fo .null set; if neg then Val.not3 r else pure r) :=
  C23_in_3vl fo .null set neg (wellTyped_null fo set)

/-- The readable characterisation, for the reference and for the model: `x IN set` is TRUE if some element equals `x`;
    else NULL if (`x` is NULL and the set is non-empty) or the set contains NULL; else FALSE.  NOT IN is its Kleene negation. -/
theorem C23_in_3vl_char (fo : FloatOps) (x : Val) (set : List Val)
    (hty : ∀ v ∈ set, comparable fo x v = true) :
    let r : Val :=
      if set.any (eqTrue fo x) then .bool true
      else if (x.isNull && !set.isEmpty) || set.any Val.isNull then .null
      else .bool false
    Spec.inVals fo x set = .ok r ∧
    evalInSubquery {} fo x set false = .ok r ∧
    evalInSubquery {} fo x set true = Val.not3 r := by
  refine ⟨inVals_eq_in3 fo x set hty, ?_, ?_⟩
  · exact evalInSubquery_eq_in3 fo x set false hty
  · exact evalInSubquery_eq_in3 fo x set true hty

/-- Which rows a WHERE keeps: `x IN set` iff some element equals `x`; `x NOT IN set` iff no element equals `x`, the set
    holds no NULL, and `x` is non-NULL unless the set is empty. -/
theorem C23_in_keeps_iff (fo : FloatOps) (x : Val) (set : List Val)
    (hty : ∀ v ∈ set, comparable fo x v = true) :
    (keeps (evalInSubquery {} fo x set false) = true ↔ set.any (eqTrue fo x) = true) ∧
    (keeps (evalInSubquery {} fo x set true) = true ↔
      (set.any (eqTrue fo x) = false ∧ set.any Val.isNull = false ∧ (x.isNull = false ∨ set = []))) := by
  rw [evalInSubquery_eq_in3 fo x set false hty, evalInSubquery_eq_in3 fo x set true hty, in3_eq_tv]
  cases ha : set.any (eqTrue fo x) <;> cases hn : set.any Val.isNull <;> cases hx : x.isNull <;>
    cases set <;> simp_all [keeps, tv, Val.not3]

-- A.14 on the model: t = u = {1, 2, NULL}.  `a NOT IN (SELECT a FROM u)` must keep no row; with the switch on (today's
-- code, row-by-row path) the loop ignores the NULL element: 1 and 2 find their match, the NULL row gets FALSE.
example (fo : FloatOps) :
    inFilterRows {} fo yOf (fun _ => [[.int 1], [.int 2], [.null]]) true [[.int 1], [.int 2], [.null]] = .ok [] := rfl
-- `a NOT IN (SELECT a FROM u WHERE a = 2)` = NOT IN {2}: must keep {1}; the NULL row is UNKNOWN, not kept (both agree
-- here only because the code answers FALSE, un-negated, for a NULL operand — under a NOT the difference shows)
example (fo : FloatOps) :
    inFilterRows {} fo yOf (fun _ => [[.int 2]]) true [[.int 1], [.int 2], [.null]] = .ok [[.int 1]] := rfl
-- negation witnesses for `inSubquerySkipsNulls`: the model with the switch on differs from `Spec.inVals`
example (fo : FloatOps) :
    evalInSubquery { inSubquerySkipsNulls := true } fo (.int 1) [.int 2, .null] true = .ok (.bool true) ∧
    (do let r ← Spec.inVals fo (.int 1) [.int 2, .null]; Val.not3 r) = .ok .null ∧
    evalInSubquery {} fo (.int 1) [.int 2, .null] true = .ok .null := ⟨rfl, rfl, rfl⟩
-- … so `1 NOT IN (SELECT … {2, NULL})` keeps the row it must drop:
example (fo : FloatOps) :
    inFilterRows { inSubquerySkipsNulls := true } fo yOf (fun _ => [[.int 2], [.null]]) true [[.int 1]] = .ok [[.int 1]] ∧
    inFilterRows {} fo yOf (fun _ => [[.int 2], [.null]]) true [[.int 1]] = .ok [] := ⟨rfl, rfl⟩
-- a NULL left operand: FALSE instead of NULL (IN and NOT IN alike), and FALSE instead of TRUE for NOT IN over the empty set
example (fo : FloatOps) :
    evalInSubquery { inSubquerySkipsNulls := true } fo .null [.int 2] false = .ok (.bool false) ∧
    evalInSubquery {} fo .null [.int 2] false = .ok .null ∧
    evalInSubquery { inSubquerySkipsNulls := true } fo .null [.int 2] true = .ok (.bool false) ∧
    evalInSubquery {} fo .null [.int 2] true = .ok .null ∧
    evalInSubquery { inSubquerySkipsNulls := true } fo .null [] true = .ok (.bool false) ∧
    evalInSubquery {} fo .null [] true = .ok (.bool true) ∧
    (do let r ← Spec.inVals fo .null []; Val.not3 r) = .ok (.bool true) := ⟨rfl, rfl, rfl, rfl, rfl, rfl, rfl⟩
-- non-vacuity of C23_in_3vl: a match after a NULL, early exit; the typing hypothesis holds
example (fo : FloatOps) : evalInSubquery {} fo (.int 2) [.null, .int 2, .int 3] false = .ok (.bool true) ∧
    (∀ v ∈ [Val.null, .int 2, .int 3], comparable fo (.int 2) v = true) := ⟨rfl, by simp [comparable, Val.cmp3, Val.cmpNonNull, Except.map]⟩
-- the typing hypothesis is needed: the reference raises on an ill-typed LATER element, the loop has already left
example (fo : FloatOps) : evalInSubquery {} fo (.int 1) [.int 1, .bool true] false = .ok (.bool true) ∧
    Spec.inVals fo (.int 1) [.int 1, .bool true] = .error (.type "comparison of incompatible types") := ⟨rfl, rfl⟩
-- the type pairs today's loop refuses (date, bool, int against f64)
example (fo : FloatOps) : evalInSubquery { inSubqueryTypesLimited := true } fo (.date 3) [.date 3] false =
    .error (.unsupported "IN subquery not supported for types") ∧
    evalInSubquery {} fo (.date 3) [.date 3] false = .ok (.bool true) := ⟨rfl, rfl⟩

/-! ## EXISTS -/

/-- `[NOT] EXISTS` is `Spec.eval`'s clause: TRUE/FALSE by emptiness of the subquery result, never NULL. -/
theorem C23_exists (cx : EvalCtx) (env : Env) (sub : Nat) (neg : Bool) (t : Table)
    (hrun : cx.runSub sub env = .ok t) :
    Spec.eval cx env (.exists_ sub neg) = .ok (evalExists t neg) ∧
    evalExists t neg = .bool ((!t.isEmpty) != neg) ∧
    evalExists t neg ≠ .null := by
  refine ⟨?_, ?_, ?_⟩
  · rw [eval_exists, hrun, ok_bind]
    cases t <;> cases neg <;> rfl
  · cases t <;> cases neg <;> rfl
  · cases t <;> cases neg <;> simp [evalExists]

/-- … also when the subquery run fails: the failure is the answer (the intended row-by-row path; today's code answers
    "no rows", `corrErrorsSwallowed`). -/
theorem C23_exists_error (cx : EvalCtx) (env : Env) (sub : Nat) (neg : Bool) :
    Spec.eval cx env (.exists_ sub neg) = evalExistsCorr {} (cx.runSub sub env) neg := by
  rw [eval_exists]
  cases h : cx.runSub sub env with
  | error e => rfl
  | ok t => rw [ok_bind]; cases t <;> cases neg <;> rfl

/-- `execute_exists` over the collected batches: some batch has a row iff the concatenation is non-empty. -/
theorem C23_exists_batches (batches : List Table) : hasRows batches = !batches.flatten.isEmpty := by
  induction batches with
  | nil => rfl
  | cons b bs ih => cases b <;> simp_all [hasRows]

example : evalExists [] false = .bool false ∧ evalExists [] true = .bool true ∧
    evalExists [[.null]] false = .bool true ∧ evalExists [[.null]] true = .bool false := ⟨rfl, rfl, rfl, rfl⟩
-- `corrErrorsSwallowed`: a failing correlated subquery counts as "no rows"
example : evalExistsCorr { corrErrorsSwallowed := true } (.error (.bad "x")) true = .ok (.bool true) ∧
    evalExistsCorr {} (.error (.bad "x")) true = .error (.bad "x") := ⟨rfl, rfl⟩

/-! ## scalar subqueries -/

/-- 0 rows ⇒ NULL, 1 row ⇒ its value, more ⇒ a cardinality error; and this is `Spec.eval`'s clause. -/
theorem C23_scalar (cx : EvalCtx) (env : Env) (sub : Nat) :
    Spec.eval cx env (.scalarSub sub) = (cx.runSub sub env >>= evalScalar) ∧
    evalScalar [] = .ok .null ∧
    (∀ r : Row, evalScalar [r] = .ok (r.headD .null)) ∧
    (∀ (r₁ r₂ : Row) (rest : Table), ∃ msg, evalScalar (r₁ :: r₂ :: rest) = .error (.card msg)) :=
  ⟨eval_scalarSub cx env sub, rfl, fun _ => rfl, fun _ _ _ => ⟨_, rfl⟩⟩

/-- `precompute_uncorrelated_scalars` does not change the value: a literal when the run succeeds, otherwise the expression
    stays and fails at run time with the same error. -/
theorem C23_scalar_precompute (r : Except Err Table) : evalPre r (precomputeScalar r) = (r >>= evalScalar) := by
  unfold precomputeScalar
  cases h : r >>= evalScalar with
  | error e => simp [evalPre, h]
  | ok v => rfl

/-- the correlated row-by-row path and the SELECT-list path with the switches off: the plain scalar-subquery value -/
theorem C23_scalar_corr (r : Except Err Table) :
    evalScalarCorr {} r = (r >>= evalScalar) ∧ ∀ b, evalScalarSelect {} b r = (r >>= evalScalar) := by
  have h : evalScalarCorr {} r = (r >>= evalScalar) := by
    unfold evalScalarCorr
    cases r >>= evalScalar <;> rfl
  exact ⟨h, fun b => by simp [evalScalarSelect, h]⟩

example : evalScalar [] = .ok .null ∧ evalScalar [[.int 7, .int 8]] = .ok (.int 7) ∧
    evalScalar [[.int 7], [.int 7]] = .error (.card "scalar subquery returned more than one row") := ⟨rfl, rfl, rfl⟩
-- only `batches[0]` is inspected: an empty first batch hides the rest, a one-row first batch hides a second row
example : executeScalarBatches [[], [[.int 1]]] = .ok .null ∧ executeScalarBatches [[[.int 1]], [[.int 2]]] = .ok (.int 1) ∧
    evalScalar ([[], [[.int 1]]] : List Table).flatten = .ok (.int 1) := ⟨rfl, rfl, rfl⟩
-- negation witnesses: A.26 (`corrScalarInSelectNull`) and the swallowed cardinality error (`corrErrorsSwallowed`)
example : evalScalarSelect { corrScalarInSelectNull := true } false (.ok [[.int 10]]) = .ok .null ∧
    evalScalarSelect { corrScalarInSelectNull := true } true (.ok [[.int 10]]) = .ok (.int 10) ∧
    evalScalarSelect {} false (.ok [[.int 10]]) = .ok (.int 10) := ⟨rfl, rfl, rfl⟩
example : evalScalarCorr { corrErrorsSwallowed := true } (.ok [[.int 1], [.int 4]]) = .ok .null ∧
    evalScalarCorr {} (.ok [[.int 1], [.int 4]]) = .error (.card "scalar subquery returned more than one row") := ⟨rfl, rfl⟩

/-! ## decorrelation: EXISTS → Semi join, NOT EXISTS → Anti join -/

/-- `σ_{[NOT] EXISTS (sub[outer])} qR` and `qR ⋉_on qS` (`▷` for NOT EXISTS) are the same query — literally the same
    `Spec.run` result, the pure nested-loop semi / anti join over the correlation predicate `m`, which is also the model's
    rewrite `existsRewrite`.  `hsub`: the subquery is correlated by `m`; `hon`: the ON predicate means `m` on every pair. -/
theorem C23_decorrelate_exists (fo : FloatOps) (fns : String → List Val → Except Err Val) (cat : List Table)
    (ctes : List Table) (env : Env) (qR qS sub : Query) (on : Expr) (lw rw : Nat) (R S : Table)
    (m : Row → Row → Bool) (neg : Bool)
    (hR : Spec.run fo fns cat qR ctes env = .ok R)
    (hS : Spec.run fo fns cat qS ctes env = .ok S)
    (hsub : ∀ l ∈ R, Spec.run fo fns cat sub ctes (l :: env) = .ok (S.filter (m l)))
    (hon : ∀ l ∈ R, ∀ r ∈ S, onTrue (nodeCx fo fns cat [] ctes) env on (l ++ r) = .ok (m l r)) :
    Spec.run fo fns cat (existsFilter sub qR neg) ctes env = Spec.run fo fns cat (existsJoin lw rw on qR qS neg) ctes env ∧
    Spec.run fo fns cat (existsJoin lw rw on qR qS neg) ctes env =
      .ok (nlJoin (if neg then .anti else .semi) lw rw m R S) ∧
    nlJoin (if neg then .anti else .semi) lw rw m R S = existsRewrite m neg R S := by
  have hj : Spec.run fo fns cat (existsJoin lw rw on qR qS neg) ctes env =
      .ok (nlJoin (if neg then .anti else .semi) lw rw m R S) := by
    unfold existsJoin
    rw [run_join, hR, ok_bind, hS, ok_bind]
    exact joinRows_eq_nlJoin _ env _ lw rw on m R S hon
  refine ⟨?_, hj, ?_⟩
  · rw [hj]
    unfold existsFilter
    rw [run_filter_exists fo fns cat ctes env qR sub neg R (fun l => S.filter (m l)) hR hsub]
    congr 1
    cases neg
    · simp only [nlJoin, hasMatch]
      apply filter_congr; intro l _
      rw [filter_isEmpty_eq_not_any]; simp
    · simp only [nlJoin, hasMatch]
      apply filter_congr; intro l _
      rw [filter_isEmpty_eq_not_any]; simp
  · cases neg <;> simp [nlJoin, hasMatch, existsRewrite]

/-- The equality-correlated instance, purely syntactic: for every outer plan `qR` of arity `lw`, every inner plan `qS` that
    does not read the outer row, and columns `i < lw`, `j`:
    `σ_{[NOT] EXISTS (σ_{col j = outer.col i} qS)} qR  =  qR ⋉/▷_{col (lw + j) = col i} qS`. -/
theorem C23_decorrelate_exists_col (fo : FloatOps) (fns : String → List Val → Except Err Val) (cat : List Table)
    (ctes : List Table) (env : Env) (qR qS : Query) (i j lw rw : Nat) (R S : Table) (neg : Bool)
    (hR : Spec.run fo fns cat qR ctes env = .ok R)
    (hS : ∀ env', Spec.run fo fns cat qS ctes env' = .ok S)
    (hlw : ∀ l ∈ R, l.length = lw) (hi : i < lw) (hj : ∀ r ∈ S, j < r.length)
    (hty : ∀ l ∈ R, ∀ r ∈ S, comparable fo (r.getD j .null) (l.getD i .null) = true) :
    Spec.run fo fns cat (existsFilter (.filter [] (.bin .eq (.col j) (.outer 1 i)) qS) qR neg) ctes env =
      Spec.run fo fns cat (existsJoin lw rw (.bin .eq (.col (lw + j)) (.col i)) qR qS neg) ctes env := by
  refine (C23_decorrelate_exists fo fns cat ctes env qR qS _ _ lw rw R S
    (fun l r => eqTrue fo (r.getD j .null) (l.getD i .null)) neg hR (hS env) ?_ ?_).1
  · intro l hl
    have hil : i < l.length := by rw [hlw l hl]; exact hi
    exact run_corr_filter fo fns cat ctes env qS i j l S (hS _) hil hj (hty l hl)
  · intro l hl r hr
    have hll := hlw l hl
    have hil : i < l.length := by rw [hll]; exact hi
    have hjr := hj r hr
    apply onTrue_bin_eq _ fo env _ _ (l ++ r) _ _ rfl
    · rw [eval, getCol_zero _ _ _ (by rw [length_append]; omega), ← hll, getD_append_right']
    · rw [eval, getCol_zero _ _ _ (by rw [length_append]; omega), getD_append_left' l r i hil]
    · exact hty l hl r hr

-- non-vacuity on concrete queries: table 0 = R(a, v) , table 1 = S(b, w); `sub` = σ_{b = outer.a}(S) reads the outer row
-- through `.outer 1 0`; ON compares column 0 of the outer row with column 2 of the concatenated row.
example (fo : FloatOps) (fns : String → List Val → Except Err Val) :
    let cat : List Table := [[[.int 1, .int 10], [.int 2, .int 20], [.null, .int 30]], [[.int 2, .int 5], [.null, .int 6]]]
    let sub : Query := .filter [] (.bin .eq (.col 0) (.outer 1 0)) (.scan 1)
    Spec.run fo fns cat (existsFilter sub (.scan 0) false) [] [] = .ok [[.int 2, .int 20]] ∧
    Spec.run fo fns cat (existsJoin 2 2 (.bin .eq (.col 2) (.col 0)) (.scan 0) (.scan 1) false) [] [] = .ok [[.int 2, .int 20]] ∧
    Spec.run fo fns cat (existsFilter sub (.scan 0) true) [] [] = .ok [[.int 1, .int 10], [.null, .int 30]] ∧
    Spec.run fo fns cat (existsJoin 2 2 (.bin .eq (.col 2) (.col 0)) (.scan 0) (.scan 1) true) [] [] =
      .ok [[.int 1, .int 10], [.null, .int 30]] := ⟨rfl, rfl, rfl, rfl⟩

/-! ## decorrelation: IN → Semi join on x = y -/

/-- `σ_{x IN (sub)} qR` and `qR ⋉_{x = y ∧ corr} qS` are the same query **as filters**: a row whose `x` is NULL, or whose
    only "matches" are NULLs, has IN = UNKNOWN and is dropped by WHERE, and has no join partner either.
    `xv l` is the value of the left operand on the outer row `l` (`hx`), `y` the first column of the subquery;
    `hon`: the ON predicate means "`x = y` is TRUE and the correlation predicate holds" on every pair. -/
theorem C23_decorrelate_in (fo : FloatOps) (fns : String → List Val → Except Err Val) (cat : List Table)
    (ctes : List Table) (env : Env) (qR qS sub : Query) (x on : Expr) (lw rw : Nat) (R S : Table)
    (xv : Row → Val) (m : Row → Row → Bool)
    (hR : Spec.run fo fns cat qR ctes env = .ok R)
    (hS : Spec.run fo fns cat qS ctes env = .ok S)
    (hx : ∀ l ∈ R, Spec.eval (nodeCx fo fns cat [sub] ctes) (l :: env) x = .ok (xv l))
    (hsub : ∀ l ∈ R, Spec.run fo fns cat sub ctes (l :: env) = .ok (S.filter (m l)))
    (hty : ∀ l ∈ R, ∀ r ∈ S, comparable fo (xv l) (yOf r) = true)
    (hon : ∀ l ∈ R, ∀ r ∈ S, onTrue (nodeCx fo fns cat [] ctes) env on (l ++ r) = .ok (inMatch fo xv m l r)) :
    Spec.run fo fns cat (inFilter x sub qR false) ctes env = Spec.run fo fns cat (inJoin lw rw on qR qS false) ctes env ∧
    Spec.run fo fns cat (inJoin lw rw on qR qS false) ctes env = .ok (nlJoin .semi lw rw (inMatch fo xv m) R S) ∧
    nlJoin .semi lw rw (inMatch fo xv m) R S = inRewrite fo xv m R S := by
  have hj : Spec.run fo fns cat (inJoin lw rw on qR qS false) ctes env =
      .ok (nlJoin .semi lw rw (inMatch fo xv m) R S) := by
    unfold inJoin
    rw [run_join, hR, ok_bind, hS, ok_bind]
    exact joinRows_eq_nlJoin _ env _ lw rw on _ R S hon
  have hwt : ∀ l ∈ R, WellTyped fo (xv l) ((S.filter (m l)).map yOf) := by
    intro l hl v hv
    obtain ⟨r, hr, rfl⟩ := mem_map.mp hv
    exact hty l hl r (mem_filter.mp hr).1
  refine ⟨?_, hj, rfl⟩
  rw [hj]
  unfold inFilter
  rw [run_filter_in fo fns cat ctes env qR sub x false R (fun l => S.filter (m l)) xv hR hx hsub hwt]
  congr 1
  simp only [nlJoin, hasMatch]
  apply filter_congr; intro l _
  simp only [inKeep, Bool.false_eq_true, if_false, any_map_filter]
  rfl

/-- The uncorrelated instance with a column as left operand, purely syntactic: `σ_{col i IN (qS)} qR = qR ⋉_{col i = col lw} qS`
    for every outer plan whose rows have arity `lw` and every inner plan that does not read the outer row. -/
theorem C23_decorrelate_in_col (fo : FloatOps) (fns : String → List Val → Except Err Val) (cat : List Table)
    (ctes : List Table) (env : Env) (qR qS : Query) (i lw rw : Nat) (R S : Table)
    (hR : Spec.run fo fns cat qR ctes env = .ok R)
    (hS : ∀ env', Spec.run fo fns cat qS ctes env' = .ok S)
    (hlw : ∀ l ∈ R, l.length = lw) (hi : i < lw) (hS1 : ∀ r ∈ S, r ≠ [])
    (hty : ∀ l ∈ R, ∀ r ∈ S, comparable fo (l.getD i .null) (yOf r) = true) :
    Spec.run fo fns cat (inFilter (.col i) qS qR false) ctes env =
      Spec.run fo fns cat (inJoin lw rw (inOn lw i) qR qS false) ctes env := by
  have hm : ∀ l : Row, S.filter ((fun _ _ => true : Row → Row → Bool) l) = S := fun l => by simp
  refine (C23_decorrelate_in fo fns cat ctes env qR qS qS (.col i) (inOn lw i) lw rw R S
    (fun l => l.getD i .null) (fun _ _ => true) hR (hS env) ?_ ?_ hty ?_).1
  · intro l hl
    have hil : i < l.length := by rw [hlw l hl]; exact hi
    rw [eval]; simp [getCol, hil, List.getD]
  · intro l _; rw [hm l]; exact hS _
  · intro l hl r hr
    exact onTrue_inOn fo _ env lw i l r (hlw l hl) hi (hS1 r hr) rfl (hty l hl r hr)

example (fo : FloatOps) (fns : String → List Val → Except Err Val) :
    let cat : List Table := [[[.int 1], [.int 2], [.null]], [[.int 2], [.null]]]
    Spec.run fo fns cat (inFilter (.col 0) (.scan 1) (.scan 0) false) [] [] = .ok [[.int 2]] ∧
    Spec.run fo fns cat (inJoin 1 1 (inOn 1 0) (.scan 0) (.scan 1) false) [] [] = .ok [[.int 2]] := ⟨rfl, rfl⟩

/-! ## decorrelation: NOT IN against the Anti join — the exact side condition -/

/-- `σ_{x NOT IN (sub)} qR = qR ▷_{x = y ∧ corr} qS` **iff** no outer row without join partner is blocked by the NULL side
    condition — i.e. iff for every outer row `l` that no `y` of its (correlated) set equals: that set holds no NULL `y`,
    and `x` is non-NULL or the set is empty.  This is exactly what the rewrite would have to check; in general
    `σ_{NOT IN} = (▷).filter (not blocked)` (`C23_not_in_as_filtered_anti`). -/
theorem C23_not_in_anti (fo : FloatOps) (fns : String → List Val → Except Err Val) (cat : List Table)
    (ctes : List Table) (env : Env) (qR qS sub : Query) (x on : Expr) (lw rw : Nat) (R S : Table)
    (xv : Row → Val) (m : Row → Row → Bool)
    (hR : Spec.run fo fns cat qR ctes env = .ok R)
    (hS : Spec.run fo fns cat qS ctes env = .ok S)
    (hx : ∀ l ∈ R, Spec.eval (nodeCx fo fns cat [sub] ctes) (l :: env) x = .ok (xv l))
    (hsub : ∀ l ∈ R, Spec.run fo fns cat sub ctes (l :: env) = .ok (S.filter (m l)))
    (hty : ∀ l ∈ R, ∀ r ∈ S, comparable fo (xv l) (yOf r) = true)
    (hon : ∀ l ∈ R, ∀ r ∈ S, onTrue (nodeCx fo fns cat [] ctes) env on (l ++ r) = .ok (inMatch fo xv m l r)) :
    Spec.run fo fns cat (inFilter x sub qR true) ctes env = Spec.run fo fns cat (inJoin lw rw on qR qS true) ctes env ↔
      ∀ l ∈ R, hasMatch (inMatch fo xv m) S l = false →
        ((S.filter (m l)).any (fun r => (yOf r).isNull) = false ∧ ((xv l).isNull = false ∨ S.filter (m l) = [])) := by
  rw [run_not_in fo fns cat ctes env qR sub x R S xv m hR hx hsub hty,
    run_in_join_anti fo fns cat ctes env qR qS on lw rw R S _ hR hS hon,
    notInRewrite_eq_filter fo xv m lw rw R S]
  constructor
  · intro h l hl hm
    have h' := (filter_eq_self.mp (ok_inj h)) l (by
      simp only [nlJoin, mem_filter]; exact ⟨hl, by simp [hm]⟩)
    simp only [notInNullBlocked, Bool.not_eq_true', Bool.or_eq_false_iff, Bool.and_eq_false_iff] at h'
    refine ⟨h'.2, ?_⟩
    rcases h'.1 with h1 | h1
    · exact Or.inl h1
    · right; cases hf : S.filter (m l) with
      | nil => rfl
      | cons a as => rw [hf] at h1; simp at h1
  · intro h
    congr 1
    rw [filter_eq_self]
    intro l hl
    simp only [nlJoin, mem_filter, Bool.not_eq_true'] at hl
    obtain ⟨h1, h2⟩ := h l hl.1 hl.2
    simp only [notInNullBlocked, h1, Bool.or_false, Bool.not_eq_true', Bool.and_eq_false_iff]
    rcases h2 with h2 | h2
    · exact Or.inl h2
    · right; rw [h2]; rfl

/-- In general NOT IN is the anti join minus the blocked rows; the rule's plain anti join is the model with
    `notInPlainAnti` on, the intended rewrite the model with the switch off. -/
theorem C23_not_in_as_filtered_anti (fo : FloatOps) (fns : String → List Val → Except Err Val) (cat : List Table)
    (ctes : List Table) (env : Env) (qR qS sub : Query) (x on : Expr) (lw rw : Nat) (R S : Table)
    (xv : Row → Val) (m : Row → Row → Bool)
    (hR : Spec.run fo fns cat qR ctes env = .ok R)
    (hS : Spec.run fo fns cat qS ctes env = .ok S)
    (hx : ∀ l ∈ R, Spec.eval (nodeCx fo fns cat [sub] ctes) (l :: env) x = .ok (xv l))
    (hsub : ∀ l ∈ R, Spec.run fo fns cat sub ctes (l :: env) = .ok (S.filter (m l)))
    (hty : ∀ l ∈ R, ∀ r ∈ S, comparable fo (xv l) (yOf r) = true)
    (hon : ∀ l ∈ R, ∀ r ∈ S, onTrue (nodeCx fo fns cat [] ctes) env on (l ++ r) = .ok (inMatch fo xv m l r)) :
    Spec.run fo fns cat (inFilter x sub qR true) ctes env = .ok (notInRewrite {} fo xv m R S) ∧
    Spec.run fo fns cat (inJoin lw rw on qR qS true) ctes env = .ok (notInRewrite { notInPlainAnti := true } fo xv m R S) ∧
    notInRewrite { notInPlainAnti := true } fo xv m R S = nlJoin .anti lw rw (inMatch fo xv m) R S ∧
    notInRewrite {} fo xv m R S =
      (nlJoin .anti lw rw (inMatch fo xv m) R S).filter (fun l => !notInNullBlocked xv m S l) := by
  refine ⟨run_not_in fo fns cat ctes env qR sub x R S xv m hR hx hsub hty, ?_, notInRewrite_plain fo xv m lw rw R S,
    notInRewrite_eq_filter fo xv m lw rw R S⟩
  rw [run_in_join_anti fo fns cat ctes env qR qS on lw rw R S _ hR hS hon, notInRewrite_plain fo xv m lw rw R S]

/-- (a) The static side condition suffices: the subquery yields no NULL `y`, and every outer `x` is non-NULL (or its set
    is empty) ⇒ NOT IN and the anti join agree. -/
theorem C23_not_in_anti_sufficient (fo : FloatOps) (fns : String → List Val → Except Err Val) (cat : List Table)
    (ctes : List Table) (env : Env) (qR qS sub : Query) (x on : Expr) (lw rw : Nat) (R S : Table)
    (xv : Row → Val) (m : Row → Row → Bool)
    (hR : Spec.run fo fns cat qR ctes env = .ok R)
    (hS : Spec.run fo fns cat qS ctes env = .ok S)
    (hx : ∀ l ∈ R, Spec.eval (nodeCx fo fns cat [sub] ctes) (l :: env) x = .ok (xv l))
    (hsub : ∀ l ∈ R, Spec.run fo fns cat sub ctes (l :: env) = .ok (S.filter (m l)))
    (hty : ∀ l ∈ R, ∀ r ∈ S, comparable fo (xv l) (yOf r) = true)
    (hon : ∀ l ∈ R, ∀ r ∈ S, onTrue (nodeCx fo fns cat [] ctes) env on (l ++ r) = .ok (inMatch fo xv m l r))
    (hy : ∀ r ∈ S, (yOf r).isNull = false)
    (hxn : ∀ l ∈ R, (xv l).isNull = false ∨ S.filter (m l) = []) :
    Spec.run fo fns cat (inFilter x sub qR true) ctes env = Spec.run fo fns cat (inJoin lw rw on qR qS true) ctes env := by
  rw [C23_not_in_anti fo fns cat ctes env qR qS sub x on lw rw R S xv m hR hS hx hsub hty hon]
  intro l hl _
  refine ⟨?_, hxn l hl⟩
  rw [any_eq_false]
  intro r hr
  simp [hy r (mem_filter.mp hr).1]

/-- (b₁) The side condition is necessary, NULL in the set: if the set of an outer row holds a NULL `y` the row is dropped
    by NOT IN, whereas the anti join keeps it unless some `y` equals its `x`.  For an uncorrelated subquery with a NULL
    `y` therefore `σ_{NOT IN} qR = ∅` while `▷` returns every outer row without a partner. -/
theorem C23_not_in_null_in_set (fo : FloatOps) (fns : String → List Val → Except Err Val) (cat : List Table)
    (ctes : List Table) (env : Env) (qR qS sub : Query) (x on : Expr) (lw rw : Nat) (R S : Table)
    (xv : Row → Val)
    (hR : Spec.run fo fns cat qR ctes env = .ok R)
    (hS : Spec.run fo fns cat qS ctes env = .ok S)
    (hx : ∀ l ∈ R, Spec.eval (nodeCx fo fns cat [sub] ctes) (l :: env) x = .ok (xv l))
    (hsub : ∀ l ∈ R, Spec.run fo fns cat sub ctes (l :: env) = .ok S)
    (hty : ∀ l ∈ R, ∀ r ∈ S, comparable fo (xv l) (yOf r) = true)
    (hon : ∀ l ∈ R, ∀ r ∈ S, onTrue (nodeCx fo fns cat [] ctes) env on (l ++ r) = .ok (inMatch fo xv (fun _ _ => true) l r))
    (r₀ : Row) (hr₀ : r₀ ∈ S) (hnull : (yOf r₀).isNull = true) :
    Spec.run fo fns cat (inFilter x sub qR true) ctes env = .ok [] ∧
    Spec.run fo fns cat (inJoin lw rw on qR qS true) ctes env =
      .ok (R.filter fun l => !S.any (fun r => eqTrue fo (xv l) (yOf r))) := by
  have hsub' : ∀ l ∈ R, Spec.run fo fns cat sub ctes (l :: env) = .ok (S.filter ((fun _ _ => true : Row → Row → Bool) l)) := by
    intro l hl; rw [hsub l hl, filter_const_true]
  constructor
  · rw [run_not_in fo fns cat ctes env qR sub x R S xv _ hR hx hsub' hty]
    congr 1
    simp only [notInRewrite, filter_eq_nil_iff]
    intro l _
    have : notInNullBlocked xv (fun _ _ => true) S l = true := by
      simp only [notInNullBlocked, filter_const_true, Bool.or_eq_true, any_eq_true]
      exact Or.inr ⟨r₀, hr₀, hnull⟩
    simp [this]
  · rw [run_in_join_anti fo fns cat ctes env qR qS on lw rw R S _ hR hS hon]
    congr 1
    simp only [nlJoin, hasMatch]
    apply filter_congr; intro l _
    congr 2
    funext r
    simp [inMatch]

/-- (b₂) The side condition is necessary, NULL operand: an outer row with NULL `x` and a non-empty set is dropped by
    NOT IN and kept by the anti join. -/
theorem C23_not_in_null_operand (fo : FloatOps) (fns : String → List Val → Except Err Val) (cat : List Table)
    (ctes : List Table) (env : Env) (qR qS sub : Query) (x on : Expr) (lw rw : Nat) (R S : Table)
    (xv : Row → Val) (m : Row → Row → Bool)
    (hR : Spec.run fo fns cat qR ctes env = .ok R)
    (hS : Spec.run fo fns cat qS ctes env = .ok S)
    (hx : ∀ l ∈ R, Spec.eval (nodeCx fo fns cat [sub] ctes) (l :: env) x = .ok (xv l))
    (hsub : ∀ l ∈ R, Spec.run fo fns cat sub ctes (l :: env) = .ok (S.filter (m l)))
    (hty : ∀ l ∈ R, ∀ r ∈ S, comparable fo (xv l) (yOf r) = true)
    (hon : ∀ l ∈ R, ∀ r ∈ S, onTrue (nodeCx fo fns cat [] ctes) env on (l ++ r) = .ok (inMatch fo xv m l r))
    (l₀ : Row) (hl₀ : l₀ ∈ R) (hnull : (xv l₀).isNull = true) (hne : S.filter (m l₀) ≠ []) :
    ∃ out₁ out₂, Spec.run fo fns cat (inFilter x sub qR true) ctes env = .ok out₁ ∧
      Spec.run fo fns cat (inJoin lw rw on qR qS true) ctes env = .ok out₂ ∧ l₀ ∉ out₁ ∧ l₀ ∈ out₂ := by
  refine ⟨_, _, run_not_in fo fns cat ctes env qR sub x R S xv m hR hx hsub hty,
    run_in_join_anti fo fns cat ctes env qR qS on lw rw R S _ hR hS hon, ?_, ?_⟩
  · simp only [notInRewrite, mem_filter, not_and]
    intro _
    have : notInNullBlocked xv m S l₀ = true := by
      simp only [notInNullBlocked, hnull, Bool.true_and, Bool.or_eq_true, Bool.not_eq_true']
      left
      cases hf : S.filter (m l₀) with
      | nil => exact absurd hf hne
      | cons a as => rfl
    simp [this]
  · simp only [nlJoin, mem_filter, hasMatch]
    refine ⟨hl₀, ?_⟩
    have : S.any (inMatch fo xv m l₀) = false := by
      rw [any_eq_false]; intro r _
      simp [inMatch, eqTrue_null_left fo (xv l₀) (yOf r) hnull]
    simp [this]

-- A.14 through `Spec.run`: t = u = {1, 2, NULL} (tables 0 and 1); u' = {2} (table 2).
--   `a NOT IN (SELECT a FROM u)` = ∅, the plain anti join keeps the NULL row;
--   `a NOT IN (SELECT a FROM u')` = {1}, the plain anti join keeps {1, NULL}.
example (fo : FloatOps) (fns : String → List Val → Except Err Val) :
    let cat : List Table := [[[.int 1], [.int 2], [.null]], [[.int 1], [.int 2], [.null]], [[.int 2]]]
    Spec.run fo fns cat (inFilter (.col 0) (.scan 1) (.scan 0) true) [] [] = .ok [] ∧
    Spec.run fo fns cat (inJoin 1 1 (inOn 1 0) (.scan 0) (.scan 1) true) [] [] = .ok [[.null]] ∧
    Spec.run fo fns cat (inFilter (.col 0) (.scan 2) (.scan 0) true) [] [] = .ok [[.int 1]] ∧
    Spec.run fo fns cat (inJoin 1 1 (inOn 1 0) (.scan 0) (.scan 2) true) [] [] = .ok [[.int 1], [.null]] := ⟨rfl, rfl, rfl, rfl⟩
-- negation witnesses for `notInPlainAnti` on the model (same data): the rule's rewrite ≠ the intended one = the reference
example (fo : FloatOps) :
    let t : Table := [[.int 1], [.int 2], [.null]]
    notInRewrite { notInPlainAnti := true } fo yOf (fun _ _ => true) t t = [[.null]] ∧
    notInRewrite {} fo yOf (fun _ _ => true) t t = [] ∧
    notInRewrite { notInPlainAnti := true } fo yOf (fun _ _ => true) t [[.int 2]] = [[.int 1], [.null]] ∧
    notInRewrite {} fo yOf (fun _ _ => true) t [[.int 2]] = [[.int 1]] ∧
    -- `… WHERE a = 2 OR a IS NULL)`: NULL in the set blocks everything
    notInRewrite { notInPlainAnti := true } fo yOf (fun _ _ => true) t [[.int 2], [.null]] = [[.int 1], [.null]] ∧
    notInRewrite {} fo yOf (fun _ _ => true) t [[.int 2], [.null]] = [] := ⟨rfl, rfl, rfl, rfl, rfl, rfl⟩

/-! ## decorrelation: scalar aggregate subquery → Left join with the grouped aggregate -/

/-- A correlated scalar aggregate subquery `(SELECT f(e) FROM S WHERE S.key = R.okey)` evaluated row by row equals the
    rewrite `R ⟕_{okey = key} (SELECT key, f(e) FROM S GROUP BY key)` **provided the NULL-extended column of an outer row
    without partner is replaced by the aggregate of the empty input** — 0 for COUNT / COUNT(*), NULL for SUM / MIN / MAX / AVG
    (`emptyAgg`, see `C23_scalar_leftjoin_empty`).  The model with `scalarCountBug` off does that; the rule as written does
    not (the classic count bug, `C23_scalar_leftjoin_count_bug`).
    `hk`: on the key column SQL equality is identity of non-NULL values (holds for keys of one type among bool / int / str /
    date: `keyEq_of_int`); `hok`: the aggregate raises on no group of `S` (no overflow / type error) — a group without outer
    partner is computed by the rewrite but never by the row-by-row evaluation.  All of `AggFn`, DISTINCT or not. -/
theorem C23_scalar_leftjoin (fo : FloatOps) (f : AggFn) (distinct : Bool) (okey key ev : Row → Val) (R S : Table)
    (hk : ∀ l ∈ R, ∀ r ∈ S, eqTrue fo (okey l) (key r) = (decide (key r = okey l) && !(okey l).isNull))
    (hok : ∀ k ∈ S.map key, ∃ v, aggOf fo f distinct ev (S.filter fun r => key r = k) = .ok v) :
    scalarLeftJoin {} fo f distinct okey key ev R S =
      scalarRowByRow fo f distinct (fun l r => eqTrue fo (okey l) (key r)) ev R S := by
  have hrow : ∀ l ∈ R, ∃ v, aggOf fo f distinct ev (S.filter fun r => eqTrue fo (okey l) (key r)) = .ok v := by
    intro l hl
    by_cases hn : (okey l).isNull = true
    · have : (S.filter fun r => eqTrue fo (okey l) (key r)) = [] := by
        rw [filter_eq_nil_iff]; intro r _; simp [eqTrue_null_left fo (okey l) (key r) hn]
      rw [this]; exact ⟨_, aggOf_nil fo f distinct ev⟩
    · have hn' : (okey l).isNull = false := by simpa using hn
      have hfil : (S.filter fun r => eqTrue fo (okey l) (key r)) = S.filter fun r => key r = okey l := by
        apply filter_congr; intro r hr
        rw [hk l hl r hr, hn']; simp
      rw [hfil]
      by_cases hmem : okey l ∈ S.map key
      · exact hok _ hmem
      · have : (S.filter fun r => key r = okey l) = [] := by
          rw [filter_eq_nil_iff]; intro r hr h
          simp only [decide_eq_true_eq] at h
          exact hmem (mem_map.mpr ⟨r, hr, h⟩)
        rw [this]; exact ⟨_, aggOf_nil fo f distinct ev⟩
  unfold scalarLeftJoin scalarRowByRow
  rw [groupedAgg_ok fo f distinct key ev S hok]
  rw [mapM_ok _ (fun l => (l, aggD fo f distinct ev (S.filter fun r => eqTrue fo (okey l) (key r)))) R
    (fun l hl => by rw [aggOf_eq_aggD (hrow l hl)])]
  show Except.ok (R.map _) = _
  congr 1
  apply map_congr_left
  intro l hl
  exact leftjoin_row fo f distinct okey key ev R S hk l hl

/-- Instance without hypotheses on the aggregate: COUNT(*) and COUNT(e) never raise; int (or NULL) keys. -/
theorem C23_scalar_leftjoin_count (fo : FloatOps) (f : AggFn) (hf : f = .count ∨ f = .countStar) (distinct : Bool)
    (okey key ev : Row → Val) (R S : Table)
    (hR : ∀ l ∈ R, okey l = .null ∨ ∃ i, okey l = .int i) (hS : ∀ r ∈ S, key r = .null ∨ ∃ i, key r = .int i) :
    scalarLeftJoin {} fo f distinct okey key ev R S =
      scalarRowByRow fo f distinct (fun l r => eqTrue fo (okey l) (key r)) ev R S := by
  apply C23_scalar_leftjoin fo f distinct okey key ev R S (keyEq_of_int fo okey key R S hR hS)
  intro k _
  rcases hf with rfl | rfl <;> exact ⟨_, rfl⟩

/-- What the Left join's NULL extension must be replaced by: the aggregate over no rows (`Spec.aggVal … 0 []`). -/
theorem C23_scalar_leftjoin_empty (fo : FloatOps) (distinct : Bool) :
    (∀ f, Spec.aggVal fo f distinct 0 [] = .ok (emptyAgg fo f distinct)) ∧
    emptyAgg fo .count distinct = .int 0 ∧ emptyAgg fo .countStar distinct = .int 0 ∧
    emptyAgg fo .sum distinct = .null ∧ emptyAgg fo .min distinct = .null ∧
    emptyAgg fo .max distinct = .null ∧ emptyAgg fo .avg distinct = .null := by
  refine ⟨fun f => ?_, ?_, ?_, ?_, ?_, ?_, ?_⟩ <;> cases distinct <;> first | rfl | (cases f <;> rfl)

/-- The count bug, for all inputs: with `scalarCountBug` on, an outer row whose key has no partner in `S` gets NULL;
    with the switch off it gets `emptyAgg` (0 for COUNT), which is what the row-by-row evaluation returns. -/
theorem C23_scalar_leftjoin_count_bug (dev : Dev) (fo : FloatOps) (f : AggFn) (distinct : Bool)
    (okey key ev : Row → Val) (R S : Table) (g : List (Val × Val))
    (hg : groupedAgg fo f distinct key ev S = .ok g)
    (l : Row) (hl : l ∈ R) (hno : ∀ p ∈ g, eqTrue fo (okey l) p.1 = false) :
    ∃ out, scalarLeftJoin dev fo f distinct okey key ev R S = .ok out ∧
      (l, if dev.scalarCountBug then Val.null else emptyAgg fo f distinct) ∈ out := by
  unfold scalarLeftJoin
  rw [hg]
  refine ⟨_, rfl, ?_⟩
  apply mem_map.mpr
  refine ⟨l, hl, ?_⟩
  have : g.find? (fun p => eqTrue fo (okey l) p.1) = none := by
    rw [find?_eq_none]; intro p hp; simp [hno p hp]
  rw [this]

/-- The row-by-row side IS the reference: with the subquery `SELECT f(arg) FROM q'` (global aggregate) as subquery 0 of a
    node, `Spec.eval (.scalarSub 0)` on the outer row `l` is `aggOf` over the rows `q'` returns for `l`. -/
theorem C23_scalar_agg_rowbyrow (fo : FloatOps) (fns : String → List Val → Except Err Val) (cat : List Table)
    (ctes : List Table) (env : Env) (q' : Query) (f : AggFn) (arg : Expr) (distinct : Bool)
    (l : Row) (rows : Table) (ev : Row → Val) (rest : List Query)
    (hq : Spec.run fo fns cat q' ctes (l :: env) = .ok rows)
    (harg : ∀ r ∈ rows, Spec.eval (aggCx fo fns) (r :: l :: env) arg = .ok (ev r)) :
    Spec.eval (nodeCx fo fns cat (.agg [] [⟨f, arg, distinct⟩] q' :: rest) ctes) (l :: env) (.scalarSub 0) =
      aggOf fo f distinct ev rows := by
  rw [eval_scalarSub, nodeCx_runSub_zero, run_agg_global fo fns cat ctes (l :: env) q' f arg distinct rows ev hq harg]
  cases aggOf fo f distinct ev rows <;> rfl

-- R(k) = {1, 2, NULL}, S(k, e) = {(1, 10), (1, NULL), (3, 30)}; COUNT(e), COUNT(*), MAX(e) per outer row
example (fo : FloatOps) :
    let R : Table := [[.int 1], [.int 2], [.null]]
    let S : Table := [[.int 1, .int 10], [.int 1, .null], [.int 3, .int 30]]
    let ev : Row → Val := fun r => r.getD 1 .null
    scalarLeftJoin {} fo .count false yOf yOf ev R S = .ok [([.int 1], .int 1), ([.int 2], .int 0), ([.null], .int 0)] ∧
    scalarRowByRow fo .count false (fun l r => eqTrue fo (yOf l) (yOf r)) ev R S =
      .ok [([.int 1], .int 1), ([.int 2], .int 0), ([.null], .int 0)] ∧
    -- the count bug (negation witness for `scalarCountBug`): NULL instead of 0, so `WHERE 0 = (SELECT COUNT(*) …)` loses the row
    scalarLeftJoin { scalarCountBug := true } fo .count false yOf yOf ev R S =
      .ok [([.int 1], .int 1), ([.int 2], .null), ([.null], .null)] ∧
    scalarLeftJoin {} fo .countStar false yOf yOf ev R S = .ok [([.int 1], .int 2), ([.int 2], .int 0), ([.null], .int 0)] ∧
    scalarLeftJoin {} fo .max false yOf yOf ev R S = .ok [([.int 1], .int 10), ([.int 2], .null), ([.null], .null)] ∧
    scalarRowByRow fo .max false (fun l r => eqTrue fo (yOf l) (yOf r)) ev R S =
      .ok [([.int 1], .int 10), ([.int 2], .null), ([.null], .null)] := ⟨rfl, rfl, rfl, rfl, rfl, rfl⟩
-- the same through `Spec.run`: `SELECT k, (SELECT COUNT(e) FROM S WHERE S.k = R.k) FROM R`
example (fo : FloatOps) (fns : String → List Val → Except Err Val) :
    let cat : List Table := [[[.int 1], [.int 2], [.null]], [[.int 1, .int 10], [.int 1, .null], [.int 3, .int 30]]]
    let sub : Query := .agg [] [⟨.count, .col 1, false⟩] (.filter [] (.bin .eq (.col 0) (.outer 1 0)) (.scan 1))
    Spec.run fo fns cat (.project [sub] [.col 0, .scalarSub 0] (.scan 0)) [] [] =
      .ok [[.int 1, .int 1], [.int 2, .int 0], [.null, .int 0]] := rfl

/-- `scalarLeftJoin` IS the Left join `R ⟕_{okey = key} G` with the grouped aggregate `G = {[key, f(e)] per group}` (the pure
    nested-loop `nlJoin .left`, i.e. `Spec.joinRows .left` by `joinRows_eq_nlJoin`): the rule as written (`scalarCountBug`) reads
    the aggregate column of the joined row, NULL-extended for an outer row without partner; the correct rewrite reads
    `CASE WHEN <group key column> IS NULL THEN f(∅) ELSE <aggregate column> END` (a matched group key is never NULL). -/
theorem C23_scalar_leftjoin_is_left_join (fo : FloatOps) (f : AggFn) (distinct : Bool) (okey key ev : Row → Val)
    (R S : Table) (lw : Nat)
    (hlw : ∀ l ∈ R, l.length = lw)
    (hk : ∀ l ∈ R, ∀ r ∈ S, eqTrue fo (okey l) (key r) = (decide (key r = okey l) && !(okey l).isNull))
    (hok : ∀ k ∈ S.map key, ∃ v, aggOf fo f distinct ev (S.filter fun r => key r = k) = .ok v) :
    ∃ g, groupedAgg fo f distinct key ev S = .ok g ∧
      let J := nlJoin .left lw 2 (fun l r => eqTrue fo (okey l) (yOf r)) R (g.map fun p => [p.1, p.2])
      scalarLeftJoin { scalarCountBug := true } fo f distinct okey key ev R S =
        .ok (J.map fun row => (row.take lw, row.getD (lw + 1) .null)) ∧
      scalarLeftJoin {} fo f distinct okey key ev R S =
        .ok (J.map fun row => (row.take lw,
          if (row.getD lw .null).isNull then emptyAgg fo f distinct else row.getD (lw + 1) .null)) := by
  refine ⟨_, groupedAgg_ok fo f distinct key ev S hok, ?_⟩
  have hnd : (dedupKeys (S.map key)).Nodup := by rw [dedupKeys_eq]; exact nodup_dedup _
  have hmatch : ∀ l ∈ R, ∀ k ∈ dedupKeys (S.map key), eqTrue fo (okey l) k = true → k = okey l := by
    intro l hl k hk' he
    rw [dedupKeys_eq, mem_dedup] at hk'
    obtain ⟨r, hr, rfl⟩ := mem_map.mp hk'
    rw [hk l hl r hr] at he
    simp only [Bool.and_eq_true, decide_eq_true_eq] at he
    exact he.1
  have hG : ((dedupKeys (S.map key)).map fun k => (k, aggD fo f distinct ev (S.filter fun r => key r = k))).map
      (fun p => [p.1, p.2]) =
      (dedupKeys (S.map key)).map fun k => [k, aggD fo f distinct ev (S.filter fun r => key r = k)] := by
    rw [map_map]; rfl
  show _ ∧ _
  rw [hG]
  constructor
  · unfold scalarLeftJoin
    rw [groupedAgg_ok fo f distinct key ev S hok]
    show Except.ok (R.map _) = _
    congr 1
    exact leftjoin_lookup_rows_null fo okey R _ _ lw hlw hnd hmatch
  · unfold scalarLeftJoin
    rw [groupedAgg_ok fo f distinct key ev S hok]
    show Except.ok (R.map _) = _
    congr 1
    exact leftjoin_lookup_rows fo okey R _ _ lw (emptyAgg fo f distinct) hlw hnd hmatch

/-- The whole chain through `Spec.run`: the rewritten plan `qR ⟕_{col i = key} (SELECT kx, f(arg) FROM qS GROUP BY kx)` runs to a
    table `J` whose rows are `l ++ [group key, aggregate]` (NULL-extended without partner); the row-by-row value of the
    correlated scalar subquery `(SELECT f(arg) FROM qS WHERE kx = outer.col i)` — `scalarRowByRow`, which is `Spec.eval
    (.scalarSub _)` by `C23_scalar_agg_rowbyrow` — is `CASE WHEN J.key IS NULL THEN f(∅) ELSE J.agg END`, while the rule as
    written reads `J.agg`. -/
theorem C23_scalar_leftjoin_run (fo : FloatOps) (fns : String → List Val → Except Err Val) (cat : List Table)
    (ctes : List Table) (env : Env) (qR qS : Query) (kx arg : Expr) (f : AggFn) (distinct : Bool) (lw i : Nat)
    (R S : Table) (key ev : Row → Val)
    (hR : Spec.run fo fns cat qR ctes env = .ok R)
    (hS : Spec.run fo fns cat qS ctes env = .ok S)
    (hlw : ∀ l ∈ R, l.length = lw) (hi : i < lw)
    (hkey : ∀ r ∈ S, Spec.eval (aggCx fo fns) (r :: env) kx = .ok (key r))
    (harg : ∀ r ∈ S, Spec.eval (aggCx fo fns) (r :: env) arg = .ok (ev r))
    (hty : ∀ l ∈ R, ∀ r ∈ S, comparable fo (l.getD i .null) (key r) = true)
    (hk : ∀ l ∈ R, ∀ r ∈ S, eqTrue fo (l.getD i .null) (key r) =
      (decide (key r = l.getD i .null) && !(l.getD i .null).isNull))
    (hok : ∀ k ∈ S.map key, ∃ v, aggOf fo f distinct ev (S.filter fun r => key r = k) = .ok v) :
    ∃ J, Spec.run fo fns cat (.join .left lw 2 [] (inOn lw i) qR (.agg [kx] [⟨f, arg, distinct⟩] qS)) ctes env = .ok J ∧
      scalarLeftJoin { scalarCountBug := true } fo f distinct (fun l => l.getD i .null) key ev R S =
        .ok (J.map fun row => (row.take lw, row.getD (lw + 1) .null)) ∧
      scalarRowByRow fo f distinct (fun l r => eqTrue fo (l.getD i .null) (key r)) ev R S =
        .ok (J.map fun row => (row.take lw,
          if (row.getD lw .null).isNull then emptyAgg fo f distinct else row.getD (lw + 1) .null)) := by
  obtain ⟨g, hg, h1, h2⟩ := C23_scalar_leftjoin_is_left_join fo f distinct (fun l => l.getD i .null) key ev R S lw hlw hk hok
  have hg' := groupedAgg_ok fo f distinct key ev S hok
  have hge : g = (dedupKeys (S.map key)).map fun k => (k, aggD fo f distinct ev (S.filter fun r => key r = k)) := by
    rw [hg'] at hg; exact (ok_inj hg).symm
  have hG := run_agg_grouped fo fns cat ctes env qS kx f arg distinct S key ev hS hkey harg hok
  rw [← hge] at hG
  refine ⟨_, run_left_join fo fns cat ctes env qR _ lw 2 i R _ hR hG hlw hi ?_ ?_, h1, ?_⟩
  · intro r hr
    obtain ⟨p, _, rfl⟩ := mem_map.mp hr
    simp
  · intro l hl r hr
    obtain ⟨p, hp, rfl⟩ := mem_map.mp hr
    rw [hge] at hp
    obtain ⟨k, hk', rfl⟩ := mem_map.mp hp
    rw [dedupKeys_eq, mem_dedup] at hk'
    obtain ⟨r', hr', rfl⟩ := mem_map.mp hk'
    exact hty l hl r' hr'
  · rw [← C23_scalar_leftjoin fo f distinct (fun l => l.getD i .null) key ev R S hk hok]
    exact h2

-- the rewritten plan through `Spec.run`, same data as above: J = R ⟕ {[1, COUNT = 1], [3, COUNT = 1]}
example (fo : FloatOps) (fns : String → List Val → Except Err Val) :
    let cat : List Table := [[[.int 1], [.int 2], [.null]], [[.int 1, .int 10], [.int 1, .null], [.int 3, .int 30]]]
    Spec.run fo fns cat (.join .left 1 2 [] (inOn 1 0) (.scan 0) (.agg [.col 0] [⟨.count, .col 1, false⟩] (.scan 1))) [] [] =
      .ok [[.int 1, .int 1, .int 1], [.int 2, .null, .null], [.null, .null, .null]] := rfl


/-- With the operator flip in place the Semi/Anti join that `decorrelate_exists` builds from the correlation predicates
    `outer.cᵢ opᵢ inner.dᵢ` (equalities as keys, the others as join filter `inner.dᵢ flip(opᵢ) outer.cᵢ`) tests exactly the
    subquery's predicates — so by `C23_decorrelate_exists` it is the EXISTS filter.  `hsw`: comparing the two columns the
    other way round swaps the ordering (every pair of one type; `swappable_int` for NULL / int columns). -/
theorem C23_decorrelate_exists_preds (fo : FloatOps) (ps : List CorrPred) (neg : Bool) (R S : Table)
    (hsw : ∀ l ∈ R, ∀ r ∈ S, ∀ p ∈ ps,
      Val.cmp3 fo (r.getD p.innerCol .null) (l.getD p.outerCol .null) =
        (Val.cmp3 fo (l.getD p.outerCol .null) (r.getD p.innerCol .null)).map (Option.map Ordering.swap)) :
    existsRewrite (existsMatch {} fo ps) neg R S = existsRewrite (fun l r => ps.all fun p => p.holds fo l r) neg R S := by
  unfold existsRewrite
  apply filter_congr
  intro l hl
  have : S.any (existsMatch {} fo ps l) = S.any (fun r => ps.all fun p => p.holds fo l r) := by
    apply any_congr_mem
    intro r hr
    exact existsMatch_eq fo ps l r (fun p hp => hsw l hl r hr p hp)
  rw [this]

/-- … and the intended IN / scalar rewrite keeps every correlation predicate (today's rule loses the non-equalities). -/
theorem C23_decorrelate_in_preds (fo : FloatOps) (outCols : List Nat) (ps : List CorrPred) (l r : Row) :
    inCorrMatch {} fo outCols ps l r = ps.all fun p => p.holds fo l r := by
  have : ps.filter (inCorrKept {} outCols) = ps := by
    rw [filter_eq_self]; intro p _; rfl
  rw [inCorrMatch, this]

-- A.20 on the model: R(k, v) = {(1, 5)}, S(j, w) = {(1, 7)}; `EXISTS (SELECT 1 FROM S WHERE j = k AND w > v)`, recorded as
-- `k = j` and `v < w`.  7 > 5: the row qualifies; with `nonEqFilterFlipped` the join filter tests `w < v` and drops it.
example (fo : FloatOps) :
    let ps : List CorrPred := [⟨0, 0, .eq⟩, ⟨1, 1, .lt⟩]
    existsRewrite (existsMatch {} fo ps) false [[.int 1, .int 5]] [[.int 1, .int 7]] = [[.int 1, .int 5]] ∧
    existsRewrite (existsMatch { nonEqFilterFlipped := true } fo ps) false [[.int 1, .int 5]] [[.int 1, .int 7]] = [] ∧
    existsRewrite (existsMatch { nonEqFilterFlipped := true } fo ps) true [[.int 1, .int 5]] [[.int 1, .int 7]] = [[.int 1, .int 5]] ∧
    -- `k IN (SELECT j FROM S WHERE w < v)`: 7 < 5 is false, no row qualifies; with `inDropsNonEqCorr` the predicate is lost
    inRewrite fo yOf (inCorrMatch {} fo [0] [⟨1, 1, .gt⟩]) [[.int 1, .int 5]] [[.int 1, .int 7]] = [] ∧
    inRewrite fo yOf (inCorrMatch { inDropsNonEqCorr := true } fo [0] [⟨1, 1, .gt⟩]) [[.int 1, .int 5]] [[.int 1, .int 7]] =
      [[.int 1, .int 5]] := ⟨rfl, rfl, rfl, rfl, rfl⟩
-- `v IN (SELECT w FROM S WHERE S.j = R.k)` with R(k, v) = {(1, 7)}, S(w, j) = {(7, 2)}: the only 7 belongs to j = 2 ≠ k, no row
-- qualifies; the subquery outputs only column 0 (w), so with `inDropsProjectedCorr` the predicate on j is lost and the row is kept
example (fo : FloatOps) :
    inRewrite fo (fun l => l.getD 1 .null) (inCorrMatch {} fo [0] [⟨0, 1, .eq⟩]) [[.int 1, .int 7]] [[.int 7, .int 2]] = [] ∧
    inRewrite fo (fun l => l.getD 1 .null) (inCorrMatch { inDropsProjectedCorr := true } fo [0] [⟨0, 1, .eq⟩])
      [[.int 1, .int 7]] [[.int 7, .int 2]] = [[.int 1, .int 7]] := ⟨rfl, rfl⟩

end IQE.Props.C23
