/-
  C31 — Every optimizer rule returns a well-formed plan.

  Model: IQE.Engine.PlanWf (exported-plan AST, run-time column resolution `resolve`, reported schema `schemaOf`,
  emitted schema `outSchema`, the checkers `wf` and `preserved`).  The tie is per program (translation validation):
  for every generated bound plan, every rule alone and every step of the production fixpoint, the driver evaluates
  `wf after && preserved before after && noNewBad before after` on the plans exported from the real optimizer
  (Driver/C31.lean).  `noNewBad` (IQE.Engine.PlanQual) is the qualifier part of well-formedness: the engine's
  resolution never fails while some field ends in `.name`, so `wf` alone accepts a join key `b.k` evaluated against
  the input `[a.id, a.k]`; `qualP` demands that the column a qualified reference reads IS the column of that name.
-/
import IQE.Engine.PlanWf
import IQE.Engine.PlanQual
import IQE.Lemmas.PlanRun
namespace IQE.Props.C31
open IQE.Engine.PlanWf

/-- Soundness of the schema check: acceptance means the reported output schema (`LogicalPlan::schema()`) has the
    same column names and the same column types, position by position. -/
theorem C31_checker_sound (before after : Plan) (h : preserved before after = true) :
    (schemaOf after).map (·.name) = (schemaOf before).map (·.name) ∧
    (schemaOf after).map (·.ty) = (schemaOf before).map (·.ty) := by
  have h' : nameTy (schemaOf after) = nameTy (schemaOf before) := by simpa [preserved] using h
  have hn : ∀ s : Schema, s.map (·.name) = (nameTy s).map (·.1) := by intro s; simp [nameTy]
  have ht : ∀ s : Schema, s.map (·.ty) = (nameTy s).map (·.2) := by intro s; simp [nameTy]
  exact ⟨by rw [hn, hn, h'], by rw [ht, ht, h']⟩

/-- Well-formed plans run without column-not-found: in the run-time model of the exported plans (rows flow bottom-up,
    every column reference is resolved per batch by the engine's resolution order against the schema of the batch the
    operator receives, falling back to the enclosing queries' rows inside subqueries), for EVERY catalog contents and
    EVERY interpretation of the scalar operators, aggregates, window functions and subquery predicates that does not
    itself invent that error, a plan accepted by the checker `wf` never fails with ColumnNotFound — and every row it
    emits has exactly the width of the schema the model says its operator emits. -/
theorem C31_wf_runs (o : Ops) (sane : o.Sane) (cat : String → Option (List Row)) (p : Plan) (h : wf p = true) :
    exec o cat [] p ≠ .error .cnf ∧
    ∀ rows, exec o cat [] p = .ok rows → ∀ r ∈ rows, r.length = (outSchema p).length := by
  have hg := exec_good o sane cat [] (by intro q hq; cases hq) p (by simpa [wf] using h)
  constructor
  · intro he; rw [he] at hg; exact hg rfl
  · intro rows he; rw [he] at hg; exact hg

/-- The same inside a subquery: with enclosing rows of the enclosing schemas' widths in scope. -/
theorem C31_wf_runs_scoped (o : Ops) (sane : o.Sane) (cat : String → Option (List Row)) (outer : List Scope)
    (hs : ∀ sc ∈ outer, sc.2.length = sc.1.length) (p : Plan) (h : wfP (outer.map (·.1)) p = true) :
    exec o cat outer p ≠ .error .cnf := by
  have hg := exec_good o sane cat outer hs p h
  intro he; rw [he] at hg; exact hg rfl

/-- Soundness of the qualifier check for one reference: when `qualRef` accepts `r.n`, one of its scopes resolves the
    reference (by the engine's resolution order) to a position whose column is named exactly `r.n` — physically, or logically
    through the enclosing SubqueryAlias — or is an unqualified column `n` (of no relation, physically and logically). -/
theorem C31_qual_sound (scopes : List QScope) (r n : String) (h : qualRef scopes r n = true) :
    ∃ sc ∈ scopes, ∃ i, resolve sc.1 (some r) n = some i ∧
      (nameAt sc.1 i (r ++ "." ++ n) = true ∨ nameAt sc.2 i (r ++ "." ++ n) = true ∨
        (bareAt sc.1 i n = true ∧ bareAt sc.2 i n = true)) := by
  unfold qualRef at h
  obtain ⟨sc, hm, hx⟩ := List.any_eq_true.mp h
  unfold exactAt at hx
  cases hr : resolve sc.1 (some r) n with
  | none => simp [hr] at hx
  | some i =>
    simp only [hr, Bool.or_eq_true, Bool.and_eq_true] at hx
    exact ⟨sc, hm, i, hr, hx⟩

/-- Outside subquery expressions (one scope: the batch the operator receives) acceptance is a statement about the column the
    executor reads: it never carries another relation's qualifier on both the physical and the logical level. -/
theorem C31_qual_reads (sc : QScope) (r n : String) (h : qualRef [sc] r n = true) :
    ∃ i, resolve sc.1 (some r) n = some i ∧
      (nameAt sc.1 i (r ++ "." ++ n) = true ∨ nameAt sc.2 i (r ++ "." ++ n) = true ∨
        (bareAt sc.1 i n = true ∧ bareAt sc.2 i n = true)) := by
  obtain ⟨sc', hm, i, hr, hx⟩ := C31_qual_sound [sc] r n h
  have : sc' = sc := by simpa using hm
  subst this
  exact ⟨i, hr, hx⟩

/-- The full checker is at least `wf`: everything `C31_wf_runs` says holds of a plan accepted by `wfq`, and such a plan has
    no offending qualified reference at all. -/
theorem C31_wfq_wf (p : Plan) (h : wfq p = true) : wf p = true ∧ badP [] p = [] := by
  unfold wfq qualP at h
  simp only [Bool.and_eq_true, List.isEmpty_iff] at h
  exact h

/-- A rule whose input has no offending reference and which introduces none returns a plan without any. -/
theorem C31_no_new_bad (before after : Plan) (hb : qualP before = true) (h : noNewBad before after = true) :
    qualP after = true := by
  unfold qualP at hb ⊢
  unfold noNewBad at h
  have hb' : badP [] before = [] := by simpa [List.isEmpty_iff] using hb
  rw [hb'] at h
  cases ha : badP [] after with
  | nil => rfl
  | cons x xs => rw [ha] at h; simp at h

/-! ### non-vacuity -/

def f (n r t : List Char) : Field := { name := String.ofList n, rel := some (String.ofList r), ty := String.ofList t }
def scanT : Plan := .scan "t" [f ['a'] ['t'] ['i'], f ['b'] ['t'] ['i']] none []

-- a projection pushed into the scan hides column `b`: a filter above that still reads `b` is rejected, one reading `a` accepted
example : wf (.filter (.col (some "t") "b") (.scan "t" [f ['a'] ['t'] ['i'], f ['b'] ['t'] ['i']] (some [0]) [])) = false := by decide
example : wf (.filter (.col (some "t") "a") (.scan "t" [f ['a'] ['t'] ['i'], f ['b'] ['t'] ['i']] (some [0]) [])) = true := by decide
-- arity mismatch between a projection's expressions and its schema is rejected
example : wf (.project [.col none "a"] [f ['a'] ['t'] ['i'], f ['b'] ['t'] ['i']] scanT) = false := by decide
-- a rule that renames an output column does not preserve the schema
example : preserved scanT (.project [.col none "a", .col none "b"] [f ['a'] ['t'] ['i'], f ['c'] ['t'] ['i']] scanT) = false := by decide
example : preserved scanT (.filter (.col none "a") scanT) = true := by decide

-- SemiJoinPushdown onto the wrong input: Semi(ta a, tc) ON b.k = tc.k2 under Inner(·, tb b).  The engine resolves `b.k` in the batch
-- [a.id, a.k] through the `.k` suffix, so `wf` accepts the plan; the qualifier check rejects it, and accepts the push onto `tb b`
def fa (n : List Char) := f n ['a'] ['i']
def fb (n : List Char) := f n ['b'] ['i']
def scanA : Plan := .scan "ta" [fa ['i','d'], fa ['k']] none []
def scanB : Plan := .scan "tb" [fb ['i','d'], fb ['k'], fb ['f','k']] none []
def scanC : Plan := .scan "tc" [f ['k','2'] ['t','c'] ['i']] none []
def joinAB (l r : Plan) : Plan := .join .inner [.col (some "a") "id"] [.col (some "b") "fk"] [] (outSchema l ++ outSchema r) l r
def semiOn (i : Plan) : Plan := .join .semi [.col (some "b") "k"] [.col (some "tc") "k2"] [] (outSchema i) i scanC
example : wf (joinAB (semiOn scanA) scanB) = true := by decide
example : qualP (joinAB (semiOn scanA) scanB) = false := by decide
example : badP [] (joinAB (semiOn scanA) scanB) = ["b.k"] := by decide
example : wfq (joinAB scanA (semiOn scanB)) = true := by decide
example : wfq (semiOn (joinAB scanA scanB)) = true := by decide
example : noNewBad (semiOn (joinAB scanA scanB)) (joinAB (semiOn scanA) scanB) = false := by decide
example : noNewBad (semiOn (joinAB scanA scanB)) (joinAB scanA (semiOn scanB)) = true := by decide
-- a derived table: `x.q` over `(SELECT a.k AS q …) AS x` reads the physical field `q`, whose logical name is `x.q`
example : wfq (.filter (.col (some "x") "q") (.alias "x" none [f ['q'] ['x'] ['i']]
    (.project [.col (some "a") "k"] [{ name := "q", rel := none, ty := "i" }] scanA))) = true := by decide

-- a filter on `x.q` pushed below the SubqueryAlias `x`, onto the Project computing the unqualified `q`, is accepted …
example : wfq (.alias "x" none [f ['q'] ['x'] ['i']] (.filter (.col (some "x") "q")
    (.project [.col (some "a") "k"] [{ name := "q", rel := none, ty := "i" }] scanA))) = true := by decide
-- … but a key `b.k` against the derived table `(SELECT a.k AS k …) AS x` is not: logically that column is `x.k`
example : qualP (.join .semi [.col (some "b") "k"] [.col (some "tc") "k2"] [] [f ['k'] ['x'] ['i']]
    (.alias "x" none [f ['k'] ['x'] ['i']] (.project [.col (some "a") "k"] [{ name := "k", rel := none, ty := "i" }] scanA)) scanC) = false := by decide

-- the model does raise column-not-found on the ill-formed plan above (trivial operators, one row [1, 2] in table t)
def ops0 : Ops := { lit := fun _ _ => none, scalar := fun _ _ _ => .ok none, agg := fun _ _ => .ok none, win := fun _ _ _ => .ok none, subq := fun _ _ _ _ => .ok none }
def isCnf : Except RErr (List Row) → Bool | .error .cnf => true | _ => false
def isRows (expected : List Row) : Except RErr (List Row) → Bool | .ok rows => rows == expected | _ => false
example : isCnf (exec ops0 (fun _ => some [[some 1, some 2]]) []
    (.filter (.col (some "t") "b") (.scan "t" [f ['a'] ['t'] ['i'], f ['b'] ['t'] ['i']] (some [0]) []))) = true := by decide
example : isRows [[some 1]] (exec ops0 (fun _ => some [[some 1, some 2]]) []
    (.project [.col (some "t") "a"] [f ['x'] [] ['i']] (.scan "t" [f ['a'] ['t'] ['i'], f ['b'] ['t'] ['i']] (some [0]) []))) = true := by decide

end IQE.Props.C31
