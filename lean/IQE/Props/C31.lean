/-
  C31 — Every optimizer rule returns a well-formed plan.

  Model: IQE.Engine.PlanWf (exported-plan AST, run-time column resolution `resolve`, reported schema `schemaOf`,
  emitted schema `outSchema`, the checkers `wf` and `preserved`).  The tie is per program (translation validation):
  for every generated bound plan, every rule alone and every step of the production fixpoint, the driver evaluates
  `wf after && preserved before after` on the plans exported from the real optimizer (Driver/C31.lean).
-/
import IQE.Engine.PlanWf
namespace IQE.Props.C31
open IQE.Engine.PlanWf

/-- Soundness of the schema check: acceptance means the reported output schema (`LogicalPlan::schema()`) has the
    same column names and the same column types, position by position. -/
theorem C31_checker_sound (before after : Plan) (h : preserved before after = true) :
    (schemaOf after).map (·.name) = (schemaOf before).map (·.name) ∧
    (schemaOf after).map (·.ty) = (schemaOf before).map (·.ty) := by
  have h' : nameTy (schemaOf after) = nameTy (schemaOf before) := by simpa [preserved] using h
  have hn : ∀ s : Schema, s.map (·.name) = (nameTy s).map (·.1) := by intro s; simp [nameTy]
  have ht : ∀ s : Schema, s.map (·.ty) = (nameTy s).map (·.2) := by intro s; simp [nameTy]
  exact ⟨by rw [hn, hn, h'], by rw [ht, ht, h']⟩

/-! ### non-vacuity -/

def f (n r t : List Char) : Field := { name := String.ofList n, rel := some (String.ofList r), ty := String.ofList t }
def scanT : Plan := .scan "t" [f ['a'] ['t'] ['i'], f ['b'] ['t'] ['i']] none []

-- a projection pushed into the scan hides column `b`: a filter above that still reads `b` is rejected, one reading `a` accepted
example : wf (.filter (.col (some "t") "b") (.scan "t" [f ['a'] ['t'] ['i'], f ['b'] ['t'] ['i']] (some [0]) [])) = false := by decide
example : wf (.filter (.col (some "t") "a") (.scan "t" [f ['a'] ['t'] ['i'], f ['b'] ['t'] ['i']] (some [0]) [])) = true := by decide
-- arity mismatch between a projection's expressions and its schema is rejected
example : wf (.project [.col none "a"] [f ['a'] ['t'] ['i'], f ['b'] ['t'] ['i']] scanT) = false := by decide
-- a rule that renames an output column does not preserve the schema
example : preserved scanT (.project [.col none "a", .col none "b"] [f ['a'] ['t'] ['i'], f ['c'] ['t'] ['i']] scanT) = false := by decide
example : preserved scanT (.filter (.col none "a") scanT) = true := by decide

end IQE.Props.C31
