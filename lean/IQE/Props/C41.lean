/-
  C41 — Chunked metastore responses decode exactly.
  Model: IQE.Engine.Dechunk (mirror of `metastore::gravitino::dechunk`; `usize` = 2^64, panics explicit).
  The theorems are about the model with all deviation switches off (`Dev.fixed`, the decoder in /repo since
  fix commit 9d62852, which the correspondence runs are made against); for each switch of the decoder that
  was in /repo before that fix (`Dev.legacy`) a kernel-checked counterexample is given below.
  Helper lemmas: IQE/Lemmas/Dechunk.lean.
-/
import IQE.Lemmas.Dechunk
namespace IQE.Props.C41
open IQE.Engine.Dechunk IQE.Text IQE

/-- **Round trip.** For EVERY list of chunks — any data, any split (each chunk non-empty, length + 2 < 2^64),
    size written in any hex case with any number of leading zeros, with or without a chunk extension
    (`;…` without CRLF) — followed by a last-chunk line (`0…0`, optional extension) and ANY bytes after it
    (trailers, final CRLF), decoding returns exactly the concatenated data. -/
theorem C41_roundtrip (chunks : List Chunk) (zeros : List Char) (lastExt tail : List UInt8)
    (hc : chunks.all chunkOk = true) (hz : zerosOk zeros = true) (he : extOk lastExt = true) :
    dechunk Dev.fixed (encode chunks zeros lastExt tail) = .some (chunks.flatMap (·.data)) := by
  unfold encode
  rw [dechunk_prefix chunks hc, dechunk_last zeros lastExt tail hz he]
  simp [Outcome.prepend]

/-- **Totality.** No byte string makes the decoder panic (true of every variant that uses `checked_add`). -/
theorem C41_total (dev : Dev) (hd : dev.uncheckedAdd = false) (b : List UInt8) : dechunk dev b ≠ .panic :=
  go_never_panics dev hd _ b []

/-- one iteration on `line CRLF rest` when `line` itself contains no CRLF -/
private theorem step (line rest : List UInt8) (hl : splitCrlf line = none) :
    dechunk Dev.fixed (line ++ CR :: LF :: rest) =
      match sizeOfLine Dev.fixed line with
      | none => .none
      | some size =>
        if size == 0 then .some []
        else if size + 2 ≥ usizeBound then .none
        else if rest.length < size + 2 then .none
        else if (rest.drop size).take 2 != [CR, LF] then .none
        else go Dev.fixed (line ++ CR :: LF :: rest).length (rest.drop (size + 2)) ([] ++ rest.take size) := by
  unfold dechunk
  simp only [go, splitCrlf_append line rest hl]
  cases sizeOfLine Dev.fixed line with
  | none => rfl
  | some size => simp [Dev.fixed]

/-- **Malformed framing is rejected**, after any number of well-formed chunks:
    (1) the stream ends without a CRLF-terminated size line;
    (2) the size field does not parse (see `C41_nonhex_size_rejected` for the concrete class);
    (3) the declared size + 2 does not fit `usize` (the input that used to panic);
    (4) fewer than `size` + 2 bytes follow the size line (chunk shorter than declared);
    (5) the chunk data is not followed by CRLF. -/
theorem C41_malformed_rejected (chunks : List Chunk) (hc : chunks.all chunkOk = true) :
    (∀ t, splitCrlf t = none → dechunk Dev.fixed (chunks.flatMap encodeChunk ++ t) = .none) ∧
    (∀ line rest, splitCrlf line = none → sizeOfLine Dev.fixed line = none →
        dechunk Dev.fixed (chunks.flatMap encodeChunk ++ (line ++ CR :: LF :: rest)) = .none) ∧
    (∀ line rest size, splitCrlf line = none → sizeOfLine Dev.fixed line = some size → size + 2 ≥ usizeBound →
        dechunk Dev.fixed (chunks.flatMap encodeChunk ++ (line ++ CR :: LF :: rest)) = .none) ∧
    (∀ line rest size, splitCrlf line = none → sizeOfLine Dev.fixed line = some size → size ≠ 0 → rest.length < size + 2 →
        dechunk Dev.fixed (chunks.flatMap encodeChunk ++ (line ++ CR :: LF :: rest)) = .none) ∧
    (∀ line rest size, splitCrlf line = none → sizeOfLine Dev.fixed line = some size → size ≠ 0 →
        (rest.drop size).take 2 ≠ [CR, LF] →
        dechunk Dev.fixed (chunks.flatMap encodeChunk ++ (line ++ CR :: LF :: rest)) = .none) := by
  refine ⟨?_, ?_, ?_, ?_, ?_⟩
  · intro t ht
    rw [dechunk_prefix chunks hc]
    have : dechunk Dev.fixed t = .none := by unfold dechunk; simp [go, ht]
    simp [this, Outcome.prepend]
  · intro line rest hl hs
    rw [dechunk_prefix chunks hc, step line rest hl, hs]; rfl
  · intro line rest size hl hs hbig
    rw [dechunk_prefix chunks hc, step line rest hl, hs]
    have h0 : ¬ (size == 0) = true := by simp [usizeBound] at hbig ⊢; omega
    simp [h0, hbig, Outcome.prepend]
  · intro line rest size hl hs h0 hshort
    rw [dechunk_prefix chunks hc, step line rest hl, hs]
    have h0' : (size == 0) = false := by simpa using h0
    simp only [h0']
    repeat' split
    all_goals first | rfl | contradiction | omega
  · intro line rest size hl hs h0 hcrlf
    rw [dechunk_prefix chunks hc, step line rest hl, hs]
    have h0' : (size == 0) = false := by simpa using h0
    have hc' : ((rest.drop size).take 2 != [CR, LF]) = true := by simpa using hcrlf
    simp only [h0', hc']
    repeat' split
    all_goals first | rfl | contradiction

/-- The concrete "non-hex size" class: a size field (the size line up to the first `;`) that contains an ASCII
    byte which is neither a hex digit, nor white space, nor `+`, is rejected, wherever it occurs in the stream. -/
theorem C41_nonhex_size_rejected (chunks : List Chunk) (hc : chunks.all chunkOk = true) (line rest : List UInt8) (b : UInt8)
    (hl : splitCrlf line = none) (hm : b ∈ sizeField Dev.fixed line) (hb : badSizeByte b = true) :
    dechunk Dev.fixed (chunks.flatMap encodeChunk ++ (line ++ CR :: LF :: rest)) = .none :=
  (C41_malformed_rejected chunks hc).2.1 line rest hl (sizeOfLine_bad Dev.fixed line b hm hb)

/-! ### non-vacuity: the hypotheses are satisfiable, and the statements say something on concrete streams -/
section
private def B (s : List Char) : List UInt8 := Utf8.asciiBytes s
private def c1 : Chunk := ⟨['0', '5'], B [';', 'e', 'x', 't', '=', '1'], B ['h', 'e', 'l', 'l', 'o']⟩
private def c2 : Chunk := ⟨['A'], [], B ['0', '1', '2', '3', '4', '5', '6', '7', '8', '9']⟩

example : [c1, c2].all chunkOk = true ∧ zerosOk ['0', '0'] = true ∧ extOk (B [';', 'l', 'a', 's', 't']) = true := by decide
example : encode [c1] ['0'] [] [CR, LF] = B ['0', '5', ';', 'e', 'x', 't', '=', '1', '\r', '\n', 'h', 'e', 'l', 'l', 'o', '\r', '\n', '0', '\r', '\n', '\r', '\n'] := by decide
example : dechunk Dev.fixed (encode [c1, c2] ['0'] [] [CR, LF]) = .some (B ['h', 'e', 'l', 'l', 'o', '0', '1', '2', '3', '4', '5', '6', '7', '8', '9']) := by decide
-- the five malformed classes are inhabited
example : splitCrlf (B ['5', '\r']) = none := by decide
example : sizeOfLine Dev.fixed (B ['5', 'g']) = none ∧ badSizeByte 'g'.toNat.toUInt8 = true := by decide
example : sizeOfLine Dev.fixed (B ['f', 'f', 'f', 'f', 'f', 'f', 'f', 'f', 'f', 'f', 'f', 'f', 'f', 'f', 'f', 'f']) = some (2 ^ 64 - 1) := by decide
example : sizeOfLine Dev.fixed (B ['5']) = some 5 ∧ (B ['h', 'i', '\r', '\n']).length < 5 + 2 := by decide
example : ((B ['h', 'e', 'l', 'l', 'o', 'X', 'Y', '0']).drop 5).take 2 ≠ [CR, LF] := by decide
end

/-! ### the decoder that was in /repo before the fix violates all three statements (kernel-checked) -/

/-- C41-F1 (`extInSize`): a conforming chunk with an extension is rejected — round trip fails. -/
example : ∃ chunks zeros lastExt tail, chunks.all chunkOk = true ∧ zerosOk zeros = true ∧ extOk lastExt = true ∧
    dechunk { extInSize := true } (encode chunks zeros lastExt tail) ≠ .some (chunks.flatMap (·.data)) :=
  ⟨[c1], ['0'], [], [CR, LF], by decide⟩

/-- C41-F2 (`uncheckedAdd`): the 18 bytes `ffffffffffffffff\r\n` make the decoder panic — totality fails. -/
example : ∃ b, dechunk { uncheckedAdd := true } b = .panic :=
  ⟨B ['f', 'f', 'f', 'f', 'f', 'f', 'f', 'f', 'f', 'f', 'f', 'f', 'f', 'f', 'f', 'f', '\r', '\n'], by decide⟩

/-- C41-F3 (`skipDataCrlf`): chunk data not followed by CRLF is accepted — malformed framing is not rejected. -/
example : ∃ line rest size, splitCrlf line = none ∧ sizeOfLine Dev.fixed line = some size ∧ size ≠ 0 ∧
    (rest.drop size).take 2 ≠ [CR, LF] ∧ dechunk { skipDataCrlf := true } (line ++ CR :: LF :: rest) ≠ .none :=
  ⟨B ['1'], B ['a', 'X', 'Y', '0', '\r', '\n', '\r', '\n'], 1, by decide⟩

/-- and the three switches together are exactly what the old code did on those inputs -/
example : dechunk Dev.legacy (encode [c1] ['0'] [] [CR, LF]) = .none ∧
    dechunk Dev.legacy (B ['f', 'f', 'f', 'f', 'f', 'f', 'f', 'f', 'f', 'f', 'f', 'f', 'f', 'f', 'f', 'f', '\r', '\n']) = .panic ∧
    dechunk Dev.legacy (B ['1', '\r', '\n', 'a', 'X', 'Y', '0', '\r', '\n', '\r', '\n']) = .some (B ['a']) := by decide

end IQE.Props.C41
