/-
  C15 — Membership view stays consistent under any discovery and probe history.
  Model: IQE.Engine.Membership (hand-written mirror of src/distributed/membership.rs; tie = correspondence K on
  whole operation histories, family C15).  Helper lemmas: IQE/Lemmas/Membership.lean.

  Everything is stated for an arbitrary address type with a strict total order `lt` and an ARBITRARY `isSelf`
  predicate of which only `isSelf selfAddr = true` is assumed (`Env.Wf`); histories are arbitrary lists of
  operations (no length bound, no bound on the address universe).
-/
import IQE.Lemmas.Membership
set_option linter.unusedSectionVars false
namespace IQE.Props.C15
open IQE.Engine.Membership

variable {α : Type} [DecidableEq α]

/-- The invariant holds of `Membership::new`. -/
theorem C15_init_inv (env : Env α) : Inv env (init : State α) :=
  ⟨by simp [init, keys], by simp [init, keys]⟩

/-- Every operation preserves the invariant (peers strictly sorted by address, none of them is this node). -/
theorem C15_step_inv (env : Env α) (w : env.Wf) (s : State α) (h : Inv env s) (op : Op α) :
    Inv env (step env s op) := by
  cases op with
  | setMembers addrs =>
    have hkept : (keys (s.peers.filter (fun p => (addrs.filter (fun a => !env.isSelf a)).contains p.1))).Pairwise
        (fun a b => env.lt a b = true) := by
      rw [keys_filter (fun k => (addrs.filter (fun a => !env.isSelf a)).contains k)]
      exact List.Pairwise.sublist List.filter_sublist h.sorted
    constructor
    · exact foldl_insert_sorted w _ _ hkept
    · intro k hk
      rcases (mem_keys_foldl_insert env.lt k _ _).1 hk with h1 | h1
      · have := (List.mem_filter.1 (List.mem_filter.1 h1).1).2
        simpa using this
      · rw [keys_filter (fun k => (addrs.filter (fun a => !env.isSelf a)).contains k)] at h1
        exact h.notSelf k (List.mem_filter.1 h1).1
  | recordUp a n f =>
    show Inv env (recordUp s a n f)
    unfold recordUp
    split
    · exact h
    · exact ⟨by simpa [keys_modify] using h.sorted, by simpa [keys_modify] using h.notSelf⟩
  | recordDown a e =>
    show Inv env (recordDown s a e)
    unfold recordDown
    split
    · exact h
    · exact ⟨by simpa [keys_modify] using h.sorted, by simpa [keys_modify] using h.notSelf⟩
  | resolveError e => exact ⟨h.sorted, h.notSelf⟩

/-- Induction over the history: the invariant holds after ANY sequence of operations from any state satisfying it. -/
theorem C15_run_inv (env : Env α) (w : env.Wf) (ops : List (Op α)) :
    ∀ s : State α, Inv env s → Inv env (run env s ops) := by
  induction ops with
  | nil => intro s h; exact h
  | cons op ops ih => intro s h; exact ih _ (C15_step_inv env w s h op)

/-- What the invariant means for the public views: `members()` is strictly sorted by address (hence
    duplicate-free), exactly one entry is flagged `is_self`, exactly one entry carries this node's address and
    it is the flagged one, and this node (in any spelling `isSelf` recognises) is not in `peer_addresses()`. -/
theorem C15_view_of_inv (env : Env α) (w : env.Wf) (s : State α) (h : Inv env s) :
    ((members env s).map (·.address)).Pairwise (fun a b => env.lt a b = true)
    ∧ (members env s).countP (·.isSelf) = 1
    ∧ ((members env s).map (·.address)).count env.selfAddr = 1
    ∧ (∀ m ∈ members env s, m.isSelf = true ↔ m.address = env.selfAddr)
    ∧ env.selfAddr ∉ peerAddresses s
    ∧ (∀ a ∈ peerAddresses s, env.isSelf a = false)
    ∧ (peerAddresses s).Pairwise (fun a b => env.lt a b = true) := by
  have hself : env.selfAddr ∉ keys s.peers := by
    intro hm; have := h.notSelf _ hm; rw [w.selfIsSelf] at this; cases this
  have hperm : (members env s).Perm (s.peers.map toMember ++ [selfMember env]) := sortByAddress_perm _ _
  have haddr : (s.peers.map toMember ++ [selfMember env]).map (·.address) = keys s.peers ++ [env.selfAddr] := by
    simp [keys, toMember, selfMember, Function.comp_def]
  have hnd : ((members env s).map (·.address)).Nodup := by
    rw [(hperm.map _).nodup_iff, haddr, List.nodup_append]
    refine ⟨nodup_of_sorted w _ h.sorted, by simp, ?_⟩
    intro a ha b hb
    simp only [List.mem_singleton] at hb
    subst hb; intro e; subst e; exact hself ha
  refine ⟨?_, ?_, ?_, ?_, hself, h.notSelf, h.sorted⟩
  · apply strict_of_sorted_nodup w _ _ hnd
    rw [List.pairwise_map]
    exact sortByAddress_sorted w _
  · rw [hperm.countP_eq, List.countP_append]
    have : List.countP (fun m : Member α => m.isSelf) (s.peers.map toMember) = 0 := by
      rw [List.countP_eq_zero]; intro m hm
      obtain ⟨p, _, rfl⟩ := List.mem_map.1 hm
      simp [toMember]
    rw [this]; simp [selfMember]
  · rw [(hperm.map _).count_eq, haddr, List.count_append, List.count_eq_zero.2 hself]
    simp
  · intro m hm
    rcases List.mem_append.1 (hperm.mem_iff.1 hm) with h1 | h1
    · obtain ⟨p, hp, rfl⟩ := List.mem_map.1 h1
      have hk : p.1 ∈ keys s.peers := List.mem_map.2 ⟨p, hp, rfl⟩
      constructor
      · intro hh; simp [toMember] at hh
      · intro hh; simp only [toMember] at hh; rw [hh] at hk; exact absurd hk hself
    · simp only [List.mem_singleton] at h1
      subst h1; simp [selfMember]

/-- **C15_reachable.** For every operation history of any length, over any address universe: this node is never a
    peer; `members()` lists it exactly once; addresses are strictly sorted (unique). -/
theorem C15_reachable (env : Env α) (w : env.Wf) (ops : List (Op α)) :
    let s := run env (init : State α) ops
    Inv env s
    ∧ ((members env s).map (·.address)).Pairwise (fun a b => env.lt a b = true)
    ∧ (members env s).countP (·.isSelf) = 1
    ∧ ((members env s).map (·.address)).count env.selfAddr = 1
    ∧ (∀ m ∈ members env s, m.isSelf = true ↔ m.address = env.selfAddr)
    ∧ env.selfAddr ∉ peerAddresses s
    ∧ (∀ a ∈ peerAddresses s, env.isSelf a = false)
    ∧ (peerAddresses s).Pairwise (fun a b => env.lt a b = true) := by
  intro s
  have hi : Inv env s := C15_run_inv env w ops _ (C15_init_inv env)
  exact ⟨hi, C15_view_of_inv env w s hi⟩

/-- A resolve error changes nothing of the view: same peers (with their records), same generation, same
    `resolved`, same `members()`. -/
theorem C15_resolve_error_keeps (env : Env α) (s : State α) (e : Nat) :
    (step env s (.resolveError e)).peers = s.peers
    ∧ (step env s (.resolveError e)).generation = s.generation
    ∧ (step env s (.resolveError e)).resolved = s.resolved
    ∧ members env (step env s (.resolveError e)) = members env s := by
  refine ⟨rfl, rfl, rfl, rfl⟩

/-- One step never decreases the generation. -/
theorem C15_generation_monotone_step (env : Env α) (s : State α) (op : Op α) :
    s.generation ≤ (step env s op).generation := by
  cases op with
  | setMembers addrs =>
    show s.generation ≤ (setMembers env s addrs).1.generation
    simp only [setMembers]; split <;> omega
  | recordUp a n f =>
    show s.generation ≤ (recordUp s a n f).generation
    unfold recordUp; split
    · exact Nat.le_refl _
    · simp only; split <;> omega
  | recordDown a e =>
    show s.generation ≤ (recordDown s a e).generation
    unfold recordDown; split
    · exact Nat.le_refl _
    · simp only; split <;> omega
  | resolveError e => exact Nat.le_refl _

/-- **C15_generation_monotone.** The generation never decreases along any history (and so between any two points
    of a history: apply it to the suffix). -/
theorem C15_generation_monotone (env : Env α) (ops : List (Op α)) :
    ∀ s : State α, s.generation ≤ (run env s ops).generation := by
  induction ops with
  | nil => intro s; exact Nat.le_refl _
  | cons op ops ih => intro s; exact Nat.le_trans (C15_generation_monotone_step env s op) (ih _)

/-- After `set_members` the peer set is exactly the requested set minus this node (in any spelling). -/
theorem C15_set_members_exact (env : Env α) (s : State α) (addrs : List α) (x : α) :
    x ∈ peerAddresses (step env s (.setMembers addrs)) ↔ (x ∈ addrs ∧ env.isSelf x = false) := by
  show x ∈ keys (setMembers env s addrs).1.peers ↔ _
  simp only [setMembers]
  rw [mem_keys_foldl_insert, keys_filter (fun k => (addrs.filter (fun a => !env.isSelf a)).contains k)]
  simp only [List.mem_filter, List.contains_iff_mem, Bool.not_eq_eq_eq_not, Bool.not_true]
  by_cases hx : x ∈ keys s.peers <;> simp [hx]

/-- No change requested (the requested set minus self equals the current peer set) ⇒ `set_members` returns no
    changes, keeps the generation and keeps every peer record. -/
theorem C15_reresolve_preserves (env : Env α) (s : State α) (addrs : List α)
    (same : ∀ x, x ∈ peerAddresses s ↔ (x ∈ addrs ∧ env.isSelf x = false)) :
    (step env s (.setMembers addrs)).peers = s.peers
    ∧ (step env s (.setMembers addrs)).generation = s.generation
    ∧ (setMembers env s addrs).2 = [] := by
  have hin : ∀ x, x ∈ addrs.filter (fun a => !env.isSelf a) ↔ x ∈ keys s.peers := by
    intro x; rw [List.mem_filter]; simp only [Bool.not_eq_true', peerAddresses] at same ⊢; exact (same x).symm
  have hgone : (keys s.peers).filter (fun k => !(addrs.filter (fun a => !env.isSelf a)).contains k) = [] := by
    rw [List.filter_eq_nil_iff]; intro a ha; simp [(hin a).2 ha]
  have hfresh : (addrs.filter (fun a => !env.isSelf a)).filter (fun a => !(keys s.peers).contains a) = [] := by
    rw [List.filter_eq_nil_iff]; intro a ha; simp [(hin a).1 ha]
  have hkept : s.peers.filter (fun p => (addrs.filter (fun a => !env.isSelf a)).contains p.1) = s.peers := by
    rw [List.filter_eq_self]; intro p hp
    have : p.1 ∈ keys s.peers := List.mem_map.2 ⟨p, hp, rfl⟩
    simp [(hin p.1).2 this]
  show (setMembers env s addrs).1.peers = s.peers ∧ (setMembers env s addrs).1.generation = s.generation ∧ _
  simp only [setMembers, hgone, hfresh, hkept]
  simp [keys]

/-- **C15_generation_advances.** If `set_members` changes the peer address list (equivalently, by
    `C15_set_members_exact`, the requested set differs from the current one), the generation strictly
    increases (by exactly one). -/
theorem C15_generation_advances (env : Env α) (s : State α) (addrs : List α)
    (changed : peerAddresses (step env s (.setMembers addrs)) ≠ peerAddresses s) :
    (step env s (.setMembers addrs)).generation = s.generation + 1 := by
  show (setMembers env s addrs).1.generation = _
  cases hg : ((keys s.peers).filter (fun k => !(addrs.filter (fun a => !env.isSelf a)).contains k)).isEmpty with
  | false => simp only [setMembers, hg]; rfl
  | true =>
    cases hf : ((addrs.filter (fun a => !env.isSelf a)).filter (fun a => !(keys s.peers).contains a)).isEmpty with
    | false => simp only [setMembers, hg, hf]; rfl
    | true =>
      exfalso; apply changed
      show keys (setMembers env s addrs).1.peers = keys s.peers
      have hf' := List.isEmpty_iff.1 hf
      have hg' := List.isEmpty_iff.1 hg
      simp only [setMembers, hf', List.foldl_nil]
      rw [keys_filter (fun k => (addrs.filter (fun a => !env.isSelf a)).contains k), List.filter_eq_self]
      intro a ha
      rw [List.filter_eq_nil_iff] at hg'
      have := hg' a ha
      simpa using this

/-- The same in terms of sets: whenever the requested set (minus self) differs from the current peer set, the
    generation strictly increases. Together with `C15_reresolve_preserves` this is a complete case split. -/
theorem C15_generation_advances_set (env : Env α) (s : State α) (addrs : List α)
    (differs : ¬ ∀ x, x ∈ peerAddresses s ↔ (x ∈ addrs ∧ env.isSelf x = false)) :
    s.generation < (step env s (.setMembers addrs)).generation := by
  have : peerAddresses (step env s (.setMembers addrs)) ≠ peerAddresses s := by
    intro e; apply differs; intro x
    rw [← e]; exact C15_set_members_exact env s addrs x
  rw [C15_generation_advances env s addrs this]; omega

/-- The environment used by the correspondence runs (`strEnv`: addresses are `String`s under `String.<`) satisfies
    the order assumptions; what remains assumed is only `is_self_address(self, self) = true` (rule 1 of the code). -/
theorem C15_string_env_wf (selfAddr : String) (selfId : Nat) (table : List (String × Bool))
    (hself : (strEnv selfAddr selfId table).isSelf selfAddr = true) : (strEnv selfAddr selfId table).Wf := by
  refine ⟨?_, ?_, ?_, hself⟩
  · intro a; simp [strEnv, String.lt_irrefl]
  · intro a b c; simp only [strEnv, decide_eq_true_eq]; exact String.lt_trans
  · intro a b; simp only [strEnv, decide_eq_true_eq]
    by_cases h1 : a < b
    · exact Or.inl h1
    · by_cases h2 : b < a
      · exact Or.inr (Or.inr h2)
      · exact Or.inr (Or.inl (String.le_antisymm (String.not_lt.1 h2) (String.not_lt.1 h1)))

/-! ### non-vacuity: a concrete environment (addresses = Nat codes; 1 and 9 are spellings of this node) -/

def exEnv : Env Nat := { lt := fun a b => decide (a < b), isSelf := fun a => a == 1 || a == 9, selfAddr := 1, selfId := 7 }

example : exEnv.Wf :=
  ⟨by intro a; simp [exEnv], by intro a b c; simp [exEnv]; omega, by intro a b; simp [exEnv]; omega, by decide⟩

-- a history with self in two spellings, a port-only neighbour (2), churn, probes and a resolve error
example :
    let s := run exEnv init [.setMembers [3, 1, 2, 9, 3], .recordUp 2 (some 5) none, .resolveError 0,
                              .setMembers [2, 9], .recordDown 2 4, .recordDown 8 4, .setMembers [2, 1]]
    peerAddresses s = [2] ∧ s.generation = 4 ∧ s.resolved = true
    ∧ (members exEnv s).map (fun m => (m.address, m.isSelf, m.fails)) = [(1, true, 0), (2, false, 1)] := by decide

example : (setMembers exEnv (run exEnv init [.setMembers [5, 2]]) [4, 2, 1]).2 = [.removed 5, .added 4] := by decide

end IQE.Props.C15
