/-
  C38 — Vector distance kernels compute their documented formulas.
  Model: IQE.Engine.VecDist (hand-written mirror of src/physical/vector.rs) over exact integer arithmetic
  (IEEE rounding is out of scope: stated in MANIFEST; the correspondence runs use vectors on which f32 arithmetic is exact).
  `sqrt`, `/` and `1 - x` are applied by the caller to the exact ingredients (`Val`), identically in model and code.
-/
import IQE.Lemmas.VecDist
namespace IQE.Props.C38
open IQE.Engine.VecDist

/-- Index coverage of `chunks_exact(n)`, general in the element type: for every chunk size and EVERY length the chunks followed
    by the remainder are the slice (each index exactly once, in order), every chunk has `n` elements, and the remainder is
    shorter than a chunk. -/
theorem C38_chunks_cover {α : Type} (n : Nat) (l : List α) :
    (chunksExact n l).1.flatten ++ (chunksExact n l).2 = l ∧ (∀ c ∈ (chunksExact n l).1, c.length = n) ∧
    (0 < n → (chunksExact n l).2.length < n) :=
  ⟨chunksGo_cover n l.length l, chunksGo_chunk_len n l.length l, fun hn => chunksGo_rem_len n l.length hn l (Nat.le_refl _)⟩

/-- The accumulation shape shared by `dot` and `l2_sq` — any number of lanes, any per-element term — sums every term exactly
    once, for EVERY dimension. -/
theorem C38_chunked_regroup (lanes : Nat) (term : Int → Int → Int) (a b : List Int) (h : a.length = b.length) :
    chunked lanes term a b = (List.zipWith term a b).sum := chunked_eq lanes term a b h

/-- `dot`: 8-lane `chunks_exact` accumulation + remainder = Σ aᵢ·bᵢ for every dimension. -/
theorem C38_dot_chunked (a b : List Int) (h : a.length = b.length) : dot a b = dotSpec a b :=
  chunked_eq 8 dotTerm a b h

/-- `l2_sq`: = Σ (aᵢ-bᵢ)² for every dimension. -/
theorem C38_l2_chunked (a b : List Int) (h : a.length = b.length) : l2sq a b = l2Spec a b :=
  chunked_eq 8 l2Term a b h

/-- A dimension mismatch is an error (never a value), on both entry points. -/
theorem C38_dim_mismatch_errors :
    (∀ (c : Col) (q : List Int) (k : Kind), c.isList = true → c.dim ≠ q.length → distanceColumn c q k = .error .dimMismatch) ∧
    (∀ (l r : Col) (k : Kind), l.isList = true → l.elem = .f32 → r.isList = true → r.elem = .f32 → l.dim ≠ r.dim →
        distanceColumns l r k = .error .dimMismatch) := by
  refine ⟨fun c q k hl hd => ?_, fun l r k h1 h2 h3 h4 hd => ?_⟩
  · simp [distanceColumn, hl, hd]
  · simp [distanceColumns, h1, h2, h3, h4, hd]

/-- One output per row; a row's output is NULL exactly when the row's vector is NULL. -/
theorem C38_null_row_null (c : Col) (q : List Int) (k : Kind) (out : List (Option Val)) (h : distanceColumn c q k = .ok out) :
    out.length = c.len ∧ ∀ i, i < c.len → (out[i]? = some none ↔ c.isNull i = true) := by
  unfold distanceColumn at h
  split at h; · cases h
  split at h; · cases h
  split at h; · cases h
  split at h; · cases h
  injection h with h
  subst h
  refine ⟨by simp, fun i hi => ?_⟩
  simp only [List.getElem?_map, List.getElem?_range hi, Option.map_some]
  cases c.isNull i <;> simp

/-- same for two columns: NULL exactly when either row is NULL -/
theorem C38_null_row_null_columns (l r : Col) (k : Kind) (out : List (Option Val)) (h : distanceColumns l r k = .ok out) :
    out.length = min l.len r.len ∧ ∀ i, i < min l.len r.len → (out[i]? = some none ↔ (l.isNull i || r.isNull i) = true) := by
  unfold distanceColumns at h
  split at h; · cases h
  split at h; · cases h
  split at h; · cases h
  injection h with h
  subst h
  refine ⟨by simp, fun i hi => ?_⟩
  simp only [List.getElem?_map, List.getElem?_range hi, Option.map_some]
  cases (l.isNull i || r.isNull i) <;> simp

/-- Cosine of a zero vector: the similarity is reported as 0 (`zero` flag; distance 1) exactly when one of the two vectors
    is all zeros — in exact arithmetic the `denom == 0.0` test is this condition. -/
theorem C38_zero_norm (a b : List Int) (dist : Bool) :
    rowValue (if dist then .cosine else .cosineSimilarity) a b
      = .cos dist (decide ((∀ x ∈ a, x = 0) ∨ (∀ x ∈ b, x = 0))) (dot a b) (normSq a) (normSq b) := by
  have ha : (normSq a == 0) = decide (∀ x ∈ a, x = 0) := by
    have := sumsq_zero_iff a
    rw [← C38_dot_chunked a a rfl] at this
    unfold normSq
    rw [Bool.eq_iff_iff]
    simp only [beq_iff_eq, decide_eq_true_eq]
    exact this
  have hb : (normSq b == 0) = decide (∀ x ∈ b, x = 0) := by
    have := sumsq_zero_iff b
    rw [← C38_dot_chunked b b rfl] at this
    unfold normSq
    rw [Bool.eq_iff_iff]
    simp only [beq_iff_eq, decide_eq_true_eq]
    exact this
  cases dist <;> simp [rowValue, ha, hb]

/-- Slice invariance: the distances of `column.slice(off, len)` are `distances(column)[off .. off+len]`
    (row `i` of the slice reads `flat[(off+i)·d … (off+i+1)·d)`), for every column whose buffer holds its rows. -/
theorem C38_slice_invariance (c : Col) (q : List Int) (k : Kind) (off len : Nat)
    (hwf : c.len * c.dim ≤ c.flat.length) (hin : off + len ≤ c.len) :
    distanceColumn (c.slice off len) q k = (distanceColumn c q k).map fun out => (out.drop off).take len := by
  have hlen : (c.slice off len).len = len := by
    unfold Col.len Col.slice at *
    simp only [List.length_take, List.length_drop]; omega
  have hflat : ¬ (c.slice off len).flat.length < (c.slice off len).len * c.dim := by
    rw [hlen]
    unfold Col.slice Col.len at *
    simp only [List.length_take, List.length_drop]
    have h1 : (off + len) * c.dim ≤ c.valid.length * c.dim := Nat.mul_le_mul_right _ hin
    have h2 : (off + len) * c.dim = off * c.dim + len * c.dim := Nat.add_mul ..
    omega
  have hflat' : ¬ c.flat.length < c.len * c.dim := by omega
  unfold distanceColumn
  have e1 : (c.slice off len).isList = c.isList := rfl
  have e2 : (c.slice off len).dim = c.dim := rfl
  have e3 : (c.slice off len).elem = c.elem := rfl
  rw [e1, e2, e3]
  by_cases h1 : (!c.isList) = true
  · simp [h1, Except.map]
  by_cases h2 : (c.dim != q.length) = true
  · simp [h1, h2, Except.map]
  by_cases h3 : (c.elem == Elem.other) = true
  · simp [h1, h2, h3, Except.map]
  rw [if_neg h1, if_neg h2, if_neg h3, if_neg hflat, if_neg h1, if_neg h2, if_neg h3, if_neg hflat']
  simp only [Except.map]
  congr 1
  rw [hlen]
  apply List.ext_getElem
  · simp; omega
  · intro i h1 h2
    have hi : i < len := by simpa using h1
    simp only [List.getElem_map, List.getElem_range, List.getElem_take, List.getElem_drop]
    rw [slice_isNull c off len i hi, slice_row c off len i hi]

-- non-vacuity: the chunked path (8 lanes + remainder) on a 19-dimensional vector, a sliced column with a NULL row
example : chunksExact 3 [1, 2, 3, 4, 5, 6, 7, 8] = ([[1, 2, 3], [4, 5, 6]], [7, 8]) := by decide
example : dot [1, 2, 3, 4, 5, 6, 7, 8, 9, 1, 2, 3, 4, 5, 6, 7, 8, 9, 2] [2, 2, 2, 2, 2, 2, 2, 2, 2, 1, 1, 1, 1, 1, 1, 1, 1, 1, 5] = 145 := by decide
example : l2sq [1, 2, 3, 4, 5, 6, 7, 8, 9] [0, 0, 0, 0, 0, 0, 0, 0, 10] = 205 := by decide
example : (distanceColumn (({ dim := 2, flat := [9, 9, 3, 4, 5, 5, 1, 1], valid := [true, true, false, true] } : Col).slice 1 2) [0, 0] .l2).toOption
    = some [some (.l2 25), none] := by decide
example : (match distanceColumn ({ dim := 2, flat := [1, 2], valid := [true] } : Col) [1, 2, 3] .dot with | .error e => some e | .ok _ => none)
    = some .dimMismatch := by decide
example : rowValue .cosine [0, 0] [1, 2] = .cos true true 0 0 5 := by decide

end IQE.Props.C38
