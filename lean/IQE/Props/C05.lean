/-
  C05 — Statistics-based row-group skipping is sound.

  Tables: the TRANSLATED `Gen.Pruning.{eval_range, eval_range_i32, eval_range_f64, eval_range_str, definite_table, flip_op}`
  (regenerated from src/storage/row_group_pruning.rs on every run); the executable model carries hand copies, proved equal here
  (`C05_tables_are_translated`), so the shared driver never imports generated code.  Recursive functions: the hand model IQE.Engine.Pruning
  (`mightMatch`, `definitelyMatches`, `checkComparison`, `definiteComparison`, `pruneRowGroups`).
  `Dev.none` = intended algorithm = the current tree (`Dev.current`, since fix e356a0a); `Dev.old` = the tree before it
  (`definiteViaF64`: integer statistics and literal compared after `as f64`; `i32Narrowing`: `i64 as i32` in `check_i32_stats`).

  `StatsOf rows rg`: min / max bound every non-NULL value of the column under the column's order, `null_count = 0` is exact,
  cells have the statistics' physical type.  Float hypothesis `Tame`: no NaN and no negative zero among the cells and float
  literals (then the IEEE order of the statistics and the total order of the comparison kernels coincide); `ofInt` (`as f64`)
  monotone, never NaN / -0.0.  Both are necessary: witnesses below.  Reference semantics: `Pruning.sem` (three-valued
  comparison of integer / float / byte-string cells with Int→Float widening, Kleene AND/OR/NOT, BETWEEN, IN) — checked equal to
  the interpreter model on every generated case by the correspondence run.  Everything holds for every `ofInt`, and for
  arbitrary meanings (`oth`, `othP`) of the sub-expressions the pruner does not look into.
-/
import IQE.Lemmas.Pruning
import IQE.Gen.Pruning
namespace IQE.Props.C05
open IQE IQE.Engine.Pruning

/-! ### bridge: the tables the executable model uses ARE the translated ones -/

def toGen : BinaryOp → IQE.Gen.Pruning.BinaryOp
  | .Add => .Add | .Subtract => .Subtract | .Multiply => .Multiply | .Divide => .Divide | .Modulo => .Modulo
  | .Eq => .Eq | .NotEq => .NotEq | .Lt => .Lt | .LtEq => .LtEq | .Gt => .Gt | .GtEq => .GtEq
  | .And => .And | .Or => .Or | .Like => .Like | .NotLike => .NotLike | .StringConcat => .StringConcat
def ofGen : IQE.Gen.Pruning.BinaryOp → BinaryOp
  | .Add => .Add | .Subtract => .Subtract | .Multiply => .Multiply | .Divide => .Divide | .Modulo => .Modulo
  | .Eq => .Eq | .NotEq => .NotEq | .Lt => .Lt | .LtEq => .LtEq | .Gt => .Gt | .GtEq => .GtEq
  | .And => .And | .Or => .Or | .Like => .Like | .NotLike => .NotLike | .StringConcat => .StringConcat

/-- the model's operator type is the translated enum (same variants) -/
theorem C05_op_bijection : (∀ op, ofGen (toGen op) = op) ∧ (∀ g, toGen (ofGen g) = g) :=
  ⟨fun op => by cases op <;> rfl, fun g => by cases g <;> rfl⟩

/-- every table of the executable model equals its TRANSLATED counterpart (regenerated from the source on every run):
    a source edit that changes a table breaks this theorem (or the soundness theorems below), not the driver. -/
theorem C05_tables_are_translated :
    (∀ op, IQE.Gen.Pruning.flip_op (toGen op) = toGen (flip_op op)) ∧
    (∀ op val mn mx, IQE.Gen.Pruning.eval_range (toGen op) val mn mx = eval_range op val mn mx) ∧
    (∀ op val mn mx, IQE.Gen.Pruning.eval_range_i32 (toGen op) val mn mx = eval_range_i32 op val mn mx) ∧
    (∀ op val mn mx, IQE.Gen.Pruning.eval_range_f64 (toGen op) val mn mx = eval_range_f64 op val mn mx) ∧
    (∀ op val mn mx, IQE.Gen.Pruning.eval_range_str (toGen op) val mn mx = eval_range_str op val mn mx) ∧
    (∀ op mn mx val, IQE.Gen.Pruning.definite_table (toGen op) mn mx val = definite_table op mn mx val) :=
  ⟨fun op => by cases op <;> rfl, fun op _ _ _ => by cases op <;> rfl, fun op _ _ _ => by cases op <;> rfl,
   fun op _ _ _ => by cases op <;> rfl, fun op _ _ _ => by cases op <;> rfl, fun op _ _ _ => by cases op <;> rfl⟩

theorem C05_toGen_ofGen (g : IQE.Gen.Pruning.BinaryOp) : toGen (ofGen g) = g := C05_op_bijection.2 g

/-- the TRANSLATED integer range tables never exclude a range that contains a satisfying value -/
theorem C05_eval_range_sound (g : IQE.Gen.Pruning.BinaryOp) (val mn mx v : Int) (h1 : mn ≤ v) (h2 : v ≤ mx) (h : satI (ofGen g) v val = true) :
    IQE.Gen.Pruning.eval_range g val mn mx = true ∧ IQE.Gen.Pruning.eval_range_i32 g val mn mx = true := by
  rw [← C05_toGen_ofGen g, C05_tables_are_translated.2.1, C05_tables_are_translated.2.2.1]
  exact ⟨eval_range_sound _ val mn mx v h1 h2 h, eval_range_i32_sound _ val mn mx v h1 h2 h⟩

/-- the TRANSLATED float table, under the no-NaN / no-negative-zero hypothesis (`fOk`), against the TOTAL order of the predicate -/
theorem C05_eval_range_f64_sound (g : IQE.Gen.Pruning.BinaryOp) (val mn mx v : F64) (hmn : mn.isNaN = false) (hmx : mx.isNaN = false)
    (hv : fOk v) (hval : fOk val) (h1 : F64.le mn v = true) (h2 : F64.le v mx = true) (h : satF (ofGen g) v val = true) :
    IQE.Gen.Pruning.eval_range_f64 g val mn mx = true := by
  rw [← C05_toGen_ofGen g, C05_tables_are_translated.2.2.2.1]
  exact eval_range_f64_sound _ val mn mx v hmn hmx hv hval h1 h2 h

/-- the TRANSLATED string table: byte-wise order (Rust `&str`), all six operators -/
theorem C05_eval_range_str_sound (g : IQE.Gen.Pruning.BinaryOp) (val mn mx v : Rs.Str) (h1 : Rs.bytesLe mn.utf8 v.utf8 = true)
    (h2 : Rs.bytesLe v.utf8 mx.utf8 = true) (h : satS (ofGen g) v val = true) : IQE.Gen.Pruning.eval_range_str g val mn mx = true := by
  rw [← C05_toGen_ofGen g, C05_tables_are_translated.2.2.2.2.1]
  exact eval_range_str_sound _ val mn mx v h1 h2 h

/-- the TRANSLATED "definitely" table is sound in the float domain (same hypothesis) -/
theorem C05_definite_table_sound (g : IQE.Gen.Pruning.BinaryOp) (val mn mx v : F64) (hmn : mn.isNaN = false) (hmx : mx.isNaN = false)
    (hv : fOk v) (hval : fOk val) (h1 : F64.le mn v = true) (h2 : F64.le v mx = true) (h : IQE.Gen.Pruning.definite_table g mn mx val = true) :
    satF (ofGen g) v val = true := by
  rw [← C05_toGen_ofGen g, C05_tables_are_translated.2.2.2.2.2] at h
  exact definite_table_sound _ val mn mx v hmn hmx hv hval h1 h2 h

/-- `row_group_might_match` never drops a row group that holds a row the predicate keeps — every predicate built from
    comparison (literal on either side), BETWEEN, IN, NOT, AND, OR, and anything else treated conservatively. -/
theorem C05_might_match_sound (ofInt : Int → F64) (oth : List Cell → Cell) (othP : List Cell → Option Bool)
    (rows : List (List Cell)) (rg : Rg) (hst : StatsOf rows rg) (ht : Tame ofInt rows) (e : PE) (hl : LitsOk e)
    (h : ∃ row ∈ rows, sem ofInt oth othP row e = some true) : mightMatch Dev.none ofInt rg e = true :=
  might_sound ofInt oth othP hst ht e hl h

/-- `row_group_definitely_matches` drops the row filter only when the predicate is TRUE for all rows of the group. -/
theorem C05_definite_sound (ofInt : Int → F64) (oth : List Cell → Cell) (othP : List Cell → Option Bool)
    (rows : List (List Cell)) (rg : Rg) (hst : StatsOf rows rg) (ht : Tame ofInt rows) (e : PE) (hl : LitsOk e)
    (h : definitelyMatches Dev.none ofInt rg e = true) : ∀ row ∈ rows, sem ofInt oth othP row e = some true :=
  definitely_sound ofInt oth othP hst ht e hl h

/-- Enabling skipping never changes the answer: filtering the kept row groups = filtering all row groups (as lists, for every
    number of row groups), and a row group whose filter is dropped keeps exactly its rows. -/
theorem C05_prune_answer_invariant (ofInt : Int → F64) (oth : List Cell → Cell) (othP : List Cell → Option Bool) (e : PE) (hl : LitsOk e)
    (data : List (Rg × List (List Cell))) (h : ∀ d ∈ data, StatsOf d.2 d.1 ∧ Tame ofInt d.2) :
    (data.filter (fun d => mightMatch Dev.none ofInt d.1 e)).flatMap (fun d => keepRows ofInt oth othP e d.2)
        = data.flatMap (fun d => keepRows ofInt oth othP e d.2) ∧
    ∀ d ∈ data, definitelyMatches Dev.none ofInt d.1 e = true → keepRows ofInt oth othP e d.2 = d.2 :=
  ⟨prune_invariant ofInt oth othP e hl data h,
   fun d hd hdef => definite_keeps_all ofInt oth othP (h d hd).1 (h d hd).2 e hl hdef⟩

/-- i32 → i64 widening is an order embedding (used by `check_i64_stats` on Int32 statistics): trivial on `Int`; the reverse
    narrowing `i64 as i32` is NOT monotone — witness below. -/
theorem C05_narrowing_not_monotone : (2:Int)^31 - 1 ≤ 2^31 ∧ ¬ (wrapI32 (2^31 - 1) ≤ wrapI32 (2^31)) := by decide

/-! ### Negation witnesses (kernel-checked) -/

def f2p53 : F64 := ⟨0x4340000000000000⟩     -- 2^53
def f5 : F64 := ⟨0x4014000000000000⟩        -- 5.0
/-- `as f64` on the three integers of the witness (2^53 + 1 rounds to 2^53) -/
def ofIntW (n : Int) : F64 := if n = 5 then f5 else if n = 2^53 ∨ n = 2^53 + 1 then f2p53 else F64.posZero
def oth0 : List Cell → Cell := fun _ => .null
def othP0 : List Cell → Option Bool := fun _ => none

def rgA4 : Rg := [some { stats := .int64 (some 5) (some (2^53 + 1)), nullCount := some 0 }]
def leP53 : PE := .cmp .LtEq (.col 0) (.lit (.i64 (2^53)))

/-- A.4: x = {5, 2^53+1}; the tree before fix e356a0a said `x <= 2^53` is definitely TRUE (filter dropped) and prunes the group for
    `NOT (x <= 2^53)`, although the row 2^53+1 fails / satisfies it; the intended algorithm does neither. -/
theorem C05_witness_definite_f64 :
    definitelyMatches Dev.old ofIntW rgA4 leP53 = true ∧ sem ofIntW oth0 othP0 [.int (2^53 + 1)] leP53 = some false ∧
    mightMatch Dev.old ofIntW rgA4 (.not leP53) = false ∧ sem ofIntW oth0 othP0 [.int (2^53 + 1)] (.not leP53) = some true ∧
    definitelyMatches Dev.none ofIntW rgA4 leP53 = false ∧ mightMatch Dev.none ofIntW rgA4 (.not leP53) = true := by decide

def rgI32 : Rg := [some { stats := .int64 (some (2^31)) (some (2^31)), nullCount := some 0 }]
def gt3 : PE := .cmp .Gt (.col 0) (.lit (.i32 3))

/-- `i64 as i32` narrowing: x = {2^31} is pruned for `x > 3` (Int32 literal) by the tree before fix e356a0a. -/
theorem C05_witness_i32_narrowing :
    mightMatch Dev.old ofIntW rgI32 gt3 = false ∧ sem ofIntW oth0 othP0 [.int (2^31)] gt3 = some true ∧
    mightMatch Dev.none ofIntW rgI32 gt3 = true := by decide

def fTenth : F64 := ⟨0x3FB999999999999A⟩
def fHalf : F64 := ⟨0x3FE0000000000000⟩
def rgNaN : Rg := [some { stats := .double (some fTenth) (some fTenth), nullCount := some 0 }]
def gtHalf : PE := .cmp .Gt (.col 0) (.lit (.f64 fHalf))
def rgNegZero : Rg := [some { stats := .double (some F64.negZero) (some F64.negZero), nullCount := some 0 }]
def ltZero : PE := .cmp .Lt (.col 0) (.lit (.f64 F64.posZero))

/-- The float hypothesis is necessary (finding C05-F3): f = {0.1, NaN} — Parquet statistics ignore NaN — is pruned for `f > 0.5`
    even by the intended algorithm although NaN > 0.5 in the kernels' total order; f = {-0.0} is pruned for `f < 0.0`. -/
theorem C05_witness_nan_and_zero :
    mightMatch Dev.none ofIntW rgNaN gtHalf = false ∧ sem ofIntW oth0 othP0 [.f64 F64.nan] gtHalf = some true ∧
    mightMatch Dev.none ofIntW rgNegZero ltZero = false ∧ sem ofIntW oth0 othP0 [.f64 F64.negZero] ltZero = some true := by decide

theorem C05_current_is_intended : Dev.current = Dev.none := rfl

/-! ### non-vacuity -/
example : mightMatch Dev.none ofIntW rgA4 (.cmp .Gt (.col 0) (.lit (.i64 (2^53 + 1)))) = false := by decide   -- it does prune
example : definitelyMatches Dev.none ofIntW rgA4 (.cmp .GtEq (.col 0) (.lit (.i64 5))) = true := by decide
example : fOk fHalf := ⟨by decide, by decide⟩

end IQE.Props.C05
