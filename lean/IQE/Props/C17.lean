/-
  C17 — An Iceberg snapshot reads exactly its live data files.
  Model: IQE.Engine.Iceberg (hand-written mirror of src/storage/iceberg.rs: `open_table`, `latest_metadata_file`,
  `data_files_of`, `resolve_uri`) + the abstract table history (appends, file removals, manifest rewrites, metadata-only
  rewrites) and its encoding into manifests the way Iceberg writers produce them (a new manifest of ADDED entries per
  append; a removal rewrites exactly the manifests that hold a removed file — removed ↦ DELETED, survivors ↦ EXISTING,
  older DELETED entries dropped — and carries the others unchanged; a manifest rewrite compacts all live entries).
-/
import IQE.Lemmas.Iceberg
namespace IQE.Props.C17
open IQE.Engine.Iceberg

/-- Refinement: for EVERY history, the reader's file set over the encoded manifests is the (sorted, duplicate-free)
    abstract live set — whatever URI form each entry uses, as long as it is a local one. -/
theorem C17_refine (uri : Nat → UriForm) (huri : ∀ f, uri f ≠ .remote) (h : List HOp) :
    dataFilesOf (encManifests uri h) = .ok (sortDedup (live h)) := by
  have inv := enc_inv uri huri h [] [] ⟨by simp, by simp [liveFiles]⟩
  unfold dataFilesOf
  have hc := collect_ok (encManifests uri h).flatten inv.acc
  unfold encManifests at *
  rw [hc]
  simp only
  congr 1
  exact sortDedup_congr _ _ inv.mem

/-- Every listed snapshot: the snapshot written after the first `n` operations keeps reading the live set of that prefix,
    however the history continues (snapshots are immutable: their manifests are the encoding of the prefix). -/
theorem C17_refine_snapshots (uri : Nat → UriForm) (huri : ∀ f, uri f ≠ .remote) (h : List HOp) (n : Nat) :
    dataFilesOf (encManifests uri (h.take n)) = .ok (sortDedup (live (h.take n))) :=
  C17_refine uri huri (h.take n)

/-- The reader's answer is a set: strictly increasing paths, no file twice. -/
theorem C17_files_sorted_nodup (ms : List Manifest) (fs : List Nat) (h : dataFilesOf ms = .ok fs) : fs.Pairwise (· < ·) := by
  unfold dataFilesOf at h
  split at h
  · cases h
  · injection h with h; subst h; exact sortDedup_sorted _

/-- Live means ADDED or EXISTING: when nothing is refused, a file is returned iff some non-DELETED entry names it. -/
theorem C17_live_iff (ms : List Manifest) (fs : List Nat) (h : dataFilesOf ms = .ok fs) (x : Nat) :
    x ∈ fs ↔ ∃ e ∈ ms.flatten, e.status ≠ 2 ∧ e.file = x := by
  by_cases hacc : ∀ e ∈ ms.flatten, Acceptable e
  · unfold dataFilesOf at h
    rw [collect_ok _ hacc] at h
    injection h with h; subst h
    rw [mem_sortDedup, mem_liveFiles]
    constructor
    · rintro ⟨e, he, hl, hf⟩; exact ⟨e, he, (isLive_iff e).1 hl, hf⟩
    · rintro ⟨e, he, hl, hf⟩; exact ⟨e, he, (isLive_iff e).2 hl, hf⟩
  · have : ∃ e ∈ ms.flatten, ¬ Acceptable e := by
      apply Classical.byContradiction
      intro hn
      exact hacc (fun e he => Classical.byContradiction fun hna => hn ⟨e, he, hna⟩)
    obtain ⟨x', hx'⟩ := collect_err _ this
    unfold dataFilesOf at h
    rw [hx'] at h
    cases h

/-- Current metadata: with a version hint, `vN.metadata.json`; otherwise a file of the directory that is maximal for
    (last-updated-ms, file name). -/
theorem C17_current (metas : List MetaFile) :
    (∀ v m, latestMetadata (some v) metas = .ok m → m ∈ metas ∧ m.version = some v) ∧
    (∀ m, latestMetadata none metas = .ok m → m ∈ metas ∧ ∀ x ∈ metas, metaLe x m) ∧
    (metas ≠ [] → ∃ m, latestMetadata none metas = .ok m) := by
  refine ⟨?_, ?_, ?_⟩
  · intro v m h
    unfold latestMetadata at h
    simp only at h
    split at h
    · rename_i m' hf
      injection h with h; subst h
      exact ⟨List.mem_of_find?_eq_some hf, by simpa using List.find?_some hf⟩
    · cases h
  · intro m h
    unfold latestMetadata at h
    simp only at h
    split at h
    · rename_i m' hp
      injection h with h; subst h
      obtain ⟨h1, _, h3⟩ := pickLatest_spec metas none m' hp
      rcases h1 with h1 | h1
      · exact ⟨h1, h3⟩
      · cases h1
    · cases h
  · intro hne
    cases metas with
    | nil => exact absurd rfl hne
    | cons x xs =>
      have : ∀ (l : List MetaFile) (b : MetaFile), ∃ m, pickLatest (some b) l = some m := by
        intro l
        induction l with
        | nil => intro b; exact ⟨b, rfl⟩
        | cons y ys ih => intro b; simp only [pickLatest]; split <;> exact ih _
      obtain ⟨m, hm⟩ := this xs x
      exact ⟨m, by simp [latestMetadata, pickLatest, hm]⟩

/-- Refusals: the file set is refused iff some non-DELETED entry is a delete file, a non-Parquet file or a remote URI
    (a DELETED entry is skipped before it is looked at) … -/
theorem C17_refusals (ms : List Manifest) :
    (∃ fs, dataFilesOf ms = .ok fs) ↔
      ∀ e ∈ ms.flatten, e.status ≠ 2 → e.content = 0 ∧ e.parquet = true ∧ e.uri ≠ .remote := by
  constructor
  · rintro ⟨fs, h⟩ e he hs
    have hall : ∀ e ∈ ms.flatten, Acceptable e := by
      apply Classical.byContradiction
      intro hn
      have : ∃ e ∈ ms.flatten, ¬ Acceptable e :=
        Classical.byContradiction fun hne => hn (fun e he => Classical.byContradiction fun hna => hne ⟨e, he, hna⟩)
      obtain ⟨x, hx⟩ := collect_err _ this
      unfold dataFilesOf at h; rw [hx] at h; cases h
    rcases hall e he with hd | hacc
    · exact absurd hd hs
    · exact hacc
  · intro h
    have hall : ∀ e ∈ ms.flatten, Acceptable e := by
      intro e he
      by_cases hs : e.status = 2
      · exact Or.inl hs
      · exact Or.inr (h e he hs)
    exact ⟨_, by unfold dataFilesOf; rw [collect_ok _ hall]⟩

/-- … and `open_table` never serves an unknown snapshot, a table without current snapshot, or an empty file set. -/
theorem C17_refusals_open (hint : Option Nat) (metas : List MetaFile) (snapshot : Option Nat) (id : Nat) (fs : List Nat)
    (h : openTable hint metas snapshot = .ok (id, fs)) :
    fs ≠ [] ∧ (∀ s, snapshot = some s → s = id) ∧
    ∃ m sn, latestMetadata hint metas = .ok m ∧ sn ∈ m.snaps ∧ sn.id = id ∧ dataFilesOf sn.manifests = .ok fs ∧
      (snapshot = none → m.current = some id) := by
  unfold openTable at h
  cases hm : latestMetadata hint metas with
  | error e => rw [hm] at h; cases h
  | ok m =>
    rw [hm] at h
    simp only at h
    cases snapshot with
    | some s =>
      simp only at h
      cases hf : m.snaps.find? (fun x => x.id == s) with
      | none => rw [hf] at h; cases h
      | some sn =>
        rw [hf] at h
        simp only at h
        have hid : sn.id = s := by simpa using List.find?_some hf
        cases hd : dataFilesOf sn.manifests with
        | error e => rw [hd] at h; cases h
        | ok l =>
          rw [hd] at h
          cases l with
          | nil => cases h
          | cons a l =>
            simp only at h
            injection h with h; injection h with h1 h2
            subst h2
            refine ⟨(by simp), ?_, m, sn, rfl, List.mem_of_find?_eq_some hf, h1, (by rw [hd]), (by intro hh; cases hh)⟩
            intro s' hs'; injection hs' with hs'; subst hs'; rw [← hid]; exact h1
    | none =>
      simp only at h
      cases hc : m.current with
      | none => rw [hc] at h; cases h
      | some cur =>
        rw [hc] at h
        simp only at h
        cases hf : m.snaps.find? (fun x => x.id == cur) with
        | none => rw [hf] at h; cases h
        | some sn =>
          rw [hf] at h
          simp only at h
          have hid : sn.id = cur := by simpa using List.find?_some hf
          cases hd : dataFilesOf sn.manifests with
          | error e => rw [hd] at h; cases h
          | ok l =>
            rw [hd] at h
            cases l with
            | nil => cases h
            | cons a l =>
              simp only at h
              injection h with h; injection h with h1 h2
              subst h2
              refine ⟨(by simp), (by intro s hs; cases hs), m, sn, rfl, List.mem_of_find?_eq_some hf, h1, (by rw [hd]), ?_⟩
              intro _; rw [← h1, hid]; exact hc

/-- The four accepted URI forms denote the stated path (`p` an absolute path `/q` with `q` not starting with `/`);
    a URI with another scheme is refused. -/
theorem C17_resolve_uri (q dir : List Char) (hq : startsWith q ['/'] = false) (hs : containsSchemeSep ('/' :: q) = false) :
    resolveUri (['f', 'i', 'l', 'e', ':', '/', '/'] ++ '/' :: q) dir = some ('/' :: q) ∧
    resolveUri (['f', 'i', 'l', 'e', ':'] ++ '/' :: q) dir = some ('/' :: q) ∧
    resolveUri ('/' :: q) dir = some ('/' :: q) ∧
    (∀ r, startsWith r ['/'] = false → startsWith r ['f', 'i', 'l', 'e', ':'] = false → containsSchemeSep r = false →
        resolveUri r dir = some (dir ++ '/' :: r)) ∧
    (∀ u, startsWith u ['f', 'i', 'l', 'e', ':'] = false → containsSchemeSep u = true → resolveUri u dir = none) := by
  have htrim : trimSlashPairs ('/' :: q) = '/' :: q := by
    cases q with
    | nil => rfl
    | cons c cs =>
      have : c ≠ '/' := by
        intro hc; subst hc; simp [startsWith] at hq
      unfold trimSlashPairs
      split
      · rename_i rest heq
        injection heq with _ heq; injection heq with heq _
        exact absurd heq this
      · rfl
  refine ⟨?_, ?_, ?_, ?_, ?_⟩
  · simp only [resolveUri, List.cons_append, List.nil_append, startsWith, beq_self_eq_true, Bool.and_self, if_true, List.drop]
    have : trimSlashPairs ('/' :: '/' :: '/' :: q) = '/' :: q := by
      rw [trimSlashPairs]; exact htrim
    rw [this]; simp [startsWith]
  · simp only [resolveUri, List.cons_append, List.nil_append, startsWith, beq_self_eq_true, Bool.and_self, if_true, List.drop]
    rw [htrim]; simp [startsWith]
  · have h1 : startsWith ('/' :: q) ['f', 'i', 'l', 'e', ':'] = false := by simp [startsWith]
    simp [resolveUri, hs, startsWith]
  · intro r h1 h2 h3
    simp [resolveUri, h1, h2, h3]
  · intro u h1 h2
    simp [resolveUri, h1, h2]

-- non-vacuity: a concrete history (append 3 files, remove one, append, compact) and its encoding
example : dataFilesOf (encManifests (fun _ => .fileTriple) [.append [3, 1, 2], .remove [1], .append [7], .rewriteManifests]) = .ok [2, 3, 7] := by decide
example : (encManifests (fun _ => .relative) [.append [3, 1], .append [5], .remove [1]]).map (·.map fun e => (e.status, e.file))
    = [[(1, 5)], [(0, 3), (2, 1)]] := by decide
example : dataFilesOf [[{ status := 1, file := 1 }, { status := 1, content := 1, file := 9 }]] = .error .deleteFiles := by decide
example : dataFilesOf [[{ status := 2, content := 1, file := 9 }, { status := 0, file := 4 }]] = .ok [4] := by decide
example : resolveUri "file:///a/b.parquet".toList "/tbl".toList = some "/a/b.parquet".toList := by decide
example : resolveUri "data/b.parquet".toList "/tbl".toList = some "/tbl/data/b.parquet".toList := by decide
example : resolveUri "s3://bucket/k".toList "/tbl".toList = none := by decide

end IQE.Props.C17
