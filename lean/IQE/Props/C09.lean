/-
  IQE.Props.C09 — a distributed answer equals the single-node answer.

  The model (`IQE.Engine.DistPlan`) is stated over the reference semantics `Spec.run`: the sharded table `T` of the catalog
  is replaced by a shard (`cat.set T shard`), every other table is a full replica.  Theorems:

    C09_shard_safe_additive      the capability predicate `shardSafe p T` makes the aggregate-free part of a statement a BAG
                                 HOMOMORPHISM in `T` (binary form), `_n` for any non-empty list of shards, `_no_new_errors`
                                 (the whole succeeds ⇒ every shard succeeds), `C09_empty_shard` (an empty shard contributes
                                 no row); the unsafe sides (NULL-supplying side of an outer join, build side of SEMI / ANTI)
                                 are refuted by kernel-checked counter-examples;
    C09_two_phase                the partial / final rewrite (COUNT → SUM of counts, SUM, MIN, MAX, AVG as (sum, count)) over
                                 GROUP BY equals the single-node aggregate of the concatenated shards, incl. empty shards,
                                 all-NULL groups and groups present in some shards only; `C09_two_phase_value` is the
                                 one-group / one-aggregate core, `C09_two_phase_post` carries HAVING + projection applied
                                 AFTER the merge; a global aggregate needs at least one partial row (`C09_two_phase_needs_a_row`);
    C09_topn                     sorting the concatenation of the per-shard `take (skip + fetch)` prefixes and cutting
                                 `OFFSET skip LIMIT fetch` agrees with the single-node window position by position up to ties
                                 and consists of input rows (the two facts `Spec.acceptable` asks of a LIMIT over ORDER BY);
    C09_concat                   a statement admitted with shape Concat is the concatenation of its per-shard answers;
    C09_gather_partial           the statement over the gathered tables (any arrival order of the shards' rows) has the
                                 single-node answer — for the plan fragment `LayoutFrag` (scan / filter / project / joins
                                 without subquery expressions / UNION ALL / DISTINCT); MISSING: aggregates, ORDER BY / LIMIT,
                                 windows, other set operations and subquery expressions above that fragment (the reference
                                 semantics is bag-invariant there too — C21 / C25 / C24 state it per operator — but the
                                 composition over the whole plan language is not proved here);
    C09_shape_exact_*            `scatterShape` admits a shape only where the corresponding decomposition theorem applies:
                                 Concat / TopN ⇒ the select block is shard-safe and the merge sorts by output columns,
                                 TwoPhase ⇒ the block under the aggregate is shard-safe and no aggregate is DISTINCT; a DISTINCT
                                 aggregate, a subquery in HAVING or an unsafe join side ⇒ `none` (gather or refusal).
-/
import IQE.Engine.DistPlan
import IQE.Lemmas.DistAdditive
import IQE.Lemmas.DistTwoPhase
import IQE.Lemmas.DistTopN
import IQE.Lemmas.Layout
namespace IQE.Props.C09
open List IQE IQE.Spec IQE.Engine.DistPlan

/-! ### C09_shard_safe_additive -/

/-- **Shard-safe ⇒ bag homomorphism in the sharded table.**  If the plan `q` passes the capability predicate for table `T`
    and the per-shard runs over `A` and over `B` succeed, the run over `A ++ B` succeeds with the concatenation of the two
    answers, up to row order. -/
theorem C09_shard_safe_additive (fo : FloatOps) (fns : String → List Val → Except Err Val) (cat : List Table) (T : Nat)
    (A B : Table) (q : Query) (hq : shardSafe T q = true) (ctes : List Table) (env : Env) (ra rb : Table)
    (hA : run fo fns (cat.set T A) q ctes env = .ok ra) (hB : run fo fns (cat.set T B) q ctes env = .ok rb) :
    ∃ r, run fo fns (cat.set T (A ++ B)) q ctes env = .ok r ∧ r.Perm (ra ++ rb) :=
  IQE.Dist.shard_additive fo fns cat T A B q hq ctes env ra rb hA hB

/-- the same for any non-empty list of shards (idle nodes hold the empty shard) -/
theorem C09_shard_safe_additive_n (fo : FloatOps) (fns : String → List Val → Except Err Val) (cat : List Table) (T : Nat)
    (q : Query) (hq : shardSafe T q = true) (ctes : List Table) (env : Env) (shards outs : List Table) (hne : shards ≠ [])
    (h : IQE.Bag.Forall2 (fun s o => run fo fns (cat.set T s) q ctes env = .ok o) shards outs) :
    ∃ r, run fo fns (cat.set T shards.flatten) q ctes env = .ok r ∧ r.Perm outs.flatten :=
  IQE.Dist.shard_additive_n fo fns cat T q hq ctes env shards outs hne h

/-- no new errors: when the single-node run succeeds, so does every shard -/
theorem C09_shard_safe_no_new_errors (fo : FloatOps) (fns : String → List Val → Except Err Val) (cat : List Table) (T : Nat)
    (A B : Table) (q : Query) (hq : shardSafe T q = true) (ctes : List Table) (env : Env) (r : Table)
    (h : run fo fns (cat.set T (A ++ B)) q ctes env = .ok r) :
    ∃ ra rb, run fo fns (cat.set T A) q ctes env = .ok ra ∧ run fo fns (cat.set T B) q ctes env = .ok rb :=
  IQE.Dist.shard_additive_conv fo fns cat T A B q hq ctes env r h

/-- an empty shard (idle node, or a shard whose rows the statement never reaches) contributes no row -/
theorem C09_empty_shard (fo : FloatOps) (fns : String → List Val → Except Err Val) (cat : List Table) (T : Nat)
    (q : Query) (hq : shardSafe T q = true) (ctes : List Table) (env : Env) (r : Table)
    (h : run fo fns (cat.set T []) q ctes env = .ok r) : r = [] :=
  IQE.Dist.shard_empty fo fns cat T q hq ctes env r h

/-- a subquery expression, or any plan that does not scan `T`, sees the same thing on every worker -/
theorem C09_replicas_invariant (fo : FloatOps) (fns : String → List Val → Except Err Val) (cat : List Table) (T : Nat)
    (A B : Table) (q : Query) (h : noScan T q = true) : run fo fns (cat.set T A) q = run fo fns (cat.set T B) q :=
  IQE.Dist.run_congr_noScan fo fns cat T A B q h

/-- why the NULL-supplying side of an outer join is not shard-safe (kernel-checked): `L ⟕ (R₁ ⊎ R₂)` has one row, the two
    per-shard answers together have two (the left row is NULL-extended in the shard that holds no match) -/
example : shardSafe 1 (IQE.Dist.jq .left) = false ∧
    ∃ r ra rb, run IQE.Dist.fo0 IQE.Dist.fns0 ([IQE.Dist.L, []].set 1 (IQE.Dist.R₁ ++ IQE.Dist.R₂)) (IQE.Dist.jq .left) [] [] = .ok r ∧
      run IQE.Dist.fo0 IQE.Dist.fns0 ([IQE.Dist.L, []].set 1 IQE.Dist.R₁) (IQE.Dist.jq .left) [] [] = .ok ra ∧
      run IQE.Dist.fo0 IQE.Dist.fns0 ([IQE.Dist.L, []].set 1 IQE.Dist.R₂) (IQE.Dist.jq .left) [] [] = .ok rb ∧
      r = [[.int 1, .int 1]] ∧ ra ++ rb = [[.int 1, .int 1], [.int 1, .null]] ∧ ¬ r.Perm (ra ++ rb) :=
  IQE.Dist.unsafe_null_supplying_side

/-- why the build side of a SEMI join is not shard-safe: a probe row matched in two shards is emitted twice -/
example : shardSafe 1 (IQE.Dist.jq .semi) = false ∧
    ∃ r ra rb, run IQE.Dist.fo0 IQE.Dist.fns0 ([IQE.Dist.L, []].set 1 (IQE.Dist.R₁ ++ IQE.Dist.R₁)) (IQE.Dist.jq .semi) [] [] = .ok r ∧
      run IQE.Dist.fo0 IQE.Dist.fns0 ([IQE.Dist.L, []].set 1 IQE.Dist.R₁) (IQE.Dist.jq .semi) [] [] = .ok ra ∧
      run IQE.Dist.fo0 IQE.Dist.fns0 ([IQE.Dist.L, []].set 1 IQE.Dist.R₁) (IQE.Dist.jq .semi) [] [] = .ok rb ∧
      r = [[.int 1]] ∧ ra ++ rb = [[.int 1], [.int 1]] ∧ ¬ r.Perm (ra ++ rb) :=
  IQE.Dist.unsafe_semi_build_side

/-- … and of an ANTI join: a probe row unmatched in one shard is emitted although the other shard holds its match -/
example : shardSafe 1 (IQE.Dist.jq .anti) = false ∧
    ∃ r ra rb, run IQE.Dist.fo0 IQE.Dist.fns0 ([IQE.Dist.L, []].set 1 (IQE.Dist.R₁ ++ IQE.Dist.R₂)) (IQE.Dist.jq .anti) [] [] = .ok r ∧
      run IQE.Dist.fo0 IQE.Dist.fns0 ([IQE.Dist.L, []].set 1 IQE.Dist.R₁) (IQE.Dist.jq .anti) [] [] = .ok ra ∧
      run IQE.Dist.fo0 IQE.Dist.fns0 ([IQE.Dist.L, []].set 1 IQE.Dist.R₂) (IQE.Dist.jq .anti) [] [] = .ok rb ∧
      r = [] ∧ ra ++ rb = [[.int 1]] ∧ ¬ r.Perm (ra ++ rb) :=
  IQE.Dist.unsafe_anti_build_side

/-! ### C09_two_phase -/

open IQE.AggHom in
/-- **One group, one aggregate**: what the merge aggregate computes from the workers' partial values is the aggregate of
    the concatenated argument values — COUNT / COUNT(*) as SUM of counts, SUM of sums, MIN of mins, MAX of maxes, AVG as
    `CAST(SUM(sums) AS DOUBLE) / CAST(SUM(counts) AS DOUBLE)`; empty workers (identity row) and all-NULL inputs included.
    Side conditions `Ok`: typed column, no i64 overflow, float data exact (dyadic test data). -/
theorem C09_two_phase_value {fo : FloatOps} (E : FloatExact fo) (a : Engine.Acc.Agg) (ha : a.distinct = false)
    (xss : List (List Val)) (hne : xss ≠ []) (hok : Ok E a xss.flatten) (hrows : (xss.flatten.length : Int) ≤ Val.i64Max) :
    ∃ ps, xss.mapM (IQE.Dist.partialVals fo a) = .ok ps ∧
          IQE.Dist.finalVal fo a ps = aggVal fo a.fn false xss.flatten.length xss.flatten :=
  IQE.Dist.two_phase_val E a ha xss hne hok hrows

open IQE.AggHom in
/-- **GROUP BY**: every worker aggregates ITS rows with the partial aggregates, the initiator re-aggregates the concatenated
    partial rows with the merge aggregates and restores the statement's columns (`finalStage`): the result is the
    single-node `GROUP BY` over the concatenation of all shards, as a bag of rows. -/
theorem C09_two_phase {fo : FloatOps} (E : FloatExact fo) (cx : EvalCtx) (hcx : cx.fo = fo) (env : Env) (keys : List Expr)
    (aggs : List AggCall) (shards : List Table) (W : Table)
    (hd : ∀ a ∈ aggs, a.distinct = false)
    (hglobal : keys = [] → shards ≠ [])
    (hW : aggregate cx env keys aggs shards.flatten = .ok W)
    (htyped : ∀ a ∈ aggs, a.fn ≠ .countStar → ∃ (ty : Ty) (vs : List Val),
        shards.flatten.mapM (fun r => eval cx (r :: env) a.arg) = .ok vs ∧ Ok E ⟨a.fn, false, ty⟩ vs)
    (hrows : (shards.flatten.length : Int) ≤ Val.i64Max) :
    ∃ (Ps : List Table) (F : Table),
      shards.mapM (aggregate cx env keys (partialAggs aggs)) = .ok Ps ∧
      finalStage cx keys.length aggs Ps.flatten = .ok F ∧ F.Perm W :=
  IQE.Dist.two_phase_table E cx hcx env keys aggs shards W hd hglobal hW htyped hrows

/-- **HAVING and the SELECT list run after the merge**: any row-wise post-processing (keep / drop / rewrite a row — HAVING
    followed by the projection) of the merged aggregate `F` gives the post-processing of the single-node aggregate `W`,
    up to row order, and fails only if it fails on `W`. -/
theorem C09_two_phase_post (post : Row → Except Err (Option Row)) (F W out : Table) (hFW : F.Perm W)
    (hW : W.filterMapM post = .ok out) : ∃ r, F.filterMapM post = .ok r ∧ r.Perm out :=
  IQE.Dist.filterMapM_ok_perm hFW hW

/-- a GLOBAL aggregate needs at least one partial row: with no worker at all the merged COUNT is NULL, not 0 — the reason
    the coordinator answers over an empty shard itself when no shard is active -/
theorem C09_two_phase_needs_a_row (fo : FloatOps) :
    IQE.Dist.finalVal fo ⟨.count, false, .int⟩ [] = .ok .null ∧ aggVal fo .count false 0 [] = .ok (.int 0) :=
  IQE.Dist.final_count_no_worker fo

/-! ### C09_topn -/

open IQE.Lemmas.Sorting IQE.Lemmas.SortModel IQE.Lemmas.OrderAux IQE.Engine.SortLimit in
/-- **TopN**: every worker returns the first `LIMIT + OFFSET` rows of ITS sorted shard (everything when there is no LIMIT);
    the initiator sorts the union and cuts `OFFSET skip LIMIT fetch`.  The result agrees with the single-node window
    position by position up to ties of the ORDER BY comparator (`Spec.sortKeyed`, well-typed keys) and consists of input
    rows — exactly the freedom `Spec.acceptable` leaves to a LIMIT over ORDER BY (C25_ties). -/
theorem C09_topn (fo : FloatOps) (flags : List (Bool × Bool)) (tys : List Ty) (hlen : flags.length ≤ tys.length)
    (shards : List (List Keyed)) (ht : KeysTyped tys shards.flatten) (skip : Nat) (fetch : Option Nat) :
    let keep : Option Nat := fetch.map (· + skip)
    let S := (shards.map fun s => IQE.Lemmas.SortModel.takeOpt keep (sortKeyed fo flags s)).flatten
    PointwiseTied (leKT flags) (IQE.Lemmas.SortModel.takeOpt fetch ((sortKeyed fo flags S).drop skip))
                               (IQE.Lemmas.SortModel.takeOpt fetch ((sortKeyed fo flags shards.flatten).drop skip))
    ∧ ∃ rest, (IQE.Lemmas.SortModel.takeOpt fetch ((sortKeyed fo flags S).drop skip) ++ rest).Perm shards.flatten :=
  IQE.Dist.topn_keyed_spec fo flags tys hlen shards ht skip fetch

/-- the workers must keep `LIMIT + OFFSET` rows, not `LIMIT`: `OFFSET 1 LIMIT 2` over the (already sorted) shards {0, 1, 2} and
    {5}: truncating each shard to 2 rows gives the candidates [0, 1, 5] and the window [1, 5]; the single-node window of
    [0, 1, 2, 5] is [1, 2] -/
example :
    ((([[0, 1, 2], [5]] : List (List Nat)).map fun s => s.take 2).flatten.drop 1).take 2 ≠ (([0, 1, 2, 5] : List Nat).drop 1).take 2 ∧
    ((([[0, 1, 2], [5]] : List (List Nat)).map fun s => s.take (1 + 2)).flatten.drop 1).take 2 = (([0, 1, 2, 5] : List Nat).drop 1).take 2 := by
  decide

/-! ### C09_concat -/

/-- a select block admitted with shape Concat is shard-safe as a whole -/
theorem C09_concat_shard_safe (T : Nat) (q : Query) (h : scatterShape T q = some .concat) : shardSafe T q = true := by
  unfold scatterShape at h
  split at h
  · split at h <;> simp_all [blockShape_ne_concat_of_orderLimit]
  · exact absurd h (blockShape_ne_concat_of_orderLimit T _)
  · split at h <;> simp_all [blockShape_ne_concat_of_orderLimit]
  · exact blockShape_C09_concat_shard_safe T _ h
where
  blockShape_ne_concat_of_orderLimit (T : Nat) (b : Query) : blockShape T true b ≠ some .concat := by
    unfold blockShape
    split <;> (try split) <;> simp
  blockShape_C09_concat_shard_safe (T : Nat) (b : Query) (h : blockShape T false b = some .concat) : shardSafe T b = true := by
    unfold blockShape at h
    split at h
    · split at h <;> simp at h
    · split at h <;> simp at h
    · split at h
      · assumption
      · simp at h
    · simp at h

/-- **Concat**: a statement admitted with shape Concat over `T` is, over the whole table, the concatenation of its per-shard
    answers (any non-empty cluster; row order unspecified). -/
theorem C09_concat (fo : FloatOps) (fns : String → List Val → Except Err Val) (cat : List Table) (T : Nat)
    (q : Query) (hq : scatterShape T q = some .concat) (shards outs : List Table) (hne : shards ≠ [])
    (h : IQE.Bag.Forall2 (fun s o => run fo fns (cat.set T s) q [] [] = .ok o) shards outs) :
    ∃ r, run fo fns (cat.set T shards.flatten) q [] [] = .ok r ∧ r.Perm outs.flatten :=
  IQE.Dist.shard_additive_n fo fns cat T q (C09_concat_shard_safe T q hq) [] [] shards outs hne h

/-! ### C09_gather -/

open IQE.Layout in
/-- **Gather** (fragment `LayoutFrag`; see the header for what is missing): the statement over the gathered tables — each a
    permutation of the original (the shards of C13 concatenated in arrival order) — has the single-node answer up to row
    order, and succeeds iff the single-node run does. -/
theorem C09_gather_partial (fo : FloatOps) (fns : String → List Val → Except Err Val) (q : Query) (hq : LayoutFrag q)
    (cat gathered : List Table) (hc : SameBags cat gathered) (env : Env) :
    (∀ t, run fo fns cat q [] env = .ok t → ∃ t', run fo fns gathered q [] env = .ok t' ∧ t.Perm t') ∧
    (∀ t', run fo fns gathered q [] env = .ok t' → ∃ t, run fo fns cat q [] env = .ok t ∧ t'.Perm t) :=
  ⟨fun t h => run_layout fo fns hq cat gathered [] [] env hc .nil t h,
   fun t' h => run_layout fo fns hq gathered cat [] [] env hc.symm .nil t' h⟩

/-! ### C09_shape_exact -/

/-- the select block under ORDER BY / LIMIT of an admitted TopN statement is shard-safe -/
theorem C09_block_topn (T : Nat) (ol : Bool) (b : Query) (h : blockShape T ol b = some .topN) : shardSafe T b = true ∧ ol = true := by
  unfold blockShape at h
  split at h
  · split at h <;> simp at h
  · split at h <;> simp at h
  · split at h
    · rename_i hs
      split at h
      · rename_i hol; exact ⟨hs, hol⟩
      · simp at h
    · simp at h
  · simp at h

/-- **TopN is admitted only where `C09_topn` + `C09_shard_safe_additive` apply**: the statement is a select block under an
    ORDER BY whose keys are output columns and / or a LIMIT, and the block is shard-safe. -/
theorem C09_shape_exact_topn (T : Nat) (q : Query) (h : scatterShape T q = some .topN) :
    ∃ body, shardSafe T body = true ∧
      ((∃ s f keys, q = .limit s f (.sort keys body) ∧ keys.all keyIsOutputCol = true) ∨
       (∃ s f, q = .limit s f body) ∨ (∃ keys, q = .sort keys body ∧ keys.all keyIsOutputCol = true)) := by
  unfold scatterShape at h
  split at h
  · rename_i s f keys body
    split at h
    · rename_i hk; exact ⟨body, (C09_block_topn T true body h).1, .inl ⟨s, f, keys, rfl, hk⟩⟩
    · simp at h
  · rename_i s f body _
    exact ⟨body, (C09_block_topn T true body h).1, .inr (.inl ⟨s, f, rfl⟩)⟩
  · rename_i keys body
    split at h
    · rename_i hk; exact ⟨body, (C09_block_topn T true body h).1, .inr (.inr ⟨keys, rfl, hk⟩)⟩
    · simp at h
  · exact absurd (C09_block_topn T false _ h).2 (by simp)

/-- an admitted TwoPhase block: projection (no subquery) over optional HAVING (no subquery) over ONE aggregate whose
    aggregates are all non-DISTINCT and whose input is shard-safe -/
theorem C09_block_two_phase (T : Nat) (ol : Bool) (b : Query) (h : blockShape T ol b = some .twoPhase) :
    ∃ es keys aggs core, shardSafe T core = true ∧ (∀ a ∈ aggs, a.distinct = false) ∧
      (b = .project [] es (.agg keys aggs core) ∨ ∃ p, b = .project [] es (.filter [] p (.agg keys aggs core))) := by
  unfold blockShape at h
  split at h
  · rename_i subs es hsubs p keys aggs core
    split at h
    · rename_i hc
      simp only [Bool.and_eq_true, List.isEmpty_iff, List.all_eq_true] at hc
      obtain ⟨⟨⟨rfl, rfl⟩, hall⟩, hs⟩ := hc
      exact ⟨es, keys, aggs, core, hs, fun a ha => by simpa [decomposable] using hall a ha, .inr ⟨p, rfl⟩⟩
    · simp at h
  · rename_i subs es keys aggs core
    split at h
    · rename_i hc
      simp only [Bool.and_eq_true, List.isEmpty_iff, List.all_eq_true] at hc
      obtain ⟨⟨rfl, hall⟩, hs⟩ := hc
      exact ⟨es, keys, aggs, core, hs, fun a ha => by simpa [decomposable] using hall a ha, .inl rfl⟩
    · simp at h
  · split at h
    · split at h <;> simp at h
    · simp at h
  · simp at h

/-- **TwoPhase is admitted only where `C09_two_phase` + `C09_shard_safe_additive` apply** -/
theorem C09_shape_exact_two_phase (T : Nat) (q : Query) (h : scatterShape T q = some .twoPhase) :
    ∃ body es keys aggs core, shardSafe T core = true ∧ (∀ a ∈ aggs, a.distinct = false) ∧
      (body = .project [] es (.agg keys aggs core) ∨ ∃ p, body = .project [] es (.filter [] p (.agg keys aggs core))) ∧
      (q = body ∨ (∃ s f ks, q = .limit s f (.sort ks body)) ∨ (∃ s f, q = .limit s f body) ∨ (∃ ks, q = .sort ks body)) := by
  unfold scatterShape at h
  split at h
  · rename_i s f keys body
    split at h
    · obtain ⟨es, ks, aggs, core, h1, h2, h3⟩ := C09_block_two_phase T true body h
      exact ⟨body, es, ks, aggs, core, h1, h2, h3, .inr (.inl ⟨s, f, keys, rfl⟩)⟩
    · simp at h
  · rename_i s f body _
    obtain ⟨es, ks, aggs, core, h1, h2, h3⟩ := C09_block_two_phase T true body h
    exact ⟨body, es, ks, aggs, core, h1, h2, h3, .inr (.inr (.inl ⟨s, f, rfl⟩))⟩
  · rename_i keys body
    split at h
    · obtain ⟨es, ks, aggs, core, h1, h2, h3⟩ := C09_block_two_phase T true body h
      exact ⟨body, es, ks, aggs, core, h1, h2, h3, .inr (.inr (.inr ⟨keys, rfl⟩))⟩
    · simp at h
  · obtain ⟨es, ks, aggs, core, h1, h2, h3⟩ := C09_block_two_phase T false q h
    exact ⟨q, es, ks, aggs, core, h1, h2, h3, .inl rfl⟩

/-- **anything else ⇒ gather or refusal**: a DISTINCT aggregate (COUNT(DISTINCT …), SUM(DISTINCT …)) has no exact split -/
theorem C09_shape_exact_refuses_distinct (T : Nat) (ol : Bool) (es : List Expr) (keys : List Expr) (aggs : List AggCall)
    (core : Query) (a : AggCall) (ha : a ∈ aggs) (hd : a.distinct = true) :
    blockShape T ol (.project [] es (.agg keys aggs core)) = none := by
  have : aggs.all decomposable = false := by
    rw [List.all_eq_false]
    exact ⟨a, ha, by simp [decomposable, hd]⟩
  simp [blockShape, this]

/-- … and so has a statement whose only table sits on the NULL-supplying side of an outer join or the build side of a
    SEMI / ANTI join (kernel-checked on the counter-example plans above) -/
example : scatterShape 1 (.project [] [.col 0] (IQE.Dist.jq .left)) = none ∧
    scatterShape 1 (.project [] [.col 0] (IQE.Dist.jq .semi)) = none ∧
    scatterShape 1 (.project [] [.col 0] (IQE.Dist.jq .anti)) = none ∧
    scatterShape 0 (.project [] [.col 0] (IQE.Dist.jq .left)) = some .concat := by decide

end IQE.Props.C09
