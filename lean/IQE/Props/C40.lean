/-
  C40 — CLI output formats round-trip the result.
  Model: IQE.Engine.CliOutput (mirror of the CSV / JSON writers of src/cli/output.rs, strings as `List Char`).
  Readers (the oracle side): IQE.Spec.Csv (RFC 4180, LF or CRLF record ends) and IQE.Spec.JsonTable (RFC 8259
  lexical grammar, array of flat objects) — written independently of the writers.
  The theorems are about the writers with all deviation switches off (`Dev.fixed`, the writers in /repo since fix
  commit 18209de, which the correspondence runs are made against); the writers before that fix (`Dev.legacy`) are
  refuted, switch by switch, by the kernel-checked witnesses at the end.
  Helper lemmas: IQE/Lemmas/CliCsv.lean, IQE/Lemmas/CliJson.lean.
-/
import IQE.Lemmas.CliCsv
import IQE.Lemmas.CliJson
namespace IQE.Props.C40
open IQE.Engine.CliOutput IQE.Spec

/-- **CSV round trip.** For EVERY header (≥ 1 column name) and EVERY list of rows of ≥ 1 cell text each — any
    characters at all: commas, quotes, CR, LF, control and non-ASCII characters, empty texts — the RFC 4180
    reader returns exactly the header followed by the rows, cell text for cell text. -/
theorem C40_csv_roundtrip (header : List (List Char)) (rows : List (List (List Char)))
    (hh : header ≠ []) (hr : ∀ r ∈ rows, r ≠ []) :
    Csv.parse (renderCsvText Dev.fixed header rows) = some (header :: rows) := by
  unfold Csv.parse renderCsvText
  simp only [Dev.fixed, Bool.false_eq_true, if_false]
  have h1 := go_row header hh (rows.flatMap (fun row => joinWith [','] (row.map (csvField Dev.fixed)) ++ ['\n'])) [] [] .recStart (Or.inl rfl)
  simp only [Dev.fixed] at h1
  rw [h1]
  have h2 := go_rows rows hr [(header.reverse ++ []).reverse]
  simp only [Dev.fixed] at h2
  rw [h2]
  simp

/-- the writer over typed cells is the writer over their displayed texts (NULL is displayed as the empty text) -/
theorem C40_csv_cells (names : List (List Char)) (rows : List (List Cell)) :
    renderCsv Dev.fixed false names rows = renderCsvText Dev.fixed names (rows.map (·.map csvText)) := by
  have hv : ∀ c : Cell, csvValue Dev.fixed c = csvField Dev.fixed (csvText c) := by
    intro c; cases c <;> simp [csvValue, csvText, csvField]
  have hf : (fun c => csvValue Dev.fixed c) = (fun c => csvField Dev.fixed (csvText c)) := funext hv
  simp only [renderCsv, renderCsvText, csvHeader, List.flatMap_map, List.map_map, Function.comp_def, hf, Bool.false_eq_true, if_false]

/-- **JSON round trip.** For EVERY list of column names (any strings, duplicates allowed) and EVERY list of rows
    whose cells are NULL, strings (any characters), booleans, integers (canonical decimal text, any size) or
    non-finite floats, the JSON reader returns, row by row, exactly the name/value pairs: strings character for
    character, integers by value, NULL and NaN/±inf as `null`. -/
theorem C40_json_roundtrip (names : List (List Char)) (rows : List (List Cell))
    (hc : ∀ r ∈ rows, ∀ c ∈ r, cellOk c = true) :
    JsonTable.parse (renderJson Dev.fixed false names rows) =
      some (rows.map (fun row => (List.zip names row).map (fun it => (it.1, scalarOf it.2)))) :=
  parse_rendered names rows hc

/-! ### non-vacuity -/
section
private def s (x : String) : List Char := x.toList
example : Csv.parse (renderCsvText Dev.fixed [['a', ',', 'b'], ['c']] [[['x', '\r'], ['"']], [[], []]]) =
    some [[['a', ',', 'b'], ['c']], [['x', '\r'], ['"']], [[], []]] := by decide
example : renderCsvText Dev.fixed [['a', ',', 'b']] [[['x', '\r']]] = ['"', 'a', ',', 'b', '"', '\n', '"', 'x', '\r', '"', '\n'] := by decide
example : cellOk (.int ['-', '4', '2']) = true ∧ cellOk (.int ['0', '7']) = false ∧ cellOk (.float ['N', 'a', 'N']) = true ∧
    cellOk (.str ['\n']) = true := by decide
example : renderJson Dev.fixed false [['k', '"']] [[.str ['a', Char.ofNat 1, '\n']], [.int ['-', '7']]] =
    ['[', '\n', ' ', ' ', '{', '"', 'k', '\\', '"', '"', ':', ' ', '"', 'a', '\\', 'u', '0', '0', '0', '1', '\\', 'n', '"', '}', ',', '\n',
     ' ', ' ', '{', '"', 'k', '\\', '"', '"', ':', ' ', '-', '7', '}', '\n', ']', '\n'] := by decide
example : JsonTable.parse (renderJson Dev.fixed true [] []) = some [] := by decide
end

/-! ### the writers that were in /repo before the fix violate both statements (kernel-checked) -/

/-- C40-F1 (`csvCrUnquoted`): the one-cell row `x\r` is written `x\r\n`, which reads back as `x`. -/
example : ∃ header rows, header ≠ [] ∧ (∀ r ∈ rows, r ≠ []) ∧
    Csv.parse (renderCsvText { csvCrUnquoted := true } header rows) ≠ some (header :: rows) :=
  ⟨[['h']], [[['x', '\r']]], by decide, by decide, by decide⟩

/-- C40-F2 (`csvRawHeader`): the column name `a,b` (think `COALESCE(a, b)`) is written unquoted and reads back as two columns. -/
example : ∃ header rows, header ≠ [] ∧ (∀ r ∈ rows, r ≠ []) ∧
    Csv.parse (renderCsvText { csvRawHeader := true } header rows) ≠ some (header :: rows) :=
  ⟨[['a', ',', 'b']], [], by decide, by decide, by decide⟩

/-- C40-F3 (`jsonRawControl`): a string containing a line feed is written with the raw control character: not JSON. -/
example : ∃ names rows, (∀ r ∈ rows, ∀ c ∈ r, cellOk c = true) ∧
    JsonTable.parse (renderJson { jsonRawControl := true } false names rows) = none :=
  ⟨[['k']], [[.str ['a', '\n', 'b']]], by decide, by decide⟩

/-- C40-F4 (`jsonRawNames`): the column name `a"b` is written unescaped: not JSON. -/
example : ∃ names rows, (∀ r ∈ rows, ∀ c ∈ r, cellOk c = true) ∧
    JsonTable.parse (renderJson { jsonRawNames := true } false names rows) = none :=
  ⟨[['a', '"', 'b']], [[.null]], by decide, by decide⟩

/-- C40-F5 (`jsonRawNonFinite`): a NaN is written `NaN`: not JSON. -/
example : ∃ names rows, (∀ r ∈ rows, ∀ c ∈ r, cellOk c = true) ∧
    JsonTable.parse (renderJson { jsonRawNonFinite := true } false names rows) = none :=
  ⟨[['k']], [[.float ['N', 'a', 'N']]], by decide, by decide⟩

end IQE.Props.C40
