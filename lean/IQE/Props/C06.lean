/-
  C06 — Compiled predicates are indistinguishable from the interpreter.

  Model: IQE.Engine.Compiled (the `Compiler` of src/physical/compiled_expr.rs and `CompiledPredicate::evaluate`), over the
  TRANSLATED `Gen.Compiled.{Cmp, Cmp.apply, CHUNK, MAX_REGS}`; interpreter: IQE.Engine.Filter with the kernels of the current
  tree (`Filter.Dev.current`: Kleene AND/OR since fix e4c7c04; `evaluateNow` models the hand-over of NULL batches that came with it).
  `Dev.none` = intended compiled path (f64 comparison by total order, as the interpreter's Arrow kernels) = the current tree
  (`Dev.current`, since fix 7400978); `Dev.ieee` = the tree before it (IEEE operators), finding C06-F1, kept for the witnesses.
  All theorems hold for every float-arithmetic instance `fo`, every schema, every batch length.
-/
import IQE.Lemmas.Compiled
namespace IQE.Props.C06
open IQE IQE.Spec IQE.Engine IQE.Engine.Compiled
open IQE.Gen.Compiled (Cmp CHUNK MAX_REGS)

/-- The chunk / remainder packing round trip: for EVERY batch length (not only multiples of `CHUNK`) the bits appended by the
    `while start < n` loop — 1024-row chunks, `len/8` packed bytes plus the remainder loop, `append_packed_range(0..len)` — are the
    per-row bits in order. -/
theorem C06_pack_chunks (f : Row → Bool) (rows : List Row) : evalChunks f (rows.length + 1) rows = rows.map f :=
  pack_chunks f _ rows (Nat.lt_succ_self _)

/-- THE CURRENT TREE.  Whenever the compiler accepts a predicate, `CompiledPredicate::evaluate` (fused loop, and since fix e4c7c04
    the per-batch hand-over to the interpreter when the program has AND/OR and a referenced column has NULLs) never declines and its
    mask AND validity equal the interpreter's, row for row, on every batch that has the schema's column types — any length, any NULL
    pattern, any float values (NaN, ±0.0, ±inf) and any arithmetic instance; stated for the compiled path with total-order f64 comparison
    (`Dev.none` = `Dev.current`; the former IEEE deviation is finding C06-F1, witnesses below). -/
theorem C06_compile_correct (fo : FloatOps) (sch : List CTy) (e : PExpr) (p : Prog) (hc : compile sch e = some p)
    (rows : List Row) (hrows : ∀ r ∈ rows, conforms sch r = true) :
    ∃ vs, evaluateNow Dev.none fo p rows = some vs ∧
      vs.map Except.ok = rows.map (fun r => Filter.eval Filter.Dev.current fo r e.toExpr) := by
  obtain ⟨ok, _, _, _, _⟩ := compile_spec hc
  obtain ⟨hlog, hexpr⟩ := compile_logic hc
  unfold evaluateNow
  split
  · -- handed to the interpreter
    rw [hexpr]
    exact mapM_toOption _ rows (fun r hr => by
      obtain ⟨v, hv, _⟩ := boolOK_eval_ok Filter.Dev.current fo sch r (hrows r hr) e ok
      exact ⟨v, hv⟩)
  · rename_i hcond
    refine ⟨_, rfl, ?_⟩
    rw [evaluate_eq, List.map_map]
    apply List.map_congr_left
    intro r hr
    simp only [Function.comp]
    refine (row_now Filter.Dev.current fo hc r (hrows r hr) ?_).symm
    have hcond' : ¬ (p.hasLogic = true ∧ (rows.any fun r => !rowValid p r) = true) := by
      simpa [Bool.and_eq_true] using hcond
    by_cases hl : p.hasLogic = true
    · right
      cases hv : rowValid p r
      · exact absurd ⟨hl, List.any_eq_true.mpr ⟨r, hr, by simp [hv]⟩⟩ hcond'
      · rfl
    · left; simpa using hl

/-- The fused loop alone equals the null-strict interpreter (`boolean::and`/`or`, the tree before fix e4c7c04) on EVERY batch —
    the equivalence contract the module was written against. -/
theorem C06_fused_eq_strict_interpreter (fo : FloatOps) (sch : List CTy) (e : PExpr) (p : Prog) (hc : compile sch e = some p)
    (rows : List Row) (hrows : ∀ r ∈ rows, conforms sch r = true) :
    (evaluate Dev.none fo p rows).map Except.ok = rows.map (fun r => Filter.eval Filter.Dev.strict fo r e.toExpr) := by
  rw [evaluate_eq, List.map_map]
  apply List.map_congr_left
  intro r hr
  simp only [Function.comp]
  exact (compile_row fo hc r (hrows r hr)).symm

/-- Destination registers are fresh and below `MAX_REGS`: walking the program, every instruction writes exactly the next free
    register of its file and reads only registers allocated before — so `split_at_mut(dst)` never aliases an operand — and the
    output register exists. -/
theorem C06_regs_ssa (sch : List CTy) (e : PExpr) (p : Prog) (hc : compile sch e = some p) :
    ssaFrom p.prog 0 0 = true ∧ p.out < p.mRegs :=
  ⟨(compile_spec hc).2.2.1, (compile_spec hc).2.2.2.1⟩

/-- In the compiled subset, kernel-by-kernel validity propagation of the null-strict kernels equals the AND of the leaf validities:
    the strict interpreter's result is NULL exactly when some column referenced by the program is NULL at that row; and the same
    holds for the current (Kleene) interpreter on every program without AND/OR — the batches the fused loop still evaluates. -/
theorem C06_null_strict_validity (fo : FloatOps) (sch : List CTy) (e : PExpr) (p : Prog) (hc : compile sch e = some p)
    (r : Row) (hr : conforms sch r = true) :
    (Filter.eval Filter.Dev.strict fo r e.toExpr = .ok .null ↔ rowValid p r = false) ∧
    (p.hasLogic = false → (Filter.eval Filter.Dev.current fo r e.toExpr = .ok .null ↔ rowValid p r = false)) := by
  constructor
  · rw [compile_row fo hc r hr]
    cases rowValid p r <;> simp
  · intro hl
    rw [row_now Filter.Dev.current fo hc r hr (Or.inl hl)]
    cases rowValid p r <;> simp

/-- The f64 comparison of the compiled path differs from the interpreter's only through IEEE-vs-total order: on pairs without NaN
    that are not two zeros the `Cmp::apply` instance (translated) IS the total-order comparison. -/
theorem C06_ieee_eq_total_on_plain (c : Cmp) (x y : F64) (h : F64.Plain x y) : cmpF Dev.ieee c x y = cmpF Dev.none c x y := by
  have := F64.ieeeSat_eq_total h (binOpOf c)
  cases c <;> simpa [cmpF, Dev.ieee, Dev.none, Cmp.apply, binOpOf, F64.ieeeSat, Rs.Cmp.eq, Rs.Cmp.lt, Rs.Cmp.le, Rs.ne, Rs.gt, Rs.ge,
    F64.ne, F64.gt, F64.ge] using this

/-! ### Negation witnesses for the IEEE comparison the tree used before fix 7400978 (`Dev.ieee`): `f > 0.5` drops NaN, `f = 0.0` matches -0.0 (A.6) -/

def fo0 : FloatOps := { add := fun a _ => a, sub := fun a _ => a, mul := fun a _ => a, div := fun a _ => a, neg := fun a => a, ofInt := fun _ => ⟨0⟩, toInt := fun _ => none }
def half : F64 := ⟨0x3FE0000000000000⟩
def fGtHalf : PExpr := .bin .gt (.col 0) (.litF64 half)
def fEqZero : PExpr := .bin .eq (.col 0) (.litF64 F64.posZero)

theorem C06_witness_nan : ∃ p, compile [.f64] fGtHalf = some p ∧
    evaluateNow Dev.ieee fo0 p [[.f64 F64.nan]] = some [.bool false] ∧
    Filter.eval Filter.Dev.current fo0 [.f64 F64.nan] fGtHalf.toExpr = .ok (.bool true) :=
  ⟨_, rfl, by decide, by decide⟩

theorem C06_witness_negzero : ∃ p, compile [.f64] fEqZero = some p ∧
    evaluateNow Dev.ieee fo0 p [[.f64 F64.negZero]] = some [.bool true] ∧
    Filter.eval Filter.Dev.current fo0 [.f64 F64.negZero] fEqZero.toExpr = .ok (.bool false) :=
  ⟨_, rfl, by decide, by decide⟩

theorem C06_current_is_intended : Dev.current = Dev.none := rfl

/-! ### non-vacuity -/
example : (compile [.f64, .i64] (.bin .and fGtHalf (.between (.col 1) (.litI64 1) (.litI64 5) true))).isSome = true := by decide
example : (compile [.f64, .i64] (.bin .gt (.col 1) (.litF64 half))).isSome = false := by decide   -- mixed types: declined
example : conforms [.f64, .i64] [.null, .int 3] = true := by decide

end IQE.Props.C06
