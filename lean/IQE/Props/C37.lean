/-
  C37 — Vector encodings round-trip and the SIMD helpers compute what the equivalent Arrow kernels compute.
  Model: IQE.Engine.VecCodec (hand-written mirror of src/arrow_ffi/{array,codec}.rs). An array is a window
  `[off, off+len)` into buffers of (validity, physical value) slots; every theorem below holds for EVERY buffer
  content, offset and length (hypothesis `WF`: the window lies inside the buffers) and every element type.
  All theorems are about the model with every deviation switch off (`{}`), i.e. the intended algorithm; for each
  switch (= defect of the unchanged tree, known_findings C37-F1 … F8) a kernel-checked negation witness follows.
-/
import IQE.Lemmas.VecCodec
namespace IQE.Props.C37
open IQE.Engine.VecCodec

variable {α : Type} [Inhabited α]

/-! ### helpers = elementwise Arrow semantics, for every length and offset -/

/-- `count_simd` counts the valid entries. -/
theorem C37_count (a : Arr α) (h : a.WF) : countSimd a = arrowCount (logical a.slots) := by
  unfold countSimd
  have : (List.range a.len).foldl (fun c i => if !a.isNull i then c + 1 else c) 0
       = ((List.range a.len).map a.slot).foldl (fun c s => if s.1 then c + 1 else c) 0 := by
    rw [List.foldl_map]; simp [Arr.isNull]
  rw [this, range_map_slot a h, count_fold]; simp

/-- `sum_simd` (supported element types) is Arrow's `sum`: NULL without a valid value, else the fold of the valid values. -/
theorem C37_sum (ty : Ty) (hty : numSupported ty = true) (add : α → α → α) (zero : α) (a : Arr α) (h : a.WF) :
    sumSimd {} ty add zero a = .ok (arrowSum add zero (logical a.slots)) := by
  unfold sumSimd
  have : (List.range a.len).foldl
      (fun (acc : α × Bool) i => if !a.isNull i then (add acc.1 (a.value i), true) else acc) (zero, false)
       = ((List.range a.len).map a.slot).foldl (fun (acc : α × Bool) s => if s.1 then (add acc.1 s.2, true) else acc) (zero, false) := by
    rw [List.foldl_map]; simp [Arr.isNull, Arr.value]
  simp only [hty, this, range_map_slot a h, sum_fold, arrowSum]
  cases hh : (List.filterMap id (logical a.slots)).isEmpty <;> simp

/-- `filter_simd` (supported types, mask of the array's length) is Arrow's `filter`: selected NULLs are kept. -/
theorem C37_filter (ty : Ty) (hty : filterSupported ty = true) (a : Arr α) (h : a.WF) (mask : List Bool)
    (hl : a.len = mask.length) : filterSimd {} ty a mask = .ok (arrowFilter (logical a.slots) mask) := by
  unfold filterSimd
  simp only [hl, hty, bne_self_eq_false, Bool.false_eq_true, if_false, Bool.not_true]
  congr 1
  have e1 : (mask.zipIdx.filterMap fun (x : Bool × Nat) =>
        if x.1 then (if a.isNull x.2 then (if ({} : Dev).filterDropsNulls then none else some none) else some (some (a.value x.2))) else none)
      = (mask.zipIdx.map fun x => (x.1, opt (a.slot x.2))).filterMap (fun p => if p.1 then some p.2 else none) := by
    rw [List.filterMap_map]
    apply filterMap_congr_mem
    intro x _
    rcases hx : a.slot x.2 with ⟨v, y⟩
    cases v <;> simp [Arr.isNull, Arr.value, opt, hx]
  have e2 : (mask.zipIdx.map fun x => (x.1, opt (a.slot x.2))) = mask.zip (logical a.slots) := by
    rw [zipIdx_map_range mask (fun p i => (p, opt (a.slot i))), ← hl, ← range_map_slot a h, logical, List.map_map]
    apply List.ext_getElem
    · simp
    · intro i h1 h2; simp
  exact e1.trans (by rw [e2, filter_zip])

/-- the value loops of `compare_*` compute the operator pointwise on the physical values -/
theorem C37_compare_values (c : Cmp α) (le : α → α → Bool) (hle : ∀ x y, le x y = (c.lt x y || c.eq x y))
    (op : CmpOp) (a b : Arr α) (hl : a.len = b.len) :
    compareValues c op a b = (List.range a.len).map fun i => cmpSem c.eq c.lt le op (a.value i) (b.value i) := by
  cases op <;> simp only [compareValues, compareEq, compareLt, compareNe, compareLe, cmpSem, ← hl]
  · exact map_range_getD a.len (fun i => c.eq (a.value i) (b.value i)) false (fun _ v => !v)
  · rw [map_range_getD a.len (fun i => c.eq (a.value i) (b.value i)) false
        (fun i v => ((List.range a.len).map fun i => c.lt (a.value i) (b.value i)).getD i false || v)]
    rw [map_range_getD a.len (fun i => c.lt (a.value i) (b.value i)) false (fun i v => v || c.eq (a.value i) (b.value i))]
    simp [hle]
  · rw [map_range_getD a.len (fun i => c.eq (b.value i) (a.value i)) false
        (fun i v => ((List.range a.len).map fun i => c.lt (b.value i) (a.value i)).getD i false || v)]
    rw [map_range_getD a.len (fun i => c.lt (b.value i) (a.value i)) false (fun i v => v || c.eq (b.value i) (a.value i))]
    simp [hle]

/-- `compare_simd` (supported type, equal lengths) is Arrow's `cmp::{eq,neq,lt,lt_eq,gt,gt_eq}` for the element order
    `(eq, lt, le)`: NULL where either side is NULL, the operator's value elsewhere. -/
theorem C37_compare (ty : Ty) (hty : numSupported ty = true) (c : Cmp α) (le : α → α → Bool)
    (hle : ∀ x y, le x y = (c.lt x y || c.eq x y)) (op : CmpOp) (a b : Arr α) (ha : a.WF) (hb : b.WF)
    (hl : a.len = b.len) :
    compareSimd {} ty ty c op a b = .ok (arrowBinary (cmpSem c.eq c.lt le op) (logical a.slots) (logical b.slots)) := by
  unfold compareSimd
  simp only [hl, hty, bne_self_eq_false, Bool.false_eq_true, if_false, Bool.not_true]
  congr 1
  rw [C37_compare_values c le hle op a b hl]
  rw [zipIdx_map_range _ (fun v i => if a.isNull i || b.isNull i then none else some v)]
  rw [← range_map_slot a ha, ← range_map_slot b hb, ← hl, logical, logical, List.map_map, List.map_map, arrowBinary,
      zipWith_map_same]
  apply List.ext_getElem
  · simp
  · intro i h1 h2
    rcases hx : a.slot i with ⟨v, x⟩
    rcases hy : b.slot i with ⟨w, y⟩
    cases v <;> cases w <;> simp [Arr.isNull, Arr.value, opt, hx, hy]

/-- `add_simd` / `multiply_simd` (`f` the element operation; supported type, equal lengths) are Arrow's `numeric::add/mul`:
    validity propagates, valid pairs are combined by `f`. -/
theorem C37_arith (ty : Ty) (hty : numSupported ty = true) (f : α → α → α) (a b : Arr α) (ha : a.WF) (hb : b.WF)
    (hl : a.len = b.len) :
    arithSimd {} ty ty f a b = .ok (arrowBinary f (logical a.slots) (logical b.slots)) := by
  unfold arithSimd
  simp only [hl, hty, bne_self_eq_false, Bool.false_eq_true, if_false, Bool.not_true, Bool.and_false, Nat.lt_irrefl,
    gt_iff_lt, Bool.not_false, Bool.true_and]
  congr 1
  rw [← range_map_slot a ha, ← range_map_slot b hb, ← hl, logical, logical, List.map_map, List.map_map, arrowBinary,
      zipWith_map_same]
  apply List.map_congr_left
  intro i _
  rcases hx : a.slot i with ⟨v, x⟩
  rcases hy : b.slot i with ⟨w, y⟩
  cases v <;> cases w <;> simp [Arr.isNull, Arr.value, opt, hx, hy]

theorem C37_add (ty : Ty) (hty : numSupported ty = true) (add : α → α → α) (a b : Arr α) (ha : a.WF) (hb : b.WF)
    (hl : a.len = b.len) : arithSimd {} ty ty add a b = .ok (arrowBinary add (logical a.slots) (logical b.slots)) :=
  C37_arith ty hty add a b ha hb hl

theorem C37_multiply (ty : Ty) (hty : numSupported ty = true) (mul : α → α → α) (a b : Arr α) (ha : a.WF) (hb : b.WF)
    (hl : a.len = b.len) : arithSimd {} ty ty mul a b = .ok (arrowBinary mul (logical a.slots) (logical b.slots)) :=
  C37_arith ty hty mul a b ha hb hl

/-- the hypothesis of `C37_compare` holds for the two element orders the driver instantiates: `i64` and f64 totalOrder -/
theorem C37_compare_orders :
    (∀ x y : Int, decide (x ≤ y) = (decide (x < y) || decide (x = y))) ∧
    (∀ x y : IQE.F64, IQE.F64.totalLe x y = (IQE.F64.totalLt x y || IQE.F64.totalEq x y)) := by
  refine ⟨fun x y => ?_, fun x y => ?_⟩
  · by_cases h1 : x < y <;> by_cases h2 : x = y <;> simp [h1, h2] <;> omega
  · unfold IQE.F64.totalLe IQE.F64.totalLt IQE.F64.totalEq
    by_cases h1 : x.totalKey < y.totalKey <;> by_cases h2 : x.totalKey = y.totalKey <;> simp [h1, h2] <;> omega

/-! ### encode_optimal / decode -/

/-- `decode(encode_optimal(a))` is logically equal to `a` (same length, same validity, same valid values) for EVERY
    array of every type, and `encode_optimal` neither errors nor panics. -/
theorem C37_roundtrip [DecidableEq α] (ty : Ty) (zero : α) (s : List (Slot α)) :
    ∃ e, encodeOptimal {} ty zero s = .ok e ∧ logical (decode e) = logical s := by
  unfold encodeOptimal
  by_cases h0 : (s.length == 0) = true
  · exact ⟨.flat s, by simp [h0], rfl⟩
  by_cases hns : scalarSupported ty = false
  · exact ⟨.flat s, by simp [h0, hns], rfl⟩
  have hsup : scalarSupported ty = true := by simpa using hns
  by_cases hc : isConstant {} ty s = true
  · -- Constant: every slot valid and equal to the first
    cases s with
    | nil => simp at h0
    | cons y rest =>
      rcases y with ⟨v0, x0⟩
      simp only [isConstant, Bool.false_or, Bool.and_eq_true, List.all_eq_true, Bool.or_eq_true, decide_eq_true_eq] at hc
      obtain ⟨hv, heq⟩ := hc
      have hv0 : v0 = true := hv (v0, x0) (by simp)
      subst hv0
      have hall : ∀ x ∈ (true, x0) :: rest, x.1 = true ∧ x.2 = x0 := by
        intro x hx
        refine ⟨hv x hx, ?_⟩
        rcases heq with hlen | hval
        · have : rest = [] := by
            cases rest with
            | nil => rfl
            | cons _ _ => simp at hlen
          subst this; simp at hx; simp [hx]
        · cases ty <;> simp only [valuesAllEqual, Bool.false_eq_true, List.all_eq_true] at hval
          · have := hval x hx
            simpa using this
          · have h1 := hv x hx
            have h2 := hval x hx
            simp [opt, h1] at h2
            exact h2
      refine ⟨.const (List.replicate ((true, x0) :: rest).length (true, x0)), ?_, ?_⟩
      · cases ty <;> simp_all [encodeConstant, scalarSupported, isConstant, valuesAllEqual]
      · simp only [decode]
        rw [logical_replicate, logical_const _ x0 hall]
  have hc' : isConstant {} ty s = false := by simpa using hc
  by_cases hr : rleChosen ty s = true
  · refine ⟨.rle s, ?_, rfl⟩
    have hne : (ty == Ty.int32) = false := by cases ty <;> simp_all [scalarSupported]
    simp [h0, hsup, hc', hr, encodeRle, hne]
  by_cases hd : dictChosen ty s = true
  · refine ⟨.dict (List.range s.length) s, by simp [h0, hsup, hc', hr, hd], ?_⟩
    simp only [decode]
    rw [range_map_getD]
  · exact ⟨.flat s, by simp [h0, hsup, hc', hr, hd], rfl⟩

/-! ### negation witnesses: each deviation switch (= behaviour of the unchanged tree) breaks the property -/
section witnesses
open Ty

/-- C37-F1: `[1, NULL(1), 1]` is encoded Constant and decodes to three valid 1s -/
example : roundtrip { constIgnoresValidity := true } int64 (0 : Int) [(true, 1), (false, 1), (true, 1)]
    = .ok [(true, 1), (true, 1), (true, 1)] := by decide
example : roundtrip {} int64 (0 : Int) [(true, 1), (false, 1), (true, 1)] = .ok [(true, 1), (false, 1), (true, 1)] := by decide
/-- C37-F2: a one-element Boolean array panics; a 7-element Int32 array errors -/
example : roundtrip { constIgnoresValidity := true, encodeUnsupportedFails := true } bool false [(true, true)] = .panic := by decide
example : roundtrip { encodeUnsupportedFails := true } int32 (0 : Int)
    [(true, 1), (true, 2), (true, 3), (true, 4), (true, 5), (true, 6), (true, 7)] = .err .unsupported := by decide
/-- C37-F3: the selected NULL disappears -/
example : filterSimd { filterDropsNulls := true } int64 (⟨[(true, 5), (false, 0)], 0, 2⟩ : Arr Int) [true, true] = .ok [some 5] := by decide
example : filterSimd {} int64 (⟨[(true, 5), (false, 0)], 0, 2⟩ : Arr Int) [true, true] = .ok [some 5, none] := by decide
/-- C37-F4: NULL = 1 evaluates to TRUE instead of NULL -/
example : compareSimd { compareIgnoresValidity := true } int64 int64 ⟨fun (x y : Int) => decide (x = y), fun x y => decide (x < y)⟩ .eq
    ⟨[(false, 1)], 0, 1⟩ ⟨[(true, 1)], 0, 1⟩ = .ok [some true] := by decide
example : compareSimd {} int64 int64 ⟨fun (x y : Int) => decide (x = y), fun x y => decide (x < y)⟩ .eq
    ⟨[(false, 1)], 0, 1⟩ ⟨[(true, 1)], 0, 1⟩ = .ok [none] := by decide
/-- C37-F5: NaN = NaN is TRUE under totalOrder (Arrow), FALSE under IEEE (the code) -/
example : IQE.F64.totalEq IQE.F64.nan IQE.F64.nan = true ∧ IQE.F64.eq IQE.F64.nan IQE.F64.nan = false := by decide
/-- C37-F6: NULL + 2 evaluates to 3 instead of NULL -/
example : arithSimd { arithIgnoresValidity := true } int64 int64 (fun (x y : Int) => x + y) ⟨[(false, 1)], 0, 1⟩ ⟨[(true, 2)], 0, 1⟩
    = .ok [some 3] := by decide
/-- C37-F7: operands of different lengths are accepted (truncated) or index out of bounds -/
example : arithSimd { arithNoLenCheck := true } int64 int64 (fun (x y : Int) => x + y) ⟨[(true, 1)], 0, 1⟩ ⟨[(true, 2), (true, 3)], 0, 2⟩
    = .ok [some 3] := by decide
example : arithSimd { arithNoLenCheck := true } int64 int64 (fun (x y : Int) => x + y) ⟨[(true, 2), (true, 3)], 0, 2⟩ ⟨[(true, 1)], 0, 1⟩
    = .panic := by decide
example : arithSimd {} int64 int64 (fun (x y : Int) => x + y) ⟨[(true, 1)], 0, 1⟩ ⟨[(true, 2), (true, 3)], 0, 2⟩ = .err .len := by decide
/-- C37-F8: the sum of `[NULL]` is 0 instead of NULL -/
example : sumSimd { sumNoValidIsZero := true } int64 (fun (x y : Int) => x + y) 0 ⟨[(false, 7)], 0, 1⟩ = .ok (some 0) := by decide
example : sumSimd {} int64 (fun (x y : Int) => x + y) 0 ⟨[(false, 7)], 0, 1⟩ = .ok none := by decide

-- non-vacuity: a window at a non-zero offset, all paths of encode_optimal
example : (⟨[(true, 9), (true, 1), (false, 2), (true, 3), (true, 9)], 1, 3⟩ : Arr Int).slots = [(true, 1), (false, 2), (true, 3)] := by decide
example : countSimd (⟨[(true, 9), (true, 1), (false, 2), (true, 3), (true, 9)], 1, 3⟩ : Arr Int) = 2 := by decide
example : roundtrip {} int64 (0 : Int) [(true, 4), (true, 4), (true, 4)] = .ok [(true, 4), (true, 4), (true, 4)] := by decide
end witnesses

end IQE.Props.C37
