/-
  C18 — Parquet table statistics are sound bounds.
  Model: IQE.Engine.StatsFold (hand-written mirror of `ParquetTable::compute_statistics`).
  A chunk is (rows, nullCount?, (min,max)?, values); `values` is the real content, never read by the fold.
  Hypotheses are about the *footers only*: what a chunk reports is true of that chunk
  (`ReportsSound`). Nothing is assumed about which chunks report.

  Theorems for the intended algorithm (`dev.statslessKeepsMinMax = false`) hold for EVERY table
  (any number of files/row groups/chunks, any mix of reporting and silent chunks); the tree before `fix:` 35af6bd
  ran with the switches on (`Dev.preFix`) and is refuted by `C18_statsless_keeps_minmax_unsound` (finding C18-F1),
  `C18_ndv_range_overflow_panics` (finding C18-F2) and `C18_unsigned_as_signed_unsound` (finding C18-F3).
-/
import IQE.Lemmas.StatsFold
namespace IQE.Props.C18
open IQE.Engine.StatsFold

/-- what a chunk's footer says is true of the chunk's content -/
def ReportsSound (c : Chunk) : Prop :=
  c.rows = c.values.length ∧
  (∀ k, c.nullCount = some k → k = nulls c.values) ∧
  (∀ lo hi, c.eff {} = some (lo, hi) → ∀ v, some v ∈ c.values → lo ≤ v ∧ v ≤ hi)

/-- every row group holds exactly one chunk of column `name`, as long as the row group -/
def ColumnPresent (t : Table) (name : String) : Prop :=
  ∀ rg ∈ t, ∃ c, (rg.cols.filter (fun p => p.1 == name)).map (·.2) = [c] ∧ c.values.length = rg.rows

/-- Row count: the reported count is the number of rows of every (fully present) column — for both the
    intended and the current algorithm. -/
theorem C18_rows_exact (dev : Dev) (t : Table) (ts : TableStats) (h : stats dev t = .ok ts)
    (name : String) (hp : ColumnPresent t name) : ts.rowCount = (valuesOf t name).length := by
  have hrc : ts.rowCount = totalRows t := by
    unfold stats at h; split at h
    · injection h with h; subst h; rfl
    · cases h
  rw [hrc]
  clear h hrc
  induction t with
  | nil => simp [totalRows, valuesOf, chunksOf]
  | cons rg t ih =>
    obtain ⟨c, hc, hlen⟩ := hp rg List.mem_cons_self
    have ih' := ih (fun rg' h' => hp rg' (List.mem_cons_of_mem _ h'))
    simp only [totalRows, valuesOf, chunksOf, List.map_cons, List.sum_cons, List.flatMap_cons, List.flatMap_append,
      List.length_append] at ih' ⊢
    rw [hc]
    simp only [List.flatMap_cons, List.flatMap_nil, List.append_nil]
    omega

/-- Null counts are exact when present (column level): a published `some n` is the true number of NULLs,
    whenever each *reported* chunk count is true. Holds with every switch setting. -/
theorem C18_nulls_exact (dev : Dev) (cs : List Chunk)
    (hs : ∀ c ∈ cs, ∀ k, c.nullCount = some k → k = nulls c.values)
    (n : Nat) (h : (foldCol dev cs).nullCount = some n) : n = nulls (cs.flatMap (·.values)) := by
  obtain ⟨n0, h0, hall, hn⟩ := fold_nullCount_some dev cs {} n h
  have : n0 = 0 := by cases h0; rfl
  rw [hn, this, sum_reported_eq_nulls cs hs hall]; omega

/-- … and it is present exactly when every chunk reports one (else `none`: never a guess). -/
theorem C18_nulls_present_iff (dev : Dev) (cs : List Chunk) :
    (foldCol dev cs).nullCount.isSome ↔ ∀ c ∈ cs, c.nullCount.isSome := by
  constructor
  · intro h
    obtain ⟨n, hn⟩ := Option.isSome_iff_exists.1 h
    obtain ⟨_, _, hall, _⟩ := fold_nullCount_some dev cs {} n hn
    exact hall
  · intro h
    have := fold_nullCount_all dev cs {} 0 rfl h
    unfold foldCol; rw [this]; rfl

/-- Table level: the published null count of a column is its true number of NULLs. -/
theorem C18_nulls_exact_table (dev : Dev) (t : Table) (ts : TableStats) (h : stats dev t = .ok ts)
    (name : String) (s : ColStats) (hm : (name, s) ∈ ts.cols)
    (hs : ∀ c ∈ chunksOf t name, ReportsSound c) (n : Nat) (hn : s.nullCount = some n) :
    n = nulls (valuesOf t name) := by
  unfold stats at h
  split at h
  · rename_i l hc
    injection h with h; subst h
    have hmem := collect_mem _ l hc name s hm
    obtain ⟨n', _, heq⟩ := List.mem_map.1 hmem
    injection heq with h1 h2
    subst h1
    have hf := finishCol_fields _ _ _ _ h2
    rw [hf.2.2] at hn
    exact C18_nulls_exact dev _ (fun c hc k hk => (hs c hc).2.1 k hk) n hn
  · cases h

/-- Min/max are sound bounds (column level, intended algorithm): whatever mix of reporting, silent,
    all-NULL and empty chunks, if min and max are published then every non-NULL value lies within. -/
theorem C18_minmax_sound (dev : Dev) (hdev : dev.statslessKeepsMinMax = false) (hdev3 : dev.unsignedAsSigned = false) (cs : List Chunk)
    (hs : ∀ c ∈ cs, ReportsSound c) (total : Nat) (s : ColStats)
    (h : finishCol dev total (foldCol dev cs) = .ok s) (lo hi : Int) (hlo : s.min = some lo) (hhi : s.max = some hi) :
    ∀ v, some v ∈ cs.flatMap (·.values) → lo ≤ v ∧ v ≤ hi := by
  intro v hv
  obtain ⟨hmin, hmax, _⟩ := finishCol_fields _ _ _ _ h
  have hvoid : (foldCol dev cs).void = false := by
    cases hvd : (foldCol dev cs).void with
    | false => rfl
    | true => rw [hvd] at hmin; simp at hmin; rw [hmin] at hlo; cases hlo
  rw [hvoid] at hmin hmax
  simp only [Bool.false_eq_true, if_false] at hmin hmax
  obtain ⟨c, hc, hvc⟩ := List.mem_flatMap.1 hv
  have hcov := fold_covers dev hdev cs {} hvoid c hc
  obtain ⟨hrows, hnc, hmm⟩ := hs c hc
  cases hcm : c.eff dev with
  | some p =>
    obtain ⟨l, u⟩ := p
    obtain ⟨m, M, h1, h2, h3, h4⟩ := hcov.1 l u hcm
    rw [eff_eq dev hdev3] at hcm
    have e1 : m = lo := by
      have : (foldCol dev cs).min = some m := h1
      rw [← hmin, hlo] at this; injection this with this; exact this.symm
    have e2 : M = hi := by
      have : (foldCol dev cs).max = some M := h2
      rw [← hmax, hhi] at this; injection this with this; exact this.symm
    have := hmm l u hcm v hvc
    omega
  | none =>
    have hall := hcov.2 hcm
    unfold Chunk.allNull at hall
    simp only [Bool.or_eq_true, beq_iff_eq] at hall
    rcases hall with h0 | h1
    · have : c.values = [] := by
        have : c.values.length = 0 := by omega
        exact List.length_eq_zero_iff.1 this
      rw [this] at hvc; cases hvc
    · have hk := hnc c.rows h1
      exact absurd hvc (all_none_of_nulls_eq_length c.values (by omega) v)

/-- Table level. -/
theorem C18_minmax_sound_table (dev : Dev) (hdev : dev.statslessKeepsMinMax = false) (hdev3 : dev.unsignedAsSigned = false) (t : Table) (ts : TableStats)
    (h : stats dev t = .ok ts) (name : String) (s : ColStats) (hm : (name, s) ∈ ts.cols)
    (hs : ∀ c ∈ chunksOf t name, ReportsSound c) (lo hi : Int) (hlo : s.min = some lo) (hhi : s.max = some hi) :
    ∀ v, some v ∈ valuesOf t name → lo ≤ v ∧ v ≤ hi := by
  unfold stats at h
  split at h
  · rename_i l hc
    injection h with h; subst h
    have hmem := collect_mem _ l hc name s hm
    obtain ⟨n', _, heq⟩ := List.mem_map.1 hmem
    injection heq with h1 h2
    subst h1
    exact C18_minmax_sound dev hdev hdev3 _ hs _ s h2 lo hi hlo hhi
  · cases h

/-- Not vacuous: when every chunk reports, the bounds are published and they are attained envelope
    bounds of the reports (`min` ≤ every reported lo, `max` ≥ every reported hi). -/
theorem C18_minmax_published (dev : Dev) (c0 : Chunk) (cs : List Chunk)
    (hall : ∀ c ∈ c0 :: cs, (c.eff dev).isSome) :
    (foldCol dev (c0 :: cs)).void = false ∧ (foldCol dev (c0 :: cs)).min.isSome ∧ (foldCol dev (c0 :: cs)).max.isSome := by
  have hv : ∀ (l : List Chunk) (a : Acc), (∀ c ∈ l, (c.eff dev).isSome) → (l.foldl (step dev) a).void = a.void := by
    intro l
    induction l with
    | nil => intro a _; rfl
    | cons c l ih =>
      intro a h
      simp only [List.foldl_cons]
      rw [ih _ (fun c' hc' => h c' (List.mem_cons_of_mem _ hc'))]
      obtain ⟨p, hp⟩ := Option.isSome_iff_exists.1 (h c List.mem_cons_self)
      unfold step; rw [hp]
  obtain ⟨p, hp⟩ := Option.isSome_iff_exists.1 (hall c0 List.mem_cons_self)
  obtain ⟨l0, h0⟩ := p
  refine ⟨hv _ _ hall, ?_, ?_⟩
  · have h1 : (step dev {} c0).min = some (optMin none l0) := by unfold step; rw [hp]
    obtain ⟨m, hm, _⟩ := fold_min_mono dev cs _ _ h1
    unfold foldCol; simp only [List.foldl_cons]; rw [hm]; rfl
  · have h1 : (step dev {} c0).max = some (optMax none h0) := by unfold step; rw [hp]
    obtain ⟨m, hm, _⟩ := fold_max_mono dev cs _ _ h1
    unfold foldCol; simp only [List.foldl_cons]; rw [hm]; rfl

/-- The estimate `ndv_est` can never make `statistics()` fail in the intended algorithm … -/
theorem C18_stats_total (dev : Dev) (hdev : dev.ndvRangeOverflow = false) (t : Table) : stats dev t ≠ .panic := by
  unfold stats
  split
  · simp
  · rename_i h
    refine absurd h (collect_no_panic _ ?_)
    intro p hp
    obtain ⟨n, _, rfl⟩ := List.mem_map.1 hp
    exact finishCol_no_panic dev hdev _ _

/-- … and never exceeds the number of non-NULL rows it is capped by (it is only an estimate). -/
theorem C18_ndv_le_rows (dev : Dev) (nn : Nat) (b : Bool) (mn mx : Option Int) (k : Nat)
    (h : ndvOf dev nn b mn mx = .ok (some k)) : k ≤ nn := by
  unfold ndvOf at h
  repeat' split at h
  all_goals (cases h; try exact Nat.min_le_left _ _)

/-- NEGATION WITNESS for the unchanged tree (finding C18-F1, DESIGN A.11): with `statslessKeepsMinMax` on,
    a table whose first file reports k ∈ [1,3] and whose second file was written without statistics and holds
    100, 200, −5 publishes min 1 / max 3 although every report is true. -/
theorem C18_statsless_keeps_minmax_unsound :
    ∃ (cs : List Chunk) (s : ColStats), (∀ c ∈ cs, ReportsSound c) ∧
      finishCol Dev.preFix 6 (foldCol Dev.preFix cs) = .ok s ∧ s.min = some 1 ∧ s.max = some 3 ∧
      some (-5) ∈ cs.flatMap (·.values) := by
  refine ⟨[⟨3, some 0, some (1, 3), [some 1, some 2, some 3], 0⟩, ⟨3, none, none, [some 100, some 200, some (-5)], 0⟩],
          ⟨some 1, some 3, none, some 3, true⟩, ?_, by decide, rfl, rfl, by decide⟩
  intro c hc
  simp only [List.mem_cons, List.not_mem_nil, or_false] at hc
  rcases hc with rfl | rfl
  · refine ⟨rfl, ?_, ?_⟩
    · intro k hk; injection hk with hk; subst hk; decide
    · intro lo hi h v hv
      simp [Chunk.eff] at h
      obtain ⟨h1, h2⟩ := h; subst h1; subst h2
      simp only [List.mem_cons, Option.some.injEq, List.not_mem_nil, or_false] at hv
      omega
  · refine ⟨rfl, ?_, ?_⟩
    · intro k hk; cases hk
    · intro lo hi h; simp [Chunk.eff] at h

/-- NEGATION WITNESS (finding C18-F2): with `ndvRangeOverflow` on, a column that reports [−1, i64::MAX]
    makes `statistics()` panic (`max - min` overflows `i64`). -/
theorem C18_ndv_range_overflow_panics :
    ∃ t : Table, stats Dev.preFix t = .panic ∧ stats {} t ≠ .panic := by
  refine ⟨[⟨2, [("k", ⟨2, some 0, some (-1, 9223372036854775807), [some (-1), some 9223372036854775807], 0⟩)]⟩], ?_, ?_⟩
  · decide
  · exact C18_stats_total {} rfl _

/-- NEGATION WITNESS (finding C18-F3): a UInt32 chunk holding 0 and 4294967295 stores (0, 0xFFFFFFFF); read through the
    signed arm it is published as min 0 / max −1 although the decoded report [0, 4294967295] is true. -/
theorem C18_unsigned_as_signed_unsound :
    ∃ (cs : List Chunk) (s : ColStats), (∀ c ∈ cs, ReportsSound c) ∧
      finishCol Dev.preFix 2 (foldCol Dev.preFix cs) = .ok s ∧ s.min = some 0 ∧ s.max = some (-1) ∧
      some 4294967295 ∈ cs.flatMap (·.values) ∧
      (∃ s', finishCol {} 2 (foldCol {} cs) = .ok s' ∧ s'.min = some 0 ∧ s'.max = some 4294967295) := by
  refine ⟨[⟨2, some 0, some (0, -1), [some 0, some 4294967295], 32⟩], ⟨some 0, some (-1), some 0, none, true⟩, ?_, by decide, rfl, rfl,
          by decide, ⟨⟨some 0, some 4294967295, some 0, some 2, true⟩, by decide, rfl, rfl⟩⟩
  intro c hc
  simp only [List.mem_cons, List.not_mem_nil, or_false] at hc
  subst hc
  refine ⟨rfl, ?_, ?_⟩
  · intro k hk; injection hk with hk; subst hk; decide
  · intro lo hi h v hv
    have he : (Chunk.eff {} ⟨2, some 0, some (0, -1), [some 0, some 4294967295], 32⟩) = some (0, 4294967295) := by decide
    rw [he] at h
    injection h with h; injection h with h1 h2; subst h1; subst h2
    simp only [List.mem_cons, Option.some.injEq, List.not_mem_nil, or_false] at hv
    omega

-- non-vacuity: the intended algorithm on the F1 witness voids the bounds, and publishes them when every chunk reports
example : (foldCol {} [⟨3, some 0, some (1, 3), [some 1, some 2, some 3], 0⟩, ⟨3, none, none, [some 100, some 200, some (-5)], 0⟩]).void = true := by decide
example : finishCol {} 6 (foldCol {} [⟨3, some 0, some (1, 3), [], 0⟩, ⟨3, some 1, some (-5, 200), [], 0⟩])
    = .ok ⟨some (-5), some 200, some 1, some 5, true⟩ := by decide
example : finishCol {} 6 (foldCol {} [⟨3, some 0, some (1, 3), [], 0⟩, ⟨3, some 3, none, [], 0⟩])
    = .ok ⟨some 1, some 3, some 3, some 3, true⟩ := by decide
-- a UInt64 chunk whose maximum does not fit i64 counts as not reporting: the bounds are withheld
example : (foldCol {} [⟨2, some 0, some (5, -1), [some 5, some 18446744073709551615], 64⟩]).void = true := by decide

end IQE.Props.C18
