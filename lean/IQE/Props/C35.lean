/-
  C35 — the SQL front door decides and encodes consistently.
  Property theorems only.  Model: IQE.Engine.FrontDoor (`route`, `respond`, `sqlHandler`, `fragmentHandler`).
  The mode vocabulary theorems are stated over the translator-generated `IQE.Gen.FrontDoor.parse_value`
  (the `match v` of `DistMode::parse`, server.rs) and `parse_mode` (flight.rs).

  "Encodes exactly the rows the engine returned" is not a theorem: the three encoders are arrow-rs writers
  (trusted base); it is decided on every run by decoding the real HTTP bodies (see checks/reg/C35.py).
-/
import IQE.Engine.FrontDoor
import IQE.Gen.FrontDoor
namespace IQE.Props.C35
open IQE.Engine.FrontDoor

/-! ## readiness -/

/-- `/sql` on a node whose tables are not loaded never answers: with a well-formed query string it is 503
    (before the body is even read, so also for oversized / non-UTF-8 / empty bodies), otherwise 400. -/
theorem C35_not_ready_503 (r : SqlRequest) (membersUp : Nat) (planOk : Bool) (lo d : Exec) :
    (r.formatOk = true → r.mode.isSome = true → sqlHandler r false membersUp planOk lo d = .notReady) ∧
    (sqlHandler r false membersUp planOk lo d).status ≠ 200 := by
  obtain ⟨fo, mode, big, utf, emp⟩ := r
  cases fo <;> cases mode <;> simp [sqlHandler, Response.status]

/-- `/fragment` on a node whose tables are not loaded is 503 whatever the request body is -/
theorem C35_not_ready_503_fragment (big jsonOk : Bool) (out : Exec) :
    fragmentHandler false big jsonOk out = .notReady := by
  simp [fragmentHandler]

/-- a not-ready node never reports success through `execute_statement` either (the Flight door's path) -/
theorem C35_not_ready_503_statement (mode : Mode) (m : Nat) (p : Bool) (lo d : Exec) :
    respond false mode m p lo d = .notReady := by
  simp [respond]

/-! ## the distribute-or-local decision -/

/-- Auto distributes iff at least two members are up AND the exact scatter plan exists;
    otherwise it answers locally WITH a reason. -/
theorem C35_auto (membersUp : Nat) (planOk : Bool) :
    ((route .auto membersUp planOk).1 = true ↔ (2 ≤ membersUp ∧ planOk = true)) ∧
    ((route .auto membersUp planOk).1 = false → (route .auto membersUp planOk).2.isSome = true) ∧
    ((route .auto membersUp planOk).1 = true → (route .auto membersUp planOk).2 = none) := by
  unfold route
  by_cases h : membersUp < 2
  · simp [h]; omega
  · cases planOk <;> simp [h] <;> omega

/-- which reason: one member ⇒ `oneMember`, else the planner's refusal -/
theorem C35_auto_reason (membersUp : Nat) (planOk : Bool) :
    (membersUp < 2 → route .auto membersUp planOk = (false, some .oneMember)) ∧
    (2 ≤ membersUp → planOk = false → route .auto membersUp planOk = (false, some .planRefused)) := by
  unfold route
  constructor
  · intro h; simp [h]
  · intro h hp; have : ¬ membersUp < 2 := by omega
    simp [this, hp]

/-- Off never distributes (and says so); Force always does, whatever the membership and the plan. -/
theorem C35_off_never (membersUp : Nat) (planOk : Bool) : route .off membersUp planOk = (false, some .offRequested) := rfl
theorem C35_force_always (membersUp : Nat) (planOk : Bool) : route .force membersUp planOk = (true, none) := rfl

/-- a successful response reports exactly the decision taken, and a local answer always carries its reason -/
theorem C35_response_reports_decision (mode : Mode) (m : Nat) (p : Bool) (lo d : Exec) (dist : Bool) (why : Option Reason)
    (h : respond true mode m p lo d = .ok dist why) :
    (dist, why) = route mode m p ∧ (dist = false → why.isSome = true) := by
  unfold respond at h
  simp only [Bool.not_true, Bool.false_eq_true, ↓reduceIte] at h
  generalize hr : route mode m p = rt at h
  obtain ⟨dd, rr⟩ := rt
  simp only at h
  have hroute : (dist, why) = (dd, rr) := by
    cases hd : (if dd = true then d else lo) <;> simp [hd] at h
    obtain ⟨rfl, rfl⟩ := h; rfl
  refine ⟨hroute, ?_⟩
  intro hfalse
  cases hroute
  -- a non-distributing route always has a reason
  cases mode
  · have := (C35_auto m p).2.1; rw [hr] at this; exact this hfalse
  · simp [route] at hr; obtain ⟨rfl, _⟩ := hr; cases hfalse
  · simp [route] at hr; obtain ⟨_, rfl⟩ := hr; rfl

/-- **No fallback.**  Once the decision is "distribute", the response is a function of the distributed
    execution's outcome alone: the local engine's outcome is never consulted, and a failed distributed
    execution is an error response (never 200). -/
theorem C35_no_fallback (mode : Mode) (m : Nat) (p : Bool) (d : Exec)
    (hdist : (route mode m p).1 = true) :
    (∀ lo₁ lo₂, respond true mode m p lo₁ d = respond true mode m p lo₂ d) ∧
    (d ≠ .ok → ∀ lo, ∃ s, respond true mode m p lo d = .error s ∧ s ≠ 200 ∧ s = statusOfExec d) := by
  generalize hr : route mode m p = rt at hdist
  obtain ⟨dd, rr⟩ := rt
  simp only at hdist; subst hdist
  constructor
  · intro lo₁ lo₂; simp [respond, hr]
  · intro hne lo
    cases d <;> simp [respond, hr, statusOfExec] at hne ⊢

/-- the whole `/sql` handler: 200 only if the node is ready, the query string and body are well-formed, and the
    path that was chosen succeeded -/
theorem C35_ok_only_when (r : SqlRequest) (ready : Bool) (m : Nat) (p : Bool) (lo d : Exec) (dist : Bool) (why : Option Reason)
    (h : sqlHandler r ready m p lo d = .ok dist why) :
    ready = true ∧ r.formatOk = true ∧ r.bodyTooLarge = false ∧ r.bodyUtf8 = true ∧ r.bodyEmpty = false ∧
    ∃ mode, r.mode = some mode ∧ (dist, why) = route mode m p ∧ (if dist then d else lo) = .ok := by
  obtain ⟨fo, mode, big, utf, emp⟩ := r
  cases fo <;> cases mode <;> cases ready <;> cases big <;> cases utf <;> cases emp <;> simp [sqlHandler] at h
  rename_i mode
  refine ⟨rfl, rfl, rfl, rfl, rfl, mode, rfl, ?_⟩
  have h1 := (C35_response_reports_decision mode m p lo d dist why h).1
  refine ⟨h1, ?_⟩
  unfold respond at h
  simp only [Bool.not_true, Bool.false_eq_true, ↓reduceIte] at h
  rw [← h1] at h
  simp only at h
  cases dist <;> simp at h ⊢
  · cases lo <;> simp at h ⊢
  · cases d <;> simp at h ⊢

/-! ## the mode vocabulary, over the generated definitions -/

open IQE.Gen.FrontDoor in
/-- `DistMode::parse`'s value table (HTTP `?distributed=`), for EVERY string -/
theorem C35_http_mode_vocabulary (v : String) : parse_value v =
    if v = "1" ∨ v = "true" ∨ v = "yes" ∨ v = "force" then .ok .Force
    else if v = "0" ∨ v = "false" ∨ v = "no" ∨ v = "local" then .ok .Off
    else if v = "auto" then .ok .Auto else .error "other" := by
  unfold parse_value
  split <;> simp_all

open IQE.Gen.FrontDoor in
/-- The Flight vocabulary (`parse_mode`) is the HTTP vocabulary plus the single extra spelling "off".
    (flight.rs calls it a "shared vocabulary"; it is a strict superset — found by the translator.) -/
theorem C35_flight_mode_vocabulary (v : String) :
    (v ≠ "off" → parse_mode v = parse_value v) ∧ parse_mode "off" = .ok .Off ∧ parse_value "off" = .error "other" := by
  refine ⟨?_, by simp [parse_mode], by simp [parse_value]⟩
  intro h
  unfold parse_mode parse_value
  split <;> simp_all

/-- a typo never silently means "auto": an unknown value is an error in both doors -/
theorem C35_unknown_mode_is_error (v : String)
    (h : v ∉ ["1", "true", "yes", "force", "0", "false", "no", "local", "auto", "off"]) :
    IQE.Gen.FrontDoor.parse_value v = .error "other" ∧ IQE.Gen.FrontDoor.parse_mode v = .error "other" := by
  simp at h
  obtain ⟨h1, h2, h3, h4, h5, h6, h7, h8, h9, h10⟩ := h
  constructor
  · rw [C35_http_mode_vocabulary]; simp [*]
  · rw [(C35_flight_mode_vocabulary v).1 h10, C35_http_mode_vocabulary]; simp [*]

/-! ## bridge: the hand-written vocabulary the driver runs IS the generated one -/

def modeOfGen : IQE.Gen.FrontDoor.DistMode → Mode
  | .Auto => .auto
  | .Force => .force
  | .Off => .off

/-- `Engine.FrontDoor.parseModeHttp` = the translator-generated `parse_value` (server.rs `DistMode::parse`), on every string -/
theorem C35_bridge_http_vocabulary (v : String) :
    parseModeHttp v = (match IQE.Gen.FrontDoor.parse_value v with | .ok m => some (modeOfGen m) | .error _ => none) := by
  rw [C35_http_mode_vocabulary]
  unfold parseModeHttp
  by_cases h1 : (v = "1" ∨ v = "true" ∨ v = "yes" ∨ v = "force") <;> by_cases h2 : (v = "0" ∨ v = "false" ∨ v = "no" ∨ v = "local") <;>
    by_cases h3 : v = "auto" <;> simp [h1, h2, h3, modeOfGen]

/-- `parse_mode`'s value table (Flight), for EVERY string -/
theorem C35_flight_mode_table (v : String) : IQE.Gen.FrontDoor.parse_mode v =
    if v = "auto" then .ok .Auto
    else if v = "1" ∨ v = "true" ∨ v = "yes" ∨ v = "force" then .ok .Force
    else if v = "0" ∨ v = "false" ∨ v = "no" ∨ v = "local" ∨ v = "off" then .ok .Off else .error "other" := by
  unfold IQE.Gen.FrontDoor.parse_mode
  split <;> simp_all

/-- `Engine.FrontDoor.parseModeFlight` = the translator-generated `parse_mode` (flight.rs), on every string -/
theorem C35_bridge_flight_vocabulary (v : String) :
    parseModeFlight v = (match IQE.Gen.FrontDoor.parse_mode v with | .ok m => some (modeOfGen m) | .error _ => none) := by
  rw [C35_flight_mode_table]
  unfold parseModeFlight
  by_cases h1 : v = "auto" <;> by_cases h2 : (v = "1" ∨ v = "true" ∨ v = "yes" ∨ v = "force") <;>
    by_cases h3 : (v = "0" ∨ v = "false" ∨ v = "no" ∨ v = "local" ∨ v = "off") <;> simp [h1, h2, h3, modeOfGen]

/-! ## non-vacuity -/
example : respond true .auto 3 true .ok .ok = .ok true none ∧ respond true .auto 1 true .ok .ok = .ok false (some .oneMember) ∧
          respond true .auto 3 false .ok .queryError = .ok false (some .planRefused) ∧
          respond true .force 3 false .ok .queryError = .error 400 ∧ respond true .force 1 true .ok .notImplemented = .error 501 ∧
          respond true .off 3 true .ok .taskFailed = .ok false (some .offRequested) := by decide
example : firstValue "distributed" "format=csv&distributed=0&distributed=1" = some "0" ∧ firstValue "distributed" "distributed" = none ∧
          firstValue "format" "x=1&format=ipc" = some "ipc" := by decide

end IQE.Props.C35
