/-
  C28 — each CTE reference yields that CTE's rows.

  Reference semantics (`Spec.run`; `cteRef i` = position i of the lexical CTE stack, `withCte defs body`), for ALL plans,
  catalogs, stacks and environments:
    C28_ref_is_def        `WITH defs body` runs `body` over the stack extended by exactly one table per definition, the i-th
                          being the value of the i-th definition over the enclosing stack plus its earlier siblings; a
                          reference to it — anywhere in the body, in any environment — yields exactly that table; a failing
                          definition fails the WITH
    C28_lexical_scope     an inner WITH only EXTENDS the stack (outer positions keep their tables) and the extension ends with
                          the inner scope: the sibling input of a join / set operation (`FROM (WITH …) d, c`) runs over the outer stack
    C28_materialize_eq_inline_partial
                          materialising the definitions once and sharing them = replacing every reference (in the body, in
                          later definitions, inside subquery expressions) by a copy of its definition (`Engine.Cte.inline`),
                          for definitions and bodies of every operator shape that contain no further WITH, provided the
                          definitions evaluate (to the same table in every environment: they are uncorrelated).
                          PARTIAL: a WITH nested inside a definition or the body is not covered (positions of the stack are
                          absolute, the substitution would have to renumber them); a failing definition is excluded by
                          hypothesis (materialisation fails eagerly, a copy only where it is evaluated).
  Name resolution (`Engine.Cte`, on named statements):
    C28_model_refines     with both deviation switches off the engine model is lexical resolution (every statement)
    C28_unique_names      if no name is defined twice in the statement (and every reference is bound) the model of the tree
                          BEFORE /repo 91e8987 — one global name map that is never restored, one materialisation per name — executes exactly
                          the lexically resolved statement, whichever candidate the cache materialises
    C28_shadowing_violates  kernel-checked negation witnesses for re-used names (A.16): the name-keyed cache answers (1,1)
                          instead of (1,2); the never-restored map alone answers (5,2) instead of (5,1)
  The defect (C28-F1) was repaired by /repo 91e8987; the repaired binder is the model with both switches off (`C28_model_refines`),
  and the witnesses of `C28_shadowing_violates` are replayed on the real engine from corpus/C28 on every run.
-/
import IQE.Lemmas.Cte
namespace IQE.Props.C28
open IQE IQE.Spec IQE.Engine.Cte IQE.Lemmas.Cte

/-! ### reference semantics -/

theorem C28_ref_is_def (fo : FloatOps) (fns : String → List Val → Except Err Val) (cat : List Table)
    (defs : List Query) (body : Query) (S : List Table) (env : Env) :
    (∀ S', runDefs fo fns cat defs S env = .ok S' →
      run fo fns cat (.withCte defs body) S env = run fo fns cat body S' env ∧
      ∃ ts, S' = S ++ ts ∧ ts.length = defs.length ∧
        ∀ i (hi : i < defs.length), ∃ t,
          run fo fns cat defs[i] (S ++ ts.take i) env = .ok t ∧
          ∀ env', run fo fns cat (.cteRef (S.length + i)) S' env' = .ok t) ∧
    (∀ e, runDefs fo fns cat defs S env = .error e → run fo fns cat (.withCte defs body) S env = .error e) := by
  constructor
  · intro S' h
    refine ⟨by simp only [run, h]; rfl, ?_⟩
    obtain ⟨ts, hS, hl, hi⟩ := runDefs_spec fo fns cat defs S S' env h
    refine ⟨ts, hS, hl, ?_⟩
    intro i hlt
    obtain ⟨t, ht, hr⟩ := hi i hlt
    refine ⟨t, hr, ?_⟩
    intro env'
    subst hS
    simp [run, List.getElem?_append_right, ht]
  · intro e h
    simp only [run, h]; rfl

/-- a reference as the whole body: `WITH … SELECT * FROM cᵢ` is the value of the i-th definition -/
theorem C28_ref_body (fo : FloatOps) (fns : String → List Val → Except Err Val) (cat : List Table)
    (defs : List Query) (S S' : List Table) (env : Env) (i : Nat) (hi : i < defs.length)
    (h : runDefs fo fns cat defs S env = .ok S') :
    run fo fns cat (.withCte defs (.cteRef (S.length + i))) S env =
      run fo fns cat defs[i] (S'.take (S.length + i)) env := by
  obtain ⟨h1, ts, hS, hl, hall⟩ := (C28_ref_is_def fo fns cat defs (.cteRef (S.length + i)) S env).1 S' h
  obtain ⟨t, ht, hr⟩ := hall i hi
  rw [h1, hr env]
  subst hS
  rw [List.take_length_add_append]
  exact ht.symm

theorem C28_lexical_scope (fo : FloatOps) (fns : String → List Val → Except Err Val) (cat : List Table)
    (defs : List Query) (S : List Table) (env : Env) :
    -- the inner scope only appends: every outer position keeps its table
    (∀ S', runDefs fo fns cat defs S env = .ok S' → ∀ j, j < S.length → S'[j]? = S[j]?) ∧
    -- and it ends with the WITH: the right input of a join runs over the outer stack again …
    (∀ jt lw rw subs on b r,
      run fo fns cat (.join jt lw rw subs on (.withCte defs b) r) S env =
        (do let ls ← (do let S' ← runDefs fo fns cat defs S env
                         run fo fns cat b S' env)
            let rs ← run fo fns cat r S env
            joinRows (subCx fo fns (runList fo fns cat subs) S) env jt lw rw on ls rs)) ∧
    -- … and so does the right operand of a set operation
    (∀ op all b r,
      run fo fns cat (.setop op all (.withCte defs b) r) S env =
        (do let ls ← (do let S' ← runDefs fo fns cat defs S env
                         run fo fns cat b S' env)
            let rs ← run fo fns cat r S env
            run fo fns cat (.setop op all (.cteRef 0) (.cteRef 1)) [ls, rs] env)) := by
  refine ⟨?_, ?_, ?_⟩
  · intro S' h j hj
    obtain ⟨ts, hS, _, _⟩ := runDefs_spec fo fns cat defs S S' env h
    subst hS
    exact List.getElem?_append_left hj
  · intro jt lw rw subs on b r
    rw [run_join]
    simp only [run]
  · intro op all b r
    simp only [run]
    cases runDefs fo fns cat defs S env with
    | error e => rfl
    | ok S' =>
      cases run fo fns cat b S' env with
      | error e => rfl
      | ok ls =>
        cases run fo fns cat r S env with
        | error e => rfl
        | ok rs => rfl

theorem C28_materialize_eq_inline_partial (fo : FloatOps) (fns : String → List Val → Except Err Val) (cat : List Table)
    (S T : List Table) (defs : List Query) (body : Query)
    (hdefs : noWithL defs = true) (hbody : noWith body = true)
    (heval : DefsEval fo fns cat S defs T) (env : Env) :
    run fo fns cat (.withCte defs body) S env = run fo fns cat (inline S.length defs body) S env :=
  run_with_inline fo fns cat S T defs body hdefs hbody heval env

/-! ### the engine's name resolution -/

theorem C28_model_refines (dev : Dev) (h1 : dev.scopeNeverRestored = false) (h2 : dev.cacheByName = false)
    (tw : List Nat) (pick : String → Nat) (nq : NQ) : enginePlan dev tw pick nq = inlinedPlan nq := by
  simp [enginePlan, inlinedPlan, cacheE, h2, bindE_restore dev h1 nq []]

/-- the binder half of `C28_unique_names`: whatever the switches, with unique names the global map binds every reference
    to the definition lexical scoping gives it -/
theorem C28_unique_names_binder (dev : Dev) (nq : NQ) (hw : wellScoped [] nq = true) (hn : (defNames nq).Nodup) :
    (bindE dev nq []).1 = bindL [] nq :=
  (bindE_unique dev nq [] [] (fun _ _ h => h) hw (fun _ _ h => by simp [keys] at h) hn).1

theorem C28_unique_names (dev : Dev) (tw : List Nat) (pick : String → Nat) (nq : NQ)
    (hw : wellScoped [] nq = true) (hn : (defNames nq).Nodup) :
    enginePlan dev tw pick nq = inlinedPlan nq := by
  have hb := C28_unique_names_binder dev nq hw hn
  simp only [enginePlan, inlinedPlan, cacheE, hb]
  split
  · rw [cacheSub_id tw (bindL [] nq).aliases pick (bindL_aliases_func nq hn) (bindL [] nq) (fun _ h => h)]
  · rfl

/-! ### negation witnesses (A.16) and non-vacuity -/

def fo0 : FloatOps := { add := fun a _ => a, sub := fun a _ => a, mul := fun a _ => a, div := fun a _ => a, neg := id, ofInt := fun _ => ⟨0⟩, toInt := fun _ => none }
def fns0 : String → List Val → Except Err Val := fun n _ => .error (.unsupported n)

/-- `SELECT v AS x` -/
def sel (vs : List Int) : NQ := .node (.project [] (vs.map fun v => .lit (.int v)) (.scan 0)) [.node (.values [[]]) []]
def cross (lw rw : Nat) (l r : NQ) : NQ := .node (.join .cross lw rw [] (.lit (.bool true)) (.scan 0) (.scan 0)) [l, r]
def star (n : Nat) (from_ : NQ) : NQ := .node (.project [] ((List.range n).map .col) (.scan 0)) [from_]

/-- `WITH c AS (SELECT 1 AS x) SELECT * FROM c, (WITH c AS (SELECT 2 AS x) SELECT x AS y FROM c) d` -/
def a16 : NQ := .withN ["c"] [sel [1]] (star 2 (cross 1 1 (.ref "c") (.withN ["c"] [sel [2]] (star 1 (.ref "c")))))
/-- `WITH c AS (SELECT 1 AS x) SELECT * FROM (WITH c AS (SELECT 2 AS x) SELECT 5 AS y) d, c` -/
def a16b : NQ := .withN ["c"] [sel [1]] (star 2 (cross 1 1 (.withN ["c"] [sel [2]] (sel [5])) (.ref "c")))
/-- the same statements with the inner name changed to `e` -/
def a16u : NQ := .withN ["c"] [sel [1]] (star 2 (cross 1 1 (.ref "c") (.withN ["e"] [sel [2]] (star 1 (.ref "e")))))

theorem C28_shadowing_violates :
    -- the reference semantics of A.16 is (1, 2) — both as resolved by the generator and with every reference inlined
    run fo0 fns0 [] (lexPlan [] a16) [] [] = .ok [[.int 1, .int 2]] ∧
    run fo0 fns0 [] (inlinedPlan a16) [] [] = .ok [[.int 1, .int 2]] ∧
    -- the tree before 91e8987 (cache keyed on the name; the first candidate is materialised) answers (1, 1) …
    run fo0 fns0 [] (enginePlan today [] (fun _ => 0) a16) [] [] = .ok [[.int 1, .int 1]] ∧
    -- … and (2, 2) had it materialised the other candidate: no choice is right
    run fo0 fns0 [] (enginePlan today [] (fun _ => 1) a16) [] [] = .ok [[.int 2, .int 2]] ∧
    -- the never-restored name map alone (no cache involved: every name is referenced once): (5, 2) instead of (5, 1)
    run fo0 fns0 [] (lexPlan [] a16b) [] [] = .ok [[.int 5, .int 1]] ∧
    run fo0 fns0 [] (enginePlan { scopeNeverRestored := true } [] (fun _ => 0) a16b) [] [] = .ok [[.int 5, .int 2]] := by
  refine ⟨by rfl, by rfl, by rfl, by rfl, by rfl, by rfl⟩

/-- `C28_unique_names` applies to the renamed statement, and there the old tree is right -/
example : enginePlan today [] (fun _ => 0) a16u = inlinedPlan a16u := C28_unique_names today [] _ a16u (by decide) (by decide)
example : run fo0 fns0 [] (enginePlan today [] (fun _ => 0) a16u) [] [] = .ok [[.int 1, .int 2]] := by rfl
/-- the hypothesis of `C28_unique_names` fails for A.16, as it must -/
example : ¬ (defNames a16).Nodup := by decide

/-- `C28_materialize_eq_inline_partial` at a shared reference: `WITH c AS (SELECT 7) SELECT * FROM c a, c b`;
    the definition is WITH-free and evaluates in every environment -/
example (env : Env) :
    run fo0 fns0 [] (.withCte [.project [] [.lit (.int 7)] (.values [[]])]
        (.join .cross 1 1 [] (.lit (.bool true)) (.cteRef 0) (.cteRef 0))) [] env =
    run fo0 fns0 [] (.join .cross 1 1 [] (.lit (.bool true)) (.project [] [.lit (.int 7)] (.values [[]]))
        (.project [] [.lit (.int 7)] (.values [[]]))) [] env :=
  C28_materialize_eq_inline_partial fo0 fns0 [] [] [[[.int 7]]] [.project [] [.lit (.int 7)] (.values [[]])]
    (.join .cross 1 1 [] (.lit (.bool true)) (.cteRef 0) (.cteRef 0)) (by decide) (by decide)
    (show (∀ env, run fo0 fns0 [] (.project [] [.lit (.int 7)] (.values [[]])) [] env = .ok [[.int 7]]) ∧ True from ⟨fun _ => by rfl, trivial⟩) env

end IQE.Props.C28
