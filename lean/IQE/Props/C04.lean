/-
  C04 — storage layout and fast-path choice never change an answer.
  Property theorems only (helper lemmas: IQE/Lemmas/{Layout,Partition,Bag,JoinDecomp,Subquery}.lean).

  * `C04_layout_invariance_partial` / `C04_no_new_errors_partial`: the reference semantics `Spec.run` depends only on the
    BAG of rows of each table — for the plan fragment `LayoutFrag` (scan, CTE reference, WHERE, projection, inner / left /
    semi / anti / cross joins — all without subquery expressions in the node —, UNION ALL, DISTINCT), by induction on the
    plan.  PARTIAL: not proved here for aggregation and window nodes (float SUM/AVG are order dependent for a general
    `FloatOps`; for the order-free part see `C04_path_morsel` and C21), right / full joins, nodes with subquery
    expressions, WITH, the de-duplicating set operations, and ORDER BY / LIMIT (whose answers are layout-invariant only up
    to `Spec.sameAnswer`: ties may come out in another order).  Those strata are covered by the correspondence runs only.
  * path models (`IQE.Engine.ScanPath`) = the plain scan: eager, streaming (given sound pruning = C05), shared prescan,
    morsel aggregation (any lawful accumulator, any slicing, any merge order).
  * `C04_no_new_errors`: with the deviation switch off every aggregation path succeeds with the same state; with
    `denseRejectsNullKeys` on (the unchanged tree, DESIGN A.5) a kernel-checked witness: memory answers, dense fails.
-/
import IQE.Lemmas.Layout
import IQE.Lemmas.Partition
import IQE.Engine.ScanPath
namespace IQE.Props.C04
open IQE IQE.Spec IQE.Layout IQE.Engine.Partition IQE.Engine.ScanPath List

/-! ### the reference semantics sees bags -/

/-- Two catalogs that hold the same bag of rows in every table — i.e. ANY two ways of cutting the same rows into files,
    row groups and batches, read in any order — give `Perm`-equal answers whenever both runs succeed (fragment
    `LayoutFrag`). -/
theorem C04_layout_invariance_partial (fo : FloatOps) (fns : String → List Val → Except Err Val) (q : Query)
    (hq : LayoutFrag q) (cat₁ cat₂ : List Table) (hc : SameBags cat₁ cat₂) (env : Env) (t₁ t₂ : Table)
    (h₁ : run fo fns cat₁ q [] env = .ok t₁) (h₂ : run fo fns cat₂ q [] env = .ok t₂) : t₁ ~ t₂ := by
  obtain ⟨t₂', h₂', hp⟩ := run_layout fo fns hq cat₁ cat₂ [] [] env hc .nil t₁ h₁
  rw [h₂] at h₂'
  cases h₂'
  exact hp

/-- …and a statement that succeeds on one layout succeeds on the other (same fragment). -/
theorem C04_no_new_errors_partial (fo : FloatOps) (fns : String → List Val → Except Err Val) (q : Query)
    (hq : LayoutFrag q) (cat₁ cat₂ : List Table) (hc : SameBags cat₁ cat₂) (env : Env) :
    (∃ t₁, run fo fns cat₁ q [] env = .ok t₁) ↔ (∃ t₂, run fo fns cat₂ q [] env = .ok t₂) := by
  constructor
  · rintro ⟨t₁, h₁⟩
    obtain ⟨t₂, h₂, _⟩ := run_layout fo fns hq cat₁ cat₂ [] [] env hc .nil t₁ h₁
    exact ⟨t₂, h₂⟩
  · rintro ⟨t₂, h₂⟩
    obtain ⟨t₁, h₁, _⟩ := run_layout fo fns hq cat₂ cat₁ [] [] env hc.symm .nil t₂ h₂
    exact ⟨t₁, h₁⟩

/-- a table registered in memory as any list of batches, or stored as any files × row groups, is the same bag as soon as
    the rows are the same bag -/
theorem C04_layouts_same_bag (batches : List Table) (stored : Stored Row) (h : batches.flatten ~ rowsOf stored)
    (rest₁ rest₂ : List Table) (hr : SameBags rest₁ rest₂) :
    SameBags (batches.flatten :: rest₁) (rowsOf stored :: rest₂) := .cons h hr

/-! ### path models -/

variable {α β : Type}

/-- eager path: any two layouts of the same rows give the same bag -/
theorem C04_path_eager (pred : α → Bool) (proj : α → β) (s₁ s₂ : Stored α) (h : rowsOf s₁ ~ rowsOf s₂) :
    scanEager pred proj s₁ ~ scanEager pred proj s₂ :=
  (h.filter pred).map proj

/-- streaming path = eager path, for every layout, provided the row-group pruning is sound (C05: a pruned row group
    holds no row that satisfies the predicate) -/
theorem C04_path_streaming (mayMatch : List α → Bool) (pred : α → Bool) (proj : α → β) (s : Stored α)
    (hsound : ∀ rg ∈ s.flatten, mayMatch rg = false → ∀ r ∈ rg, pred r = false) :
    scanStreaming mayMatch pred proj s = scanEager pred proj s := by
  unfold scanStreaming scanEager rowsOf
  generalize s.flatten = gs at hsound
  induction gs with
  | nil => rfl
  | cons g gs ih =>
    have ih' := ih (fun rg hrg => hsound rg (List.mem_cons_of_mem _ hrg))
    simp only [List.filter_cons, List.flatten_cons, List.filter_append, List.map_append]
    by_cases hm : mayMatch g = true
    · simp only [hm, if_true, List.flatMap_cons, ih']
    · have hm' : mayMatch g = false := by simpa using hm
      have hnone : g.filter pred = [] := by
        rw [List.filter_eq_nil_iff]
        intro r hr
        simp [hsound g (List.mem_cons_self ..) hm' r hr]
      simp only [hm', Bool.false_eq_true, if_false, ih', hnone, List.map_nil, List.nil_append]

/-- shared prescan: reading the union projection once and picking the requested columns out of the cache by their
    position in the union gives exactly the direct projection, whenever every requested column is in the union -/
theorem C04_path_prescan (union req : List Nat) (hsub : ∀ i ∈ req, i ∈ union) (s : Stored Row) :
    scanPrescan union req s = (rowsOf s).map (pick req) := by
  unfold scanPrescan
  rw [List.map_map]
  apply List.map_congr_left
  intro r _
  simp only [Function.comp, pick, List.map_map]
  apply List.map_congr_left
  intro i hi
  have hmem := hsub i hi
  have hlt : union.idxOf i < union.length := List.idxOf_lt_length_iff.mpr hmem
  simp only [Function.comp, List.getD_eq_getElem?_getD, List.getElem?_map]
  rw [List.getElem?_eq_getElem hlt]
  simp [List.getElem_idxOf hlt]

/-- morsel path: for any lawful accumulator, any slicing of the rows into morsels and any layout of the same rows give
    the state of the plain fold over the rows — the same state as the in-memory path -/
theorem C04_path_morsel {σ : Type} (A : Acc α σ) (hA : A.Lawful) (morsels : List (List α)) (rows : List α)
    (h : morsels.flatten ~ rows) : morselAgg A morsels = A.fold rows := by
  unfold morselAgg
  rw [Acc.merge_chunks A hA]
  exact Acc.fold_perm A hA h

theorem C04_groupAcc_lawful (k : Option Int) : (groupAcc k).Lawful where
  assoc := intAgg_lawful.assoc
  comm := intAgg_lawful.comm
  e_left := intAgg_lawful.e_left

/-- **no new errors**: with the deviation switch off, every aggregation path (memory / morsel / dense) over every layout
    of the same rows succeeds with the same per-group state (COUNT(*), COUNT, SUM, MIN, MAX of the group of ANY key,
    NULL included) -/
theorem C04_no_new_errors (k : Option Int) (p₁ p₂ : AggPath) (s₁ s₂ : Stored (Option Int × Option Int))
    (h : rowsOf s₁ ~ rowsOf s₂) :
    ∃ st, aggRun {} (groupAcc k) p₁ s₁ = .ok st ∧ aggRun {} (groupAcc k) p₂ s₂ = .ok st := by
  have hm : ∀ s : Stored (Option Int × Option Int), morselAgg (groupAcc k) s.flatten = (groupAcc k).fold (rowsOf s) :=
    fun s => C04_path_morsel (groupAcc k) (C04_groupAcc_lawful k) s.flatten (rowsOf s) (List.Perm.refl _)
  have hf := Acc.fold_perm (groupAcc k) (C04_groupAcc_lawful k) h
  refine ⟨(groupAcc k).fold (rowsOf s₁), ?_, ?_⟩
  · cases p₁ <;> simp [aggRun, hm]
  · cases p₂ <;> simp [aggRun, hm, hf]

/-! ### the defect of the unchanged tree, as a kernel-checked witness -/

/-- DESIGN A.5 with the switch on: rows (NULL,1),(1,2) — the in-memory path answers (the NULL group has COUNT(*) = 1), the
    dense Parquet path fails the statement. -/
example :
    aggRun { denseRejectsNullKeys := true } (groupAcc none) .memory [[[(none, some 1), (some 1, some 2)]]]
      = .ok ⟨1, 1, 1, some 1, some 1⟩ ∧
    aggRun { denseRejectsNullKeys := true } (groupAcc none) .dense [[[(none, some 1), (some 1, some 2)]]]
      = .error "dense agg: null group keys unsupported" := ⟨rfl, rfl⟩

-- non-vacuity: pruning drops the second row group (no row > 5 there), the answer is the eager one
example : scanStreaming (fun rg => rg.any (· > 5)) (· > 5) (· * 10) [[[1, 9], [2, 3]], [[7]]] = [90, 70] ∧
    scanEager (· > 5) (· * 10) [[[1, 9], [2, 3]], [[7]]] = [90, 70] := by decide
example : scanPrescan [3, 0, 2] [2, 3] [[[[.int 10, .int 11, .int 12, .int 13]]]] = [[.int 12, .int 13]] := by decide

end IQE.Props.C04
