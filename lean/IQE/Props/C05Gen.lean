/-
  C05Gen — tie T for the exact-integer branch of `row_group_pruning::definite_comparison` (added by fix e356a0a):
  `match effective_op { Lt => max < val, LtEq => max <= val, Gt => min > val, GtEq => min >= val,
                        Eq => min == val && max == val, NotEq => val < min || val > max, _ => false }`
  over i64 statistics and an i64 literal, TRANSLATED on every check run as `Gen.PruningInt.definite_table_int`
  (the f64 table at the function's tail is `Gen.Pruning.definite_table`, covered by `C05_definite_table_sound`).
  The hand model uses `Engine.Pruning.definiteInt` for this branch; here it is proved to BE the translated table, and the
  translated table is proved sound: it answers "definitely" only when every value between min and max satisfies the
  comparison (so dropping the row filter for that row group loses nothing).
  Operator enums: `C05.toGen` / `C05.ofGen` (bijection, `C05_op_bijection`).
-/
import IQE.Props.C05
import IQE.Gen.PruningInt
namespace IQE.Props.C05Gen
open IQE IQE.Engine.Pruning IQE.Props.C05

/-- the model's integer "definitely" table is the translated one -/
theorem C05Gen_definiteInt_is_translated (op : BinaryOp) (mn mx val : Int) :
    IQE.Gen.PruningInt.definite_table_int (toGen op) mn mx val = definiteInt op mn mx val := by
  cases op <;> simp [IQE.Gen.PruningInt.definite_table_int, toGen, definiteInt, Rs.Cmp.lt, Rs.Cmp.le, Rs.Cmp.eq, Rs.gt, Rs.ge]

/-- soundness of the TRANSLATED integer table: if it says "definitely" for statistics [mn, mx], every value v in the
    range satisfies `v op val` -/
theorem C05Gen_definite_table_int_sound (g : IQE.Gen.Pruning.BinaryOp) (val mn mx v : Int) (h1 : mn ≤ v) (h2 : v ≤ mx)
    (h : IQE.Gen.PruningInt.definite_table_int g mn mx val = true) : satI (ofGen g) v val = true := by
  rw [← C05_toGen_ofGen g, C05Gen_definiteInt_is_translated] at h
  exact definiteInt_sound _ val mn mx v h1 h2 h

/-- only the six comparison operators can ever answer "definitely" -/
theorem C05Gen_definite_table_int_cmp_only (g : IQE.Gen.Pruning.BinaryOp) (val mn mx : Int)
    (h : IQE.Gen.PruningInt.definite_table_int g mn mx val = true) : isCmpOp (ofGen g) = true := by
  rw [← C05_toGen_ofGen g, C05Gen_definiteInt_is_translated] at h
  exact definiteInt_cmp h

/-- exactness beyond 2^53 (the defect e356a0a repaired): statistics max = 2^53 + 1, predicate `x <= 2^53` — the integer
    table does NOT say "definitely" (through f64 both sides rounded to 2^53 and it did) -/
theorem C05Gen_exact_beyond_2p53 :
    IQE.Gen.PruningInt.definite_table_int .LtEq 5 (2^53 + 1) (2^53) = false ∧
    IQE.Gen.PruningInt.definite_table_int .LtEq 5 (2^53) (2^53) = true := by decide

/-- the table has no arithmetic: no overflow side condition -/
theorem C05Gen_definite_table_int_inRange (g : IQE.Gen.Pruning.BinaryOp) (mn mx val : Int) :
    IQE.Gen.PruningInt.definite_table_int_inRange g mn mx val := trivial

example : IQE.Gen.PruningInt.definite_table_int .NotEq 3 9 10 = true := by decide
example : IQE.Gen.PruningInt.definite_table_int .NotEq 3 9 9 = false := by decide
example : IQE.Gen.PruningInt.definite_table_int .And 0 0 0 = false := by decide

end IQE.Props.C05Gen
