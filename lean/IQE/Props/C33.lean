/-
  C33 — Memory pool accounting is exact under concurrency.
  Model: IQE.Engine.MemPool (small-step, one step per atomic operation of src/execution/memory.rs; the initial load
  of try_allocate and every failed CAS may return ANY value; a CAS may fail for any reason; the number of threads and
  the length of the interleaving are arbitrary).  Lemmas: IQE/Lemmas/MemPool.lean.  Tie: scheduled replay of real
  threads on the real atomics (family C33), the observed trace must be a valid run of this model.

  All theorems are about `Reachable max nthreads c` — the inductively defined set of configurations reachable from
  `MemoryPool::new(max)` with `nthreads` threads by ANY sequence of labelled steps (induction over the step
  relation; nothing is enumerated).
-/
import IQE.Lemmas.MemPool
namespace IQE.Props.C33
open IQE.Engine.MemPool

/-- **C33_inv.** In every reachable configuration the atomic `used` equals the sum of the sizes of the live
    reservations modulo 2^64 (the RMWs wrap), every size is a usize, and every thread that is about to CAS has
    `cur + n ≤ max` without overflow. (At the model's granularity — one step per atomic operation incl. the
    thread-local bookkeeping that follows — there are no in-flight deltas.) -/
theorem C33_inv (max nthreads : Nat) (c : Cfg) (h : Reachable max nthreads c) :
    c.used = total c.live % M
    ∧ (∀ sz, some sz ∈ c.live → sz < M)
    ∧ (∀ n cur, Pc.cas n cur ∈ c.pcs → cur + n ≤ max ∧ cur + n < M) := by
  obtain ⟨hi, hm⟩ := reachable_inv h
  exact ⟨hi.usedEq, hi.sizes, by rw [← hm]; exact hi.pcs⟩

/-- With the true sum below 2^64 (always the case for real memory) the accounting is exact, not just modular. -/
theorem C33_inv_exact (max nthreads : Nat) (c : Cfg) (h : Reachable max nthreads c) (small : total c.live < M) :
    c.used = total c.live := by
  rw [(C33_inv max nthreads c h).1, Nat.mod_eq_of_lt small]

/-- **C33_try_within_limit.** Whenever a CAS of `try_allocate(n)` succeeds — in any reachable configuration, for
    any thread — the new value of `used` is `old + n`, did not wrap, and is at most `max`. -/
theorem C33_try_within_limit (max nthreads : Nat) (c c' : Cfg) (h : Reachable max nthreads c) (t v : Nat)
    (hs : step c (.cas t true v) = some c') :
    c'.used ≤ max ∧ c'.used < M ∧ ∃ n, c.pcs[t]? = some (.cas n c.used) ∧ c'.used = c.used + n ∧ c'.live = c.live ++ [some n] := by
  have hp := (C33_inv max nthreads c h).2.2
  simp only [step] at hs
  split at hs
  · rename_i n cur hpc
    simp only [if_true] at hs
    split at hs
    · rename_i hu
      cases hs
      have hb := hp n cur (List.mem_of_getElem? hpc)
      refine ⟨hb.1, hb.2, n, ?_, ?_, rfl⟩
      · rw [hu]; exact hpc
      · show cur + n = c.used + n; rw [hu]
    · cases hs
  · cases hs

theorem reachable_of_cond {max nthreads : Nat} {c : Cfg} (h : ReachableCond max nthreads c) : Reachable max nthreads c := by
  induction h with
  | init => exact Reachable.init
  | step l _ _ hs ih => exact Reachable.step ih ⟨l, hs⟩

/-- **C33_try_only_never_exceeds.** If the pool is only used through `try_allocate`, shrinking resizes and drops
    (no forced `allocate`, no growing `resize`), then `used ≤ max` — and the true sum of live reservations is
    ≤ max — in EVERY reachable configuration, for every number of threads and every interleaving. -/
theorem C33_try_only_never_exceeds (max : Nat) (hmax : max < M) (nthreads : Nat) (c : Cfg)
    (h : ReachableCond max nthreads c) : total c.live ≤ max ∧ c.used ≤ max := by
  suffices H : total c.live ≤ max by
    have := C33_inv_exact max nthreads c (reachable_of_cond h) (by omega)
    exact ⟨H, by omega⟩
  induction h with
  | init => simp [init, total]
  | @step c0 c2 l hc hno hc2 ht =>
    have hreach := reachable_of_cond hc
    have hinv := C33_inv max nthreads c0 hreach
    cases l with
    | tryLoad t n v =>
      simp only [step] at hc2; split at hc2
      · cases hc2; exact ht
      · cases hc2
    | cas t ok v =>
      cases ok with
      | true =>
        obtain ⟨_, _, n, hpc, hu, hlive⟩ := C33_try_within_limit max nthreads c0 c2 hreach t v hc2
        have hb := hinv.2.2 n c0.used (List.mem_of_getElem? hpc)
        have hex := C33_inv_exact max nthreads c0 hreach (by omega)
        rw [hlive, total_append_some]; omega
      | false =>
        simp only [step] at hc2; split at hc2
        · simp only [Bool.false_eq_true, if_false] at hc2
          split at hc2
          · cases hc2; exact ht
          · cases hc2
        · cases hc2
    | allocate t n => simp [condOnly] at hno
    | resize t r new =>
      simp only [step] at hc2; split at hc2
      · rename_i sz hlv
        split at hc2
        · cases hc2
          have hts := total_set c0.live r (some sz) (some new) hlv
          simp only [condOnly, hlv, decide_eq_true_eq] at hno
          simp only [Option.getD_some] at hts
          show total (c0.live.set r (some new)) ≤ max
          omega
        · cases hc2
      · cases hc2
    | drop t r =>
      simp only [step] at hc2; split at hc2
      · rename_i sz hlv
        split at hc2
        · cases hc2
          have hts := total_set c0.live r (some sz) none hlv
          simp only [Option.getD_some, Option.getD_none] at hts
          show total (c0.live.set r none) ≤ max
          omega
        · cases hc2
      · cases hc2

/-- **C33_no_underflow.** In every reachable configuration whose true sum is below 2^64, a `fetch_sub` of a drop
    or of a shrinking resize subtracts at most `used`, and the result is the exact difference (no wrap). -/
theorem C33_no_underflow (max nthreads : Nat) (c c' : Cfg) (h : Reachable max nthreads c) (small : total c.live < M)
    (t r : Nat) :
    (step c (.drop t r) = some c' → ∃ sz, c.live[r]? = some (some sz) ∧ sz ≤ c.used ∧ c'.used = c.used - sz)
    ∧ (∀ new, step c (.resize t r new) = some c' → ∃ sz, c.live[r]? = some (some sz) ∧
        (new ≤ sz → sz - new ≤ c.used ∧ c'.used = c.used - (sz - new))) := by
  have hex := C33_inv_exact max nthreads c h small
  have hinv := C33_inv max nthreads c h
  constructor
  · intro hs
    simp only [step] at hs
    split at hs
    · rename_i sz hl
      split at hs
      · cases hs
        have hle := le_total_of_mem c.live r sz hl
        refine ⟨sz, hl, by omega, ?_⟩
        show wsub c.used sz = c.used - sz
        simp only [wsub, M] at *; omega
      · cases hs
    · cases hs
  · intro new hs
    simp only [step] at hs
    split at hs
    · rename_i sz hl
      split at hs
      · cases hs
        have hle := le_total_of_mem c.live r sz hl
        refine ⟨sz, hl, ?_⟩
        intro hns
        refine ⟨by omega, ?_⟩
        show (if new > sz then wadd c.used (new - sz) else wsub c.used (sz - new)) = c.used - (sz - new)
        rw [if_neg (by omega)]
        simp only [wsub, M] at *; omega
      · cases hs
    · cases hs

/-- **C33_returns_to_zero.** In every reachable configuration in which all reservations have been dropped,
    `used` is 0 — whatever happened before, including wrap-arounds. -/
theorem C33_returns_to_zero (max nthreads : Nat) (c : Cfg) (h : Reachable max nthreads c)
    (alldropped : ∀ x ∈ c.live, x = none) : c.used = 0 := by
  have h0 : ∀ l : List (Option Nat), (∀ x ∈ l, x = none) → total l = 0 := by
    intro l
    induction l with
    | nil => intro _; rfl
    | cons a l ih =>
      intro hall
      have ha : a = none := hall a (by simp)
      have := ih (fun x hx => hall x (by simp [hx]))
      subst ha
      simp only [total, List.map_cons, List.sum_cons, Option.getD_none] at this ⊢
      omega
  rw [(C33_inv max nthreads c h).1, h0 c.live alldropped]; rfl

/-- Executable runs are reachable: what the driver replays is covered by the theorems above. -/
theorem C33_run_reachable (max nthreads : Nat) (ls : List Label) (c : Cfg)
    (h : run (init max nthreads) ls = some c) : Reachable max nthreads c :=
  run_reachable ls _ c Reachable.init h

/-! ### non-vacuity -/

-- two threads race for a pool of 10: both read 0; the first CAS wins, the second fails, re-reads 6 and gives up
example : run (init 10 2) [.tryLoad 0 6 0, .tryLoad 1 6 0, .cas 0 true 0, .cas 1 false 6] =
    some { max := 10, used := 6, live := [some 6], pcs := [.idle, .idle] } := by decide
-- the losing CAS is not allowed to succeed
example : run (init 10 2) [.tryLoad 0 6 0, .tryLoad 1 6 0, .cas 0 true 0, .cas 1 true 0] = none := by decide
-- a stale load (thread 1 reads 0 although used = 6) is a legal step and is caught by the CAS
example : (run (init 10 2) [.tryLoad 0 6 0, .cas 0 true 0, .tryLoad 1 6 0, .cas 1 true 0]) = none := by decide
-- spurious failure: the value matches and the CAS still fails; the retry succeeds
example : run (init 10 1) [.tryLoad 0 4 0, .cas 0 false 0, .cas 0 true 0, .drop 0 0] =
    some { max := 10, used := 0, live := [none], pcs := [.idle] } := by decide
-- wrap-around of the forced allocate: the invariant is modular
example : (run (init 10 1) [.allocate 0 18446744073709551615, .allocate 0 3]).map (·.used) = some 2 := by decide

end IQE.Props.C33
