/-
  C25 — ORDER BY, LIMIT and OFFSET mean what they say.

  Models: IQE.Engine.SortLimit (SortExec = concat + lexsort_to_indices(fetch) + take; LimitExec = the unfold loop
  around the TRANSLATED `LimitState::{satisfied, take_from}` of IQE.Gen.Limit; the planner's Sort+Limit fusion).
  Reference: IQE.Spec (`sortKeyed` = stable sort under `cmpKeys`; LIMIT/OFFSET = drop/take; `acceptable`).

  Hypotheses that are explicit everywhere:
    * `KeysTyped tys xs`: every sort-key vector is typed by the column types `tys` (a value is NULL or of its
      column's type) — on ill-typed vectors `cmpKeys` is not an order (it calls incomparable values equal);
    * `skip`, the input length ≤ usize::MAX (the translated code computes in `usize`).
-/
import IQE.Lemmas.OrderAux
import IQE.Lemmas.ExternalMerge
namespace IQE.Props.C25
open IQE IQE.Spec IQE.Gen.Limit IQE.Engine.SortLimit
open IQE.Lemmas.Sorting IQE.Lemmas.KeyOrder IQE.Lemmas.LimitStream IQE.Lemmas.SortModel IQE.Lemmas.OrderAux

/-! ### C25_order -/

/-- The sort operator's output (every batch of every partition, `lexsort_to_indices`, `take`) is sorted under the
    lexicographic comparator built from (key, ASC/DESC, NULLS FIRST/LAST), is a permutation of its input, and is
    the reference answer `Spec.sortKeyed` — for every cut of the input into partitions and batches. -/
theorem C25_order (fo : FloatOps) (flags : List (Bool × Bool)) (tys : List Ty) (parts : List (List (List Keyed)))
    (hlen : flags.length ≤ tys.length) (ht : KeysTyped tys parts.flatten.flatten) :
    (sortExec fo flags none parts).flatten.Pairwise (fun a b => cmpKeys fo flags a.1 b.1 ≠ .gt) ∧
    (sortExec fo flags none parts).flatten.Perm parts.flatten.flatten ∧
    (sortExec fo flags none parts).flatten = sortKeyed fo flags parts.flatten.flatten := by
  have hflat : (sortExec fo flags none parts).flatten = sortKeyed fo flags parts.flatten.flatten := by
    rw [sortExec_flatten]; rfl
  rw [hflat]
  refine ⟨?_, List.mergeSort_perm _ _, rfl⟩
  rw [sortKeyed_eq_T fo flags tys _ hlen ht]
  have hs := List.pairwise_mergeSort (leKT_trans flags) (leKT_total flags) parts.flatten.flatten
  refine List.Pairwise.imp_of_mem ?_ hs
  intro a b ha hb hab
  have ha' := ht a (List.mem_mergeSort.1 ha)
  have hb' := ht b (List.mem_mergeSort.1 hb)
  have := leKeyed_eq_leKT fo flags tys hlen a b ha' hb'
  simp only [leKeyed] at this
  intro hgt
  rw [hgt] at this
  simp [hab] at this

/-- NULL placement: with NULLS LAST (the binder's default for BOTH directions: `SortKey.nullsFirst := false`) a NULL
    key sorts after every non-NULL key whatever the direction; with NULLS FIRST before. -/
theorem C25_order_nulls (fo : FloatOps) (desc : Bool) (v : Val) (hv : v ≠ .null) :
    cmpKeyVal fo desc false .null v = .gt ∧ cmpKeyVal fo desc false v .null = .lt ∧
    cmpKeyVal fo desc true .null v = .lt ∧ cmpKeyVal fo desc true v .null = .gt ∧
    ({ e := .col 0 : SortKey }).nullsFirst = false := by
  cases v <;> simp_all [cmpKeyVal]

/-! ### C25_limit_stream (over the translated `take_from` / `satisfied`) -/

/-- For EVERY sequence of batch lengths over any number of partitions (`lens`), the slices emitted by the
    LimitExec loop around the translated `LimitState::take_from` denote exactly `(xs.drop skip).take fetch`;
    no `usize` operation overflows and no `RecordBatch::slice` is out of bounds; and partition `i` is opened iff
    the rows of the partitions before it do not already satisfy the limit (`openedSpec`). -/
theorem C25_limit_stream {α : Type} (skip : Nat) (fetch : Option Nat) (lens : List (List Nat)) (xs : List α)
    (hxs : xs.length = partsTotal lens)
    (hU1 : (skip : Int) ≤ Rs.USIZE_MAX) (hU2 : (xs.length : Int) ≤ Rs.USIZE_MAX) :
    (runParts (initState skip fetch) (layoutParts 0 lens)).2.1.flatMap (rowsOf xs) = takeOpt fetch (xs.drop skip) ∧
    (runParts (initState skip fetch) (layoutParts 0 lens)).2.2 = openedSpec skip fetch 0 lens ∧
    runPartsInRange (initState skip fetch) (layoutParts 0 lens) :=
  stream_spec skip fetch lens xs hxs hU1 hU2

/-- the loop never opens a partition it does not need: every opened partition starts before row `skip + n` -/
theorem C25_limit_stream_stops (skip n : Nat) (c : Nat) (lens : List (List Nat)) (hc : skip + n ≤ c ∨ n = 0) :
    openedSpec skip (some n) c lens = 0 := by
  cases lens with
  | nil => rfl
  | cons p ps =>
    simp only [openedSpec, satisfiedAt]
    rcases hc with h | h
    · simp [h]
    · simp [h]

/-! ### C25_topk_fusion -/

/-- The planner fuses `Limit(Sort)` into `SortExec::with_fetch` exactly when `skip = 0` and a fetch is present;
    whichever plan it picks, the rows are `((sort xs).drop skip).take fetch`; in particular the fused plan's
    `sortWithFetch k` is `(sort xs).take k`. -/
theorem C25_topk_fusion (fo : FloatOps) (flags : List (Bool × Bool)) (skip : Nat) (fetch : Option Nat)
    (parts : List (List (List Keyed)))
    (hU1 : (skip : Int) ≤ Rs.USIZE_MAX) (hU2 : (parts.flatten.flatten.length : Int) ≤ Rs.USIZE_MAX) :
    (∀ k, planLimitOverSort skip fetch = .sortFetch k ↔ (skip = 0 ∧ fetch = some k)) ∧
    orderLimit fo flags skip fetch parts = takeOpt fetch ((sortKeyed fo flags parts.flatten.flatten).drop skip) ∧
    (∀ k, (sortExec fo flags (some k) parts).flatten = (sortKeyed fo flags parts.flatten.flatten).take k) := by
  refine ⟨?_, orderLimit_eq fo flags skip fetch parts hU1 hU2, ?_⟩
  · intro k
    unfold planLimitOverSort
    by_cases h0 : skip = 0
    · subst h0
      cases fetch <;> simp
    · have : (skip == 0) = false := by simpa using h0
      simp [this, h0]
  · intro k
    rw [sortExec_flatten]; rfl

/-- Arrow evaluates `lexsort_to_indices(.., Some(k))` by `select_nth_unstable` + sorting the selected prefix.
    For ANY selection `sel` of `min k n` rows such that every row left out is `≥` every selected row, the sorted
    selection agrees with the first `k` rows of the full sort position by position up to ties, and a bounded
    top-k buffer computes exactly those rows. -/
theorem C25_topk_fusion_any_selection (flags : List (Bool × Bool)) (xs sel rest : List Keyed)
    (hp : (sel ++ rest).Perm xs) (hsel : ∀ a ∈ sel, ∀ b ∈ rest, leKT flags a b = true) (k : Nat) :
    PointwiseTied (leKT flags) (sel.mergeSort (leKT flags)) ((xs.mergeSort (leKT flags)).take sel.length) ∧
    topK (leKT flags) k xs = (xs.mergeSort (leKT flags)).take k :=
  ⟨sorted_selection_pointwise (leKT_trans flags) (leKT_total flags) xs sel rest hp hsel,
   topK_eq_take_mergeSort (leKT_trans flags) (leKT_total flags) k xs⟩

/-! ### C25_ties -/

/-- Whatever sorted order an implementation produces (ANY sorted permutation `s` of the input — ties broken in any
    way), its `OFFSET skip LIMIT fetch` window agrees with the canonical answer position by position up to ties,
    and consists of input rows. -/
theorem C25_ties_any_order (flags : List (Bool × Bool)) (xs s : List Keyed) (hp : s.Perm xs)
    (hs : s.Pairwise (fun a b => leKT flags a b)) (skip : Nat) (fetch : Option Nat) :
    PointwiseTied (leKT flags) (takeOpt fetch (s.drop skip)) (takeOpt fetch ((xs.mergeSort (leKT flags)).drop skip)) ∧
    (takeOpt fetch (s.drop skip)).Sublist s := by
  have h := sorted_perm_pointwise (leKT_trans flags) (leKT_total flags)
    (hp.trans (List.mergeSort_perm xs (leKT flags)).symm) hs
    (List.pairwise_mergeSort (leKT_trans flags) (leKT_total flags) xs)
  refine ⟨?_, ?_⟩
  · cases fetch with
    | none => exact h.drop skip
    | some n => exact (h.drop skip).take n
  · cases fetch with
    | none => exact List.drop_sublist _ _
    | some n => exact (List.take_sublist _ _).trans (List.drop_sublist _ _)

/-- Any output accepted by `Spec.acceptable` for `… ORDER BY keys LIMIT fetch OFFSET skip` differs from the canonical
    answer `((sort xs).drop skip).take fetch` only inside tie classes: same length, the same key vector (under the
    ORDER BY comparator) at every position, and every row is a row of the sorted input. -/
theorem C25_ties (fo : FloatOps) (fns : String → List Val → Except Err Val) (cat : List Table) (keys : List SortKey)
    (q' : Query) (skip : Nat) (fetch : Option Nat) (out : Table)
    (h : acceptable fo fns cat (.limit skip fetch (.sort keys q')) out = .ok true) :
    ∃ (full : Table) (ko ke : List (List Val)),
      run fo fns cat (.sort keys q') [] [] = .ok full ∧
      keysOf { fo := fo, fn := fns, runSub := fun _ _ => .error (.unsupported "subquery inside ORDER BY") } [] keys out = .ok ko ∧
      keysOf { fo := fo, fn := fns, runSub := fun _ _ => .error (.unsupported "subquery inside ORDER BY") } [] keys
        (takeOpt fetch (full.drop skip)) = .ok ke ∧
      ko.length = ke.length ∧
      (∀ (i : Nat) (h₁ : i < ko.length) (h₂ : i < ke.length),
        cmpKeys fo (keys.map fun k => (k.desc, k.nullsFirst)) ko[i] ke[i] = .eq) ∧
      (∀ r ∈ out, r ∈ full) := by
  unfold acceptable at h
  simp only [bind, Except.bind, pure, Except.pure] at h
  split at h
  · cases h
  · rename_i full hfull
    split at h
    · cases h
    · rename_i ko hko
      split at h
      · cases h
      · rename_i ke hke
        simp only [Except.ok.injEq, Bool.and_eq_true] at h
        obtain ⟨hk, hb⟩ := h
        have hk' := (keysPointwiseEq_iff fo _ ko ke).1 hk
        refine ⟨full, ko, ke, hfull, hko, ?_, hk'.1, hk'.2, mem_of_subBag out full hb⟩
        cases fetch <;> exact hke

/-! ### C25_spilled -/

/-- The spilled sort (C08's merge theorem) followed by `take`: for ANY total preorder and ANY cut of the input into runs, the
    first `k` rows of the k-way merge of the sorted runs agree with `(sort xs).take k` position by position up to ties, and the
    merge itself is a sorted permutation of the input.  (The unchanged tree does not apply `fetch` on this path and merges with a
    different NULL placement: findings C08-F1 / C08-F2, see Props/C08.) -/
theorem C25_spilled {α : Type} (le lt : α → α → Bool) (hs : IQE.Lemmas.ExternalMerge.StrictOf le lt)
    (runsOfBatches : List (List (List α))) (k : Nat) :
    let runs := runsOfBatches.map (fun bs => bs.flatten.mergeSort le)
    let all := runsOfBatches.flatten.flatten
    (IQE.Engine.ExternalMerge.mergeAll lt runs).Pairwise (fun a b => le a b) ∧
    (IQE.Engine.ExternalMerge.mergeAll lt runs).Perm all ∧
    PointwiseTied le ((IQE.Engine.ExternalMerge.mergeAll lt runs).take k) ((all.mergeSort le).take k) := by
  intro runs all
  have hsorted : IQE.Lemmas.ExternalMerge.RunsSorted le runs := by
    intro r hr
    obtain ⟨bs, _, rfl⟩ := List.mem_map.1 hr
    exact List.pairwise_mergeSort hs.trans hs.total _
  have gen : ∀ (rb : List (List (List α))), (rb.map (fun bs => bs.flatten.mergeSort le)).flatten.Perm rb.flatten.flatten := by
    intro rb
    induction rb with
    | nil => simp
    | cons b bs ih =>
      simp only [List.map_cons, List.flatten_cons, List.flatten_append]
      exact (List.mergeSort_perm _ _).append ih
  obtain ⟨m1, m2⟩ := IQE.Lemmas.ExternalMerge.mergeAll_spec hs runs hsorted
  have hperm := m2.trans (gen runsOfBatches)
  exact ⟨m1, hperm, (sorted_perm_pointwise hs.trans hs.total (hperm.trans (List.mergeSort_perm all le).symm) m1
    (List.pairwise_mergeSort hs.trans hs.total all)).take k⟩

/-! ### non-vacuity -/

def fo0 : FloatOps := ⟨fun a _ => a, fun a _ => a, fun a _ => a, fun a _ => a, id, fun _ => ⟨0⟩, fun _ => none⟩

/-- the comparator on a column with ties and NULLs: `ORDER BY k DESC` (NULLS LAST by default) over k = [1, NULL, 2, 1],
    evaluated by stable insertion (`mergeSort` itself is defined by well-founded recursion and does not reduce in the kernel;
    `foldr insertFront = mergeSort` is `Lemmas.Sorting.foldr_insertFront_eq_mergeSort`) -/
example :
    ([([Val.int 1], [Val.int 10]), ([.null], [.int 11]), ([.int 2], [.int 12]), ([.int 1], [.int 13])].foldr
      (insertFront (leKeyed fo0 [(true, false)])) []).map (·.2) = [[.int 12], [.int 10], [.int 13], [.int 11]] := by decide

/-- the typing hypothesis of C25_order is satisfiable by such a column -/
example : KeysTyped [.int] [([Val.int 1], [Val.int 10]), ([.null], [.int 11]), ([.int 2], [.int 12])] := by
  intro x hx
  simp only [List.mem_cons, List.not_mem_nil, or_false] at hx
  rcases hx with rfl | rfl | rfl <;> decide

/-- a bounded top-k buffer -/
example : topK (fun a b : Nat => decide (a ≤ b)) 2 [3, 1, 2, 1] = [1, 1] := by decide

/-- the limit stream over 2 partitions × batches [2,1] and [3]: OFFSET 1 LIMIT 3 emits rows 1,2,3 and opens both partitions;
    LIMIT 2 opens only the first -/
example : (limitExec 1 (some 3) [[[0, 1], [2]], [[3, 4, 5]]]) = ([[1], [2], [3]], 2) := by decide
example : (limitExec 0 (some 2) [[[0, 1], [2]], [[3, 4, 5]]]) = ([[0, 1]], 1) := by decide
example : (limitExec 7 none [[[0, 1], [2]], [[3, 4, 5]]]) = ([], 2) := by decide

end IQE.Props.C25
