/-
  C30 — The reported result schema describes the returned rows.

  Proved here, about the reference semantics (the model the engine's answers are judged against):
  * `C30_schema_sound_partial` — type soundness of `Spec.run` w.r.t. the static schema `Spec.schemaOf`: if the plan is typed
    (`schemaOf = some ts`) over a catalog, CTE stack and outer environment that conform to their declared column types, then
    every row of a successful run has exactly `ts.length` columns and its i-th value is NULL or of type `ts[i]`
    (NULL inhabits every type).  By mutual structural induction over the plan (nested: subquery lists, CTE definitions)
    on top of the expression-level progress/preservation theorem of C29.
    PARTIAL: `schemaOf` is defined for scan / CTE reference / VALUES / filter / project / the seven join types /
    GROUP BY aggregation (COUNT(*), COUNT, SUM, AVG, MIN, MAX, DISTINCT variants) / DISTINCT / ORDER BY / LIMIT-OFFSET /
    UNION-INTERSECT-EXCEPT [ALL] / WITH, and is `none` (nothing claimed) for GROUPING SETS and window nodes, and for a
    plan with an output column whose only type is that of a bare NULL literal.
  * `C30_typed_plan_no_static_error` — such a plan never ends in a type error or a dangling column / table / CTE / subquery reference.
  * `C30_empty_result_schema` — the schema is a function of the plan alone: it does not depend on the data, in particular it is
    the same when the run returns no row (the tie checks that the engine still reports it with zero batches).
  * `C30_names` — the modelled part of the binder's naming rule (`alias.unwrap_or_else(|| bound.output_name())`): one name per
    SELECT item; an alias is kept verbatim; an unaliased column reference inherits the input column's name; every other
    unaliased expression is rendered by `Display` (unspecified in the model).
  The tie to /repo is the correspondence family C30 (harness/src/fam_c30.rs, lean/Driver/C30.lean).
-/
import IQE.Lemmas.Schema
namespace IQE.Props.C30
open IQE IQE.Spec

theorem C30_schema_sound_partial (sc : SchCtx) (fo : FloatOps) (fns : String → List Val → Except Err Val) (cat : List Table)
    (hcat : TablesOk cat sc.cat) (hf : FnsOk fns sc.fnTy)
    (q : Query) (ctes : List Table) (cteTys : List (List Ty)) (env : Env) (outer : List (List Ty)) (ts : List Ty)
    (hs : schemaOf sc q cteTys outer = some ts) (hct : TablesOk ctes cteTys) (he : envHasTys env outer = true)
    (t : Table) (hrun : run fo fns cat q ctes env = .ok t) :
    ∀ r ∈ t, r.length = ts.length ∧
      ∀ (i : Nat) (v : Val) (τ : Ty), r[i]? = some v → ts[i]? = some τ → v = .null ∨ v.tyOf = some τ := by
  have h := run_sound sc fo fns cat hcat hf q ctes cteTys env outer ts hs hct he
  rw [hrun] at h
  intro r hr
  have hrow := h r hr
  refine ⟨rowHasTys_length r ts hrow, fun i v τ hv hτ => ?_⟩
  obtain ⟨v', hv', hty⟩ := rowHasTys_get r ts i τ hrow hτ
  rw [hv] at hv'; cases hv'
  exact (valHasTy_iff v _).1 hty

theorem C30_typed_plan_no_static_error (sc : SchCtx) (fo : FloatOps) (fns : String → List Val → Except Err Val) (cat : List Table)
    (hcat : TablesOk cat sc.cat) (hf : FnsOk fns sc.fnTy)
    (q : Query) (ctes : List Table) (cteTys : List (List Ty)) (env : Env) (outer : List (List Ty)) (ts : List Ty)
    (hs : schemaOf sc q cteTys outer = some ts) (hct : TablesOk ctes cteTys) (he : envHasTys env outer = true) :
    ∀ msg, run fo fns cat q ctes env ≠ .error (.type msg) ∧ run fo fns cat q ctes env ≠ .error (.bad msg) := by
  intro msg
  have h := run_sound sc fo fns cat hcat hf q ctes cteTys env outer ts hs hct he
  constructor <;> intro hrun <;> rw [hrun] at h <;> simp [Safe, Err.isStatic] at h

/-- The schema is determined by the plan and the declared column types alone — two catalogs with the same declared types
    (e.g. the populated tables and the same tables emptied) give every successful run the same row shape. -/
theorem C30_empty_result_schema (sc : SchCtx) (fo : FloatOps) (fns : String → List Val → Except Err Val) (cat cat' : List Table)
    (hcat : TablesOk cat sc.cat) (hcat' : TablesOk cat' sc.cat) (hf : FnsOk fns sc.fnTy) (q : Query) (ts : List Ty)
    (hs : schemaOf sc q [] [] = some ts) (t t' : Table)
    (h1 : run fo fns cat q [] [] = .ok t) (h2 : run fo fns cat' q [] [] = .ok t') :
    ∀ r ∈ t ++ t', r.length = ts.length := by
  intro r hr
  rcases List.mem_append.1 hr with hr | hr
  · exact (C30_schema_sound_partial sc fo fns cat hcat hf q [] [] [] [] ts hs trivial rfl t h1 r hr).1
  · exact (C30_schema_sound_partial sc fo fns cat' hcat' hf q [] [] [] [] ts hs trivial rfl t' h2 r hr).1

theorem C30_names (input : List String) (items : List OutItem) :
    (outNames input items).length = items.length ∧
    ∀ (i : Nat) (it : OutItem), items[i]? = some it →
      (outNames input items)[i]? = some (outName input it) ∧
      (∀ a, it.alias = some a → outName input it = some a) ∧
      (it.alias = none → ∀ c, it.col = some c → outName input it = input[c]?) ∧
      (it.alias = none → it.col = none → outName input it = none) := by
  refine ⟨by simp [outNames], fun i it hi => ⟨by simp [outNames, hi], ?_, ?_, ?_⟩⟩
  · intro a ha; simp [outName, ha]
  · intro ha c hc; simp [outName, ha, hc]
  · intro ha hc; simp [outName, ha, hc]

/-! ### non-vacuity: a concrete typed plan, and plans that are rejected -/

/-- catalog: t0(BIGINT, VARCHAR, DOUBLE) -/
def sc₀ : SchCtx := { cat := [[.int, .str, .f64]] }

/-- SELECT c1, COUNT(*), SUM(c2) FROM t0 WHERE c0 > 1 GROUP BY c1  :  (VARCHAR, BIGINT, DOUBLE) -/
example : schemaOf sc₀ (.agg [.col 1] [{ fn := .countStar, arg := .lit .null }, { fn := .sum, arg := .col 2 }]
    (.filter [] (.bin .gt (.col 0) (.lit (.int 1))) (.scan 0))) [] [] = some [.str, .int, .f64] := by decide
/-- LEFT JOIN widens to both sides; semi join keeps the left side -/
example : schemaOf sc₀ (.join .left 3 3 [] (.bin .eq (.col 0) (.col 3)) (.scan 0) (.scan 0)) [] []
    = some [.int, .str, .f64, .int, .str, .f64] := by decide
example : schemaOf sc₀ (.join .semi 3 3 [] (.bin .eq (.col 0) (.col 3)) (.scan 0) (.scan 0)) [] [] = some [.int, .str, .f64] := by decide
/-- a filter on a VARCHAR column, a UNION of differently typed sides and SUM over VARCHAR have no schema -/
example : schemaOf sc₀ (.filter [] (.col 1) (.scan 0)) [] [] = none := by decide
example : schemaOf sc₀ (.setop .union true (.project [] [.col 0] (.scan 0)) (.project [] [.col 1] (.scan 0))) [] [] = none := by decide
example : schemaOf sc₀ (.agg [] [{ fn := .sum, arg := .col 1 }] (.scan 0)) [] [] = none := by decide
/-- SELECT c0 AS k, c1, c0 + 1 over input names (id, name, v): alias, inherited name, unspecified -/
example : outNames ["id", "name", "v"] [⟨some "k", some 0⟩, ⟨none, some 1⟩, ⟨none, none⟩] = [some "k", some "name", none] := by decide

end IQE.Props.C30
