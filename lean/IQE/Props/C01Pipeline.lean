/-
  C01 — SQL answers agree with standard SQL semantics: the capstone.

  `Engine.Pipeline.run` is the engine as a composition of the operator MODELS with every deviation switch off (scan, filter,
  project, hash join — 7 join types —, hash aggregation, DISTINCT, UNION ALL, VALUES, and at the top ORDER BY / LIMIT / top-k);
  `Spec.run` is the reference semantics; `Spec.acceptable` is the oracle.  The theorems say: for EVERY execution configuration
  `cfg` (any cut of every operator's input into partitions × batches, either build side, any chunking and merge tree of a
  group's values, fused or unfused top-k) and every layout of the catalog tables into batches, whenever the pipeline model
  returns a table and the reference semantics has an answer, the oracle accepts the table.

  Fragment (`Engine.Pipeline.PipeFrag`, decidable): see the header of IQE/Engine/Pipeline.lean.  Typing: the model checks the data
  where the Rust code relies on the schema (join arity / key types / boolean ON, BIGINT aggregate arguments without overflow,
  uniformly typed sort keys) and answers `.error`; so `run … = .ok out` is the only typing hypothesis.  `E : FloatExact fo` is
  the float-exactness witness C21's homomorphism theorems are phrased with (the fragment has no float aggregate; `Dist.EZ`
  is an instance, used in the non-vacuity examples).

    C01_pipeline_refines_spec_bag   plans without top-level ORDER BY / LIMIT: model table ~ reference table, oracle accepts
    C01_pipeline_error_or_right_bag the model's only other outcome is `.error`; it never returns a table the oracle rejects
    C01_pipeline_refines_spec_sort / _sort_limit / _limit
                                    top-level ORDER BY (sorted permutation), LIMIT/OFFSET over ORDER BY (same key vector at
                                    every position of the window, rows drawn from the sorted input — any tie-breaking, fused
                                    top-k or LimitExec over SortExec), LIMIT/OFFSET over an unordered input
    C01_pipeline_refines_spec       all of the above: `PipeFrag q → run … = .ok out → Spec.run … = .ok ref → acceptable … = .ok true`
    C01_pipeline_error_or_right     on `PipeFrag` the model reports an error or returns a table the oracle does not reject
-/
import IQE.Lemmas.Pipeline
import IQE.Props.C01
namespace IQE.Props.C01
open IQE IQE.Spec IQE.Engine IQE.Engine.Pipeline IQE.Lemmas.BagEq

/-- below the top level `run` is `runBag` -/
theorem C01_pipeline_run_unordered (fo : FloatOps) (fns : String → List Val → Except Err Val) (cfg : ExecCfg)
    (cat : List (List Table)) (q : Query) (h : bagFrag q = true) :
    Pipeline.run fo fns cfg cat q = runBag fo fns cfg cat q ∧ ordered q = false := by
  cases q <;> first | exact ⟨rfl, rfl⟩ | (simp [bagFrag] at h)

/-- **The pipeline refines the reference semantics (bag form).**  For a plan of the unordered fragment, every configuration and
    every catalog layout: if the pipeline model returns `out` and the reference semantics answers `ref`, then `out` is a
    permutation of `ref`, i.e. `Spec.acceptable` accepts it. -/
theorem C01_pipeline_refines_spec_bag {fo : FloatOps} (E : AggHom.FloatExact fo) (fns : String → List Val → Except Err Val)
    (cfg : ExecCfg) (cat : List (List Table)) (q : Query) (hq : bagFrag q = true) (out ref : Table)
    (hm : Pipeline.run fo fns cfg cat q = .ok out)
    (hs : Spec.run fo fns (cat.map List.flatten) q [] [] = .ok ref) :
    out.Perm ref ∧ acceptable fo fns (cat.map List.flatten) q out = .ok true := by
  obtain ⟨hrun, hord⟩ := C01_pipeline_run_unordered fo fns cfg cat q hq
  rw [hrun] at hm
  have hp := IQE.Lemmas.Pipeline.runBag_refines E fns cfg cat q hq out ref hm hs
  refine ⟨hp, ?_⟩
  rw [C01_acceptable_bag fo fns _ q out hord, hs]
  simp [Except.map, bagEq_of_perm out ref hp]

/-- **Error or right (bag form).**  On a plan of the unordered fragment the pipeline model either reports an error or returns a
    table the oracle does not reject: `acceptable` is never `.ok false` on the model's output (it is `.ok true` when the reference
    semantics has an answer, and the reference semantics' own error otherwise). -/
theorem C01_pipeline_error_or_right_bag {fo : FloatOps} (E : AggHom.FloatExact fo) (fns : String → List Val → Except Err Val)
    (cfg : ExecCfg) (cat : List (List Table)) (q : Query) (hq : bagFrag q = true) :
    (∃ e, Pipeline.run fo fns cfg cat q = .error e) ∨
    (∃ out, Pipeline.run fo fns cfg cat q = .ok out ∧
      ((∃ ref, Spec.run fo fns (cat.map List.flatten) q [] [] = .ok ref ∧ out.Perm ref ∧
          acceptable fo fns (cat.map List.flatten) q out = .ok true) ∨
       (∃ e, Spec.run fo fns (cat.map List.flatten) q [] [] = .error e ∧
          acceptable fo fns (cat.map List.flatten) q out = .error e))) := by
  cases hm : Pipeline.run fo fns cfg cat q with
  | error e => exact .inl ⟨e, rfl⟩
  | ok out =>
    refine .inr ⟨out, rfl, ?_⟩
    cases hs : Spec.run fo fns (cat.map List.flatten) q [] [] with
    | ok ref =>
      obtain ⟨h1, h2⟩ := C01_pipeline_refines_spec_bag E fns cfg cat q hq out ref hm hs
      exact .inl ⟨ref, rfl, h1, h2⟩
    | error e =>
      refine .inr ⟨e, rfl, ?_⟩
      rw [C01_acceptable_bag fo fns _ q out (C01_pipeline_run_unordered fo fns cfg cat q hq).2, hs]
      rfl

/-! ### the ordered top level -/

/-- **ORDER BY at the top**: the model's output is a permutation of the reference answer and is sorted under the ORDER BY
    comparator (ties in any order) — accepted. -/
theorem C01_pipeline_refines_spec_sort {fo : FloatOps} (E : AggHom.FloatExact fo) (fns : String → List Val → Except Err Val)
    (cfg : ExecCfg) (cat : List (List Table)) (keys : List SortKey) (q : Query) (hq : bagFrag q = true) (out ref : Table)
    (hm : Pipeline.run fo fns cfg cat (.sort keys q) = .ok out)
    (hs : Spec.run fo fns (cat.map List.flatten) (.sort keys q) [] [] = .ok ref) :
    acceptable fo fns (cat.map List.flatten) (.sort keys q) out = .ok true := by
  obtain ⟨S, hS, hfull, hSk⟩ := IQE.Lemmas.Pipeline.spec_sort_ok fo fns _ keys q ref hs
  have hm' : (runBag fo fns cfg cat q >>= sortTop fo cfg keys) = .ok out := hm
  obtain ⟨M, hM, hm''⟩ := Filter.bind_ok.mp hm'
  have hMS := IQE.Lemmas.Pipeline.runBag_refines E fns cfg cat q hq M S hM hS
  obtain ⟨hperm, ko, hko, hsorted⟩ := IQE.Lemmas.Pipeline.sort_top fo fns cfg keys M S out ref hMS hm'' hfull hSk
  simp only [flagsOf] at hsorted
  unfold acceptable
  simp only [hs, hko, bind, Except.bind, pure, Except.pure, (bagEq_iff_perm out ref).mpr hperm, hsorted, Bool.and_self]

/-- **LIMIT / OFFSET over ORDER BY at the top** — fused top-k (`cfg.fuseTopK`, skip = 0) or `LimitExec` over `SortExec`, any
    tie-breaking: the window carries the reference window's key vector at every position and its rows are rows of the sorted
    input — accepted. -/
theorem C01_pipeline_refines_spec_sort_limit {fo : FloatOps} (E : AggHom.FloatExact fo)
    (fns : String → List Val → Except Err Val) (cfg : ExecCfg) (cat : List (List Table)) (skip : Nat) (fetch : Option Nat)
    (keys : List SortKey) (q : Query) (hq : bagFrag q = true) (out ref : Table)
    (hm : Pipeline.run fo fns cfg cat (.limit skip fetch (.sort keys q)) = .ok out)
    (hs : Spec.run fo fns (cat.map List.flatten) (.limit skip fetch (.sort keys q)) [] [] = .ok ref) :
    acceptable fo fns (cat.map List.flatten) (.limit skip fetch (.sort keys q)) out = .ok true := by
  rw [Spec.run] at hs
  obtain ⟨full, hfullrun, _⟩ := Filter.bind_ok.mp hs
  obtain ⟨S, hS, hfull, hSk⟩ := IQE.Lemmas.Pipeline.spec_sort_ok fo fns _ keys q full hfullrun
  have hm' : (runBag fo fns cfg cat q >>= sortLimitTop fo cfg skip fetch keys) = .ok out := hm
  obtain ⟨M, hM, hm''⟩ := Filter.bind_ok.mp hm'
  have hMS := IQE.Lemmas.Pipeline.runBag_refines E fns cfg cat q hq M S hM hS
  obtain ⟨ko, ke, hko, hke, hpw, hsub⟩ :=
    IQE.Lemmas.Pipeline.sort_limit_top fo fns cfg skip fetch keys M S out full hMS hm'' hfull hSk
  simp only [flagsOf] at hpw
  unfold acceptable
  cases fetch <;>
    simp only [IQE.Lemmas.SortModel.takeOpt] at hke <;>
    simp only [hfullrun, hko, hke, bind, Except.bind, pure, Except.pure, hpw, hsub, Bool.and_self]

/-- the shape of `Pipeline.run` and of `acceptable` on LIMIT / OFFSET over an input that is not an ORDER BY -/
theorem C01_pipeline_limit_aux {fo : FloatOps} (E : AggHom.FloatExact fo) (fns : String → List Val → Except Err Val)
    (cfg : ExecCfg) (cat : List (List Table)) (skip : Nat) (fetch : Option Nat) (q : Query) (hq : bagFrag q = true)
    (hrun : Pipeline.run fo fns cfg cat (.limit skip fetch q) = (runBag fo fns cfg cat q >>= limitTop cfg skip fetch))
    (hacc : ∀ out : Table, acceptable fo fns (cat.map List.flatten) (.limit skip fetch q) out =
      (Spec.run fo fns (cat.map List.flatten) q [] [] >>= fun full =>
        pure (out.length == IQE.Lemmas.Pipeline.limitLen fetch full.length skip && subBag out full)))
    (out ref : Table) (hm : Pipeline.run fo fns cfg cat (.limit skip fetch q) = .ok out)
    (hs : Spec.run fo fns (cat.map List.flatten) (.limit skip fetch q) [] [] = .ok ref) :
    acceptable fo fns (cat.map List.flatten) (.limit skip fetch q) out = .ok true := by
  rw [hrun] at hm
  obtain ⟨M, hM, hm'⟩ := Filter.bind_ok.mp hm
  rw [Spec.run] at hs
  obtain ⟨S, hS, _⟩ := Filter.bind_ok.mp hs
  have hMS := IQE.Lemmas.Pipeline.runBag_refines E fns cfg cat q hq M S hM hS
  obtain ⟨hlen, hsub⟩ := IQE.Lemmas.Pipeline.limit_top cfg skip fetch M S out hMS hm'
  rw [hacc, hS]
  simp [bind, Except.bind, pure, Except.pure, hlen, hsub]

/-- **LIMIT / OFFSET over an unordered input at the top**: the right number of rows, all drawn from the input — accepted. -/
theorem C01_pipeline_refines_spec_limit {fo : FloatOps} (E : AggHom.FloatExact fo) (fns : String → List Val → Except Err Val)
    (cfg : ExecCfg) (cat : List (List Table)) (skip : Nat) (fetch : Option Nat) (q : Query) (hq : bagFrag q = true)
    (out ref : Table) (hm : Pipeline.run fo fns cfg cat (.limit skip fetch q) = .ok out)
    (hs : Spec.run fo fns (cat.map List.flatten) (.limit skip fetch q) [] [] = .ok ref) :
    acceptable fo fns (cat.map List.flatten) (.limit skip fetch q) out = .ok true := by
  cases q with
  | sort keys q' => simp [bagFrag] at hq
  | limit s f q' => simp [bagFrag] at hq
  | _ => exact C01_pipeline_limit_aux E fns cfg cat skip fetch _ hq rfl (fun _ => rfl) out ref hm hs

/-- **C01_pipeline_refines_spec.**  For every plan of the pipeline fragment, every execution configuration (batching, partition
    count, build side, chunking and merge tree of every group, fused or unfused top-k) and every layout of the catalog tables into
    batches: whenever the composition of the operator models (all deviation switches off) returns a table and the reference
    semantics has an answer, `Spec.acceptable` accepts the table. -/
theorem C01_pipeline_refines_spec {fo : FloatOps} (E : AggHom.FloatExact fo) (fns : String → List Val → Except Err Val)
    (cfg : ExecCfg) (cat : List (List Table)) (q : Query) (hq : PipeFrag q) (out ref : Table)
    (hm : Pipeline.run fo fns cfg cat q = .ok out)
    (hs : Spec.run fo fns (cat.map List.flatten) q [] [] = .ok ref) :
    acceptable fo fns (cat.map List.flatten) q out = .ok true := by
  cases q with
  | sort keys q' => exact C01_pipeline_refines_spec_sort E fns cfg cat keys q' hq out ref hm hs
  | limit skip fetch q' =>
    cases q' with
    | sort keys q'' => exact C01_pipeline_refines_spec_sort_limit E fns cfg cat skip fetch keys q'' hq out ref hm hs
    | _ => exact C01_pipeline_refines_spec_limit E fns cfg cat skip fetch _ hq out ref hm hs
  | _ => exact (C01_pipeline_refines_spec_bag E fns cfg cat _ hq out ref hm hs).2

/-- when the reference semantics itself reports an error, so does the oracle (on the pipeline fragment) -/
theorem C01_pipeline_acceptable_error (fo : FloatOps) (fns : String → List Val → Except Err Val) (cat : List Table) (q : Query)
    (hq : PipeFrag q) (out : Table) (e : Err) (hs : Spec.run fo fns cat q [] [] = .error e) :
    acceptable fo fns cat q out = .error e := by
  have hbag : ∀ q' : Query, ordered q' = false → Spec.run fo fns cat q' [] [] = .error e →
      acceptable fo fns cat q' out = .error e := by
    intro q' ho hs'
    rw [C01_acceptable_bag fo fns cat q' out (by cases q' <;> first | rfl | simp [ordered] at ho), hs']
    rfl
  have hlim : ∀ (skip : Nat) (fetch : Option Nat) (q' : Query),
      Spec.run fo fns cat (.limit skip fetch q') [] [] = .error e → Spec.run fo fns cat q' [] [] = .error e := by
    intro skip fetch q' h
    rw [Spec.run] at h
    dsimp only at h
    cases hr : Spec.run fo fns cat q' [] [] with
    | ok rows => rw [hr] at h; cases h
    | error e' => rw [hr] at h; cases h; rfl
  cases q with
  | sort keys q' =>
    unfold acceptable
    simp only [hs, bind, Except.bind]
  | limit skip fetch q' =>
    have hr := hlim skip fetch q' hs
    cases q' with
    | sort keys q'' =>
      unfold acceptable
      simp only [hr, bind, Except.bind]
    | _ =>
      unfold acceptable
      simp only [hr, bind, Except.bind]
  | _ => exact hbag _ rfl hs

/-- **Error or right.**  On the pipeline fragment, for every configuration, the model either reports an error or returns a table
    that `Spec.acceptable` does not reject: the verdict on the model's output is `.ok true` whenever the reference semantics has an
    answer, and the reference semantics' own error otherwise — never `.ok false`. -/
theorem C01_pipeline_error_or_right {fo : FloatOps} (E : AggHom.FloatExact fo) (fns : String → List Val → Except Err Val)
    (cfg : ExecCfg) (cat : List (List Table)) (q : Query) (hq : PipeFrag q) :
    (∃ e, Pipeline.run fo fns cfg cat q = .error e) ∨
    (∃ out, Pipeline.run fo fns cfg cat q = .ok out ∧
      acceptable fo fns (cat.map List.flatten) q out ≠ .ok false ∧
      (∀ ref, Spec.run fo fns (cat.map List.flatten) q [] [] = .ok ref →
        acceptable fo fns (cat.map List.flatten) q out = .ok true)) := by
  cases hm : Pipeline.run fo fns cfg cat q with
  | error e => exact .inl ⟨e, rfl⟩
  | ok out =>
    refine .inr ⟨out, rfl, ?_, fun ref hs => C01_pipeline_refines_spec E fns cfg cat q hq out ref hm hs⟩
    cases hs : Spec.run fo fns (cat.map List.flatten) q [] [] with
    | ok ref => rw [C01_pipeline_refines_spec E fns cfg cat q hq out ref hm hs]; simp
    | error e => rw [C01_pipeline_acceptable_error fo fns _ q hq out e hs]; simp

/-! ### non-vacuity: a join + filter + aggregate plan over a 2-table catalog, two different configurations -/

namespace PipeEx
def fns0 : String → List Val → Except Err Val := fun n _ => .error (.unsupported n)
/-- orders(custkey, amount) in two batches (one NULL key), cust(custkey, flag) in one batch -/
def cat0 : List (List Table) :=
  [ [[[.int 1, .int 10], [.int 2, .int 20]], [[.int 1, .int 5], [.null, .int 7]]],
    [[[.int 1, .int 1], [.int 2, .int 0], [.int 3, .int 1]]] ]
/-- SELECT o.custkey, SUM(o.amount), COUNT(*) FROM orders o JOIN cust c ON o.custkey = c.custkey WHERE o.amount > 6 GROUP BY o.custkey -/
def q0 : Query :=
  .agg [.col 0] [⟨.sum, .col 1, false⟩, ⟨.countStar, .lit .null, false⟩]
    (.filter [] (.bin .gt (.col 1) (.lit (.int 6)))
      (.join .inner 2 2 [] (.bin .eq (.col 0) (.col 2)) (.scan 0) (.scan 1)))
/-- batches of 2 rows, 1 batch per partition, build = left, values merged one by one, fused top-k -/
def cfgA : ExecCfg := ExecCfg.ofSizes 2 1 1 true true
/-- batches of 1 row, 2 batches per partition, build = right, chunks of 3 values, unfused -/
def cfgB : ExecCfg := ExecCfg.ofSizes 1 2 3 false false
def ans0 : Table := [[.int 1, .int 10, .int 1], [.int 2, .int 20, .int 1]]
end PipeEx

open PipeEx in
example : PipeFrag q0 := by decide
open PipeEx in
example : bagFrag q0 = true := by decide
open PipeEx in
example : Pipeline.run IQE.Dist.foZ fns0 cfgA cat0 q0 = .ok ans0 := by decide +kernel
open PipeEx in
example : Pipeline.run IQE.Dist.foZ fns0 cfgB cat0 q0 = .ok ans0 := by decide +kernel
open PipeEx in
example : Spec.run IQE.Dist.foZ fns0 (cat0.map List.flatten) q0 [] [] = .ok ans0 := by decide +kernel
-- … so the theorem applies, with both hypotheses true
open PipeEx in
example : acceptable IQE.Dist.foZ fns0 (cat0.map List.flatten) q0 ans0 = .ok true :=
  (C01_pipeline_refines_spec_bag IQE.Dist.EZ fns0 cfgB cat0 q0 (by decide) ans0 ans0 (by decide +kernel) (by decide +kernel)).2

-- LIMIT / OFFSET on top of it (`LimitExec` around the translated `LimitState`): both sides evaluate in the kernel, the general
-- theorem applies.  (Plans with ORDER BY do not evaluate in the kernel — `List.mergeSort` is defined by well-founded recursion —
-- they are exercised by the driver; C01_pipeline_refines_spec_sort / _sort_limit are proved for every input.)
open PipeEx in
example : PipeFrag (.limit 1 (some 2) q0) := by decide
open PipeEx in
example : Pipeline.run IQE.Dist.foZ fns0 cfgB cat0 (.limit 1 (some 2) q0) = .ok [[.int 2, .int 20, .int 1]] := by decide +kernel
open PipeEx in
example : acceptable IQE.Dist.foZ fns0 (cat0.map List.flatten) (.limit 1 (some 2) q0) [[.int 2, .int 20, .int 1]] = .ok true :=
  C01_pipeline_refines_spec IQE.Dist.EZ fns0 cfgB cat0 (.limit 1 (some 2) q0) (by decide) _ [[.int 2, .int 20, .int 1]]
    (by decide +kernel) (by decide +kernel)
-- outside the fragment the model refuses, it does not guess
open PipeEx in
example : Pipeline.run IQE.Dist.foZ fns0 cfgA cat0 (.setop .intersect true (.scan 0) (.scan 1)) =
    .error (.unsupported "plan node outside the pipeline fragment") := by decide +kernel
open PipeEx in
example : pipeFrag (.filter [] (.lit (.bool true)) (.limit 0 (some 1) (.scan 0))) = false := by decide

end IQE.Props.C01
