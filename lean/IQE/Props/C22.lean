/-
  C22 — Joins follow SQL join semantics.
  Property theorems only.  Model: IQE.Engine.HashJoin (mirror of src/physical/operators/hash_join.rs:
  build / per-batch probe / residual filter on candidate pairs BEFORE match tracking / probe_matched and
  build_matched / emission per join type / build side choice / shared tracker across probe partitions /
  runtime key filter).  Helper lemmas and the tracker invariant: IQE/Lemmas/HashJoin.lean; the algebra of the
  nested-loop join: IQE/Lemmas/JoinDecomp.lean.

  Inputs are `L R : List (List Table)`: partitions of batches.  The side that the configuration makes the
  build side is collected whole; the other side is probed partition by partition (in the listed order — the
  theorems quantify over every list, hence over every order and grouping), batch by batch.
  `xs.flatten.flatten` is the table itself.  Every theorem is about `Dev = {}` (all deviation switches off);
  each switch has a kernel-checked negation witness at the end of the file.
-/
import IQE.Lemmas.HashJoin
namespace IQE.Props.C22
open List IQE IQE.Spec IQE.Join IQE.Engine.HashJoin

/-- MAIN.  For every join type, every key list (any length; a key with a NULL component never matches),
    every residual, both build sides (`cfg.buildLeft`), every partitioning and batching of both inputs:
    the hash join's output is, as a bag, the nested-loop join whose ON condition is
    `keys equal (SQL equality) AND residual`.  CROSS has no ON condition: the hypothesis says so. -/
theorem C22_refines (jt : JoinType) (cfg : Cfg) (L R : List (List Table))
    (hcross : jt = .cross → ∀ l ∈ L.flatten.flatten, ∀ r ∈ R.flatten.flatten,
      (keysEq cfg l r && cfg.residual l r) = true) :
    hashJoin {} jt cfg L R ~
      nlJoin jt cfg.lw cfg.rw (fun l r => keysEq cfg l r && cfg.residual l r) L.flatten.flatten R.flatten.flatten :=
  hashJoin_perm_nlJoin jt cfg L R hcross

/-- Against the reference semantics: whenever the ON expression of the plan evaluates, on every pair, to the truth
    value `keys equal AND residual`, `Spec.joinRows` succeeds and the hash join returns the same bag. -/
theorem C22_refines_spec (cx : EvalCtx) (env : Env) (on : Expr) (jt : JoinType) (cfg : Cfg) (L R : List (List Table))
    (hon : ∀ l ∈ L.flatten.flatten, ∀ r ∈ R.flatten.flatten,
      onTrue cx env on (l ++ r) = .ok (keysEq cfg l r && cfg.residual l r))
    (hcross : jt = .cross → ∀ l ∈ L.flatten.flatten, ∀ r ∈ R.flatten.flatten,
      (keysEq cfg l r && cfg.residual l r) = true) :
    ∃ out, joinRows cx env jt cfg.lw cfg.rw on L.flatten.flatten R.flatten.flatten = .ok out ∧
      hashJoin {} jt cfg L R ~ out :=
  ⟨_, joinRows_eq_nlJoin cx env jt cfg.lw cfg.rw on _ _ _ hon, C22_refines jt cfg L R hcross⟩

/-- Partitioning, batching and processing order of either input are invisible: two presentations of the same
    bags give the same bag. -/
theorem C22_batching_irrelevant (jt : JoinType) (cfg : Cfg) (L L' R R' : List (List Table))
    (hL : L.flatten.flatten ~ L'.flatten.flatten) (hR : R.flatten.flatten ~ R'.flatten.flatten)
    (hcross : jt = .cross → ∀ l ∈ L.flatten.flatten, ∀ r ∈ R.flatten.flatten,
      (keysEq cfg l r && cfg.residual l r) = true) :
    hashJoin {} jt cfg L R ~ hashJoin {} jt cfg L' R' := by
  have hcross' : jt = .cross → ∀ l ∈ L'.flatten.flatten, ∀ r ∈ R'.flatten.flatten,
      (keysEq cfg l r && cfg.residual l r) = true :=
    fun e l hl r hr => hcross e l (hL.mem_iff.mpr hl) r (hR.mem_iff.mpr hr)
  exact (C22_refines jt cfg L R hcross).trans
    ((nlJoin_perm jt cfg.lw cfg.rw _ hL hR).trans (C22_refines jt cfg L' R' hcross').symm)

/-- The shared tracker invariant behind the outer-join emission: after ALL probe partitions (any number, any
    order, any batching) bit `i` of the shared `build_matched` bitmap is set iff build row `i` satisfies the
    whole ON condition with at least one probe row. -/
theorem C22_tracker_invariant (jt : JoinType) (cfg : Cfg) (bl : Bool) (B : Table) (parts : List (List Table)) :
    (probeAll {} jt cfg bl B (buildTable {} (buildCols cfg bl) B) parts).2
      = B.map fun b => parts.flatten.flatten.any fun p => matchBP cfg bl b p := by
  rw [probeAll_eq]; rfl

/-- The build side is irrelevant. -/
theorem C22_build_side_irrelevant (jt : JoinType) (cfg : Cfg) (L R : List (List Table))
    (hcross : jt = .cross → ∀ l ∈ L.flatten.flatten, ∀ r ∈ R.flatten.flatten,
      (keysEq cfg l r && cfg.residual l r) = true) :
    hashJoin {} jt { cfg with buildLeft := true } L R ~ hashJoin {} jt { cfg with buildLeft := false } L R :=
  (C22_refines jt { cfg with buildLeft := true } L R hcross).trans
    (C22_refines jt { cfg with buildLeft := false } L R hcross).symm

/-- A key is absent (`none`: never inserted, never probed) exactly when one of its columns is NULL. -/
theorem C22_null_key_iff (cols : List Nat) (row : Row) :
    keyOf cols row = none ↔ ∃ c ∈ cols, row.getD c .null = .null :=
  keyOf_eq_none_iff cols row

/-- NULL keys never match (left rows).  A left row `l` whose key has a NULL component equals no right key, and
    adding it to the left input (anywhere: `L'` is any presentation of `l :: L`) adds EXACTLY: the row
    NULL-extended for LEFT / FULL, the row itself for ANTI, nothing for INNER / RIGHT / SEMI. -/
theorem C22_null_keys_never_match (jt : JoinType) (cfg : Cfg) (l : Row) (hnull : keyOf cfg.lkeys l = none)
    (L L' R : List (List Table)) (hL : L'.flatten.flatten ~ l :: L.flatten.flatten) :
    (∀ r, keysEq cfg l r = false) ∧
    ((jt = .left ∨ jt = .full) → hashJoin {} jt cfg L' R ~ (l ++ nulls cfg.rw) :: hashJoin {} jt cfg L R) ∧
    (jt = .anti → hashJoin {} jt cfg L' R ~ l :: hashJoin {} jt cfg L R) ∧
    ((jt = .inner ∨ jt = .right ∨ jt = .semi) → hashJoin {} jt cfg L' R ~ hashJoin {} jt cfg L R) := by
  have h : ∀ r ∈ R.flatten.flatten, onPair cfg l r = false := fun r _ => onPair_false_of_left_null cfg l r hnull
  have key := fun hjt => hashJoin_add_unmatched_left jt hjt cfg L L' R l hL h
  refine ⟨fun r => keysEq_false_of_left_null cfg l r hnull, ?_, ?_, ?_⟩
  · rintro (rfl | rfl) <;> exact key (by decide)
  · rintro rfl; exact key (by decide)
  · rintro (rfl | rfl | rfl) <;> exact key (by decide)

/-- NULL keys never match (right rows): NULL-extended for RIGHT / FULL, nothing otherwise (SEMI / ANTI output only
    left rows, and a NULL-key right row can neither make a left row qualify nor disqualify it). -/
theorem C22_null_keys_never_match_right (jt : JoinType) (cfg : Cfg) (r : Row) (hnull : keyOf cfg.rkeys r = none)
    (L R R' : List (List Table)) (hR : R'.flatten.flatten ~ r :: R.flatten.flatten) :
    (∀ l, keysEq cfg l r = false) ∧
    ((jt = .right ∨ jt = .full) → hashJoin {} jt cfg L R' ~ (nulls cfg.lw ++ r) :: hashJoin {} jt cfg L R) ∧
    ((jt = .inner ∨ jt = .left ∨ jt = .semi ∨ jt = .anti) → hashJoin {} jt cfg L R' ~ hashJoin {} jt cfg L R) := by
  have h : ∀ l ∈ L.flatten.flatten, onPair cfg l r = false := fun l _ => onPair_false_of_right_null cfg l r hnull
  have key := fun hjt => hashJoin_add_unmatched_right jt hjt cfg L R R' r hR h
  refine ⟨fun l => keysEq_false_of_right_null cfg l r hnull, ?_, ?_⟩
  · rintro (rfl | rfl) <;> exact key (by decide)
  · rintro (rfl | rfl | rfl | rfl) <;> exact key (by decide)

/-- Outer joins = the inner join ⊎ every unmatched preserved-side row EXACTLY ONCE, extended by an all-NULL other
    side of the declared arity.  "Unmatched" = satisfies the whole ON condition with no row of the other input.
    The last two clauses count: an unmatched row occurs in the NULL-extended part as often as in the input, a
    matched row never. -/
theorem C22_outer_null_extends (cfg : Cfg) (L R : List (List Table)) :
    let m : Row → Row → Bool := fun l r => keysEq cfg l r && cfg.residual l r
    let Lr := L.flatten.flatten
    let Rr := R.flatten.flatten
    let lu := (Lr.filter fun l => !Rr.any (m l)).map fun l => l ++ nulls cfg.rw
    let ru := (Rr.filter fun r => !Lr.any (m · r)).map fun r => nulls cfg.lw ++ r
    (hashJoin {} .left cfg L R ~ hashJoin {} .inner cfg L R ++ lu) ∧
    (hashJoin {} .right cfg L R ~ hashJoin {} .inner cfg L R ++ ru) ∧
    (hashJoin {} .full cfg L R ~ hashJoin {} .inner cfg L R ++ lu ++ ru) ∧
    (∀ l, (Lr.filter fun l => !Rr.any (m l)).count l = if Rr.any (m l) then 0 else Lr.count l) ∧
    (∀ r, (Rr.filter fun r => !Lr.any (m · r)).count r = if Lr.any (m · r) then 0 else Rr.count r) := by
  intro m Lr Rr lu ru
  have hi := C22_refines .inner cfg L R (by intro h; cases h)
  refine ⟨?_, ?_, ?_, ?_, ?_⟩
  · exact ((C22_refines .left cfg L R (by intro h; cases h)).trans (left_decomp ..)).trans (hi.symm.append (.refl _))
  · exact ((C22_refines .right cfg L R (by intro h; cases h)).trans (right_decomp ..)).trans (hi.symm.append (.refl _))
  · exact ((C22_refines .full cfg L R (by intro h; cases h)).trans (full_decomp ..)).trans
      ((hi.symm.append (.refl _)).append (.refl _))
  · exact fun l => count_filter_not (fun l => Rr.any (m l)) Lr l
  · exact fun r => count_filter_not (fun r => Lr.any (m · r)) Rr r

/-- Filter BEFORE tracking (left rows).  A left row all of whose key candidates are rejected by the residual
    counts as UNMATCHED: adding it adds exactly the NULL-extended row for LEFT / FULL, the row itself for ANTI,
    nothing for INNER / RIGHT / SEMI — whatever the batching and the build side. -/
theorem C22_filter_before_tracking (jt : JoinType) (cfg : Cfg) (l : Row) (L L' R : List (List Table))
    (hrej : ∀ r ∈ R.flatten.flatten, keysEq cfg l r = true → cfg.residual l r = false)
    (hL : L'.flatten.flatten ~ l :: L.flatten.flatten) :
    ((jt = .left ∨ jt = .full) → hashJoin {} jt cfg L' R ~ (l ++ nulls cfg.rw) :: hashJoin {} jt cfg L R) ∧
    (jt = .anti → hashJoin {} jt cfg L' R ~ l :: hashJoin {} jt cfg L R) ∧
    ((jt = .inner ∨ jt = .right ∨ jt = .semi) → hashJoin {} jt cfg L' R ~ hashJoin {} jt cfg L R) := by
  have h : ∀ r ∈ R.flatten.flatten, onPair cfg l r = false := by
    intro r hr
    simp only [onPair]
    cases hk : keysEq cfg l r
    · rfl
    · simp only [hrej r hr hk, Bool.and_false]
  have key := fun hjt => hashJoin_add_unmatched_left jt hjt cfg L L' R l hL h
  refine ⟨?_, ?_, ?_⟩
  · rintro (rfl | rfl) <;> exact key (by decide)
  · rintro rfl; exact key (by decide)
  · rintro (rfl | rfl | rfl) <;> exact key (by decide)

/-- Filter BEFORE tracking (right rows): NULL-extended for RIGHT / FULL, no effect otherwise. -/
theorem C22_filter_before_tracking_right (jt : JoinType) (cfg : Cfg) (r : Row) (L R R' : List (List Table))
    (hrej : ∀ l ∈ L.flatten.flatten, keysEq cfg l r = true → cfg.residual l r = false)
    (hR : R'.flatten.flatten ~ r :: R.flatten.flatten) :
    ((jt = .right ∨ jt = .full) → hashJoin {} jt cfg L R' ~ (nulls cfg.lw ++ r) :: hashJoin {} jt cfg L R) ∧
    ((jt = .inner ∨ jt = .left ∨ jt = .semi ∨ jt = .anti) → hashJoin {} jt cfg L R' ~ hashJoin {} jt cfg L R) := by
  have h : ∀ l ∈ L.flatten.flatten, onPair cfg l r = false := by
    intro l hl
    simp only [onPair]
    cases hk : keysEq cfg l r
    · rfl
    · simp only [hrej l hl hk, Bool.and_false]
  have key := fun hjt => hashJoin_add_unmatched_right jt hjt cfg L R R' r hR h
  refine ⟨?_, ?_⟩
  · rintro (rfl | rfl) <;> exact key (by decide)
  · rintro (rfl | rfl | rfl | rfl) <;> exact key (by decide)

/-- The runtime key filter (probe rows whose key column `pair` is NULL or absent from the build side's values of
    that column are dropped by the scan) is sound for INNER and SEMI with either build side, and for ANTI when
    the build side is the left input (the planner's `rt_eligible`). -/
theorem C22_runtime_filter_sound (jt : JoinType) (cfg : Cfg) (pair : Nat) (L R : List (List Table))
    (hjt : jt = .inner ∨ jt = .semi ∨ (jt = .anti ∧ cfg.buildLeft = true)) :
    hashJoinRF {} jt cfg pair L R ~ hashJoin {} jt cfg L R := by
  have hnc : jt ≠ .cross := by rcases hjt with rfl | rfl | ⟨rfl, _⟩ <;> decide
  have hc : ∀ X Y : Table, jt = .cross → ∀ l ∈ X, ∀ r ∈ Y, (keysEq cfg l r && cfg.residual l r) = true :=
    fun _ _ e => absurd e hnc
  unfold hashJoinRF
  split
  · -- build = left: the right input is filtered
    refine (C22_refines jt cfg L _ (hc _ _)).trans (Perm.trans (Perm.of_eq ?_) (C22_refines jt cfg L R (hc _ _)).symm)
    rw [runtimeFilter_flatten]
    apply prefilter_right_sound jt (hjt.imp id (Or.imp id And.left))
    intro l hl r _ hm
    exact rtKeep_true_of_match cfg pair _ l r hl hm
  · -- build = right: the left input is filtered
    rename_i hb
    refine (C22_refines jt cfg _ R (hc _ _)).trans (Perm.trans (Perm.of_eq ?_) (C22_refines jt cfg L R (hc _ _)).symm)
    rw [runtimeFilter_flatten]
    have hjt' : jt = .inner ∨ jt = .semi := by
      rcases hjt with h | h | ⟨h, hbl⟩
      · exact .inl h
      · exact .inr h
      · subst h; simp [buildIsLeft, hbl] at hb
    apply prefilter_sound jt hjt'
    intro l _ hm
    simp only [hasMatch, any_eq_true] at hm
    obtain ⟨r, hr, hm⟩ := hm
    exact rtKeep_false_of_match cfg pair _ l r hr hm

/-! ## non-vacuity: the model evaluated by the kernel on tiny inputs -/

-- fixtures `Ex.cfgK` (key = column 0), `Ex.cfgT` (plus residual: payloads equal), `Ex.Lx`, `Ex.Rx`: IQE/Lemmas/HashJoin.lean

-- LEFT with the build on the left (build_matched + shared tracker) and on the right (probe_matched per batch)
example : hashJoin {} .left Ex.cfgK Ex.Lx Ex.Rx =
    [[.int 1, .int 5, .int 1, .int 5], [.int 1, .int 8, .int 1, .int 5],
     [.null, .int 6, .null, .null], [.int 2, .int 7, .null, .null]] := by decide
example : hashJoin {} .left { Ex.cfgK with buildLeft := false } Ex.Lx Ex.Rx =
    [[.int 1, .int 5, .int 1, .int 5], [.null, .int 6, .null, .null],
     [.int 2, .int 7, .null, .null], [.int 1, .int 8, .int 1, .int 5]] := by decide
-- FULL: both NULL-key rows and both unmatched rows appear once, NULL-extended
example : hashJoin {} .full Ex.cfgK Ex.Lx Ex.Rx =
    [[.int 1, .int 5, .int 1, .int 5], [.int 1, .int 8, .int 1, .int 5],
     [.null, .null, .null, .int 3], [.null, .null, .int 3, .int 9],
     [.null, .int 6, .null, .null], [.int 2, .int 7, .null, .null]] := by decide
example : hashJoin {} .right Ex.cfgK Ex.Lx Ex.Rx =
    [[.int 1, .int 5, .int 1, .int 5], [.int 1, .int 8, .int 1, .int 5],
     [.null, .null, .null, .int 3], [.null, .null, .int 3, .int 9]] := by decide
-- SEMI / ANTI, both build sides: the NULL-key row is dropped by SEMI and kept by ANTI
example : hashJoin {} .semi Ex.cfgK Ex.Lx Ex.Rx = [[.int 1, .int 5], [.int 1, .int 8]] := by decide
example : hashJoin {} .semi { Ex.cfgK with buildLeft := false } Ex.Lx Ex.Rx = [[.int 1, .int 5], [.int 1, .int 8]] := by decide
example : hashJoin {} .anti Ex.cfgK Ex.Lx Ex.Rx = [[.null, .int 6], [.int 2, .int 7]] := by decide
example : hashJoin {} .anti { Ex.cfgK with buildLeft := false } Ex.Lx Ex.Rx = [[.null, .int 6], [.int 2, .int 7]] := by decide
-- CROSS (no keys, no residual): the hypothesis of C22_refines holds and every pair is produced
example : ∀ l r, (keysEq { lkeys := [], rkeys := [], lw := 1, rw := 1 } l r
    && ({ lkeys := [], rkeys := [], lw := 1, rw := 1 } : Cfg).residual l r) = true := fun _ _ => rfl
example : hashJoin {} .cross { lkeys := [], rkeys := [], lw := 1, rw := 1 } [[[[.int 1], [.null]]]] [[[[.int 7]], [[.int 8]]]] =
    [[.int 1, .int 7], [.null, .int 7], [.int 1, .int 8], [.null, .int 8]] := by decide
-- composite key of length 3 with mixed types: one NULL component → no match
example : hashJoin {} .inner { lkeys := [0, 1, 2], rkeys := [2, 1, 0], lw := 3, rw := 3 }
    [[[[.int 1, .date 9, .bool true], [.int 1, .null, .bool true]]]]
    [[[[.bool true, .date 9, .int 1], [.bool true, .null, .int 1]]]] =
    [[.int 1, .date 9, .bool true, .bool true, .date 9, .int 1]] := by decide
-- the hypothesis of C22_null_keys_never_match is satisfiable
example : keyOf Ex.cfgK.lkeys [.null, .int 6] = none := by decide

-- filter before tracking: (1,8) has the key candidate (1,5) but the residual rejects it → NULL-extended / kept by ANTI
example : hashJoin {} .left Ex.cfgT Ex.Lx Ex.Rx =
    [[.int 1, .int 5, .int 1, .int 5], [.null, .int 6, .null, .null],
     [.int 2, .int 7, .null, .null], [.int 1, .int 8, .null, .null]] := by decide
example : hashJoin {} .anti Ex.cfgT Ex.Lx Ex.Rx = [[.null, .int 6], [.int 2, .int 7], [.int 1, .int 8]] := by decide
example : hashJoin {} .semi Ex.cfgT Ex.Lx Ex.Rx = [[.int 1, .int 5]] := by decide

/-! ## negation witnesses: each deviation switch breaks the property on a concrete input -/

-- `trackBeforeFilter`: (1,8) is marked matched by its rejected candidate and disappears from LEFT and ANTI,
-- appears in SEMI
example : ¬ (hashJoin { trackBeforeFilter := true } .left Ex.cfgT Ex.Lx Ex.Rx ~
    nlJoin .left 2 2 (fun l r => keysEq Ex.cfgT l r && Ex.cfgT.residual l r) Ex.Lx.flatten.flatten Ex.Rx.flatten.flatten) := by
  decide
example : hashJoin { trackBeforeFilter := true } .left Ex.cfgT Ex.Lx Ex.Rx =
    [[.int 1, .int 5, .int 1, .int 5], [.null, .int 6, .null, .null], [.int 2, .int 7, .null, .null]] := by decide
example : hashJoin { trackBeforeFilter := true } .anti Ex.cfgT Ex.Lx Ex.Rx = [[.null, .int 6], [.int 2, .int 7]] := by decide
example : hashJoin { trackBeforeFilter := true } .semi Ex.cfgT Ex.Lx Ex.Rx = [[.int 1, .int 5], [.int 1, .int 8]] := by decide

-- `nullKeysMatch`: NULL = NULL joins the two NULL-key rows
example : ¬ (hashJoin { nullKeysMatch := true } .inner Ex.cfgK Ex.Lx Ex.Rx ~
    nlJoin .inner 2 2 (fun l r => keysEq Ex.cfgK l r && Ex.cfgK.residual l r) Ex.Lx.flatten.flatten Ex.Rx.flatten.flatten) := by
  decide
example : hashJoin { nullKeysMatch := true } .inner Ex.cfgK Ex.Lx Ex.Rx =
    [[.int 1, .int 5, .int 1, .int 5], [.int 1, .int 8, .int 1, .int 5], [.null, .int 6, .null, .int 3]] := by decide

-- `semiStopAtFirstPass` (probe_semi_anti_parallel with the build side = output side): of the two left rows with
-- key 1 only the first candidate of the single right row is marked
example : ¬ (hashJoin { semiStopAtFirstPass := true } .semi Ex.cfgK Ex.Lx Ex.Rx ~
    nlJoin .semi 2 2 (fun l r => keysEq Ex.cfgK l r && Ex.cfgK.residual l r) Ex.Lx.flatten.flatten Ex.Rx.flatten.flatten) := by
  decide
example : hashJoin { semiStopAtFirstPass := true } .semi Ex.cfgK Ex.Lx Ex.Rx = [[.int 1, .int 5]] := by decide
example : hashJoin { semiStopAtFirstPass := true, chainNewestFirst := true } .semi Ex.cfgK Ex.Lx Ex.Rx = [[.int 1, .int 8]] := by
  decide
example : hashJoin { semiStopAtFirstPass := true } .anti Ex.cfgK Ex.Lx Ex.Rx =
    [[.null, .int 6], [.int 2, .int 7], [.int 1, .int 8]] := by decide
-- with the probe rows as the output the early stop is harmless
example : hashJoin { semiStopAtFirstPass := true } .semi { Ex.cfgK with buildLeft := false } Ex.Lx Ex.Rx =
    hashJoin {} .semi { Ex.cfgK with buildLeft := false } Ex.Lx Ex.Rx := by decide

-- `smallProbeEmptyTable` (filtered Semi/Anti, ≤ 1000 probe rows, generic loop over the EMPTY generic table):
-- SEMI returns nothing, ANTI returns every left row
example : ¬ (hashJoin { smallProbeEmptyTable := true } .semi Ex.cfgT Ex.Lx Ex.Rx ~
    nlJoin .semi 2 2 (fun l r => keysEq Ex.cfgT l r && Ex.cfgT.residual l r) Ex.Lx.flatten.flatten Ex.Rx.flatten.flatten) := by
  decide
example : hashJoin { smallProbeEmptyTable := true } .semi Ex.cfgT Ex.Lx Ex.Rx = [] := by decide
example : hashJoin { smallProbeEmptyTable := true } .anti Ex.cfgT Ex.Lx Ex.Rx = Ex.Lx.flatten.flatten := by decide

-- `semiAntiEmptyTable` (the same empty table, reached by probe_semi_anti_parallel with > 1000 probe rows when the key is
-- not a single BIGINT or the residual did not compile): no size gate in the model
example : ¬ (hashJoin { semiAntiEmptyTable := true } .anti Ex.cfgT Ex.Lx Ex.Rx ~
    nlJoin .anti 2 2 (fun l r => keysEq Ex.cfgT l r && Ex.cfgT.residual l r) Ex.Lx.flatten.flatten Ex.Rx.flatten.flatten) := by
  decide
example : hashJoin { semiAntiEmptyTable := true } .semi Ex.cfgT Ex.Lx Ex.Rx = [] := by decide

-- `compiledFilterRawNulls`: with `residualRaw` = the residual over rows whose NULL cells read as 0, the left row (9, NULL)
-- passes `v0 <> v1` against (9, 5) although NULL <> 5 is not TRUE
example : hashJoin { compiledFilterRawNulls := true } .semi
    { lkeys := [0], rkeys := [0], lw := 2, rw := 2,
      residual := fun l r => match l.getD 1 .null, r.getD 1 .null with | .int a, .int b => decide (a ≠ b) | _, _ => false,
      residualRaw := fun l r => match l.getD 1 .null, r.getD 1 .null with
        | .int a, .int b => decide (a ≠ b) | .null, .int b => decide (0 ≠ b) | .int a, .null => decide (a ≠ 0) | _, _ => false }
    [[[[.int 9, .null]]]] [[[[.int 9, .int 5]]]] = [[.int 9, .null]] := by decide
example : hashJoin {} .semi
    { lkeys := [0], rkeys := [0], lw := 2, rw := 2,
      residual := fun l r => match l.getD 1 .null, r.getD 1 .null with | .int a, .int b => decide (a ≠ b) | _, _ => false }
    [[[[.int 9, .null]]]] [[[[.int 9, .int 5]]]] = [] := by decide

-- `dictProbeKeyNoMatch` (a dictionary-encoded probe key never equals a plain VARCHAR build key): no pair is produced, every
-- preserved row is NULL-extended
example : ¬ (hashJoin { dictProbeKeyNoMatch := true } .inner Ex.cfgK Ex.Lx Ex.Rx ~
    nlJoin .inner 2 2 (fun l r => keysEq Ex.cfgK l r && Ex.cfgK.residual l r) Ex.Lx.flatten.flatten Ex.Rx.flatten.flatten) := by
  decide
example : hashJoin { dictProbeKeyNoMatch := true } .inner Ex.cfgK Ex.Lx Ex.Rx = [] := by decide
example : hashJoin { dictProbeKeyNoMatch := true } .left Ex.cfgK Ex.Lx Ex.Rx =
    Ex.Lx.flatten.flatten.map (· ++ [.null, .null]) := by decide

-- the runtime filter must NOT be applied to a preserved / output probe side: LEFT and ANTI with the build on
-- the right lose exactly the rows they exist to keep
example : ¬ (hashJoinRF {} .left { Ex.cfgK with buildLeft := false } 0 Ex.Lx Ex.Rx ~
    hashJoin {} .left { Ex.cfgK with buildLeft := false } Ex.Lx Ex.Rx) := by decide
example : hashJoinRF {} .left { Ex.cfgK with buildLeft := false } 0 Ex.Lx Ex.Rx =
    [[.int 1, .int 5, .int 1, .int 5], [.int 1, .int 8, .int 1, .int 5]] := by decide
example : hashJoinRF {} .anti { Ex.cfgK with buildLeft := false } 0 Ex.Lx Ex.Rx = [] := by decide
-- where it is sound it really filters: the scan hands over fewer rows, the answer is the same
example : runtimeFilter Ex.cfgK true 0 Ex.Lx.flatten.flatten Ex.Rx = [[[[.int 1, .int 5]], []]] := by decide
example : hashJoinRF {} .anti Ex.cfgK 0 Ex.Lx Ex.Rx = hashJoin {} .anti Ex.cfgK Ex.Lx Ex.Rx := by decide

end IQE.Props.C22
