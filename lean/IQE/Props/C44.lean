/-
  C44 — VALUES lists produce their rows.

  Reference semantics (`Spec.run` on a `.values` node) and the model of the planner's lowering (`Engine.Values.lower`).
  * `C44_values`            a VALUES list of literals yields exactly those rows, in order, for every catalog / CTE stack / environment;
  * `C44_values_exprs`      in general it yields the row-wise evaluation of its expressions (no row dropped, none added);
  * `C44_values_as_table`   it is indistinguishable from a stored table holding the same rows;
  * `C44_values_congr`      … under every operator context (filter, project, both join sides, aggregate, grouping sets,
                            distinct, sort, limit, both set-operation sides, window, body of a WITH) — congruence of `Spec.run`.
                            Holes inside subquery lists / CTE definitions are not covered by the context type.
  * `C44_lower_refines`     the lowering with all switches off equals the reference semantics;
  * `C44_valuesEmpty_violates`  with the deviation `valuesEmpty` (the unchanged tree) EVERY non-empty VALUES list is answered wrongly;
  * `C44_devPlan_off`       with all switches off the executed plan is the plan.
-/
import IQE.Engine.Values
namespace IQE.Props.C44
open IQE IQE.Spec IQE.Engine.Values

/-- the VALUES list whose expressions are the literals of `vs` -/
def lits (vs : Table) : List (List Expr) := vs.map (·.map Expr.lit)

theorem evalList_lits (cx : EvalCtx) (env : Env) (r : Row) : evalList cx env (r.map Expr.lit) = .ok r := by
  induction r with
  | nil => simp [evalList]
  | cons v vs ih => simp [evalList, eval, ih]; rfl

theorem mapM_lits (cx : EvalCtx) (env : Env) (vs : Table) : (lits vs).mapM (evalList cx env) = .ok vs := by
  induction vs with
  | nil => rfl
  | cons r rs ih =>
    simp only [lits, List.map_cons, List.mapM_cons, evalList_lits] at ih ⊢
    simp [ih]; rfl

theorem C44_values_exprs (fo : FloatOps) (fns : String → List Val → Except Err Val) (cat : List Table)
    (rows : List (List Expr)) (ctes : List Table) (env : Env) :
    run fo fns cat (.values rows) ctes env =
      rows.mapM (evalList { fo := fo, runSub := fun _ _ => .error (.bad "subquery in VALUES"), fn := fns } env) := by
  simp [run]

theorem C44_values (fo : FloatOps) (fns : String → List Val → Except Err Val) (cat : List Table)
    (vs : Table) (ctes : List Table) (env : Env) :
    run fo fns cat (.values (lits vs)) ctes env = .ok vs := by
  rw [C44_values_exprs]; exact mapM_lits _ _ _

theorem C44_values_as_table (fo : FloatOps) (fns : String → List Val → Except Err Val) (cat : List Table)
    (t : Nat) (vs : Table) (h : cat[t]? = some vs) (ctes : List Table) (env : Env) :
    run fo fns cat (.values (lits vs)) ctes env = run fo fns cat (.scan t) ctes env := by
  rw [C44_values]; simp [run, h]

/-- one-hole operator contexts -/
inductive Ctx where
  | hole
  | filter (subs : List Query) (p : Expr) (c : Ctx)
  | project (subs : List Query) (es : List Expr) (c : Ctx)
  | joinL (jt : JoinType) (lw rw : Nat) (subs : List Query) (on : Expr) (c : Ctx) (r : Query)
  | joinR (jt : JoinType) (lw rw : Nat) (subs : List Query) (on : Expr) (l : Query) (c : Ctx)
  | agg (keys : List Expr) (aggs : List AggCall) (c : Ctx)
  | groupingSets (keys : List Expr) (sets : List (List Nat)) (aggs : List AggCall) (c : Ctx)
  | distinct (c : Ctx)
  | sort (keys : List SortKey) (c : Ctx)
  | limit (skip : Nat) (fetch : Option Nat) (c : Ctx)
  | setopL (op : SetOp) (all : Bool) (c : Ctx) (r : Query)
  | setopR (op : SetOp) (all : Bool) (l : Query) (c : Ctx)
  | window (calls : List WinCall) (c : Ctx)
  | withBody (defs : List Query) (c : Ctx)

def plug : Ctx → Query → Query
  | .hole, q => q
  | .filter subs p c, q => .filter subs p (plug c q)
  | .project subs es c, q => .project subs es (plug c q)
  | .joinL jt lw rw subs on c r, q => .join jt lw rw subs on (plug c q) r
  | .joinR jt lw rw subs on l c, q => .join jt lw rw subs on l (plug c q)
  | .agg keys aggs c, q => .agg keys aggs (plug c q)
  | .groupingSets keys sets aggs c, q => .groupingSets keys sets aggs (plug c q)
  | .distinct c, q => .distinct (plug c q)
  | .sort keys c, q => .sort keys (plug c q)
  | .limit s f c, q => .limit s f (plug c q)
  | .setopL op all c r, q => .setop op all (plug c q) r
  | .setopR op all l c, q => .setop op all l (plug c q)
  | .window calls c, q => .window calls (plug c q)
  | .withBody defs c, q => .withCte defs (plug c q)

theorem C44_values_congr (fo : FloatOps) (fns : String → List Val → Except Err Val) (cat : List Table)
    (C : Ctx) (q q' : Query) (h : ∀ ctes env, run fo fns cat q ctes env = run fo fns cat q' ctes env) :
    ∀ ctes env, run fo fns cat (plug C q) ctes env = run fo fns cat (plug C q') ctes env := by
  induction C with
  | hole => exact h
  | _ => intro ctes env; simp [plug, run, *]

/-- a VALUES list used as a derived table behaves as the stored table with the same rows, in every operator context -/
theorem C44_values_derived (fo : FloatOps) (fns : String → List Val → Except Err Val) (cat : List Table)
    (C : Ctx) (t : Nat) (vs : Table) (h : cat[t]? = some vs) (ctes : List Table) (env : Env) :
    run fo fns cat (plug C (.values (lits vs))) ctes env = run fo fns cat (plug C (.scan t)) ctes env :=
  C44_values_congr fo fns cat C _ _ (fun ctes env => C44_values_as_table fo fns cat t vs h ctes env) ctes env

/-! ### the planner's lowering -/

theorem C44_lower_refines (fo : FloatOps) (fns : String → List Val → Except Err Val) (cat : List Table)
    (rows : List (List Expr)) (ctes : List Table) (env : Env) :
    lower {} { fo := fo, runSub := fun _ _ => .error (.bad "subquery in VALUES"), fn := fns } env rows =
      run fo fns cat (.values rows) ctes env := by
  rw [C44_values_exprs]; simp [lower]

theorem C44_lower_values (cx : EvalCtx) (env : Env) (vs : Table) : lower {} cx env (lits vs) = .ok vs := by
  simp [lower]; exact mapM_lits cx env vs

/-- the deviation of the unchanged tree is wrong on every non-empty VALUES list -/
theorem C44_valuesEmpty_violates (cx : EvalCtx) (env : Env) (vs : Table) (h : vs ≠ []) :
    lower { valuesEmpty := true } cx env (lits vs) ≠ .ok vs := by
  simp [lower]
  intro e; exact h e

mutual
theorem C44_devPlan_off : ∀ q : Query, devPlan {} q = q
  | .values rows => by
    match rows with
    | [[]] => simp [devPlan]
    | [] => simp [devPlan]
    | [_ :: _] => simp [devPlan]
    | _ :: _ :: _ => simp [devPlan]
  | .scan _ => by simp [devPlan]
  | .cteRef _ => by simp [devPlan]
  | .filter subs _ q => by simp [devPlan, C44_devPlan_off q, C44_devPlans_off subs]
  | .project subs _ q => by simp [devPlan, C44_devPlan_off q, C44_devPlans_off subs]
  | .join _ _ _ subs _ l r => by simp [devPlan, C44_devPlan_off l, C44_devPlan_off r, C44_devPlans_off subs]
  | .agg _ _ q => by simp [devPlan, C44_devPlan_off q]
  | .groupingSets _ _ _ q => by simp [devPlan, C44_devPlan_off q]
  | .distinct q => by simp [devPlan, C44_devPlan_off q]
  | .sort _ q => by simp [devPlan, C44_devPlan_off q]
  | .limit _ _ q => by simp [devPlan, C44_devPlan_off q]
  | .setop _ _ l r => by simp [devPlan, C44_devPlan_off l, C44_devPlan_off r]
  | .window _ q => by simp [devPlan, C44_devPlan_off q]
  | .withCte defs body => by simp [devPlan, C44_devPlan_off body, C44_devPlans_off defs]
theorem C44_devPlans_off : ∀ qs : List Query, devPlans {} qs = qs
  | [] => by simp [devPlans]
  | q :: qs => by simp [devPlans, C44_devPlan_off q, C44_devPlans_off qs]
end

/-! ### non-vacuity -/

def fo0 : FloatOps := { add := fun a _ => a, sub := fun a _ => a, mul := fun a _ => a, div := fun a _ => a, neg := id, ofInt := fun _ => ⟨0⟩, toInt := fun _ => none }
def fns0 : String → List Val → Except Err Val := fun n _ => .error (.unsupported n)

/-- `SELECT * FROM (VALUES (1,2),(3,4)) t` has two rows -/
example : run fo0 fns0 [] (.values (lits [[.int 1, .int 2], [.int 3, .int 4]])) [] [] = .ok [[.int 1, .int 2], [.int 3, .int 4]] :=
  C44_values _ _ _ _ _ _
/-- … and the model with the deviation switch on answers with none (A.19) -/
example : lower { valuesEmpty := true } { fo := fo0, runSub := fun _ _ => .ok [] } [] (lits [[.int 1, .int 2], [.int 3, .int 4]]) = .ok [] := by
  simp [lower]
/-- the context theorem is used at a non-trivial context: `SELECT COUNT(*) FROM (VALUES …) v WHERE …` -/
example (vs : Table) (p : Expr) (h : ([vs] : List Table)[0]? = some vs) :
    run fo0 fns0 [vs] (.agg [] [{ fn := .countStar, arg := .lit .null }] (.filter [] p (.values (lits vs)))) [] [] =
    run fo0 fns0 [vs] (.agg [] [{ fn := .countStar, arg := .lit .null }] (.filter [] p (.scan 0))) [] [] :=
  C44_values_derived fo0 fns0 [vs] (.agg [] _ (.filter [] p .hole)) 0 vs h [] []

end IQE.Props.C44
