/-
  C42 — CPU lists parse to the set they denote; the fan-out helper never exceeds work or pool.
  Property theorems only (helper lemmas live in IQE/Lemmas/CpuList.lean).
  Model: IQE.Engine.CpuList (hand-written mirror of `parse_cpulist`); `workers_for` is stated over
  the hand model here and over the translator-regenerated definition in `C42_workers_*_gen`.
-/
import IQE.Lemmas.CpuList
import IQE.Gen.Topology
namespace IQE.Props.C42
open IQE.Engine.CpuList IQE.Text

/-- For EVERY input string the output is strictly increasing (sorted, duplicate-free). -/
theorem C42_sorted_nodup (s : List Char) : (parse s).Pairwise (· < ·) := by
  unfold parse
  apply dedup_strict
  have := List.pairwise_mergeSort (le := fun (a b : Nat) => decide (a ≤ b))
    (by intro a b c h1 h2; simp at *; omega) (by intro a b; simp; omega) (collect s)
  simpa using this

/-- The output contains exactly the values pushed by the loop (sorting and dedup lose nothing, add nothing). -/
theorem C42_mem_iff_collected (s : List Char) (x : Nat) : x ∈ parse s ↔ x ∈ collect s := by
  unfold parse
  rw [mem_dedup, List.mem_mergeSort]

/-- `workers_for`: at least one worker, never above the pool (floored at 1), never above the work (floored at 1). -/
theorem C42_workers_bounds (work pool : Nat) :
    1 ≤ workersFor work pool ∧ workersFor work pool ≤ Nat.max pool 1 ∧ workersFor work pool ≤ Nat.max work 1 := by
  unfold workersFor
  simp only [Nat.max_def]
  repeat' split
  all_goals omega

/-- The property's reading for positive work and pool: never exceeds either. -/
theorem C42_workers_never_exceeds (work pool : Nat) (hw : 1 ≤ work) (hp : 1 ≤ pool) :
    workersFor work pool ≤ work ∧ workersFor work pool ≤ pool := by
  have := C42_workers_bounds work pool
  simp only [Nat.max_def] at this
  repeat' split at this
  all_goals omega

/-- Over the definition REGENERATED from src/execution/topology.rs on every run: no panic in `clamp`
    (its side condition holds) and the same bounds, for all usize arguments. -/
theorem C42_workers_gen_bounds (work pool : Int) (h : IQE.Gen.Topology.workers_for_argsInRange work pool) :
    IQE.Gen.Topology.workers_for_inRange work pool ∧
    1 ≤ IQE.Gen.Topology.workers_for work pool ∧
    IQE.Gen.Topology.workers_for work pool ≤ Rs.max pool 1 ∧
    IQE.Gen.Topology.workers_for work pool ≤ Rs.max work 1 := by
  unfold IQE.Gen.Topology.workers_for_argsInRange at h
  unfold IQE.Gen.Topology.workers_for_inRange IQE.Gen.Topology.workers_for Rs.clampOk Rs.clamp Rs.max
  repeat' split
  all_goals omega

/-- The translated function and the hand model used by the driver are the same function on naturals. -/
theorem C42_workers_gen_eq_model (work pool : Nat) :
    IQE.Gen.Topology.workers_for (work : Int) (pool : Int) = (workersFor work pool : Int) := by
  unfold IQE.Gen.Topology.workers_for Rs.clamp Rs.max workersFor
  simp only [Nat.max_def]
  repeat' split
  all_goals omega

-- non-vacuity: concrete evaluations of the model
example : collect [' ', '2', '-', '3', ',', ' ', '7', ' ', ',', 'x', ',', '9', '-', '8', ',', '0', ' '] = [2, 3, 7, 0] := by decide
example : workersFor 0 0 = 1 ∧ workersFor 100 8 = 8 ∧ workersFor 3 8 = 3 := by decide

end IQE.Props.C42
