/-
  C42 — CPU lists parse to the set they denote; the fan-out helper never exceeds work or pool.
  Property theorems only (helper lemmas live in IQE/Lemmas/CpuList.lean and IQE/Lemmas/CpuListText.lean).
  Model: IQE.Engine.CpuList (hand-written mirror of `parse_cpulist`); `workers_for` is stated over
  the hand model here and over the translator-regenerated definition in `C42_workers_*_gen`.
-/
import IQE.Lemmas.CpuList
import IQE.Lemmas.CpuListText
import IQE.Gen.Topology
namespace IQE.Props.C42
open IQE.Engine.CpuList IQE.Text

/-- For EVERY input string the output is strictly increasing (sorted, duplicate-free). -/
theorem C42_sorted_nodup (s : List Char) : (parse s).Pairwise (· < ·) := by
  unfold parse
  apply dedup_strict
  have := List.pairwise_mergeSort (le := fun (a b : Nat) => decide (a ≤ b))
    (by intro a b c h1 h2; simp at *; omega) (by intro a b; simp; omega) (collect s)
  simpa using this

/-- The output contains exactly the values pushed by the loop (sorting and dedup lose nothing, add nothing). -/
theorem C42_mem_iff_collected (s : List Char) (x : Nat) : x ∈ parse s ↔ x ∈ collect s := by
  unfold parse
  rw [mem_dedup, List.mem_mergeSort]

/-- `workers_for`: at least one worker, never above the pool (floored at 1), never above the work (floored at 1). -/
theorem C42_workers_bounds (work pool : Nat) :
    1 ≤ workersFor work pool ∧ workersFor work pool ≤ Nat.max pool 1 ∧ workersFor work pool ≤ Nat.max work 1 := by
  unfold workersFor
  simp only [Nat.max_def]
  repeat' split
  all_goals omega

/-- The property's reading for positive work and pool: never exceeds either. -/
theorem C42_workers_never_exceeds (work pool : Nat) (hw : 1 ≤ work) (hp : 1 ≤ pool) :
    workersFor work pool ≤ work ∧ workersFor work pool ≤ pool := by
  have := C42_workers_bounds work pool
  simp only [Nat.max_def] at this
  repeat' split at this
  all_goals omega

/-- Over the definition REGENERATED from src/execution/topology.rs on every run: no panic in `clamp`
    (its side condition holds) and the same bounds, for all usize arguments. -/
theorem C42_workers_gen_bounds (work pool : Int) (h : IQE.Gen.Topology.workers_for_argsInRange work pool) :
    IQE.Gen.Topology.workers_for_inRange work pool ∧
    1 ≤ IQE.Gen.Topology.workers_for work pool ∧
    IQE.Gen.Topology.workers_for work pool ≤ Rs.max pool 1 ∧
    IQE.Gen.Topology.workers_for work pool ≤ Rs.max work 1 := by
  unfold IQE.Gen.Topology.workers_for_argsInRange at h
  unfold IQE.Gen.Topology.workers_for_inRange IQE.Gen.Topology.workers_for Rs.clampOk Rs.clamp Rs.max
  repeat' split
  all_goals omega

/-- The translated function and the hand model used by the driver are the same function on naturals. -/
theorem C42_workers_gen_eq_model (work pool : Nat) :
    IQE.Gen.Topology.workers_for (work : Int) (pool : Int) = (workersFor work pool : Int) := by
  unfold IQE.Gen.Topology.workers_for Rs.clamp Rs.max workersFor
  simp only [Nat.max_def]
  repeat' split
  all_goals omega

/-! ## String level: a cpulist parses to exactly the set it denotes

Specification side (independent of the parser): what it means for a text to *render* a number, a
single id, a range; what an item denotes. `commaJoin` (IQE/Lemmas/CpuListText.lean) is
`[] ↦ []`, `[p] ↦ p`, `p :: q :: r ↦ p ++ ',' :: commaJoin (q :: r)`. -/

/-- `t` renders the number `n`: optional `+`, then ≥ 1 ASCII digits (leading zeros allowed) of value `n < 2^64`
    — the texts Rust's `str::parse::<usize>` accepts. -/
def NumTxt (t : List Char) (n : Nat) : Prop :=
  ∃ ds : List Char, (t = ds ∨ t = '+' :: ds) ∧ ds ≠ [] ∧ (∀ c ∈ ds, isDigit c = true) ∧
    decVal ds = n ∧ n < 2 ^ 64

/-- What one comma-separated part stands for. -/
inductive Item
  | single (n : Nat)
  | range (a b : Nat)
  | junk

/-- The ids an item denotes: `n`; `a..=b` (empty when `a > b`); nothing. -/
def Item.denote : Item → List Nat
  | .single n => [n]
  | .range a b => rangeIncl a b
  | .junk => []

/-- `Renders p i`: the part `p` (no comma inside) is a rendering of item `i`. Whitespace is any
    Unicode `White_Space` character (`isWs`), anywhere around the numbers and the dash. -/
inductive Renders : List Char → Item → Prop
  | single (w1 t w2 : List Char) (n : Nat)
      (h1 : ∀ c ∈ w1, isWs c = true) (h2 : ∀ c ∈ w2, isWs c = true) (ht : NumTxt t n) :
      Renders (w1 ++ t ++ w2) (.single n)
  | range (w1 ta w2 w3 tb w4 : List Char) (a b : Nat)
      (h1 : ∀ c ∈ w1, isWs c = true) (h2 : ∀ c ∈ w2, isWs c = true)
      (h3 : ∀ c ∈ w3, isWs c = true) (h4 : ∀ c ∈ w4, isWs c = true)
      (hta : NumTxt ta a) (htb : NumTxt tb b) :
      Renders (w1 ++ ta ++ w2 ++ '-' :: (w3 ++ tb ++ w4)) (.range a b)
  | junk (p : List Char) (hc : ',' ∉ p) (hj : parsePart (trim p) = [] ∨ trim p = []) :
      Renders p .junk

/-- `a..=b` as a set. -/
theorem C42_mem_range (a b x : Nat) : x ∈ (Item.range a b).denote ↔ a ≤ x ∧ x ≤ b :=
  mem_rangeIncl a b x

/-- `NumTxt` is exactly what `parse::<usize>` accepts, with the value it returns. -/
theorem C42_numtxt_iff_parse (t : List Char) (n : Nat) : NumTxt t n ↔ parseUsize t = some n :=
  numShape_iff_parse (bound := usizeBound)

/-- A rendered part never contains the separator. -/
theorem C42_renders_no_comma (p : List Char) (i : Item) (h : Renders p i) : ',' ∉ p := by
  cases h with
  | single w1 t w2 n h1 h2 ht => exact no_comma_single h1 h2 ht
  | range w1 ta w2 w3 tb w4 a b h1 h2 h3 h4 hta htb => exact no_comma_range h1 h2 h3 h4 hta htb
  | junk p hc hj => exact hc

/-- One loop iteration on a rendered part pushes exactly what the item denotes. -/
theorem C42_part_denotes (p : List Char) (i : Item) (h : Renders p i) :
    (if (trim p).isEmpty then [] else parsePart (trim p)) = i.denote := by
  cases h with
  | single w1 t w2 n h1 h2 ht => exact partStep_single h1 h2 ht
  | range w1 ta w2 w3 tb w4 a b h1 h2 h3 h4 hta htb => exact partStep_range h1 h2 h3 h4 hta htb
  | junk p hc hj => exact partStep_junk hj

/-- The values pushed for a comma-joined list of rendered parts: the concatenation of the denotations, in order. -/
theorem C42_collect_denotes (ps : List (List Char × Item)) (hne : ps ≠ [])
    (h : ∀ p ∈ ps, Renders p.1 p.2) :
    collect (commaJoin (ps.map (·.1))) = ps.flatMap (fun p => p.2.denote) := by
  have hc : ∀ q ∈ ps.map (·.1), ',' ∉ q := by
    intro q hq
    obtain ⟨p, hp, rfl⟩ := List.mem_map.1 hq
    exact C42_renders_no_comma p.1 p.2 (h p hp)
  rw [collect_commaJoin (by simpa using hne) hc, List.flatMap_map]
  apply flatMap_congr'
  intro p hp
  exact C42_part_denotes p.1 p.2 (h p hp)

/-- MAIN: for every list of rendered parts — any grouping into ranges, any order, duplicates, overlapping or
    empty (reversed) ranges, Unicode whitespace around numbers / dashes / commas, `+` signs, leading zeros,
    junk parts in between — the parsed vector contains exactly the ids denoted by some part.
    With `C42_sorted_nodup`: the output IS the strictly increasing enumeration of the denoted set. -/
theorem C42_denotes (ps : List (List Char × Item)) (hne : ps ≠ [])
    (h : ∀ p ∈ ps, Renders p.1 p.2) (x : Nat) :
    x ∈ parse (commaJoin (ps.map (·.1))) ↔ ∃ p ∈ ps, x ∈ p.2.denote := by
  rw [C42_mem_iff_collected, C42_collect_denotes ps hne h, List.mem_flatMap]

/-- Two renderings of the same set parse to the same vector (the output is canonical). -/
theorem C42_canonical (ps qs : List (List Char × Item)) (hp : ps ≠ []) (hq : qs ≠ [])
    (h1 : ∀ p ∈ ps, Renders p.1 p.2) (h2 : ∀ q ∈ qs, Renders q.1 q.2)
    (hset : ∀ x, (∃ p ∈ ps, x ∈ p.2.denote) ↔ (∃ q ∈ qs, x ∈ q.2.denote)) :
    parse (commaJoin (ps.map (·.1))) = parse (commaJoin (qs.map (·.1))) := by
  apply strict_sorted_ext _ _ (C42_sorted_nodup _) (C42_sorted_nodup _)
  intro x
  rw [C42_denotes ps hp h1, C42_denotes qs hq h2, hset]

/-- Junk is ignored, and ONLY junk: a trimmed part contributes something only if it has one of the two
    shapes, and then it contributes exactly `[n]` resp. `lo..=hi` (for every `p`, with or without comma). -/
theorem C42_junk_ignored (p : List Char) (h : parsePart (trim p) ≠ []) :
    (∃ n, parseUsize (trim p) = some n ∧ '-' ∉ trim p ∧ parsePart (trim p) = [n]) ∨
    (∃ a b lo hi, splitOnce '-' (trim p) = some (a, b) ∧ parseUsize (trim a) = some lo ∧
      parseUsize (trim b) = some hi ∧ parsePart (trim p) = rangeIncl lo hi) :=
  parsePart_shapes (trim p) h

/-- `Renders` is total on comma-free parts: every such part renders a single id, a range, or is junk (and by
    `C42_junk_ignored` it is junk only when it has neither shape). Every string is the comma-join of its
    comma-free pieces, so `C42_denotes` speaks about every input. -/
theorem C42_renders_total (p : List Char) (hc : ',' ∉ p) : ∃ i, Renders p i := by
  by_cases hj : parsePart (trim p) = [] ∨ trim p = []
  · exact ⟨.junk, .junk p hc hj⟩
  · have hpp : parsePart (trim p) ≠ [] := fun e => hj (Or.inl e)
    obtain ⟨w1, w4, hp, h1, h4⟩ := exists_trim_decomp p
    rcases C42_junk_ignored p hpp with ⟨n, hn, -, -⟩ | ⟨a, b, lo, hi, hs, hlo, hhi, -⟩
    · refine ⟨.single n, ?_⟩
      rw [hp]
      exact .single w1 (trim p) w4 n h1 h4 ((C42_numtxt_iff_parse _ _).2 hn)
    · refine ⟨.range lo hi, ?_⟩
      obtain ⟨ht, -⟩ := splitOnce_some hs
      obtain ⟨u1, u2, ha, hu1, hu2⟩ := exists_trim_decomp a
      obtain ⟨v1, v2, hb, hv1, hv2⟩ := exists_trim_decomp b
      have hta : NumTxt (trim a) lo := (C42_numtxt_iff_parse _ _).2 hlo
      have htb : NumTxt (trim b) hi := (C42_numtxt_iff_parse _ _).2 hhi
      have e : p = (w1 ++ u1) ++ trim a ++ u2 ++ '-' :: (v1 ++ trim b ++ (v2 ++ w4)) := by
        calc p = w1 ++ trim p ++ w4 := hp
          _ = w1 ++ (a ++ '-' :: b) ++ w4 := by rw [ht]
          _ = w1 ++ ((u1 ++ trim a ++ u2) ++ '-' :: (v1 ++ trim b ++ v2)) ++ w4 := by rw [← ha, ← hb]
          _ = _ := by simp [List.append_assoc]
      rw [e]
      exact .range (w1 ++ u1) (trim a) u2 v1 (trim b) (v2 ++ w4) lo hi
        (AllWs.append h1 hu1) hu2 hv1 (AllWs.append hv2 h4) hta htb

/-- Every input string is covered: it is the comma-join of parts each rendering some item, so `C42_denotes`
    determines the output of `parse` on EVERY string (hypotheses never exclude an input). -/
theorem C42_every_input_rendered (s : List Char) :
    ∃ ps : List (List Char × Item), ps ≠ [] ∧ (∀ p ∈ ps, Renders p.1 p.2) ∧ commaJoin (ps.map (·.1)) = s := by
  obtain ⟨ps, hps, hR⟩ := exists_labelling Renders (splitOn ',' s)
    (fun p hp => C42_renders_total p (not_mem_of_mem_splitOn hp))
  refine ⟨ps, ?_, hR, by rw [hps, commaJoin_splitOn]⟩
  intro e
  rw [e] at hps
  exact splitOn_ne_nil ',' s hps.symm

/-- Example input `"\u{a0}2\u{2003}-\t+4 ,007,x-1,+3, 9 - 8,\u{3000}"`: a range with inner Unicode whitespace and a
    `+`, leading zeros, a junk part, a `+` single, a reversed (empty) range, an all-whitespace part. -/
def exampleParts : List (List Char × Item) :=
  [ (['\u00a0', '2', '\u2003', '-', '\t', '+', '4', ' '], .range 2 4),
    (['0', '0', '7'], .single 7),
    (['x', '-', '1'], .junk),
    (['+', '3'], .single 3),
    ([' ', '9', ' ', '-', ' ', '8'], .range 9 8),
    (['\u3000'], .junk) ]

-- non-vacuity of the hypotheses of C42_denotes: the example parts satisfy `Renders`, and the theorem applied to them
example : (∀ p ∈ exampleParts, Renders p.1 p.2) ∧
    ∀ x, x ∈ parse (commaJoin (exampleParts.map (·.1))) ↔ x = 2 ∨ x = 3 ∨ x = 4 ∨ x = 7 := by
  have hR : ∀ p ∈ exampleParts, Renders p.1 p.2 := by
    intro p hp
    simp only [exampleParts, List.mem_cons, List.mem_nil_iff, or_false] at hp
    rcases hp with rfl | rfl | rfl | rfl | rfl | rfl
    · exact Renders.range ['\u00a0'] ['2'] ['\u2003'] ['\t'] ['+', '4'] [' '] 2 4
        (by decide) (by decide) (by decide) (by decide)
        ⟨['2'], Or.inl rfl, by decide, by decide, by decide, by decide⟩
        ⟨['4'], Or.inr rfl, by decide, by decide, by decide, by decide⟩
    · exact Renders.single [] ['0', '0', '7'] [] 7 (by decide) (by decide)
        ⟨['0', '0', '7'], Or.inl rfl, by decide, by decide, by decide, by decide⟩
    · exact Renders.junk _ (by decide) (Or.inl (by decide))
    · exact Renders.single [] ['+', '3'] [] 3 (by decide) (by decide)
        ⟨['3'], Or.inr rfl, by decide, by decide, by decide, by decide⟩
    · exact Renders.range [' '] ['9'] [' '] [' '] ['8'] [] 9 8
        (by decide) (by decide) (by decide) (by decide)
        ⟨['9'], Or.inl rfl, by decide, by decide, by decide, by decide⟩
        ⟨['8'], Or.inl rfl, by decide, by decide, by decide, by decide⟩
    · exact Renders.junk _ (by decide) (Or.inr (by decide))
  refine ⟨hR, fun x => ?_⟩
  rw [C42_denotes _ (by decide) hR]
  simp [exampleParts, Item.denote, mem_rangeIncl]
  omega

-- the joined text, and what the loop pushes for it (kernel evaluation of the model)
example : commaJoin (exampleParts.map (·.1)) =
    ['\u00a0', '2', '\u2003', '-', '\t', '+', '4', ' ', ',', '0', '0', '7', ',', 'x', '-', '1', ',', '+', '3', ',',
     ' ', '9', ' ', '-', ' ', '8', ',', '\u3000'] := by decide
example : collect (commaJoin (exampleParts.map (·.1))) = [2, 3, 4, 7, 3] := by decide
example : exampleParts.flatMap (fun p => p.2.denote) = [2, 3, 4, 7, 3] := by decide
-- junk really is junk: these trimmed parts push nothing; a well-formed one does
example : parsePart (trim ['x', '-', '1']) = [] ∧ parsePart (trim ['1', '-']) = [] ∧
    parsePart (trim ['-', '1']) = [] ∧ parsePart (trim ['1', '-', '2', '-', '3']) = [] ∧
    parsePart (trim ['٣']) = [] ∧ parsePart (trim [' ', '1', '-', '2', ' ']) = [1, 2] := by decide
-- 2^64 - 1 is accepted, 2^64 is not
example : parseUsize ['1','8','4','4','6','7','4','4','0','7','3','7','0','9','5','5','1','6','1','5'] = some (2 ^ 64 - 1) ∧
    parseUsize ['1','8','4','4','6','7','4','4','0','7','3','7','0','9','5','5','1','6','1','6'] = none := by decide

-- non-vacuity: concrete evaluations of the model
example : collect [' ', '2', '-', '3', ',', ' ', '7', ' ', ',', 'x', ',', '9', '-', '8', ',', '0', ' '] = [2, 3, 7, 0] := by decide
example : workersFor 0 0 = 1 ∧ workersFor 100 8 = 8 ∧ workersFor 3 8 = 3 := by decide

end IQE.Props.C42
