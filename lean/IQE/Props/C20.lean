/-
  C20 — IPC sidecars are invisible and safe to build concurrently.
  Model: IQE.Engine.Sidecar — small-step protocol of `ensure_sidecar` / `build_sidecar` / the reader over an abstract file
  system whose single steps are atomic and whose `remove_dir_all` is a sequence of unlinks (fixed source file).
  Theorems quantify over EVERY interleaving of any number of builders and readers (`Reach` = reflexive-transitive closure of
  the step relation from any initial state).

  * `C20_inprocess` — one process (all builders share BUILD_LOCK): no reader ever fails to open a row group or maps a
    partially written file after it saw a fresh `.complete`; every row group it opened was whole.
  * `C20_crossprocess` is FALSE as stated at full strength: `C20_crossprocess_witness` is the interleaving (two processes,
    one reader, one row group) in which the second process, which also found the sidecar missing, runs
    `remove_dir_all(final)` on the winner's fresh directory while the reader is between `is_fresh` and `open(rg_0)`.
  * `C20_crossprocess_partial` — what does hold for any number of processes: a reader never maps a partially written
    file (no wrong rows): it gets whole files or an I/O error.   MISSING for full strength: "… or an I/O error" must go;
    that needs a cross-process lock or removal by rename, i.e. a change of the protocol, not of the proof.
  * `C20_roundtrip_partial` — the two re-slicing loops of the sidecar code (`build_sidecar`'s 64k views, `reslice_large`)
    are partitions: concatenating the slices gives back the rows, in order, none empty, none longer than the view size.
    MISSING: dictionary coercion / wide-dictionary demotion being value-preserving is Arrow library code (parquet reader
    with a coerced schema, `arrow::compute::cast`, `concat_batches`); it is sampled by the correspondence runs only.
-/
import IQE.Lemmas.Sidecar
namespace IQE.Props.C20
open IQE.Engine.Sidecar

/-- In-process safety, for every number of builder threads and readers and every interleaving. -/
theorem C20_inprocess (n : Nat) (proc : Nat → Nat) (hproc : ∀ i j, proc i = proc j) (s0 s : State)
    (h0 : Init n s0) (h : Reach n proc s0 s) :
    (∀ j, s.rph j ≠ .failed ∧ s.rph j ≠ .sawPartial) ∧
    (∀ j o, s.rph j = .reading o → ∃ d, s.final = some d ∧ d.complete = some .fresh ∧ d.full n = true ∧ d.allComplete = true) := by
  have inv := invI_reach n proc hproc s0 s h0 h
  refine ⟨inv.noFail, ?_⟩
  intro j o ho
  have hf := inv.readersFresh j o ho
  obtain ⟨⟨d, hd, h1, h2⟩, _⟩ := inv.freshFull hf
  refine ⟨d, hd, ?_, h1, h2⟩
  rw [hd] at hf; simpa [isFresh] using hf

/-- Any number of processes: no reader ever observes a partially written file; what is in the final directory is whole. -/
theorem C20_crossprocess_partial (n : Nat) (proc : Nat → Nat) (s0 s : State) (h0 : Init n s0) (h : Reach n proc s0 s) :
    (∀ j, s.rph j ≠ .sawPartial) ∧ (∀ d, s.final = some d → d.allComplete = true) := by
  have inv := invP_reach n proc s0 s h0 h
  exact ⟨inv.noPartial, inv.finalWhole⟩

/-- The proposed repair (proposed_fixes/C20-crossprocess-build-lock.patch): if the builders of ALL processes serialise on
    one lock (an exclusive file lock next to the sidecar), cross-process safety holds at full strength — it is the
    in-process theorem with a single lock domain. -/
theorem C20_crossprocess_of_shared_lock (n : Nat) (s0 s : State) (h0 : Init n s0) (h : Reach n (fun _ => 0) s0 s) :
    ∀ j, s.rph j ≠ .failed ∧ s.rph j ≠ .sawPartial :=
  (C20_inprocess n (fun _ => 0) (fun _ _ => rfl) s0 s h0 h).1

def s0 : State := { final := none, bph := fun _ => .start, rph := fun _ => .start, lock := fun _ => none }
def whole : Dir := { rgs := [(0, true)], complete := some .fresh }

/-- NEGATION of full-strength cross-process safety: two processes (builder i runs in process i), one row group, one
    reader; reachable state in which the reader, having seen a fresh `.complete`, fails to open `rg_0`. -/
theorem C20_crossprocess_witness :
    ∃ s, Init 1 s0 ∧ Reach 1 (fun i => i) s0 s ∧ s.rph 0 = .failed := by
  have i0 : Init 1 s0 := ⟨fun _ => rfl, fun _ => rfl, fun _ => rfl, fun d hd => by cases hd⟩
  have r0 : Reach 1 (fun i => i) s0 s0 := .refl
  -- both processes find the sidecar missing and take their own lock
  have r1 := r0.step (Step.check1Stale _ 0 rfl rfl)
  have r2 := r1.step (Step.check1Stale _ 1 rfl rfl)
  have r3 := r2.step (Step.acquire _ 0 rfl rfl)
  have r4 := r3.step (Step.acquire _ 1 rfl rfl)
  have r5 := r4.step (Step.check2Stale _ 0 rfl rfl)
  have r6 := r5.step (Step.check2Stale _ 1 rfl rfl)
  -- process 0 builds and publishes
  have r7 := r6.step (Step.createRg _ 0 Dir.empty 0 rfl (by decide) rfl)
  have r8 := r7.step (Step.finishRg _ 0 _ 0 rfl)
  have r9 := r8.step (Step.writeComplete _ 0 _ rfl (by decide) (by decide))
  have r10 := r9.step (Step.removeEnds _ 0 _ rfl)
  have r11 := r10.step (Step.renameOk _ 0 _ rfl (Or.inl rfl))
  -- process 1 finishes its own staging directory
  have r12 := r11.step (Step.createRg _ 1 Dir.empty 0 rfl (by decide) rfl)
  have r13 := r12.step (Step.finishRg _ 1 _ 0 rfl)
  have r14 := r13.step (Step.writeComplete _ 1 _ rfl (by decide) (by decide))
  -- the reader sees process 0's fresh `.complete` …
  have r15 := r14.step (Step.readFresh _ 0 rfl (by decide))
  -- … process 1 starts `remove_dir_all(final)` and unlinks rg_0 …
  have r16 := r15.step (Step.unlinkRg _ 1 _ _ 0 rfl rfl)
  -- … and the reader's open fails
  have r17 := r16.step (Step.openMissing _ 0 [] 0 rfl (by decide) (by intro d hd; injection hd with hd; subst hd; decide))
  exact ⟨_, i0, r17, rfl⟩

/-! ### re-slicing -/

/-- Re-slicing is a partition of the rows (both loops of the sidecar code). -/
theorem C20_roundtrip_partial {α : Type} (to : Nat) (hto : 0 < to) :
    (∀ l : List α, (chunks to l).flatten = l ∧ ∀ c ∈ chunks to l, c ≠ [] ∧ c.length ≤ to) ∧
    (∀ (bs : List (List α)) (min : Nat), (resliceLarge bs min to).flatten = bs.flatten) := by
  refine ⟨fun l => chunksFuel_spec to hto l.length l (Nat.le_refl _), ?_⟩
  intro bs min
  induction bs with
  | nil => rfl
  | cons b bs ih =>
    simp only [resliceLarge, List.flatMap_cons, List.flatten_append, List.flatten_cons] at ih ⊢
    rw [ih]
    congr 1
    split
    · exact (chunksFuel_spec to hto b.length b (Nat.le_refl _)).1
    · simp

-- non-vacuity
example : chunks 3 [1, 2, 3, 4, 5, 6, 7] = [[1, 2, 3], [4, 5, 6], [7]] := by decide
example : resliceLarge [[1, 2, 3, 4, 5], [6, 7], [8, 9, 10]] 3 2 = [[1, 2], [3, 4], [5], [6, 7], [8, 9], [10]] := by decide

end IQE.Props.C20
