/-
  C34 — Flight and HTTP return the same answer.
  Property theorems only.  Model: IQE.Engine.FrontDoor (`sliceLoop`/`flightStream` = `encode_flight_stream`,
  `validateTicket` = `do_get`'s ticket checks, `validateCommand` = `parse_command`, `respond` = `execute_statement`,
  shared by both doors).  Constants and the mode vocabularies are the translator-generated
  `IQE.Gen.FrontDoor.{MAX_ENCODE_ROWS, MAX_TICKET_BYTES, parse_mode, parse_value}`.
-/
import IQE.Engine.FrontDoor
import IQE.Gen.FrontDoor
namespace IQE.Props.C34
open IQE.Engine.FrontDoor

/-- `l` is a chain of contiguous (offset, length) slices from `start` to `stop`, none longer than `maxRows`,
    none empty unless it is the only slice of an empty batch -/
def Covers (maxRows : Nat) : Nat → Nat → List (Nat × Nat) → Prop
  | _, _, [] => False
  | start, stop, (o, l) :: rest =>
    o = start ∧ l ≤ maxRows ∧
    (match rest with
     | [] => start + l = stop
     | _ :: _ => 0 < l ∧ Covers maxRows (start + l) stop rest)

private theorem sliceLoop_covers (maxRows n : Nat) (hm : 0 < maxRows) :
    ∀ (fuel offset : Nat), offset ≤ n → n - offset < fuel → Covers maxRows offset n (sliceLoop maxRows n fuel offset) := by
  intro fuel
  induction fuel with
  | zero => intro offset _ h; omega
  | succ f ih =>
    intro offset hle hf
    simp only [sliceLoop]
    by_cases hdone : offset + min (n - offset) maxRows ≥ n
    · have h1 : min (n - offset) maxRows ≤ n - offset := Nat.min_le_left _ _
      have h2 : min (n - offset) maxRows ≤ maxRows := Nat.min_le_right _ _
      simp only [hdone, ↓reduceIte, Covers]
      generalize min (n - offset) maxRows = mm at *
      exact ⟨trivial, h2, by omega⟩
    · simp only [hdone, ↓reduceIte]
      have hlen : 0 < min (n - offset) maxRows := by
        have : 0 < n - offset := by
          have : min (n - offset) maxRows ≤ n - offset := Nat.min_le_left _ _
          omega
        exact Nat.lt_min.mpr ⟨this, hm⟩
      have hle' : offset + min (n - offset) maxRows ≤ n := by omega
      have hrec := ih (offset + min (n - offset) maxRows) hle' (by omega)
      -- the recursive result is non-empty (Covers of [] is False)
      cases hr : sliceLoop maxRows n f (offset + min (n - offset) maxRows) with
      | nil => rw [hr] at hrec; exact absurd hrec (by simp [Covers])
      | cons x xs =>
        rw [hr] at hrec
        exact ⟨rfl, Nat.min_le_right _ _, hlen, hrec⟩

private theorem covers_sum (maxRows : Nat) : ∀ (l : List (Nat × Nat)) (start stop : Nat),
    Covers maxRows start stop l → start + (l.map (·.2)).sum = stop := by
  intro l
  induction l with
  | nil => intro _ _ h; exact absurd h (by simp [Covers])
  | cons x xs ih =>
    intro start stop h
    obtain ⟨o, len⟩ := x
    cases xs with
    | nil => simp [Covers] at h; simp; omega
    | cons y ys =>
      simp only [Covers] at h
      obtain ⟨_, _, _, hrest⟩ := h
      have := ih (start + len) stop hrest
      simp at this ⊢; omega

/-- **Slicing of one batch**: for every batch length the slices are contiguous from row 0, cover the batch exactly,
    and none exceeds the cap. -/
theorem C34_slicing_batch (maxRows n : Nat) (hm : 0 < maxRows) : Covers maxRows 0 n (slicesOf maxRows n) :=
  sliceLoop_covers maxRows n hm (n + 1) 0 (Nat.zero_le _) (by omega)

private theorem batchSlices_filter (maxRows : Nat) : ∀ (bs : List Nat) (i0 j : Nat),
    ((batchSlices maxRows i0 bs).filter (fun s => s.batch == some (i0 + j))).map (fun s => (s.offset, s.len)) =
      (match bs[j]? with | some n => slicesOf maxRows n | none => []) := by
  intro bs
  induction bs with
  | nil => intro i0 j; simp [batchSlices]
  | cons n rest ih =>
    intro i0 j
    simp only [batchSlices, List.filter_append, List.map_append]
    cases j with
    | zero =>
      have h1 : ((slicesOf maxRows n).map (fun x => (⟨some i0, x.1, x.2, false⟩ : Slice))).filter (fun s => s.batch == some (i0 + 0)) =
                (slicesOf maxRows n).map (fun x => (⟨some i0, x.1, x.2, false⟩ : Slice)) := by
        apply List.filter_eq_self.mpr; intro s hs; simp at hs; obtain ⟨a, b, _, rfl⟩ := hs; simp
      have h2 : (batchSlices maxRows (i0 + 1) rest).filter (fun s => s.batch == some (i0 + 0)) = [] := by
        apply List.filter_eq_nil_iff.mpr
        intro s hs
        have : ∀ (bs : List Nat) (k : Nat) (s : Slice), s ∈ batchSlices maxRows k bs → ∃ b, s.batch = some b ∧ k ≤ b := by
          intro bs; induction bs with
          | nil => intro k s h; simp [batchSlices] at h
          | cons m r ih2 =>
            intro k s h
            simp only [batchSlices, List.mem_append, List.mem_map] at h
            rcases h with ⟨x, _, rfl⟩ | h
            · exact ⟨k, rfl, Nat.le_refl _⟩
            · obtain ⟨b, hb, hk⟩ := ih2 (k + 1) s h; exact ⟨b, hb, by omega⟩
        obtain ⟨b, hb, hk⟩ := this rest (i0 + 1) s hs
        simp [hb]; omega
      rw [h1, h2]; simp [List.map_map, Function.comp_def]
    | succ j =>
      have h1 : ((slicesOf maxRows n).map (fun x => (⟨some i0, x.1, x.2, false⟩ : Slice))).filter (fun s => s.batch == some (i0 + (j + 1))) = [] := by
        apply List.filter_eq_nil_iff.mpr; intro s hs; simp at hs; obtain ⟨a, b, _, rfl⟩ := hs; simp
      rw [h1]
      have := ih (i0 + 1) j
      have e : i0 + 1 + j = i0 + (j + 1) := by omega
      rw [e] at this
      simpa using this

/-- **C34 (slicing).**  For every list of batch lengths the DoGet stream is: for each batch, in order, a chain of
    contiguous slices covering it exactly, each at most `MAX_ENCODE_ROWS` rows; then exactly one zero-row trailer,
    the only message that carries the metadata. -/
theorem C34_slicing (batches : List Nat) :
    let maxRows := IQE.Gen.FrontDoor.MAX_ENCODE_ROWS.toNat
    (∀ i n, batches[i]? = some n →
        Covers maxRows 0 n (((flightStream maxRows batches).filter (fun s => s.batch == some i)).map (fun s => (s.offset, s.len)))) ∧
    (∃ body, flightStream maxRows batches = body ++ [⟨none, 0, 0, true⟩] ∧
        ∀ s ∈ body, s.carriesMetadata = false ∧ s.batch.isSome = true ∧ s.len ≤ maxRows) := by
  intro maxRows
  have hm : 0 < maxRows := by decide
  constructor
  · intro i n hi
    have h := batchSlices_filter maxRows batches 0 i
    simp only [Nat.zero_add, hi] at h
    simp only [flightStream, List.filter_append, List.map_append]
    rw [h]
    simpa using C34_slicing_batch maxRows n hm
  · refine ⟨batchSlices maxRows 0 batches, rfl, ?_⟩
    have : ∀ (bs : List Nat) (k : Nat) (s : Slice), s ∈ batchSlices maxRows k bs → s.carriesMetadata = false ∧ s.batch.isSome = true ∧ s.len ≤ maxRows := by
      intro bs; induction bs with
      | nil => intro k s h; simp [batchSlices] at h
      | cons m r ih =>
        intro k s h
        simp only [batchSlices, List.mem_append, List.mem_map] at h
        rcases h with ⟨x, hx, rfl⟩ | h
        · refine ⟨rfl, rfl, ?_⟩
          -- every slice of a Covers chain is ≤ maxRows
          have hc := C34_slicing_batch maxRows m hm
          have : ∀ (l : List (Nat × Nat)) (a b : Nat), Covers maxRows a b l → ∀ y ∈ l, y.2 ≤ maxRows := by
            intro l; induction l with
            | nil => intro _ _ h; exact absurd h (by simp [Covers])
            | cons z zs ih3 =>
              intro a b h y hy
              obtain ⟨zo, zl⟩ := z
              simp only [Covers] at h
              simp at hy
              rcases hy with rfl | hy
              · exact h.2.1
              · cases zs with
                | nil => simp at hy
                | cons w ws => exact ih3 _ _ h.2.2.2 y hy
          exact this _ _ _ hc x hx
        · exact ih (k + 1) s h
    exact this batches 0

/-- **C34 (trailer rows).**  The rows delivered by the stream (Σ slice lengths) are exactly Σ batch lengths — the
    number `outcome_metadata` puts into the trailer (`rows = result.row_count`). -/
theorem C34_trailer_rows (maxRows : Nat) (hm : 0 < maxRows) (batches : List Nat) :
    ((flightStream maxRows batches).map (·.len)).sum = batches.sum := by
  have : ∀ (bs : List Nat) (k : Nat), ((batchSlices maxRows k bs).map (·.len)).sum = bs.sum := by
    intro bs; induction bs with
    | nil => intro k; simp [batchSlices]
    | cons n r ih =>
      intro k
      simp only [batchSlices, List.map_append, List.sum_append, List.map_map, List.sum_cons, ih]
      have := covers_sum maxRows _ 0 n (C34_slicing_batch maxRows n hm)
      simp only [Nat.zero_add] at this
      have e : (List.map ((fun x => x.len) ∘ fun x => ({ batch := some k, offset := x.1, len := x.2, carriesMetadata := false } : Slice)) (slicesOf maxRows n)) =
               (slicesOf maxRows n).map (·.2) := by simp [Function.comp_def]
      rw [e, this]
  simp [flightStream, this]

/-- **C34 (ticket).**  A DoGet ticket runs iff it is within the size cap (translated `MAX_TICKET_BYTES`), parses,
    has version 1 and a known mode; malformed, oversized, unknown-version and unknown-mode tickets are refused. -/
theorem C34_ticket (t : Ticket) (m : Mode) :
    validateTicket IQE.Gen.FrontDoor.MAX_TICKET_BYTES.toNat t = .run m ↔
      (t.bytes ≤ 1048576 ∧ t.jsonOk = true ∧ t.version = 1 ∧ t.mode = some m) := by
  have hmax : IQE.Gen.FrontDoor.MAX_TICKET_BYTES.toNat = 1048576 := by decide
  rw [hmax]
  obtain ⟨bytes, jsonOk, version, mode⟩ := t
  unfold validateTicket
  by_cases h1 : bytes > 1048576
  · simp [h1]; omega
  · cases jsonOk <;> by_cases h3 : version = 1 <;> cases mode <;> simp [h1, h3] <;> omega

/-- the same table for the GetFlightInfo command descriptor (`parse_command`) -/
theorem C34_command (c : Command) (m : Mode) :
    validateCommand IQE.Gen.FrontDoor.MAX_TICKET_BYTES.toNat c = .run m ↔
      (c.bytes ≤ 1048576 ∧ c.utf8 = true ∧ c.emptyAfterTrim = false ∧
        ((c.isJson = false ∧ m = .auto) ∨ (c.isJson = true ∧ c.jsonOk = true ∧ c.sqlEmpty = false ∧ c.mode = some m))) := by
  have hmax : IQE.Gen.FrontDoor.MAX_TICKET_BYTES.toNat = 1048576 := by decide
  rw [hmax]
  obtain ⟨bytes, utf8, emp, isJson, jsonOk, sqlEmpty, mode⟩ := c
  unfold validateCommand
  by_cases h1 : bytes > 1048576
  · simp [h1]; omega
  · cases utf8 <;> cases emp <;> cases isJson <;> cases jsonOk <;> cases sqlEmpty <;> cases mode <;> simp [h1] <;>
      first | omega | (constructor <;> intro h <;> first | omega | exact h.symm | (cases h; rfl) | simp_all)

def modeOfGen : IQE.Gen.FrontDoor.DistMode → Mode
  | .Auto => .auto
  | .Force => .force
  | .Off => .off

/-- what a front door answers for a mode spelling `v`: `none` = the spelling is refused -/
def doorResponse (parse : String → Except String IQE.Gen.FrontDoor.DistMode) (v : String)
    (ready : Bool) (membersUp : Nat) (planOk : Bool) (lo d : Exec) : Option Response :=
  match parse v with
  | .ok m => some (respond ready (modeOfGen m) membersUp planOk lo d)
  | .error _ => none

/-- **C34 (same decision).**  Both doors run the same `execute_statement` (`respond`); for every mode spelling
    other than "off" they derive the same mode or both refuse, hence give the same response in every state.
    For "off" — accepted by Flight, refused (400) by HTTP — Flight answers as HTTP does for "0". -/
theorem C34_same_decision (v : String) (ready : Bool) (membersUp : Nat) (planOk : Bool) (lo d : Exec) :
    (v ≠ "off" → doorResponse IQE.Gen.FrontDoor.parse_mode v ready membersUp planOk lo d =
                 doorResponse IQE.Gen.FrontDoor.parse_value v ready membersUp planOk lo d) ∧
    doorResponse IQE.Gen.FrontDoor.parse_mode "off" ready membersUp planOk lo d =
      doorResponse IQE.Gen.FrontDoor.parse_value "0" ready membersUp planOk lo d ∧
    doorResponse IQE.Gen.FrontDoor.parse_value "off" ready membersUp planOk lo d = none := by
  refine ⟨?_, ?_, ?_⟩
  · intro h
    have : IQE.Gen.FrontDoor.parse_mode v = IQE.Gen.FrontDoor.parse_value v := by
      unfold IQE.Gen.FrontDoor.parse_mode IQE.Gen.FrontDoor.parse_value
      split <;> simp_all
    simp [doorResponse, this]
  · simp [doorResponse, IQE.Gen.FrontDoor.parse_mode, IQE.Gen.FrontDoor.parse_value]
  · simp [doorResponse, IQE.Gen.FrontDoor.parse_value]

/-! ## bridge: the constants and the vocabulary the driver runs ARE the generated ones -/

theorem C34_bridge_constants :
    IQE.Gen.FrontDoor.MAX_ENCODE_ROWS.toNat = maxEncodeRows ∧ IQE.Gen.FrontDoor.MAX_TICKET_BYTES.toNat = maxTicketBytes ∧
    0 ≤ IQE.Gen.FrontDoor.MAX_ENCODE_ROWS ∧ 0 ≤ IQE.Gen.FrontDoor.MAX_TICKET_BYTES := by decide

/-- `parse_mode`'s value table (Flight), for EVERY string -/
theorem C34_flight_mode_table (v : String) : IQE.Gen.FrontDoor.parse_mode v =
    if v = "auto" then .ok .Auto
    else if v = "1" ∨ v = "true" ∨ v = "yes" ∨ v = "force" then .ok .Force
    else if v = "0" ∨ v = "false" ∨ v = "no" ∨ v = "local" ∨ v = "off" then .ok .Off else .error "other" := by
  unfold IQE.Gen.FrontDoor.parse_mode
  split <;> simp_all

theorem C34_bridge_flight_vocabulary (v : String) :
    parseModeFlight v = (match IQE.Gen.FrontDoor.parse_mode v with | .ok m => some (modeOfGen m) | .error _ => none) := by
  rw [C34_flight_mode_table]
  unfold parseModeFlight
  by_cases h1 : v = "auto" <;> by_cases h2 : (v = "1" ∨ v = "true" ∨ v = "yes" ∨ v = "force") <;>
    by_cases h3 : (v = "0" ∨ v = "false" ∨ v = "no" ∨ v = "local" ∨ v = "off") <;> simp [h1, h2, h3, modeOfGen]

/-! ## non-vacuity -/
example : slicesOf 4096 10000 = [(0, 4096), (4096, 4096), (8192, 1808)] ∧ slicesOf 4096 4096 = [(0, 4096)] ∧
          slicesOf 4096 4097 = [(0, 4096), (4096, 1)] ∧ slicesOf 4096 0 = [(0, 0)] := by decide
example : flightStream 4 [5, 0] = [⟨some 0, 0, 4, false⟩, ⟨some 0, 4, 1, false⟩, ⟨some 1, 0, 0, false⟩, ⟨none, 0, 0, true⟩] := by decide
example : validateTicket 1048576 ⟨100, true, 2, some .auto⟩ = .refused ∧ validateTicket 1048576 ⟨1048577, true, 1, some .auto⟩ = .refused ∧
          validateTicket 1048576 ⟨100, true, 1, some .force⟩ = .run .force := by decide

end IQE.Props.C34
