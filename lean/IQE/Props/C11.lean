/-
  C11 — Split enumeration covers every row exactly once, canonically.
  Model: IQE.Engine.SplitEnum (`enumerate` mirrors `enumerate_parquet`; `cut` the cutting loop) and IQE.Engine.Fnv
  (`SplitSet::digest`). The arithmetic (target size, pieces/base/remainder/rows/bytes of a piece) is ALSO regenerated
  from the Rust source by the translator (IQE.Gen.Splits); `C11_gen_bridge` proves generated = hand model, and
  `C11_target_clamp` / `C11_cut_in_range` are stated over the generated definitions — a source edit that changes the
  arithmetic breaks these proofs. Helper lemmas: IQE/Lemmas/SplitEnum.lean, IQE/Lemmas/Fnv.lean.

  Known defect C11-F1 (deviation switch `Dev.dupNames`): with two files of the same NAME the code's result depends on the
  caller's file order (`C11_duplicate_names_order_dependent`, kernel-checked witness). For the code as it is,
  `C11_canonical_distinct_names` needs pairwise distinct file names. With the switch off the model refuses duplicate names
  (one possible repair; the corresponding patch was DECLINED by the maintainers' proxy because it removes working behaviour
  for Iceberg-style layouts, so the finding stays open) and `C11_canonical` then holds with no hypothesis.
-/
import IQE.Lemmas.SplitEnum
import IQE.Lemmas.Fnv
import IQE.Gen.Splits
namespace IQE.Props.C11
open IQE.Engine IQE.Engine.SplitEnum

/-! ### the cutting loop -/

/-- For every row group with `rows ≥ 1`, every byte size and every target: at least one and at most `rows` pieces, each
    with `n ≥ 1` rows, offsets `0, n₀, n₀+n₁, …` (contiguous, hence disjoint) ending exactly at `rows`, `Σ n = rows`,
    and the pieces are equal in rows up to one (`⌊rows/pieces⌋` or one more). -/
theorem C11_cut_covers (rows rgBytes target : Nat) (hr : 1 ≤ rows) :
    let ps := cut rows rgBytes target
    1 ≤ ps.length ∧ ps.length ≤ rows ∧ (∀ p ∈ ps, 1 ≤ p.n) ∧ Contig 0 ps rows ∧ (ps.map (·.n)).sum = rows ∧
    (∀ p ∈ ps, p.n = rows / ps.length ∨ p.n = rows / ps.length + 1) := by
  obtain ⟨h1, h2, h3, h4, h5, _⟩ := cut_spec rows rgBytes target hr
  refine ⟨?_, ?_, h3, h4, h5, h2⟩
  · rw [h1]; exact pieces_pos _ _ _
  · rw [h1]; exact pieces_le_rows _ _ _ hr

private theorem mem_le_sum : ∀ (l : List Nat) (x : Nat), x ∈ l → x ≤ l.sum
  | [], _, h => by simp at h
  | a :: as, x, h => by
    rcases List.mem_cons.1 h with rfl | h
    · simp
    · have := mem_le_sum as x h
      simp only [List.sum_cons]; omega

/-- The pieces' bytes sum EXACTLY to the row group's: the `saturating_sub` never saturates
    (`Σ_{i<last} ⌊bytes·nᵢ/rows⌋ ≤ bytes`), and the `u128` product cannot overflow for `bytes < 2^64`, `rows < 2^63`. -/
theorem C11_bytes_exact (rows rgBytes target : Nat) (hr : 1 ≤ rows) :
    ((cut rows rgBytes target).map (·.bytes)).sum = rgBytes ∧
    (∀ p ∈ cut rows rgBytes target, p.n ≤ rows ∧
      (rgBytes < 2 ^ 64 → rows < 2 ^ 63 → rgBytes * p.n < 2 ^ 128)) := by
  obtain ⟨_, _, _, _, h5, h6⟩ := cut_spec rows rgBytes target hr
  refine ⟨h6, ?_⟩
  intro p hp
  have hle : p.n ≤ rows := by
    rw [← h5]
    exact mem_le_sum _ _ (List.mem_map.2 ⟨p, hp, rfl⟩)
  refine ⟨hle, fun hb hrows => ?_⟩
  calc rgBytes * p.n ≤ rgBytes * rows := Nat.mul_le_mul_left _ hle
    _ < 2 ^ 64 * 2 ^ 63 := Nat.mul_lt_mul'' hb hrows
    _ ≤ 2 ^ 128 := by decide

/-! ### totals -/

/-- When enumeration succeeds, the set totals are the sums over the NON-EMPTY row groups of all files (empty row groups
    and negative byte sizes contribute nothing), in whatever order the files were listed; the splits' bytes and rows add
    up to exactly those totals; the reported target is `target_split_bytes(total_bytes, nodes)`. -/
theorem C11_totals (dev : Dev) (table : List UInt8) (files : List FileMeta) (nodes : Nat) (s : SplitSet)
    (h : enumerate dev table files nodes = .ok s) :
    s.table = table ∧ s.totalBytes = tableBytes files ∧ s.totalRows = (tableRows files : Int) ∧
    (s.splits.map (·.bytes)).sum = s.totalBytes ∧ (s.splits.map (·.numRows)).sum = s.totalRows ∧
    s.target = targetSplitBytes s.totalBytes nodes := by
  unfold enumerate at h
  split at h
  · cases h
  · cases hinv : inventory (orderFiles files) with
    | error e => simp [hinv] at h
    | ok inv =>
      simp only [hinv, Except.ok.injEq] at h
      subst h
      obtain ⟨hb, hr, hpos⟩ := inventory_ok _ inv hinv
      have hperm : (orderFiles files).Perm files := by rw [orderFiles_eq]; exact List.mergeSort_perm _ _
      obtain ⟨hs1, hs2⟩ := splits_sums table (targetSplitBytes (inv.map (·.bytes)).sum nodes) inv hpos
      have hsp : (IQE.StableSort.sort Split.keyLe (inv.flatMap (splitsOfRg table (targetSplitBytes (inv.map (·.bytes)).sum nodes)))).Perm
          (inv.flatMap (splitsOfRg table (targetSplitBytes (inv.map (·.bytes)).sum nodes))) := by
        rw [sortSplits_eq]; exact List.mergeSort_perm _ _
      refine ⟨rfl, ?_, ?_, ?_, ?_, rfl⟩
      · show (inv.map (·.bytes)).sum = _
        rw [hb, tableBytes_perm hperm]
      · show (((inv.map (·.rows)).sum : Nat) : Int) = _
        rw [hr, tableRows_perm hperm]
      · show ((IQE.StableSort.sort Split.keyLe _).map (·.bytes)).sum = (inv.map (·.bytes)).sum
        rw [(hsp.map _).sum_nat, hs1]
      · show ((IQE.StableSort.sort Split.keyLe _).map (·.numRows)).sum = (((inv.map (·.rows)).sum : Nat) : Int)
        rw [Lpt.perm_sum_int (hsp.map _), hs2]

/-- The returned splits are in canonical-key order. -/
theorem C11_sorted (dev : Dev) (table : List UInt8) (files : List FileMeta) (nodes : Nat) (s : SplitSet)
    (h : enumerate dev table files nodes = .ok s) : s.splits.Pairwise (fun a b => a.keyLe b = true) := by
  unfold enumerate at h
  split at h
  · cases h
  · cases hinv : inventory (orderFiles files) with
    | error e => simp [hinv] at h
    | ok inv =>
      simp only [hinv, Except.ok.injEq] at h
      subst h
      show (IQE.StableSort.sort Split.keyLe _).Pairwise _
      rw [sortSplits_eq]
      exact List.pairwise_mergeSort keyLe_trans keyLe_total _

/-! ### canonical: independence of file order (and of mount paths: the model sees only file names) -/

/-- The code as it is (`dupNames := true`): with pairwise DISTINCT file names the whole result — splits, totals, target,
    error — is the same for every ordering of the files; hence so is the digest. -/
theorem C11_canonical_distinct_names (dev : Dev) (table : List UInt8) (files files' : List FileMeta) (nodes : Nat)
    (hp : files'.Perm files) (hn : (files.map (·.name)).Nodup) :
    enumerate dev table files' nodes = enumerate dev table files nodes := by
  unfold enumerate
  rw [hasDup_perm (hp.map _), orderFiles_perm hp hn]

/-- The intended algorithm (all switches off; duplicate names refused): canonical with NO hypothesis. -/
theorem C11_canonical (table : List UInt8) (files files' : List FileMeta) (nodes : Nat) (hp : files'.Perm files) :
    enumerate {} table files' nodes = enumerate {} table files nodes := by
  by_cases hd : hasDup (files.map (·.name)) = true
  · unfold enumerate
    rw [hasDup_perm (hp.map _)]
    simp [hd]
  · have hn : (files.map (·.name)).Nodup := by
      by_cases hnd : (files.map (·.name)).Nodup
      · exact hnd
      · exact absurd ((hasDup_iff _).2 hnd) hd
    exact C11_canonical_distinct_names {} table files files' nodes hp hn

private def wa : FileMeta := { name := [120], footer := some [{ rows := 3, bytes := 100 }] }
private def wb : FileMeta := { name := [120], footer := some [{ rows := 5, bytes := 200 }] }

/-- NEGATION WITNESS for finding C11-F1 (DESIGN A.10): two files both named `x`, 3 and 5 rows. The code as it is returns
    different digests for the two file orders — the property "does not depend on file order" is false of it. -/
theorem C11_duplicate_names_order_dependent :
    ∃ (table : List UInt8) (files files' : List FileMeta) (nodes : Nat), files'.Perm files ∧
      (enumerate { dupNames := true } table files' nodes).toOption.map (·.digest) ≠
      (enumerate { dupNames := true } table files nodes).toOption.map (·.digest) :=
  ⟨[116], [wa, wb], [wb, wa], 2, List.Perm.swap _ _ _, by decide +kernel⟩

/-! ### digest -/

/-- The digest is a function of (table, canonical split list) only — not of totals, target, paths. -/
theorem C11_digest_function_of_content (s₁ s₂ : SplitSet) (ht : s₁.table = s₂.table) (hs : s₁.splits = s₂.splits) :
    s₁.digest = s₂.digest := by
  unfold SplitSet.digest; rw [ht, hs]

/-- PARTIAL sensitivity. (1) the FNV-1a step is a bijection of the 64-bit state for every byte (the odd multiplier is
    invertible modulo 2^64) and injective in the byte; (2) two canonical serialisations that differ in exactly one byte,
    or in two adjacent bytes, have different digests, whatever precedes and follows.
    MISSING (unprovable for a 64-bit digest, by pigeonhole): "ANY change of content changes the digest". -/
theorem C11_digest_sensitive_partial :
    (∀ (b : UInt8) (h₁ h₂ : UInt64), Fnv.step h₁ b = Fnv.step h₂ b → h₁ = h₂) ∧
    (∀ (b : UInt8) (h' : UInt64), ∃ h, Fnv.step h b = h') ∧
    (∀ (h : UInt64) (a b : UInt8), Fnv.step h a = Fnv.step h b → a = b) ∧
    (∀ (p s : List UInt8) (a b : UInt8), a ≠ b → Fnv.feed Fnv.OFFSET (p ++ a :: s) ≠ Fnv.feed Fnv.OFFSET (p ++ b :: s)) ∧
    (∀ (p s : List UInt8) (a₁ a₂ b₁ b₂ : UInt8), (a₁ ≠ b₁ ∨ a₂ ≠ b₂) →
      Fnv.feed Fnv.OFFSET (p ++ a₁ :: a₂ :: s) ≠ Fnv.feed Fnv.OFFSET (p ++ b₁ :: b₂ :: s)) :=
  ⟨fun _ _ _ e => Fnv.step_inj_state e, fun b h' => ⟨_, Fnv.step_surj b h'⟩, fun _ _ _ e => Fnv.step_inj_byte e,
   fun p s _ _ hab => Fnv.feed_one_byte _ p s hab, fun p s _ _ _ _ hne => Fnv.feed_two_adjacent_bytes _ p s hne⟩

/-! ### the arithmetic, over the definitions REGENERATED from src/distributed/splits.rs -/

open IQE.Gen.Splits in
private theorem b_max (a b : Nat) : Rs.max (a : Int) (b : Int) = ((max a b : Nat) : Int) := by
  unfold Rs.max; split <;> omega
private theorem b_min (a b : Nat) : Rs.min (a : Int) (b : Int) = ((min a b : Nat) : Int) := by
  unfold Rs.min; split <;> omega
private theorem b_divU (a b : Nat) : Rs.divU (a : Int) (b : Int) = ((a / b : Nat) : Int) := by
  unfold Rs.divU; exact (Int.natCast_ediv a b).symm
private theorem b_ceil (a b : Nat) : Rs.divCeilU (a : Int) (b : Int) = ((ceilDiv a b : Nat) : Int) := by
  unfold Rs.divCeilU ceilDiv
  rw [← Int.natCast_emod, ← Int.natCast_ediv]
  split <;> split <;> omega
private theorem b_clamp (x lo hi : Nat) :
    Rs.clamp (x : Int) lo hi = ((if x < lo then lo else if x > hi then hi else x : Nat) : Int) := by
  unfold Rs.clamp
  by_cases h1 : x < lo
  · have : (x : Int) < lo := by omega
    simp [h1, this]
  · have h1' : ¬ (x : Int) < lo := by omega
    by_cases h2 : x > hi
    · have : (x : Int) > hi := by omega
      simp [h1, h1', h2, this]
    · have h2' : ¬ (x : Int) > hi := by omega
      simp [h1, h1', h2, h2']

/-- generated `target_split_bytes` = hand model, for all non-negative arguments -/
theorem C11_gen_bridge_target (total nodes : Nat) :
    IQE.Gen.Splits.target_split_bytes (total : Int) (nodes : Int) = ((targetSplitBytes total nodes : Nat) : Int) := by
  unfold IQE.Gen.Splits.target_split_bytes targetSplitBytes
  simp only [IQE.Gen.Splits.MIN_SPLIT_BYTES, IQE.Gen.Splits.MAX_SPLIT_BYTES, IQE.Gen.Splits.SPLITS_PER_NODE,
    IQE.Engine.SplitEnum.MIN_SPLIT_BYTES, IQE.Engine.SplitEnum.MAX_SPLIT_BYTES, IQE.Engine.SplitEnum.SPLITS_PER_NODE]
  have e1 : (1 : Int) = ((1 : Nat) : Int) := rfl
  have e2 : (4 * 1024 * 1024 : Int) = ((4 * 1024 * 1024 : Nat) : Int) := rfl
  have e3 : (64 * 1024 * 1024 : Int) = ((64 * 1024 * 1024 : Nat) : Int) := rfl
  have e4 : ∀ n : Nat, (32 : Int) * (n : Int) = ((32 * n : Nat) : Int) := fun n => by omega
  rw [e1, e2, e3]
  simp only [b_max, e4, b_min, b_ceil, b_divU, b_clamp]
  rfl

/-- generated expression slices of the cutting loop = hand model (`pieces`, `base`, `remainder`, rows and bytes of a piece) -/
theorem C11_gen_bridge_cut (rgBytes rows target p piece base rem bl n : Nat) :
    IQE.Gen.Splits.cut_pieces rgBytes rows target = ((pieces rgBytes rows target : Nat) : Int) ∧
    IQE.Gen.Splits.cut_base rows p = ((rows / p : Nat) : Int) ∧
    IQE.Gen.Splits.cut_remainder rows p = ((rows % p : Nat) : Int) ∧
    IQE.Gen.Splits.cut_piece_rows base piece rem = ((base + (if piece < rem then 1 else 0) : Nat) : Int) ∧
    IQE.Gen.Splits.cut_piece_bytes piece p bl rgBytes n rows
      = ((if piece + 1 = p then bl else rgBytes * n / rows : Nat) : Int) := by
  refine ⟨?_, ?_, ?_, ?_, ?_⟩
  · unfold IQE.Gen.Splits.cut_pieces pieces
    have e1 : (1 : Int) = ((1 : Nat) : Int) := rfl
    rw [e1]
    simp only [b_ceil, b_min, b_max, Rs.Cmp.le]
    by_cases h : rgBytes ≤ target
    · have : (rgBytes : Int) ≤ target := by omega
      simp [h, this]
    · have : ¬ (rgBytes : Int) ≤ target := by omega
      simp [h, this]
  · exact (Int.ofNat_tdiv rows p).symm
  · exact (Int.ofNat_tmod rows p).symm
  · unfold IQE.Gen.Splits.cut_piece_rows
    simp only [Rs.Cmp.lt]
    by_cases h : piece < rem
    · have : (piece : Int) < rem := by omega
      simp [h, this]
    · have : ¬ (piece : Int) < rem := by omega
      simp [h, this]
  · unfold IQE.Gen.Splits.cut_piece_bytes
    simp only [Rs.Cmp.eq]
    by_cases h : piece + 1 = p
    · have : (piece : Int) + 1 = p := by omega
      simp [h, this]
    · have : ¬ (piece : Int) + 1 = p := by omega
      simp only [h, this, decide_false, Bool.false_eq_true, ↓reduceIte]
      rw [← Int.natCast_mul]; exact b_divU _ _

/-- `target_split_bytes` (generated from source): for a u64 total and any node count below 2^59 (so `32·nodes` fits u64;
    the property's range is 1..64) no arithmetic or `clamp` panic is possible (`floor ≤ MAX.max(floor)`),
    `1 ≤ target`, `floor ≤ target ≤ max(MAX_SPLIT_BYTES, floor)`. -/
theorem C11_target_clamp (total nodes : Int) (h : IQE.Gen.Splits.target_split_bytes_argsInRange total nodes)
    (hn : nodes < 2 ^ 59) :
    IQE.Gen.Splits.target_split_bytes_inRange total nodes ∧
    1 ≤ IQE.Gen.Splits.target_split_bytes total nodes ∧
    (let floor := Rs.max (Rs.min IQE.Gen.Splits.MIN_SPLIT_BYTES (Rs.divCeilU total (Rs.max nodes 1))) 1
     floor ≤ IQE.Gen.Splits.target_split_bytes total nodes ∧
     IQE.Gen.Splits.target_split_bytes total nodes ≤ Rs.max IQE.Gen.Splits.MAX_SPLIT_BYTES floor) := by
  obtain ⟨⟨h1, h2⟩, ⟨h3, h4⟩⟩ := h
  simp only [Rs.U64_MAX, Rs.USIZE_MAX] at h2 h4
  unfold IQE.Gen.Splits.target_split_bytes_inRange IQE.Gen.Splits.target_split_bytes
  simp only [IQE.Gen.Splits.MIN_SPLIT_BYTES, IQE.Gen.Splits.MAX_SPLIT_BYTES, IQE.Gen.Splits.SPLITS_PER_NODE, Rs.clampOk, Rs.U64_MAX]
  generalize Rs.divCeilU total (Rs.max nodes 1) = c
  generalize Rs.divU total (Rs.max (32 * Rs.max nodes 1) 1) = i
  have hn' : Rs.max nodes 1 < 2 ^ 59 ∧ 1 ≤ Rs.max nodes 1 := by unfold Rs.max; split <;> omega
  generalize Rs.max nodes 1 = m at *
  have hf : 1 ≤ Rs.max (Rs.min (4 * 1024 * 1024) c) 1 := by unfold Rs.max; split <;> omega
  generalize Rs.max (Rs.min (4 * 1024 * 1024) c) 1 = f at *
  have hhi : f ≤ Rs.max (64 * 1024 * 1024) f := by unfold Rs.max; split <;> omega
  generalize Rs.max (64 * 1024 * 1024) f = hi at *
  have hm1 : Rs.max (32 * m) 1 ≠ 0 := by unfold Rs.max; split <;> omega
  have hcl : f ≤ Rs.clamp i f hi ∧ Rs.clamp i f hi ≤ hi := by unfold Rs.clamp; split <;> (try split) <;> omega
  refine ⟨⟨by omega, by omega, hm1, hhi⟩, by omega, hcl.1, hcl.2⟩

/-- The cutting-loop slices (generated from source) cannot panic or leave their Rust types for a real row group:
    `0 ≤ bytes ≤ i64::MAX` (it is `total_byte_size().max(0)`), `1 ≤ rows ≤ i64::MAX`, `1 ≤ target ≤ u64::MAX`:
    `pieces ≥ 1` (no division by zero in base/remainder), `div_ceil` fits i64, the proportional bytes fit u64. -/
theorem C11_cut_in_range (rgBytes rows target : Nat) (hb : (rgBytes : Int) ≤ Rs.I64_MAX) (hr1 : 1 ≤ rows)
    (_hr : (rows : Int) ≤ Rs.I64_MAX) (ht : 1 ≤ target) (n : Nat) (hnr : n ≤ rows) :
    IQE.Gen.Splits.cut_pieces_inRange rgBytes rows target ∧
    1 ≤ IQE.Gen.Splits.cut_pieces rgBytes rows target ∧
    IQE.Gen.Splits.cut_pieces rgBytes rows target ≤ rows ∧
    (0 ≤ Rs.divU ((rgBytes : Int) * n) rows ∧ Rs.divU ((rgBytes : Int) * n) rows ≤ Rs.U64_MAX) := by
  have hp := (C11_gen_bridge_cut rgBytes rows target 1 0 0 0 0 0).1
  have hc : ceilDiv rgBytes target ≤ rgBytes := by
    unfold ceilDiv
    have h1 : rgBytes / target ≤ rgBytes := Nat.div_le_self _ _
    split
    · rename_i hm
      have : rgBytes / target * target + rgBytes % target = rgBytes := by
        rw [Nat.mul_comm]; exact Nat.div_add_mod _ _
      have h2 : rgBytes / target ≤ rgBytes / target * target := Nat.le_mul_of_pos_right _ ht
      omega
    · exact h1
  refine ⟨?_, ?_, ?_, ?_⟩
  · unfold IQE.Gen.Splits.cut_pieces_inRange
    intro _
    rw [b_ceil]
    simp only [Rs.I64_MIN, Rs.I64_MAX] at *
    refine ⟨by omega, by omega, by omega⟩
  · rw [hp]; have := pieces_pos rgBytes rows target; omega
  · rw [hp]; have := pieces_le_rows rgBytes rows target hr1; omega
  · rw [← Int.natCast_mul, b_divU]
    have h1 : rgBytes * n / rows ≤ rgBytes := by
      apply Nat.div_le_of_le_mul
      rw [Nat.mul_comm rows rgBytes]
      exact Nat.mul_le_mul_left _ hnr
    generalize rgBytes * n / rows = q at *
    simp only [Rs.U64_MAX, Rs.I64_MAX] at *
    omega

-- non-vacuity: concrete evaluations of the model (300 KB table on 3 nodes: target 100, as in the repo's own test)
example : targetSplitBytes 300 3 = 100 ∧ targetSplitBytes 0 3 = 1 ∧ targetSplitBytes (2 ^ 63) 3 = 64 * 1024 * 1024 := by decide
example : cut 10 1000 300 = [⟨0, 3, 300⟩, ⟨3, 3, 300⟩, ⟨6, 2, 200⟩, ⟨8, 2, 200⟩] := by decide
example : (match enumerate {} [116] [wa, wb] 2 with | .error .duplicateName => true | _ => false) = true := by decide
example : (enumerate { dupNames := true } [116] [wa, wb] 2).toOption.map (·.splits.map (·.numRows)) = some [3, 3, 2] := by decide

end IQE.Props.C11
