/-
  C12 — Byte-balanced assignment is a deterministic partition within the LPT bound.
  Model: IQE.Engine.Lpt (`assign` mirrors `assign_lpt`, src/distributed/splits.rs). Helper lemmas: IQE/Lemmas/Lpt.lean.
  All statements hold for EVERY split list (any sizes, ties, zero-byte splits, duplicate keys) and EVERY node count
  (`nodes = 0` is clamped to 1 as in the code). Loads are natural numbers: the u64 overflow of `+=` is an explicit
  `Outcome.panic` of `assignRust` and is outside these statements (a real table's totals fit u64/i64).
-/
import IQE.Lemmas.Lpt
namespace IQE.Props.C12
open IQE.Engine IQE.Engine.Lpt

/-- Every split goes to exactly one node: the per-node index lists, concatenated, are a permutation of `0..n`;
    there are exactly `max nodes 1` nodes. -/
theorem C12_partition (splits : List Split) (tb nodes : Nat) :
    (assign splits tb nodes).nodes = max nodes 1 ∧
    (assign splits tb nodes).perNode.length = max nodes 1 ∧
    (assign splits tb nodes).perNode.flatten.Perm (List.range splits.length) := by
  have inv := inv_greedy splits nodes
  refine ⟨rfl, by simp [assign, finish, inv.len], ?_⟩
  show ((greedy splits nodes).perNode.map sortOwned).flatten.Perm _
  refine (flatten_map_sortOwned _).trans ?_
  have h1 : ((greedy splits nodes).perNode.flatten.map (·.2)).Perm (splits.zipIdx.map (·.2)) :=
    (inv.perm.trans (order_perm splits)).map _
  rw [List.zipIdx_map_snd, ← List.range_eq_range'] at h1
  exact h1

private theorem owned_lookup (splits : List Split) (nodes : Nat) (l : List (Split × Nat))
    (hl : l ∈ (greedy splits nodes).perNode) : ∀ p ∈ l, splits[p.2]? = some p.1 := by
  intro p hp
  have : p ∈ (greedy splits nodes).perNode.flatten := List.mem_flatten.2 ⟨l, hl, hp⟩
  exact mem_order ((inv_greedy splits nodes).perm.mem_iff.1 this)

/-- Per-node byte totals, row totals and split counts are the sums over what each node owns, and the node totals
    add up to the table (bytes and rows). `totalBytes` is the caller's `set.total_bytes`, copied. -/
theorem C12_sums (splits : List Split) (tb nodes : Nat) :
    let a := assign splits tb nodes
    a.nodeBytes = a.perNode.map (fun l => (l.map fun i => splits[i]!.bytes).sum) ∧
    a.nodeRows = a.perNode.map (fun l => (l.map fun i => splits[i]!.numRows).sum) ∧
    a.nodeSplits = a.perNode.map List.length ∧
    a.nodeBytes.sum = (splits.map (·.bytes)).sum ∧
    a.nodeRows.sum = (splits.map (·.numRows)).sum ∧
    a.totalBytes = tb := by
  have inv := inv_greedy splits nodes
  refine ⟨?_, ?_, rfl, ?_, ?_, rfl⟩
  · show (greedy splits nodes).nodeBytes = ((greedy splits nodes).perNode.map sortOwned).map _
    rw [inv.bytes, List.map_map]
    apply List.map_congr_left
    intro l hl
    have h := sortOwned_lookup splits l (owned_lookup splits nodes l hl)
    show sumB l = ((sortOwned l).map fun i => splits[i]!.bytes).sum
    have : ((sortOwned l).map fun i => splits[i]!.bytes) = ((sortOwned l).map (fun i => splits[i]!)).map (·.bytes) := by
      rw [List.map_map]; rfl
    rw [this, h, List.map_map]
    exact (sumB_perm (List.mergeSort_perm l keyLeIdx)).symm
  · show (greedy splits nodes).nodeRows = ((greedy splits nodes).perNode.map sortOwned).map _
    rw [inv.rows, List.map_map]
    apply List.map_congr_left
    intro l hl
    have h := sortOwned_lookup splits l (owned_lookup splits nodes l hl)
    show sumR l = ((sortOwned l).map fun i => splits[i]!.numRows).sum
    have : ((sortOwned l).map fun i => splits[i]!.numRows) = ((sortOwned l).map (fun i => splits[i]!)).map (·.numRows) := by
      rw [List.map_map]; rfl
    rw [this, h, List.map_map]
    exact (sumR_perm (List.mergeSort_perm l keyLeIdx)).symm
  · show (greedy splits nodes).nodeBytes.sum = _
    rw [inv.bytes, sum_map_sumB, sumB_perm (inv.perm.trans (order_perm splits)), sumB_zipIdx]
  · show (greedy splits nodes).nodeRows.sum = _
    rw [inv.rows, sum_map_sumR, sumR_perm (inv.perm.trans (order_perm splits)), sumR_zipIdx]

/-- Determinism. The assignment is a function of the split list (canonical fields only — the model has no mount
    path) and the node count; `total_bytes` is only copied. Each node's list is in canonical-key order. -/
theorem C12_deterministic (splits : List Split) (tb tb' nodes : Nat) :
    (∀ l ∈ (assign splits tb nodes).perNode,
        (l.map fun i => splits[i]!).Pairwise (fun x y => x.keyLe y = true)) ∧
    { assign splits tb' nodes with totalBytes := tb } = assign splits tb nodes ∧
    assign splits tb 0 = assign splits tb 1 := by
  refine ⟨?_, rfl, rfl⟩
  intro l hl
  obtain ⟨l0, hl0, rfl⟩ := List.mem_map.1 (show l ∈ (greedy splits nodes).perNode.map sortOwned from hl)
  rw [sortOwned_lookup splits l0 (owned_lookup splits nodes l0 hl0)]
  have := List.pairwise_mergeSort keyLeIdx_trans keyLeIdx_total l0
  exact List.Pairwise.map _ (fun a b h => h) this

/-- Tie-breaks. Splits are processed in (bytes descending, canonical key ascending) order, equal (bytes, key)
    keeping index order (stable); each goes to the LOWEST-index node among the least loaded. -/
theorem C12_tiebreak (splits : List Split) :
    (order splits).Pairwise (fun a b => lptLe a b = true) ∧
    (∀ a b, lptLe a b = true → [a, b].Sublist splits.zipIdx → [a, b].Sublist (order splits)) ∧
    (∀ (loads : List Nat) (j w v : Nat), loads[argmin loads]? = some v → loads[j]? = some w →
        v ≤ w ∧ (j < argmin loads → v < w)) := by
  refine ⟨by rw [order_eq]; exact List.pairwise_mergeSort lptLe_trans lptLe_total _, ?_, ?_⟩
  · intro a b hab hs
    rw [order_eq]
    exact List.pair_sublist_mergeSort lptLe_trans lptLe_total hab hs
  · intro loads j w v hv hw
    have hne : loads ≠ [] := by intro h; subst h; simp at hw
    obtain ⟨v', _, hv', hmin⟩ := argmin_spec loads hne
    rw [hv] at hv'; cases hv'
    exact ⟨hmin w (List.mem_of_getElem? hw), fun hj => argmin_lowest loads j w v hj hw hv⟩

/-- Graham's inequality for every instance: with `ℓ` the split that was placed last on the most loaded node,
    `N · maxLoad ≤ total + (N − 1) · p_ℓ`, i.e. `maxLoad ≤ total/N + (1 − 1/N)·p_ℓ`. -/
theorem C12_graham (splits : List Split) (tb nodes : Nat) :
    match critical splits nodes with
    | none => maxLoad (assign splits tb nodes).nodeBytes = 0
    | some p => splits[p.2]? = some p.1 ∧
        max nodes 1 * maxLoad (assign splits tb nodes).nodeBytes
          ≤ (splits.map (·.bytes)).sum + (max nodes 1 - 1) * p.1.bytes := by
  have inv := inv_greedy splits nodes
  have htot : ((greedy splits nodes).perNode.map sumB).sum = (splits.map (·.bytes)).sum := by
    rw [sum_map_sumB, sumB_perm (inv.perm.trans (order_perm splits)), sumB_zipIdx]
  have hne : (greedy splits nodes).nodeBytes ≠ [] := by
    intro h0
    have := congrArg List.length inv.bytes
    rw [h0, List.length_map, inv.len] at this
    simp at this; omega
  obtain ⟨hh, hmax⟩ := heaviest_spec _ hne
  have hlen : (greedy splits nodes).perNode.length = (greedy splits nodes).nodeBytes.length := by
    rw [inv.bytes, List.length_map]
  have hh' : heaviest (greedy splits nodes).nodeBytes < (greedy splits nodes).perNode.length := by omega
  have hl : (greedy splits nodes).perNode[heaviest (greedy splits nodes).nodeBytes]? =
      some ((greedy splits nodes).perNode[heaviest (greedy splits nodes).nodeBytes]) := List.getElem?_eq_getElem hh'
  generalize hL : (greedy splits nodes).perNode[heaviest (greedy splits nodes).nodeBytes] = l at hl
  have hsum : sumB l = maxLoad (greedy splits nodes).nodeBytes := by
    have h1 : ((greedy splits nodes).perNode.map sumB)[heaviest (greedy splits nodes).nodeBytes]? = some (sumB l) := by
      simp [hl]
    rw [← inv.bytes, hmax] at h1
    exact (Option.some.inj h1).symm
  have hcrit : critical splits nodes = l.getLast? := by
    simp [critical, List.getD_eq_getElem?_getD, hl]
  have hmem : l ∈ (greedy splits nodes).perNode := List.mem_of_getElem? hl
  rw [hcrit]
  show match l.getLast? with
    | none => maxLoad (greedy splits nodes).nodeBytes = 0
    | some p => splits[p.2]? = some p.1 ∧ max nodes 1 * maxLoad (greedy splits nodes).nodeBytes ≤ _
  cases hlast : l.getLast? with
  | none =>
    have : l = [] := List.getLast?_eq_none_iff.1 hlast
    subst this
    simpa [sumB] using hsum.symm
  | some p =>
    refine ⟨owned_lookup splits nodes l hmem p (List.mem_of_getLast? hlast), ?_⟩
    have := inv.graham l hmem p hlast
    rw [htot, hsum] at this
    exact this

/-- Hence, against ANY other assignment `alt` (split `i` ↦ node `alt[i] < N`), in particular an optimal one:
    `maxLoad ≤ (2 − 1/N) · makespan alt`. -/
theorem C12_graham_two (splits : List Split) (tb nodes : Nat) (alt : List Nat)
    (hlen : alt.length = splits.length) (hval : ∀ x ∈ alt, x < max nodes 1) :
    max nodes 1 * maxLoad (assign splits tb nodes).nodeBytes
      ≤ (2 * max nodes 1 - 1) * makespan (splits.map (·.bytes)) alt (max nodes 1) := by
  have hg := C12_graham splits tb nodes
  have hl' : alt.length = (splits.map (·.bytes)).length := by simpa using hlen
  have htot := total_le_mul_makespan (max nodes 1) (splits.map (·.bytes)) alt hl' hval
  have hitem := item_le_makespan (max nodes 1) (splits.map (·.bytes)) alt hl' hval
  generalize max nodes 1 = N at *
  generalize makespan (splits.map (·.bytes)) alt N = M at *
  generalize maxLoad (assign splits tb nodes).nodeBytes = L at *
  cases hc : critical splits nodes with
  | none =>
    rw [hc] at hg; simp only at hg; subst hg; simp
  | some p =>
    rw [hc] at hg
    obtain ⟨hp, hg⟩ := hg
    have hpM : p.1.bytes ≤ M := hitem p.2 p.1.bytes (by simp [hp])
    have h1 : (N - 1) * p.1.bytes ≤ (N - 1) * M := Nat.mul_le_mul_left _ hpM
    have h2 : (2 * N - 1) * M = N * M + (N - 1) * M := by
      rw [← Nat.add_mul]; congr 1; omega
    omega

/-- PARTIAL (the easy half of Graham 1969): whenever the critical split is at most a third of the other
    assignment's makespan (`3·p_ℓ ≤ makespan alt`), `maxLoad ≤ (4/3 − 1/(3N)) · makespan alt`, cross-multiplied.
    MISSING: the case where every split up to `ℓ` exceeds OPT/3 (there LPT is optimal — the exchange argument of
    Graham's proof); that case is covered only by the oracle against a brute-force optimum on all small
    instances (enumeration, not proof). -/
theorem C12_lpt_bound_partial (splits : List Split) (tb nodes : Nat) (alt : List Nat)
    (hlen : alt.length = splits.length) (hval : ∀ x ∈ alt, x < max nodes 1)
    (hthird : ∀ p, critical splits nodes = some p → 3 * p.1.bytes ≤ makespan (splits.map (·.bytes)) alt (max nodes 1)) :
    3 * max nodes 1 * maxLoad (assign splits tb nodes).nodeBytes
      ≤ (4 * max nodes 1 - 1) * makespan (splits.map (·.bytes)) alt (max nodes 1) := by
  have hg := C12_graham splits tb nodes
  have hl' : alt.length = (splits.map (·.bytes)).length := by simpa using hlen
  have htot := total_le_mul_makespan (max nodes 1) (splits.map (·.bytes)) alt hl' hval
  have hN : 1 ≤ max nodes 1 := by omega
  generalize max nodes 1 = N at *
  generalize makespan (splits.map (·.bytes)) alt N = M at *
  generalize maxLoad (assign splits tb nodes).nodeBytes = L at *
  cases hc : critical splits nodes with
  | none =>
    rw [hc] at hg; simp only at hg; subst hg; simp
  | some p =>
    rw [hc] at hg
    obtain ⟨_, hg⟩ := hg
    have h3 := hthird p hc
    have h1 : (N - 1) * (3 * p.1.bytes) ≤ (N - 1) * M := Nat.mul_le_mul_left _ h3
    have h2 : (4 * N - 1) * M = 3 * (N * M) + (N - 1) * M := by
      rw [← Nat.mul_assoc, ← Nat.add_mul]; congr 1; omega
    have h4 : 3 * N * L = 3 * (N * L) := Nat.mul_assoc _ _ _
    have h5 : (N - 1) * (3 * p.1.bytes) = 3 * ((N - 1) * p.1.bytes) := by
      rw [Nat.mul_left_comm]
    omega

-- non-vacuity: the repo's own test instance [5,5,5,5,3,3,1] on 3 nodes, and one with ties/zero
private def mk (sizes : List Nat) : List Split :=
  sizes.zipIdx.map fun (b, i) => { table := [116], file := [116], rowGroup := i, rowOffset := 0, numRows := 1000, bytes := b }
example : (assign (mk [5, 5, 5, 5, 3, 3, 1]) 27 3).perNode = [[0, 3], [1, 4, 6], [2, 5]] := by decide
example : (assign (mk [5, 5, 5, 5, 3, 3, 1]) 27 3).nodeBytes = [10, 9, 8] := by decide
example : (assign (mk [0, 2, 2, 0]) 4 0).perNode = [[0, 1, 2, 3]] := by decide
example : (critical (mk [5, 5, 5, 5, 3, 3, 1]) 3).map (·.2) = some 3 := by decide

end IQE.Props.C12
