/-
  C19 — Rewritten files are never served from a stale cache.
  Model: IQE.Engine.CacheStamp — a stamp-validated cache (`query`: equal stamp ⇒ serve the entry, else re-derive) in
  front of a file system `path ↦ (content, len, mtime)`, with ops `write` / `query`, for an arbitrary stamp function.

  * `C19_coherent_of_sound_stamp`: for EVERY history (any number of paths, writes and queries in any order), if the stamp
    separates the versions written to each path (equal stamp ⇒ equal content), every query is served the current content.
    The hypothesis is on all pairs of versions of a path, not only successive ones: with A → B → A' where stamp A = stamp A'
    and B never queried, the entry for A survives B.
  * `C19_stale_of_collision`: the hypothesis is tight — for ANY stamp, any two versions with different content and equal
    stamps give a write/query/rewrite/query history whose last query is served the OLD content.
  * `C19_current_stamps_unsound`: the stamps the code uses collide on realistic rewrites: the sidecar stamp
    `(len, mtime in whole seconds)` on a same-length rewrite within the same second; the footer-cache stamp `mtime` on a
    rewrite that preserves the modification time (any length); the per-directory / per-provider caches that carry no stamp
    on every rewrite. (Findings C19-F1, C19-F2, C19-F3; real-file witnesses in corpus/C19.)
-/
import IQE.Lemmas.CacheStamp
namespace IQE.Props.C19
open IQE.Engine.CacheStamp

/-- Coherence from a sound stamp: every query of every history returns the current content. -/
theorem C19_coherent_of_sound_stamp {σ : Type} [DecidableEq σ] (stamp : File → σ) (h : List Op)
    (sep : Separates stamp h) : run stamp State.init h = truth (fun _ => none) h := by
  refine run_eq_truth stamp h [] State.init ⟨?_, ?_⟩ (by simpa using sep)
  · intro p f hf; simp [State.init] at hf
  · intro p st c hc; simp [State.init] at hc

/-- A stamp that determines the content (a content hash, a version counter the writer bumps) is sound for every history. -/
theorem C19_content_stamp_coherent (h : List Op) : run stampContent State.init h = truth (fun _ => none) h :=
  C19_coherent_of_sound_stamp stampContent h (fun _ _ _ _ _ e => e)

/-- Tightness: any stamp collision between two different versions is a stale read, in four steps. -/
theorem C19_stale_of_collision {σ : Type} [DecidableEq σ] (stamp : File → σ) (p : Path) (f1 f2 : File)
    (hs : stamp f1 = stamp f2) :
    run stamp State.init [.write p f1, .query p, .write p f2, .query p] = [none, some f1.content, none, some f1.content]
    ∧ truth (fun _ => none) [.write p f1, .query p, .write p f2, .query p] = [none, some f1.content, none, some f2.content] := by
  constructor
  · simp [run, step, State.init, upd, hs]
  · simp [truth, upd]

/-- The stamps of the unchanged tree are unsound: explicit two-step (write, query, rewrite, query) witness histories. -/
theorem C19_current_stamps_unsound :
    -- sidecar: same length, same whole second (different nanoseconds)
    (∃ f1 f2 : File, f1.content ≠ f2.content ∧ f1.len = f2.len ∧ f1.mtimeNs ≠ f2.mtimeNs ∧
        run stampSidecar State.init [.write 0 f1, .query 0, .write 0 f2, .query 0] ≠ truth (fun _ => none) [.write 0 f1, .query 0, .write 0 f2, .query 0]) ∧
    -- footer cache: modification time preserved, any length
    (∃ f1 f2 : File, f1.content ≠ f2.content ∧ f1.len ≠ f2.len ∧
        run stampFooter State.init [.write 0 f1, .query 0, .write 0 f2, .query 0] ≠ truth (fun _ => none) [.write 0 f1, .query 0, .write 0 f2, .query 0]) ∧
    -- caches without a stamp (sidecar_dict_cols, a provider's stats_cache): every rewrite
    (∀ f1 f2 : File, f1.content ≠ f2.content →
        run stampNone State.init [.write 0 f1, .query 0, .write 0 f2, .query 0] ≠ truth (fun _ => none) [.write 0 f1, .query 0, .write 0 f2, .query 0]) := by
  refine ⟨⟨⟨1, 500, 1700000000000000000⟩, ⟨2, 500, 1700000000500000000⟩, by decide, rfl, by decide, ?_⟩,
          ⟨⟨1, 500, 1700000000123456789⟩, ⟨2, 900, 1700000000123456789⟩, by decide, by decide, ?_⟩, ?_⟩
  · have h := C19_stale_of_collision stampSidecar 0 ⟨1, 500, 1700000000000000000⟩ ⟨2, 500, 1700000000500000000⟩ (by decide)
    rw [h.1, h.2]; decide
  · have h := C19_stale_of_collision stampFooter 0 ⟨1, 500, 1700000000123456789⟩ ⟨2, 900, 1700000000123456789⟩ rfl
    rw [h.1, h.2]; decide
  · intro f1 f2 hne
    have h := C19_stale_of_collision stampNone 0 f1 f2 rfl
    rw [h.1, h.2]
    intro heq
    injection heq with _ heq; injection heq with _ heq; injection heq with _ heq; injection heq with heq _
    injection heq with heq
    exact hne heq

-- non-vacuity: a history over two paths with re-reads, served coherently by the content stamp and (by luck of distinct
-- lengths/seconds) also by the code's stamps
example : run stampSidecar State.init [.write 0 ⟨1, 10, 5000000000⟩, .query 0, .write 1 ⟨7, 10, 5000000000⟩, .write 0 ⟨2, 11, 5000000001⟩, .query 0, .query 1, .query 0]
    = [none, some 1, none, none, some 2, some 7, some 2] := by decide
example : Separates stampFooter [.write 0 ⟨1, 10, 5⟩, .query 0, .write 0 ⟨2, 10, 6⟩] := by
  intro p f g hf hg; simp [versions] at hf hg; split at hf <;> simp_all [stampFooter]
  all_goals (rcases hf with rfl | rfl <;> rcases hg with rfl | rfl <;> simp_all)

end IQE.Props.C19
