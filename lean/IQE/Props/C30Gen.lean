/-
  C30Gen — tie T for the numeric type-coercion decision tables (C02 / C30).

  Two tables decide the type of `a ∘ b` (∘ ∈ + - * / %):
    * executor  `physical/operators/filter.rs  coerce_numeric_types` — reached from `coerce_arrays`, which keeps the
      operands as they are when their types are equal and otherwise casts both to this table's answer; the Arrow
      kernel then returns that type for integer and float operands.  Generated: `Gen.Coerce.exec_coerce`.
    * planner   `planner/logical_expr.rs  coerce_numeric_types` — the type `Expr::data_type` REPORTS for the same
      expression (the schema the client sees).  Generated: `Gen.Coerce.plan_coerce`.
  C30 (reported schema = returned rows) needs the two to agree wherever arithmetic is executed; the defect C30-F2
  (fixed by 60af991) was a disagreement on (Int32, Int32).  Both tables are re-translated from /repo on every run,
  so a new disagreement on the integer / float types breaks `C30Gen_plan_exec_agree`.

  arrow's `DataType` is an external enum; it is declared in translator/items.json with the variants the tables
  mention plus Null / Boolean / UInt8 / UInt16 / Date64.  The theorems quantify over that declared universe.

  Proved:
    * `C30Gen_exec_same`           — the executor table is the identity on equal types (so `coerce_arrays`' early
                                     return for equal types is the table's own answer: executed type = `exec_coerce`).
    * `C30Gen_plan_exec_agree`     — for every pair of types from {Int8, Int16, Int32, Int64, Float32, Float64}
                                     the planner reports exactly the type the executor computes in.
    * `C30Gen_agree_one_numeric`   — more generally, whenever at least one side is one of those six and neither side
                                     is a decimal.
    * `C30Gen_exec_total_numeric`  — the executor table never fails on those pairs.
  Disagreements outside the proved domain (kernel-checked statements in the separate file IQE/Props/C30GenFindings.lean,
  which is NOT part of the check — a repair of /repo changes those statements; both are outside the value model of
  `IQE.Spec`, which has no DECIMAL / unsigned type, so no correspondence family samples them):
    * DECIMAL ∘ integer: until fix commit e24f569 the executor picked the INTEGER type (`CAST(1.5 AS DECIMAL(10,2)) + 0`
      returned 1); now it computes in Decimal128(38, s). The planner still reports Decimal128(38, 10) for every scale
      (`C30Gen_decimal_int_after_fix`).
    * `C30Gen_unsigned_disagree` — two unsigned operands: executed in UInt32 / UInt64, reported as Float64.
-/
import IQE.Gen.Coerce
namespace IQE.Props.C30Gen
open IQE IQE.Gen.Coerce

theorem C30Gen_exec_same (t : DataType) : exec_coerce t t = .ok t := by
  simp [exec_coerce]

theorem C30Gen_plan_exec_agree (l r : DataType)
    (hl : l ∈ [DataType.Int8, .Int16, .Int32, .Int64, .Float32, .Float64])
    (hr : r ∈ [DataType.Int8, .Int16, .Int32, .Int64, .Float32, .Float64]) :
    exec_coerce l r = .ok (plan_coerce l r) := by
  simp only [List.mem_cons, List.not_mem_nil, or_false] at hl hr
  rcases hl with rfl | rfl | rfl | rfl | rfl | rfl <;> rcases hr with rfl | rfl | rfl | rfl | rfl | rfl <;> rfl

theorem C30Gen_agree_one_numeric (l r : DataType)
    (h : l ∈ [DataType.Int8, .Int16, .Int32, .Int64, .Float32, .Float64] ∨
         r ∈ [DataType.Int8, .Int16, .Int32, .Int64, .Float32, .Float64])
    (hl : ∀ p s, l ≠ .Decimal128 p s) (hr : ∀ p s, r ≠ .Decimal128 p s) :
    exec_coerce l r = .ok (plan_coerce l r) := by
  cases l <;> cases r <;> first | rfl | exact absurd rfl (hl _ _) | exact absurd rfl (hr _ _) | (exfalso; simp at h; done)

theorem C30Gen_exec_total_numeric (l r : DataType)
    (hl : l ∈ [DataType.Int8, .Int16, .Int32, .Int64, .Float32, .Float64])
    (hr : r ∈ [DataType.Int8, .Int16, .Int32, .Int64, .Float32, .Float64]) :
    ∃ t, exec_coerce l r = .ok t ∧ t ∈ [DataType.Int8, .Int16, .Int32, .Int64, .Float32, .Float64] := by
  refine ⟨plan_coerce l r, C30Gen_plan_exec_agree l r hl hr, ?_⟩
  simp only [List.mem_cons, List.not_mem_nil, or_false] at hl hr
  rcases hl with rfl | rfl | rfl | rfl | rfl | rfl <;> rcases hr with rfl | rfl | rfl | rfl | rfl | rfl <;> decide

/-! ### non-vacuity / reading examples -/
example : exec_coerce .Int32 .Int32 = .ok .Int32 ∧ plan_coerce .Int32 .Int32 = .Int32 := ⟨rfl, rfl⟩   -- C30-F2, fixed
example : exec_coerce .Int16 .Int32 = .ok .Int64 ∧ plan_coerce .Int16 .Int32 = .Int64 := ⟨rfl, rfl⟩
example : exec_coerce .Float32 .Int64 = .ok .Float64 := rfl
example : exec_coerce .Boolean .Date32 = .error "_" := rfl

end IQE.Props.C30Gen
