/-
  C08 — running out of memory budget never changes an answer.

  Model: IQE.Engine.ExternalMerge (spilled paths of src/physical/operators/spillable.rs).  The theorems are about the intended
  algorithm (all deviation switches off); the unchanged tree deviates from it in the ways the switches name (known findings
  C08-F1 … F5, each with a kernel-checked witness below and a witness replayed on the real code).
-/
import IQE.Lemmas.ExternalMerge
import IQE.Lemmas.OrderAux
namespace IQE.Props.C08
open IQE IQE.Spec IQE.Engine.ExternalMerge
open IQE.Lemmas.ExternalMerge IQE.Lemmas.Sorting IQE.Lemmas.KeyOrder IQE.Lemmas.OrderAux IQE.Lemmas.SortModel

/-- External sort: for ANY total preorder and ANY cut of the input into runs (`runsOfBatches`: which consecutive batches
    `generate_runs` happened to buffer together — i.e. any memory budget), sorting each run and merging the runs — one k-way merge,
    or multi-pass merging with any fan-in ≥ 1 — yields a sorted permutation of the input; hence it agrees with the in-memory
    sort position by position up to ties, and `take k` of it is a top-k. -/
theorem C08_external_sort {α : Type} (le lt : α → α → Bool) (hs : StrictOf le lt) (runsOfBatches : List (List (List α)))
    (fanin : Nat) (hf : 0 < fanin) (fuel k : Nat) :
    let runs := runsOfBatches.map (fun bs => bs.flatten.mergeSort le)
    let all := runsOfBatches.flatten.flatten
    ((mergeAll lt runs).Pairwise (fun a b => le a b) ∧ (mergeAll lt runs).Perm all) ∧
    ((multiPass lt fanin runs fuel).Pairwise (fun a b => le a b) ∧ (multiPass lt fanin runs fuel).Perm all) ∧
    PointwiseTied le (mergeAll lt runs) (all.mergeSort le) ∧
    PointwiseTied le ((mergeAll lt runs).take k) ((all.mergeSort le).take k) := by
  intro runs all
  have hsorted : RunsSorted le runs := by
    intro r hr
    obtain ⟨bs, _, rfl⟩ := List.mem_map.1 hr
    exact List.pairwise_mergeSort hs.trans hs.total _
  have hflat : runs.flatten.Perm all := by
    have gen : ∀ (rb : List (List (List α))), (rb.map (fun bs => bs.flatten.mergeSort le)).flatten.Perm rb.flatten.flatten := by
      intro rb
      induction rb with
      | nil => simp
      | cons b bs ih =>
        simp only [List.map_cons, List.flatten_cons, List.flatten_append]
        exact (List.mergeSort_perm _ _).append ih
    exact gen runsOfBatches
  obtain ⟨m1, m2⟩ := mergeAll_spec hs runs hsorted
  obtain ⟨p1, p2⟩ := multiPass_spec hs fanin hf fuel runs hsorted
  have hpt := sorted_perm_pointwise hs.trans hs.total ((m2.trans hflat).trans (List.mergeSort_perm all le).symm) m1
    (List.pairwise_mergeSort hs.trans hs.total all)
  exact ⟨⟨m1, m2.trans hflat⟩, ⟨p1, p2.trans hflat⟩, hpt, hpt.take k⟩

/-- The ORDER BY comparator with the requested NULLS FIRST / LAST placement per key (the lawful form `cmpKeysT`, which is
    `Spec.cmpKeys` on well-typed keys — `cmpKeys_eq_T`) is such a total preorder, with "strictly less" as its complement:
    so C08_external_sort applies to it, NULL placement included. -/
theorem C08_external_sort_comparator (flags : List (Bool × Bool)) :
    StrictOf (leKT flags) (fun a b : IQE.Engine.SortLimit.Keyed => cmpKeysT flags a.1 b.1 == .lt) := by
  refine ⟨leKT_trans flags, leKT_total flags, ?_⟩
  intro a b
  simp only [leKT, leT]
  have := Std.OrientedCmp.eq_swap (cmp := cmpKeysT flags) (a := a.1) (b := b.1)
  rw [this]
  cases cmpKeysT flags b.1 a.1 <;> rfl

/-- the model's comparators with all switches off are `Spec.cmpKeys` (the sort's) in both roles -/
theorem C08_merge_comparator_is_sort_comparator (fo : FloatOps) (flags : List (Bool × Bool)) (a b : Keyed) :
    ltMerge fo {} flags a b = (cmpKeys fo flags a.1 b.1 == .lt) ∧ leSort fo flags a b = (cmpKeys fo flags a.1 b.1 != .gt) := by
  refine ⟨?_, rfl⟩
  unfold ltMerge
  congr 1
  generalize a.1 = x
  generalize b.1 = y
  induction flags generalizing x y with
  | nil => cases x <;> cases y <;> rfl
  | cons f fs ih =>
    obtain ⟨d, nf⟩ := f
    cases x with
    | nil => rfl
    | cons xa xs =>
      cases y with
      | nil => rfl
      | cons ya ys =>
        simp only [cmpMerge, cmpKeys, Bool.or_self, Bool.false_eq_true, if_false]
        cases cmpKeyVal fo d nf xa ya <;> simp [ih]

/-- Grace hash join: for ANY hash function (`pl`, `pr` = partition of the hashed key; matching rows land in the same partition),
    joining partition-wise and concatenating is the inner join, as bags. -/
theorem C08_grace_join {α β : Type} (P : Nat) (pl : α → Nat) (pr : β → Nat) (m : α → β → Bool) (L : List α) (R : List β)
    (hm : ∀ l r, m l r = true → pl l = pr r) (hl : ∀ l ∈ L, pl l < P) :
    (graceJoin P pl pr m L R).Perm (joinOn m L R) :=
  graceJoin_perm P pl pr m L R hm hl

/-- Spilled aggregation: for ANY hash function of the group key, aggregating every hash partition on its own (from the raw rows
    of the partition, in input order) and concatenating gives exactly the groups of the unpartitioned aggregation, as a bag. -/
theorem C08_spilled_agg {α κ γ : Type} [DecidableEq κ] (P : Nat) (h : κ → Nat) (key : α → κ) (agg : List α → γ) (L : List α)
    (hP : ∀ x ∈ L, h (key x) < P) : (partitionedAgg P h key agg L).Perm (groupAgg key agg L) :=
  partitionedAgg_perm P h key agg L hP

/-- The spilled join either returns the unlimited answer (as a bag) or fails with an explicit error (join types other than
    INNER, or an ON filter): never a different answer. -/
theorem C08_either {α β : Type} (kind : JoinKind) (hasFilter : Bool) (P : Nat) (pl : α → Nat) (pr : β → Nat) (m : α → β → Bool)
    (L : List α) (R : List β) (hm : ∀ l r, m l r = true → pl l = pr r) (hl : ∀ l ∈ L, pl l < P) :
    (∃ e, spilledJoin kind hasFilter P pl pr m L R = .error e) ∨
    (∃ out, spilledJoin kind hasFilter P pl pr m L R = .ok out ∧ out.Perm (joinOn m L R)) := by
  unfold spilledJoin
  by_cases hk : kind ≠ .inner
  · left; exact ⟨"join spill path supports only INNER joins", by simp [hk]⟩
  · by_cases hf : hasFilter = true
    · left; exact ⟨"join spill path cannot evaluate an ON-clause filter", by simp [hk, hf]⟩
    · right
      refine ⟨graceJoin P pl pr m L R, by simp [hk, hf], graceJoin_perm P pl pr m L R hm hl⟩

/-! ### the deviations of the unchanged tree (kernel-checked witnesses) -/

def fo0 : FloatOps := ⟨fun a _ => a, fun a _ => a, fun a _ => a, fun a _ => a, id, fun _ => ⟨0⟩, fun _ => none⟩
def k (v : Val) (id : Int) : Keyed := ([v], [v, .int id])

/-- two runs sorted `ORDER BY x ASC NULLS FIRST` -/
def runsNF : List (List Keyed) := [[k .null 0, k (.int 1) 1, k (.int 5) 2], [k .null 3, k (.int 2) 4]]

/-- C08-F1: with `ignoreFetch` the spilled path returns every row for `ORDER BY x LIMIT 2`; the intended path returns 2 -/
example : (mergeAll (ltMerge fo0 {} [(false, true)]) runsNF).length = 5 := by decide
example : ((mergeAll (ltMerge fo0 {} [(false, true)]) runsNF).take 2).map (·.2) = [[.null, .int 0], [.null, .int 3]] := by decide

/-- C08-F2: merging those runs with the code's comparator (NULLs last for an ASC key whatever the statement says) interleaves
    NULLs and values — the output is not sorted NULLS FIRST; with the switch off it is -/
example : (mergeAll (ltMerge fo0 { mergeNullsByDir := true } [(false, true)]) runsNF).map (·.1) =
    [[.null], [.int 1], [.int 5], [.null], [.int 2]] := by decide
example : (mergeAll (ltMerge fo0 {} [(false, true)]) runsNF).map (·.1) = [[.null], [.null], [.int 1], [.int 2], [.int 5]] := by decide

/-- C08-F3: boolean keys compare Equal in the merge: two runs sorted by a boolean key come out unsorted -/
example : (mergeAll (ltMerge fo0 { mergeBoolEqual := true } [(false, false)]) [[k (.bool false) 0, k (.bool true) 1], [k (.bool false) 2]]).map (·.1) =
    [[.bool false], [.bool true], [.bool false]] := by decide
example : (mergeAll (ltMerge fo0 {} [(false, false)]) [[k (.bool false) 0, k (.bool true) 1], [k (.bool false) 2]]).map (·.1) =
    [[.bool false], [.bool false], [.bool true]] := by decide

/-- non-vacuity: grace join over two partitions by parity -/
example : graceJoin 2 (fun l : Nat => l % 2) (fun r : Nat => r % 2) (fun l r => l == r) [1, 2, 3, 2] [2, 3, 4] = [(2, 2), (2, 2), (3, 3)] := by decide
example : joinOn (fun l r : Nat => l == r) [1, 2, 3, 2] [2, 3, 4] = [(2, 2), (3, 3), (2, 2)] := by decide

end IQE.Props.C08
