/-
  C16 — Peer HTTP responses are framed or rejected.
  Model: IQE.Engine.HttpParse (mirror of `distributed::http_client::parse_response`; slices checked, panics explicit).
  The theorems are about the model with the deviation switch off (`Dev.fixed`, the parser in /repo since fix
  commit b8ec721, which the correspondence runs are made against); the parser that was in /repo before that fix
  (`Dev.legacy` = `ignoreContentLength`) is refuted by the kernel-checked witnesses at the end.
  Helper lemmas: IQE/Lemmas/HttpParse.lean, IQE/Lemmas/TextLemmas.lean.
-/
import IQE.Lemmas.HttpParse
namespace IQE.Props.C16
open IQE.Engine.HttpParse IQE.Text IQE

private theorem finish_ne_panic (dev : Dev) (head body : List UInt8) : finish dev head body ≠ .panic := by
  unfold finish
  simp only
  repeat' split
  all_goals simp

/-- **Totality.** No byte string makes the parser panic: the two slices `raw[..split]`, `raw[split + 4..]` are
    always in range (old and new parser alike). -/
theorem C16_total (dev : Dev) (raw : List UInt8) : parse dev raw ≠ .panic := by
  unfold parse
  cases hp : position4 raw with
  | none => simp
  | some s =>
    have hle := position4_le raw s hp
    have h1 : s ≤ raw.length := by omega
    simp only [sliceTo, sliceFrom, h1, hle, if_true]
    exact finish_ne_panic dev _ _

private theorem finish_ok (head body : List UInt8) (r : Resp) (h : finish Dev.fixed head body = .ok r) :
    r.body = body ∧ checkLengths body.length r.headers = none := by
  unfold finish at h
  simp only [Dev.fixed, Bool.false_eq_true, if_false] at h
  split at h
  · simp at h
  · split at h
    · simp at h
    · split at h
      · simp at h
      · rename_i hc
        injection h with h
        subst h
        exact ⟨rfl, hc⟩

/-- **Complete or error.** Whenever the parser returns a response, every `content-length` header of that
    response (names are lower-cased by the parser, so: a Content-Length sent in any case) denotes a number that is
    ≤ the length of the body returned — for ALL byte strings. -/
theorem C16_complete_or_error (raw : List UInt8) (r : Resp) (h : parse Dev.fixed raw = .ok r) :
    ∀ kv ∈ r.headers, kv.1 = contentLength → ∃ n, parseUsize kv.2 = some n ∧ n ≤ r.body.length := by
  unfold parse at h
  cases hp : position4 raw with
  | none => rw [hp] at h; simp at h
  | some s =>
    rw [hp] at h
    simp only at h
    split at h
    · obtain ⟨hb, hc⟩ := finish_ok _ _ r h
      rw [hb]
      exact (checkLengths_none _ _).1 hc
    · simp at h

private theorem declaredOk_check (hs : List (List Char × List Char)) (n : Nat) (h : declaredOk hs n = true) :
    checkLengths n (lowerHeaders hs) = none := by
  rw [checkLengths_none]
  intro kv hkv hk
  simp only [lowerHeaders, List.mem_map] at hkv
  obtain ⟨kv0, hm, rfl⟩ := hkv
  have := List.all_eq_true.1 h kv0 hm
  simp only at hk
  simp only [hk, beq_self_eq_true, if_true] at this
  cases hv : parseUsize kv0.2 with
  | none => rw [hv] at this; simp at this
  | some m => rw [hv] at this; exact ⟨m, rfl, by simpa using this⟩

/-- **Round trip.** A rendered response — any status text of 1+ digits denoting a u16 (leading zeros allowed), any
    reason phrase and any headers of CR/LF-free ASCII (names without `:` and without white space at the ends,
    any case; values without white space at the ends), any body whatsoever — whose Content-Length headers (if any)
    do not exceed the body parses back to the status, the headers with lower-cased names, and the body. -/
theorem C16_roundtrip (st reason : List Char) (hs : List (List Char × List Char)) (body : List UInt8)
    (h1 : statusOk st = true) (h2 : lineText reason = true) (h3 : hs.all headerOk = true)
    (h4 : declaredOk hs body.length = true) :
    parse Dev.fixed (render st reason hs body) = .ok ⟨decVal st, lowerHeaders hs, body⟩ := by
  unfold render
  rw [parse_split _ _ _ (renderHead_noTerm st reason hs h1 h2 h3), finish_rendered _ st reason hs body h1 h2 h3,
      declaredOk_check hs body.length h4]
  rfl

private theorem declares_check (hs : List (List Char × List Char)) (n m : Nat) (h : declares hs n = true) (hlt : m < n) :
    ∃ e, checkLengths m (lowerHeaders hs) = some e := by
  cases hc : checkLengths m (lowerHeaders hs) with
  | some e => exact ⟨e, rfl⟩
  | none =>
    exfalso
    rw [checkLengths_none] at hc
    simp only [declares, List.any_eq_true, Bool.and_eq_true, beq_iff_eq] at h
    obtain ⟨kv, hm, hk, hv⟩ := h
    obtain ⟨m', hm', hle⟩ := hc (asciiLower kv.1, kv.2) (by simp only [lowerHeaders, List.mem_map]; exact ⟨kv, hm, rfl⟩) hk
    simp only at hm'
    rw [hv] at hm'; injection hm' with hm'; omega

/-- **Prefix rejected.** If a rendered response declares its body length (a Content-Length header, any case,
    whose value denotes `body.length`), then EVERY strict prefix of it — the connection closed at any byte — parses to
    an error, never to a (shorter) success. -/
theorem C16_prefix_rejected (st reason : List Char) (hs : List (List Char × List Char)) (body : List UInt8)
    (h1 : statusOk st = true) (h2 : lineText reason = true) (h3 : hs.all headerOk = true)
    (h4 : declares hs body.length = true)
    (p s : List UInt8) (hp : p ++ s = render st reason hs body) (hne : s ≠ []) :
    ∃ e, parse Dev.fixed p = .error e := by
  have hnt := renderHead_noTerm st reason hs h1 h2 h3
  have e : render st reason hs body = (renderHead st reason hs ++ [CR, LF, CR]) ++ LF :: body := by
    simp [render, crlf]
  rw [e] at hp
  rcases List.append_eq_append_iff.1 hp with ⟨a', ha, _⟩ | ⟨c', hc, hb⟩
  · -- the connection closed inside the header block: no terminator
    have : position4 p = none := position4_prefix_none p a' (by rw [← ha]; exact hnt)
    exact ⟨.invalidData, by unfold parse; rw [this]⟩
  · cases c' with
    | nil =>
      have : position4 p = none := by rw [hc]; simpa using hnt
      exact ⟨.invalidData, by unfold parse; rw [this]⟩
    | cons x c'' =>
      -- the connection closed inside the body
      simp only [List.cons_append, List.cons.injEq] at hb
      obtain ⟨hx, hbody⟩ := hb
      subst hx
      have hp' : p = renderHead st reason hs ++ (crlf ++ crlf ++ c'') := by rw [hc]; simp [crlf]
      have hlen : c''.length < body.length := by
        rw [hbody, List.length_append]
        have : s.length ≠ 0 := by intro h; exact hne (List.eq_nil_of_length_eq_zero h)
        omega
      rw [hp', parse_split _ _ _ hnt, finish_rendered _ st reason hs c'' h1 h2 h3]
      obtain ⟨err, herr⟩ := declares_check hs body.length c''.length h4 hlen
      exact ⟨err, by simp [Dev.fixed, herr]⟩

/-! ### non-vacuity -/
section
private def st200 : List Char := ['2', '0', '0']
private def ok : List Char := ['O', 'K']
private def hCL (v : List Char) : List Char × List Char := (['C', 'o', 'n', 't', 'e', 'n', 't', '-', 'L', 'e', 'n', 'g', 't', 'h'], v)
private def hRows : List Char × List Char := (['X', '-', 'Q', 'E', '-', 'R', 'o', 'w', 's'], ['4', '2'])
private def half : List UInt8 := Utf8.asciiBytes ['h', 'a', 'l', 'f']

example : statusOk st200 = true ∧ lineText ok = true ∧ [hCL ['4'], hRows].all headerOk = true ∧
    declaredOk [hCL ['4'], hRows] half.length = true ∧ declares [hCL ['4'], hRows] half.length = true := by decide
example : parse Dev.fixed (render st200 ok [hCL ['4'], hRows] half) =
    .ok ⟨200, [(contentLength, ['4']), (['x', '-', 'q', 'e', '-', 'r', 'o', 'w', 's'], ['4', '2'])], half⟩ := by decide
example : render st200 ok [hCL ['4']] half = Utf8.asciiBytes ['H', 'T', 'T', 'P', '/', '1', '.', '1', ' ', '2', '0', '0', ' ', 'O', 'K', '\r', '\n',
    'C', 'o', 'n', 't', 'e', 'n', 't', '-', 'L', 'e', 'n', 'g', 't', 'h', ':', ' ', '4', '\r', '\n', '\r', '\n', 'h', 'a', 'l', 'f'] := by decide
end

/-! ### the parser that was in /repo before the fix violates the two length statements (kernel-checked) -/

/-- C16-F1 (`ignoreContentLength`): `HTTP/1.1 200 OK\r\nContent-Length: 10\r\n\r\nhalf` — the peer closed after 4 of
    the 10 declared body bytes — is a success with a 4-byte body: `C16_complete_or_error` fails. -/
example : ∃ raw r, parse Dev.legacy raw = .ok r ∧
    ¬ (∀ kv ∈ r.headers, kv.1 = contentLength → ∃ n, parseUsize kv.2 = some n ∧ n ≤ r.body.length) :=
  ⟨render st200 ok [hCL ['1', '0']] half, ⟨200, [(contentLength, ['1', '0'])], half⟩, by decide, by
    intro h
    obtain ⟨n, hn, hle⟩ := h (contentLength, ['1', '0']) (by simp) rfl
    have : parseUsize ['1', '0'] = some 10 := by decide
    rw [this] at hn; injection hn with hn; subst hn
    revert hle; decide⟩

/-- … and a strict prefix of a well-formed response with a declared length is returned as a success:
    `C16_prefix_rejected` fails. -/
example : ∃ st reason hs body p s, statusOk st = true ∧ lineText reason = true ∧ hs.all headerOk = true ∧
    declares hs body.length = true ∧ p ++ s = render st reason hs body ∧ s ≠ [] ∧ ¬ ∃ e, parse Dev.legacy p = .error e :=
  ⟨st200, ok, [hCL ['4']], half, render st200 ok [hCL ['4']] (half.take 2), half.drop 2,
    by decide, by decide, by decide, by decide, by decide, by decide, by
      have : parse Dev.legacy (render st200 ok [hCL ['4']] (half.take 2)) =
          .ok ⟨200, [(contentLength, ['4'])], half.take 2⟩ := by decide
      rw [this]
      intro ⟨e, he⟩
      simp at he⟩

end IQE.Props.C16
