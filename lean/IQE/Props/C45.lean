/-
  IQE.Props.C45 — "gathered tables carry every column the statement reads", over the model IQE.Engine.Gather of
  `plan_gather` / `collect_scans` (src/distributed/gather.rs).
  * `C45_covers_plan_acc` / `C45_covers_plan` / `C45_covers_plan_children`: every scan the walk reaches is covered by the
    final requirement map (with all switches off that includes the scans inside subquery expressions; with
    `skipSubqueryPlans` — today's code — only the scans reachable through `children()`);
  * `C45_merge_union`, `C45_columnless_scan`: the bookkeeping of one scan / several scans of a table;
  * `C45_F1_witness`: the kernel-checked negation witness of finding C45-F1;
  * `C45_rebind*`: the engine's first-match name resolution re-binds to the same field over the gathered columns.
-/
import IQE.Lemmas.Gather
namespace IQE.Props.C45
open IQE.Engine.PlanWf IQE.Engine.Gather IQE.Lemmas.Gather

/-- **Accumulator form, any switches**: starting from any requirement map `req₀`, after a successful walk every scan
    `(t, proj, filter)` the walk reaches is covered — the table has an entry holding every column the scan reads
    (`none` = all columns if the scan reads all) — and the earlier entries are still there, at least as wide. -/
theorem C45_covers_plan_acc (dev : Dev) (full : String → Option (List String)) (p : Plan) (req₀ req : Req)
    (h : collect dev full p req₀ = .ok req) :
    (∀ t proj filter, (t, proj, filter) ∈ allScans dev p → ∀ cs, full t = some cs →
      ∃ c, lookup t req = some c ∧ (readCols cs proj filter = none → c = none) ∧
        (∀ l, readCols cs proj filter = some l → ∀ x ∈ l, covers c x = true)) ∧
    (∀ t c₀, lookup t req₀ = some c₀ →
      ∃ c, lookup t req = some c ∧ (c₀ = none → c = none) ∧ ∀ x, covers c₀ x = true → covers c x = true) := by
  obtain ⟨hle, hcov⟩ := collectP_inv dev full p req₀ req h
  refine ⟨fun t proj filter hs cs hcs => ?_, fun t c₀ h0 => ?_⟩
  · obtain ⟨c, hc, hall⟩ := hcov (t, proj, filter) hs cs hcs
    refine ⟨c, hc, fun hn => ?_, fun l hl => ?_⟩
    · simp only [hn] at hall; exact hall
    · simp only [hl] at hall; exact hall
  · obtain ⟨c, hc, hl⟩ := hle t c₀ h0
    exact ⟨c, hc, fun hn => by subst hn; exact colsLe_none_left hl, fun x hx => colsLe_covers hl x hx⟩

/-- **The intended algorithm (all switches off) covers the whole statement**: every scan of the plan, the plans of
    subquery expressions INCLUDED, finds its table in the result with every column it reads. -/
theorem C45_covers_plan (full : String → Option (List String)) (p : Plan) (req : Req)
    (h : collect {} full p [] = .ok req) :
    ∀ t proj filter, (t, proj, filter) ∈ allScans {} p → ∀ cs, full t = some cs →
      ∃ c, lookup t req = some c ∧ (readCols cs proj filter = none → c = none) ∧
        (∀ l, readCols cs proj filter = some l → ∀ x ∈ l, covers c x = true) :=
  (C45_covers_plan_acc {} full p [] req h).1

/-- **What today's code guarantees** (any switches): the scans the walk reaches — with `skipSubqueryPlans` those
    reachable through `children()` only — are covered. -/
theorem C45_covers_plan_children (dev : Dev) (full : String → Option (List String)) (p : Plan) (req : Req)
    (h : collect dev full p [] = .ok req) :
    ∀ t proj filter, (t, proj, filter) ∈ allScans dev p → ∀ cs, full t = some cs →
      ∃ c, lookup t req = some c ∧ (readCols cs proj filter = none → c = none) ∧
        (∀ l, readCols cs proj filter = some l → ∀ x ∈ l, covers c x = true) :=
  (C45_covers_plan_acc dev full p [] req h).1

/-- **Several scans of one table merge by union, `none` absorbing; other tables are untouched.** -/
theorem C45_merge_union (t : String) (c : Cols) (req : Req) :
    lookup t (insertReq t c req) = some (match lookup t req with | some old => mergeCols old c | none => c) ∧
    (∀ t', t' ≠ t → lookup t' (insertReq t c req) = lookup t' req) ∧
    (∀ a b x, covers (mergeCols a b) x = (covers a x || covers b x)) ∧
    (∀ a, mergeCols a none = none ∧ mergeCols none a = none) :=
  ⟨lookup_insertReq_self t c req, fun _ hne => lookup_insertReq_ne hne c req, covers_merge,
   fun a => ⟨by cases a <;> rfl, by cases a <;> rfl⟩⟩

/-- **A column-less scan still gathers one column** (it reads every row), and a scan never requires the empty list. -/
theorem C45_columnless_scan :
    (∀ (c : String) (cs : List String), scanCols (c :: cs) (some []) [] = some [c]) ∧
    (∀ (full : List String) (proj : Option (List Nat)) (filter : List PExpr), full ≠ [] →
      scanCols full proj filter ≠ some []) :=
  ⟨fun c cs => by simp [scanCols, readCols, exprColsL], fun full proj filter h => scanCols_ne_nil full h proj filter⟩

/-! ### finding C45-F1 -/

/-- **C45-F1 (kernel-checked)**: the walk of today's code (`skipSubqueryPlans`) gathers only `id` of `t`, which does not
    cover column `a` read by the scan inside the subquery expression — a scan the complete walk reaches and that
    reads every column; the intended walk gathers every column of `t`. -/
theorem C45_F1_witness :
    collect { skipSubqueryPlans := true } fullF1 planF1 [] = .ok [("t", some ["id"])] ∧
    covers (some ["id"]) "a" = false ∧
    allScans {} planF1 = [("t", some [0], []), ("t", none, [])] ∧ readCols ["id", "a"] none [] = none ∧
    allScans { skipSubqueryPlans := true } planF1 = [("t", some [0], [])] ∧
    collect {} fullF1 planF1 [] = .ok [("t", none)] :=
  ⟨rfl, by decide, rfl, rfl, rfl, rfl⟩

/-! ### re-binding over the gathered columns -/

/-- the first match survives dropping other elements: it is found again, and it is the same element -/
theorem C45_rebind_findIdx {α : Type} (p keep : α → Bool) (s : List α) (i : Nat) (f : α)
    (h : findIdx p s = some i) (hf : s[i]? = some f) (hk : keep f = true) :
    ∃ j, findIdx p (s.filter keep) = some j ∧ (s.filter keep)[j]? = s[i]? := by
  obtain ⟨j, hj, hjf⟩ := findIdx_filter_some p keep s i f h hf hk
  exact ⟨j, hj, hjf.trans hf.symm⟩

/-- no match before, no match after -/
theorem C45_rebind_findIdx_none {α : Type} (p keep : α → Bool) (s : List α) (h : findIdx p s = none) :
    findIdx p (s.filter keep) = none := findIdx_filter_none p keep s h

/-- **Name resolution is stable under dropping non-gathered columns**: a reference that resolved to a kept field
    re-binds over the kept fields, to the SAME field. -/
theorem C45_rebind (s : Schema) (keep : Field → Bool) (rel : Option String) (name : String) (i : Nat) (f : Field)
    (h : resolve s rel name = some i) (hf : s[i]? = some f) (hk : keep f = true) :
    ∃ j, resolve (s.filter keep) rel name = some j ∧ (s.filter keep)[j]? = s[i]? := by
  obtain ⟨j, hj, hjf⟩ := resolve_filter s keep rel name i f h hf hk
  exact ⟨j, hj, hjf.trans hf.symm⟩

/-- a list of references that all resolve in `s` to kept fields all resolve over the kept fields, to the same fields -/
theorem C45_rebind_all (s : Schema) (keep : Field → Bool) (refs : List (Option String × String))
    (h : ∀ rn ∈ refs, ∃ i f, resolve s rn.1 rn.2 = some i ∧ s[i]? = some f ∧ keep f = true) :
    ∀ rn ∈ refs, ∃ i j, resolve s rn.1 rn.2 = some i ∧ resolve (s.filter keep) rn.1 rn.2 = some j ∧
      (s.filter keep)[j]? = s[i]? := by
  intro rn hrn
  obtain ⟨i, f, hr, hf, hk⟩ := h rn hrn
  obtain ⟨j, hj, hjf⟩ := C45_rebind s keep rn.1 rn.2 i f hr hf hk
  exact ⟨i, j, hr, hj, hjf⟩

/-! ### non-vacuity -/

/-- the intended walk succeeds on the witness plan, and the coverage theorem speaks about the subquery's scan -/
example : ∃ c, lookup "t" [("t", none)] = some c ∧ c = none :=
  let h := C45_covers_plan fullF1 planF1 [("t", none)] rfl "t" none []
    (show ("t", none, []) ∈ [("t", some [0], []), ("t", none, [])] from List.mem_cons_of_mem _ (List.mem_singleton.mpr rfl))
    ["id", "a"] rfl
  h.elim fun c hc => ⟨c, hc.1, hc.2.1 rfl⟩

/-- a filter pushed into a scan adds the (loosely matched) columns it mentions: `t(id, a, b)`, projection `[0]`,
    filter `t.b > 1` requires `id` and `b` -/
example : scanCols ["id", "a", "b"] (some [0]) [.op "bin" ">" [.col (some "t") "b", .lit "int" (.int 1)]]
    = some ["id", "b"] := by decide

/-- `resolve` re-binds after dropping the middle column -/
example : resolve ([⟨"id", some "t", "?"⟩, ⟨"a", some "t", "?"⟩, ⟨"b", some "t", "?"⟩] : Schema) none "b" = some 2 ∧
    resolve (([⟨"id", some "t", "?"⟩, ⟨"a", some "t", "?"⟩, ⟨"b", some "t", "?"⟩] : Schema).filter
      (fun f => f.name != "a")) none "b" = some 1 := by decide

end IQE.Props.C45
