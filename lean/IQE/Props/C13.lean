/-
  C13 — Shard scans reassemble the table exactly.
  Model: IQE.Engine.Shard (`readSplit`, `readSplitWith`, `scanShard` mirror `ShardedParquetTable::read_split` / `scan_impl`,
  src/distributed/shard.rs). A table is a list of row groups, each a list of rows of an arbitrary type; a split is a
  row range of one row group. Helper lemmas: IQE/Lemmas/Shard.lean.
  Composition: C11 (`C11_cut_covers`: the pieces of every row group are a contiguous cover), C12 (`C12_partition`: the
  assignment partitions the split indices), C05 (pruning soundness, here the explicit hypothesis `PruneSound`).
-/
import IQE.Lemmas.Shard
import IQE.Props.C11
import IQE.Props.C12
namespace IQE.Props.C13
open IQE.Engine IQE.Engine.SplitEnum IQE.Engine.Shard

variable {α β : Type}

/-- For EVERY table layout `rgs`, every way `cuts` of cutting each row group into a contiguous cover, every canonical
    ordering `S` of the resulting splits, EVERY partition `perNode` of the split indices over any number of nodes, every
    pushed filter `φ`, projection `π` and sound pruning verdict `keep`:
    each node's shard scan succeeds and returns exactly its splits' qualifying rows, and the union over the nodes is a
    permutation of `π (σ_φ table)` — no row lost, none duplicated. -/
theorem C13_reassembly (rgs : List (List α)) (cuts : Nat → List Piece)
    (hc : ∀ i rows, rgs[i]? = some rows → Contig 0 (cuts i) rows.length)
    (S : List RSplit) (hS : S.Perm (covering rgs cuts))
    (perNode : List (List Nat)) (hpart : perNode.flatten.Perm (List.range S.length))
    (keep : Nat → Bool) (φ : α → Bool) (π : α → β) (hk : PruneSound rgs keep φ) :
    (∀ owned ∈ perNode, scanShard rgs keep φ π (owned.map fun i => S[i]!)
        = .ok ((owned.map fun i => S[i]!).flatMap (ideal rgs φ π))) ∧
    (perNode.flatMap fun owned => (owned.map fun i => S[i]!).flatMap (ideal rgs φ π)).Perm
      ((rgs.flatten.filter φ).map π) := by
  have hvalidS : ∀ s ∈ S, Valid rgs s := fun s hs => covering_valid rgs cuts hc s (hS.mem_iff.1 hs)
  refine ⟨?_, ?_⟩
  · intro owned ho
    apply scanShard_valid rgs keep φ π hk
    intro s hs
    obtain ⟨i, hi, rfl⟩ := List.mem_map.1 hs
    have hmem : i ∈ perNode.flatten := List.mem_flatten.2 ⟨owned, ho, hi⟩
    have hlt : i < S.length := List.mem_range.1 (hpart.mem_iff.1 hmem)
    rw [getElem!_pos S i hlt]
    exact hvalidS _ (List.getElem_mem hlt)
  · have e0 : ∀ P : List (List Nat), (P.flatMap fun owned => (owned.map fun i => S[i]!).flatMap (ideal rgs φ π))
        = (P.flatten.map fun i => S[i]!).flatMap (ideal rgs φ π) := by
      intro P
      induction P with
      | nil => rfl
      | cons o rest ih => simp only [List.flatMap_cons, List.flatten_cons, List.map_append, List.flatMap_append, ih]
    have e1 := e0 perNode
    rw [e1]
    have p1 : (perNode.flatten.map fun i => S[i]!).Perm S := by
      have := hpart.map (fun i => S[i]!)
      rwa [range_map_getElem!] at this
    have p2 := (p1.trans hS).flatMap_right (ideal rgs φ π)
    rw [covering_flatMap_ideal rgs φ π cuts hc] at p2
    exact p2

/-- The same with the REAL cut and the REAL assignment: row group `i` is cut by `cut` (C11) with any byte sizes and target,
    the split list is any permutation of that cover (e.g. canonically sorted), and the nodes' shares are `assign_lpt`'s (C12). -/
theorem C13_reassembly_lpt (rgs : List (List α)) (bytes : Nat → Nat) (target : Nat)
    (splits : List Split) (view : Split → RSplit)
    (hS : (splits.map view).Perm (covering rgs fun i => if (rgs[i]?.getD []).length = 0 then [] else cut (rgs[i]?.getD []).length (bytes i) target))
    (tb nodes : Nat) (keep : Nat → Bool) (φ : α → Bool) (π : α → β) (hk : PruneSound rgs keep φ) :
    ((Lpt.assign splits tb nodes).perNode.flatMap fun owned =>
        (owned.map fun i => (splits.map view)[i]!).flatMap (ideal rgs φ π)).Perm ((rgs.flatten.filter φ).map π) := by
  refine (C13_reassembly rgs _ ?_ (splits.map view) hS (Lpt.assign splits tb nodes).perNode ?_ keep φ π hk).2
  · intro i rows hr
    simp only [hr, Option.getD_some]
    by_cases h0 : rows.length = 0
    · simp [h0, Contig]
    · simp only [h0, ↓reduceIte]
      exact (C11.C11_cut_covers rows.length (bytes i) target (by omega)).2.2.2.1
  · have := (C12.C12_partition splits tb nodes).2.2
    simpa using this

/-- `read_split` is range-checked: a row-group index beyond the file's row groups, or a row range that exceeds the row
    group, is an error — never a silent short read; a split inside the range returns exactly its rows. -/
theorem C13_range_checked (rgs : List (List α)) (s : RSplit) :
    (rgs.length ≤ s.rg → readSplit rgs s = .error .rowGroupOutOfRange) ∧
    (∀ rows, rgs[s.rg]? = some rows → s.off + s.n > rows.length → readSplit rgs s = .error .rangeExceeds) ∧
    (∀ rows, rgs[s.rg]? = some rows → s.off + s.n ≤ rows.length →
      readSplit rgs s = .ok ((rows.drop s.off).take s.n) ∧ ((rows.drop s.off).take s.n).length = s.n) := by
  refine ⟨?_, ?_, ?_⟩
  · intro h
    simp [readSplit, List.getElem?_eq_none h]
  · intro rows hr hgt
    simp [readSplit, hr, hgt]
  · intro rows hr hle
    have : ¬ (s.off + s.n > rows.length) := by omega
    refine ⟨by simp [readSplit, hr, this], ?_⟩
    simp only [List.length_take, List.length_drop]; omega

/-- The sharded provider exposes NO file list, whatever it owns: planner fast paths that read whole files
    (keyed off `parquet_files()`) are unreachable in a shard context. -/
theorem C13_no_whole_file (owned : List RSplit) : shardParquetFiles owned = none := rfl

-- non-vacuity: two row groups, the first cut 2+1, one shard per node
example : (scanShard [[1, 2, 3], [4, 5]] (fun _ => true) (fun x => x % 2 == 1) (fun x => x * 10)
    [⟨0, 0, 2⟩, ⟨1, 0, 2⟩]).toOption = some [10, 50] := by decide
example : (readSplit [[1, 2, 3]] ⟨0, 2, 2⟩).toOption = none ∧ (readSplit [[1, 2, 3]] ⟨0, 1, 2⟩).toOption = some [2, 3] := by decide

end IQE.Props.C13
