/-
  C02 — Three-valued logic decides which rows a predicate keeps.

  Model: IQE.Engine.Filter (the interpreter `evaluate_expr`, one row at a time; deviation switch `strictAndOr`).
  Reference: IQE.Spec.eval (Kleene connectives, NULL-propagating comparison).
  `Dev.none` = every switch off = the intended algorithm = the current tree (`Dev.current`, since fix e4c7c04);
  `Dev.strict` = the tree before that fix (null-strict kernels), kept for the negation witnesses.

  Errors.  The vectorised interpreter evaluates every CASE / COALESCE branch for the whole batch, the reference is
  lazy; so the theorems are stated for evaluations in which the model raises no error ("well-typed": `∃ v, eval … = .ok v`),
  which is what a type-correct expression without integer division / overflow gives.  All statements hold for every
  expression tree (any depth, by induction on the nested type `Expr`), every row and every float-arithmetic instance `cx.fo`.
-/
import IQE.Lemmas.Filter
import IQE.Engine.ConstFold
import IQE.Lemmas.ConstFold
namespace IQE.Props.C02
open IQE IQE.Spec IQE.Engine IQE.Engine.Filter

/-- `WellTyped e r`: the interpreter model (switches off) raises no error on `e` at row `r`. -/
def WellTyped (cx : EvalCtx) (e : Expr) (r : Row) : Prop := ∃ v, eval Dev.none cx.fo r e = .ok v

/-- The interpreter with Kleene kernels computes the SQL value of every expression of the fragment
    (comparison with coercion, IS [NOT] NULL, IN-list, BETWEEN, LIKE, CASE, COALESCE, NULLIF, arithmetic, AND/OR/NOT at any depth). -/
theorem C02_eval_refines (cx : EvalCtx) (e : Expr) (r : Row) (h : WellTyped cx e r) :
    eval Dev.none cx.fo r e = Spec.eval cx [r] e := by
  obtain ⟨v, hv⟩ := h
  rw [hv, eval_refines cx r e v hv]

/-- A filter keeps exactly the rows on which the predicate is TRUE under SQL three-valued logic — as a list
    (order and multiplicity included), whenever the batch evaluates without error. -/
theorem C02_filter_keeps_eq (cx : EvalCtx) (e : Expr) (rows out : List Row) (h : Filter.filter Dev.none cx.fo e rows = .ok out) :
    out = rows.filter (fun r => isTrueRes (Spec.eval cx [r] e)) := by
  simp only [Filter.filter, bind_ok] at h
  obtain ⟨m, hm, hk⟩ := h
  split at hk
  · simp only [pure_ok] at hk
    rw [← hk]; exact keep_spec cx e rows m hm
  · cases hk

theorem C02_filter_keeps_iff_true (cx : EvalCtx) (e : Expr) (rows out : List Row) (h : Filter.filter Dev.none cx.fo e rows = .ok out) (r : Row) :
    r ∈ out ↔ r ∈ rows ∧ Spec.eval cx [r] e = .ok (.bool true) := by
  rw [C02_filter_keeps_eq cx e rows out h, List.mem_filter]
  constructor
  · rintro ⟨hr, ht⟩
    refine ⟨hr, ?_⟩
    cases hs : Spec.eval cx [r] e with
    | error _ => simp [hs, isTrueRes] at ht
    | ok v =>
      cases v with
      | bool b => cases b <;> simp_all [isTrueRes]
      | _ => simp [hs, isTrueRes] at ht
  · rintro ⟨hr, ht⟩
    exact ⟨hr, by simp [ht, isTrueRes]⟩

/-- Every scalar expression yields NULL exactly where SQL says it does. -/
theorem C02_null_exactly (cx : EvalCtx) (e : Expr) (r : Row) (h : WellTyped cx e r) :
    eval Dev.none cx.fo r e = .ok .null ↔ Spec.eval cx [r] e = .ok .null := by
  rw [C02_eval_refines cx e r h]

/-- The boolean simplifications and literal folding of `ConstantFolding::fold_expr` preserve the SQL value:
    whenever the original expression has a value, the folded one has the same value
    (`x AND FALSE ↦ FALSE`, `x OR TRUE ↦ TRUE`, `x AND TRUE ↦ x`, `x OR FALSE ↦ x`, literal ∘ literal ↦ literal),
    for the fold that compares float literals like the runtime kernels do (`ConstFold.Dev.none`), provided the
    fold does not hit Rust's `i64::MIN / -1` panic (`panics`, made explicit). -/
theorem C02_fold_sound (cx : EvalCtx) (env : Env) (e : Expr) (v : Val)
    (h : Spec.eval cx env e = .ok v) : Spec.eval cx env (ConstFold.fold ConstFold.Dev.none cx.fo e) = .ok v :=
  ConstFold.fold_sound cx env e v h

/-- A rewrite the rule rightly does NOT perform: `x = x ↦ TRUE` is unsound in three-valued logic. -/
theorem C02_eq_self_not_true : ∃ (cx : EvalCtx) (r : Row), Spec.eval cx [r] (.bin .eq (.col 0) (.col 0)) ≠ .ok (.bool true) :=
  ⟨ConstFold.cx0, [.null], by decide⟩

/-- WHEN A WHERE FILTER CANNOT TELL the null-strict kernels from Kleene logic: on a conjunctive predicate — no OR, no IN-list,
    no NOT BETWEEN, and AND / BETWEEN only at the top (never beneath NOT or another operator) — the same rows are kept.
    (This, and NULL-free data, is why TPC-H never noticed.) -/
theorem C02_strict_invisible_on_conjunctive (dev : Dev) (fo : FloatOps) (e : Expr) (r : Row) (h : conjunctive e = true) :
    eval dev fo r e = .ok (.bool true) ↔ eval Dev.none fo r e = .ok (.bool true) :=
  conjunctive_true_iff dev fo r e h

/-- … and expressions that never reach the boolean kernels are evaluated identically (values and NULLs). -/
theorem C02_strict_invisible_kernel_free (dev : Dev) (fo : FloatOps) (e : Expr) (r : Row) (h : kernelFree e = true) :
    eval dev fo r e = eval Dev.none fo r e :=
  eval_kernelFree dev fo r e h

/-- On non-NULL operands the strict kernels are the Kleene connectives. -/
theorem C02_strict_eq_kleene_nonnull (a b : Val) (ha : a ≠ .null) (hb : b ≠ .null) :
    Val.andStrict a b = Val.and3 a b ∧ Val.orStrict a b = Val.or3 a b :=
  strict_eq_kleene_of_nonnull ha hb

/-! ### Negation witnesses for the null-strict kernels the tree used before fix e4c7c04 (`Dev.strict`), kernel-checked -/

def fo0 : FloatOps := ConstFold.fo0
def cx0 : EvalCtx := ConstFold.cx0
def aEq1 : Expr := .bin .eq (.col 0) (.lit (.int 1))
def bEq1 : Expr := .bin .eq (.col 1) (.lit (.int 1))

/-- `NULL OR TRUE`: the strict OR kernel answers NULL, Kleene TRUE. -/
theorem C02_witness_strict_or : Val.orStrict .null (.bool true) = .ok .null ∧ Val.or3 .null (.bool true) = .ok (.bool true) := by decide
/-- `NOT (NULL AND FALSE)`: strict NULL, Kleene TRUE. -/
theorem C02_witness_strict_and :
    (Val.andStrict .null (.bool false) >>= Val.not3) = .ok .null ∧ (Val.and3 .null (.bool false) >>= Val.not3) = .ok (.bool true) := by decide

/-- `a = 1 OR b = 1` drops the row (NULL, 1) under the strict kernels (A.1). -/
theorem C02_witness_or_drops_row :
    Filter.filter Dev.strict fo0 (.bin .or aEq1 bEq1) [[.null, .int 1], [.int 1, .null], [.int 2, .int 2]] = .ok [] ∧
    Filter.filter Dev.none fo0 (.bin .or aEq1 bEq1) [[.null, .int 1], [.int 1, .null], [.int 2, .int 2]] = .ok [[.null, .int 1], [.int 1, .null]] := by
  decide

/-- `NOT (a = 5 AND b = 7)` drops (NULL, 1) under the strict kernels (A.1). -/
theorem C02_witness_not_and_drops_row :
    Filter.filter Dev.strict fo0 (.un .not (.bin .and (.bin .eq (.col 0) (.lit (.int 5))) (.bin .eq (.col 1) (.lit (.int 7))))) [[.null, .int 1]] = .ok [] ∧
    Filter.filter Dev.none fo0 (.un .not (.bin .and (.bin .eq (.col 0) (.lit (.int 5))) (.bin .eq (.col 1) (.lit (.int 7))))) [[.null, .int 1]] = .ok [[.null, .int 1]] := by
  decide

/-- `a IN (1, 2, NULL)` is NULL even for a = 1 under the strict kernels (A.22). -/
theorem C02_witness_inlist_null :
    eval Dev.strict fo0 [.int 1] (.inList (.col 0) [.lit (.int 1), .lit (.int 2), .lit .null] false) = .ok .null ∧
    Spec.eval cx0 [[.int 1]] (.inList (.col 0) [.lit (.int 1), .lit (.int 2), .lit .null] false) = .ok (.bool true) := by
  decide

/-- `a NOT BETWEEN NULL AND 1` drops a = 2 under the strict kernels (`2 >= NULL AND 2 <= 1` is FALSE in SQL, NULL under the strict kernel). -/
theorem C02_witness_between_null :
    eval Dev.strict fo0 [.int 2] (.between (.col 0) (.lit .null) (.lit (.int 1)) true) = .ok .null ∧
    Spec.eval cx0 [[.int 2]] (.between (.col 0) (.lit .null) (.lit (.int 1)) true) = .ok (.bool true) := by
  decide

/-- the refinement theorem is FALSE for the strict kernels -/
theorem C02_strict_does_not_refine : ∃ (e : Expr) (r : Row), eval Dev.strict cx0.fo r e ≠ Spec.eval cx0 [r] e :=
  ⟨.bin .or aEq1 bEq1, [.null, .int 1], by decide⟩

/-- the current tree is the intended algorithm -/
theorem C02_current_is_intended : Dev.current = Dev.none := rfl

/-! ### non-vacuity -/
example : WellTyped cx0 (.bin .or aEq1 bEq1) [.null, .int 1] := ⟨.bool true, by decide⟩
example : conjunctive (.bin .and aEq1 (.between (.col 1) (.lit (.int 0)) (.lit (.int 5)) false)) = true := by decide
example : conjunctive (.bin .or aEq1 bEq1) = false := by decide
example : conjunctive (.un .not (.bin .and aEq1 bEq1)) = false := by decide
-- eagerness: the vectorised interpreter raises on a branch SQL never evaluates (division by zero in an untaken ELSE); outside C02's statement
example : eval Dev.none fo0 [] (.case_ [.lit (.bool true), .lit (.int 1), .bin .div (.lit (.int 1)) (.lit (.int 0))]) = .error .divZero ∧
    Spec.eval cx0 [[]] (.case_ [.lit (.bool true), .lit (.int 1), .bin .div (.lit (.int 1)) (.lit (.int 0))]) = .ok (.int 1) := by decide

end IQE.Props.C02
