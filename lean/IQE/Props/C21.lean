/-
  C21 — aggregates follow SQL NULL and empty-input rules on every path.
  Property theorems only.  Models: IQE.Engine.Acc (one accumulator algebra per engine path + group level);
  lemmas: IQE.Lemmas.{Bag, AggHom, Acc}.  Specification: `Spec.aggVal` / `Spec.groupBy` / `Spec.aggregate`.

  Reading guide.  `t : MTree (List Val)` is ANY merge tree whose leaves are ANY chunking of the argument
  column of one group (`t.leaves.flatten` = the column); `(path).run t` folds every chunk with `update`
  from `init`, combines the partial states along the tree with `merge`, and finalises.
  `AggHom.Ok E a xs` = the side conditions under which the property speaks: the column is typed
  (`NULL` or `a.ty`), SUM/AVG are over BIGINT/DOUBLE and MIN/MAX not over BOOLEAN, integer sums do not
  overflow (`Σ|xᵢ| ≤ i64::MAX` — overflow is engine-defined), float sums are exact on the data at hand
  (`E : AggHom.FloatExact fo`, an explicit hypothesis on the `FloatOps` instance: IEEE doubles satisfy it
  on dyadic data) and float values are ordinary (no NaN / -0.0 — engine-defined).
-/
import IQE.Lemmas.Acc
namespace IQE.Props.C21
open IQE IQE.Spec IQE.AggHom IQE.Engine.Acc List

variable {fo : FloatOps} (E : FloatExact fo)

/-! ### the homomorphism, one theorem per path: COUNT, COUNT(*), SUM, AVG, MIN, MAX -/

/-- hash path (`hash_agg.rs` AccumulatorState): every chunking, every merge tree, any switches -/
theorem C21_hash_hom (dev : Dev) (a : Agg) (hd : a.distinct = false) (t : MTree (List Val))
    (hok : Ok E a t.leaves.flatten) :
    .ok ((Engine.Acc.hash dev fo a).run t) = aggVal fo a.fn false t.leaves.flatten.length t.leaves.flatten :=
  run_eq_aggVal E (Engine.Acc.hash dev fo a) a (mkHash a) (fstep fo) fo.add (fun _ _ _ => rfl) (fun _ _ _ => rfl)
    (hash_init dev fo a) (fun hfn S f v hv => hash_update dev fo a hd hfn S f v hv)
    (hash_merge dev fo a) (fun _ S f => hash_final dev fo a hd S f) t hok

/-- vectorized path (`VectorizedGroupTable` flat arrays) -/
theorem C21_vectorized_hom (a : Agg) (t : MTree (List Val)) (hok : Ok E a t.leaves.flatten) :
    .ok ((vectorized fo a).run t) = aggVal fo a.fn false t.leaves.flatten.length t.leaves.flatten :=
  run_eq_aggVal E (vectorized fo a) a (mkVec a) (vstep fo a) fo.add
    (fun hn f v => by
      rcases hn with h | ⟨h, _⟩ <;> simp [vstep, h])
    (fun _ _ _ => rfl)
    (vec_init fo a) (fun hfn S f v hv => vec_update fo a hfn S f v hv)
    (vec_merge fo a) (fun _ S f => vec_final fo a S f) t hok

/-- morsel path (`morsel_agg.rs` `enum AccumulatorState`: update / merge / finalize arms) -/
theorem C21_morsel_hom (a : Agg) (t : MTree (List Val)) (hok : Ok E a t.leaves.flatten) :
    .ok ((morsel fo a).run t) = aggVal fo a.fn false t.leaves.flatten.length t.leaves.flatten :=
  run_eq_aggVal E (morsel fo a) a (mkMorsel a) (fstep fo) fo.add (fun _ _ _ => rfl) (fun _ _ _ => rfl)
    (morsel_init fo a) (fun hfn S f v hv => morsel_update fo a hfn S f v hv)
    (morsel_merge fo a) (fun hfn S f => morsel_final fo a hfn S f) t hok

/-- raw / dense-direct sums WITH the "seen" bit (switch `rawSumNoSeenBit` off = intended algorithm), for the
    aggregates that path supports -/
theorem C21_rawSum_hom (dev : Dev) (hdev : dev.rawSumNoSeenBit = false) (a : Agg) (hr : RawFn a)
    (t : MTree (List Val)) (hok : Ok E a t.leaves.flatten) :
    .ok ((rawSum dev fo a).run t) = aggVal fo a.fn false t.leaves.flatten.length t.leaves.flatten := by
  -- the float cell follows `rstep`, which is the float sum on typed values; use the typed variant of the step law
  have hom : Hom (rawSum dev fo a) (Ok E a)
      (fun s xs => ∃ f, (needsF a → FRep E f xs) ∧ s = mkRaw a (summ xs) f) := by
    refine ⟨fun _ _ h => h.left, fun _ _ h => h.right, ⟨F64.posZero, fun _ => FRep.nil E, raw_init dev fo a⟩, ?_, ?_⟩
    · rintro s xs v hok ⟨f, hf, rfl⟩
      have hv : Typed a v := hok.ty v (by simp)
      refine ⟨rstep fo a f v, fun hn => ?_, ?_⟩
      · rw [rstep_needsF fo a hr hn f v hv]
        unfold fstep
        cases hx : asF64 fo v with
        | none => exact (hf hn).skip E hx
        | some x => exact (hf hn).snoc E (hok.flt hn) x hx
      · rw [summ_snoc]; exact raw_update dev fo a hr _ _ _ hv
    · rintro s t xs ys hok ⟨f, hf, rfl⟩ ⟨g, hg, rfl⟩
      refine ⟨fo.add f g, fun hn => (hf hn).merge E (hok.flt hn) (hg hn), ?_⟩
      rw [summ_append xs ys hok.ford]; exact raw_merge dev fo a _ _ _ _
  obtain ⟨f, hf, hs⟩ := hom.tree t hok
  rw [aggVal_eq_specVal E a _ f hok hf, Alg.run, hs, raw_final dev hdev fo a hr]

/-! ### COUNT(DISTINCT) and SUM(DISTINCT) (hash path; the planner sends DISTINCT aggregates nowhere else) -/

/-- COUNT(DISTINCT x): no side condition at all — any values, any chunking, any merge tree -/
theorem C21_hash_hom_count_distinct (dev : Dev) (ty : Ty) (t : MTree (List Val)) :
    .ok ((Engine.Acc.hash dev fo ⟨.count, true, ty⟩).run t)
      = aggVal fo .count true t.leaves.flatten.length t.leaves.flatten := by
  have h := (hash_distinct_hom dev fo ⟨.count, true, ty⟩ rfl (.inl rfl)).tree t trivial
  simp only [Alg.run, Engine.Acc.hash, hashFinalize, aggVal, if_true]
  simp only [Engine.Acc.hash] at h
  rw [h, dsetOpt_getD, Bag.dedupVals_eq]
  rfl

/-- SUM(DISTINCT x) over a BIGINT column, with `unwrap_or(0)` repaired (switch off) -/
theorem C21_hash_hom_sum_distinct_int (dev : Dev) (hdev : dev.sumDistinctEmptyZero = false) (t : MTree (List Val))
    (hty : ColTy .int t.leaves.flatten) (hb : (iwt t.leaves.flatten : Int) ≤ Val.i64Max) :
    .ok ((Engine.Acc.hash dev fo ⟨.sum, true, .int⟩).run t)
      = aggVal fo .sum true t.leaves.flatten.length t.leaves.flatten := by
  have h := (hash_distinct_hom dev fo ⟨.sum, true, .int⟩ rfl (.inr rfl)).tree t trivial
  generalize t.leaves.flatten = xs at *
  simp only [Engine.Acc.hash] at h
  have hall : ∀ v ∈ Bag.dedup (nn xs), ∃ i, v = .int i :=
    fun v hv => nn_all_int hty v ((Bag.mem_dedup _ _).mp hv)
  have hb' : (iwt (Bag.dedup (nn xs)) : Int) ≤ Val.i64Max := by
    have := iwt_dedup_le (nn xs)
    have := iwt_filter_le (fun v => !v.isNull) xs
    simp only [nn] at *; omega
  simp only [Alg.run, Engine.Acc.hash, hashFinalize, aggVal, if_true, h, hdev]
  rw [Bag.dedupVals_eq]
  change _ = sumVals fo (Bag.dedup (nn xs))
  rw [sumVals_int fo _ hall hb']
  unfold dsetOpt
  by_cases hc : cnt xs = 0
  · have : nn xs = [] := by simpa [cnt] using hc
    simp [hc, this, Bag.dedup]
  · have hne : Bag.dedup (nn xs) ≠ [] := by
      intro e
      have : nn xs = [] := by
        cases hx : nn xs with
        | nil => rfl
        | cons v vs => rw [hx] at e; simp [Bag.dedup] at e
      exact hc (by simp [cnt, this])
    simp [hc, hne, sumIntSet_eq _ hall]

/-- SUM(DISTINCT x) over a DOUBLE column whose data are exact -/
theorem C21_hash_hom_sum_distinct_f64 (dev : Dev) (hdev : dev.sumDistinctEmptyZero = false) (t : MTree (List Val))
    (hty : ColTy .f64 t.leaves.flatten) (hok : FOk E t.leaves.flatten) :
    .ok ((Engine.Acc.hash dev fo ⟨.sum, true, .f64⟩).run t)
      = aggVal fo .sum true t.leaves.flatten.length t.leaves.flatten := by
  have h := (hash_distinct_hom dev fo ⟨.sum, true, .f64⟩ rfl (.inr rfl)).tree t trivial
  generalize t.leaves.flatten = xs at *
  simp only [Engine.Acc.hash] at h
  have hall : ∀ v ∈ Bag.dedup (nn xs), ∃ i, v = .f64 i :=
    fun v hv => nn_all_f64 hty v ((Bag.mem_dedup _ _).mp hv)
  have hok' : FOk E (Bag.dedup (nn xs)) := FOk.dedup (hok.filter E _)
  simp only [Alg.run, Engine.Acc.hash, hashFinalize, aggVal, if_true, h, hdev]
  rw [Bag.dedupVals_eq]
  change _ = sumVals fo (Bag.dedup (nn xs))
  unfold dsetOpt
  by_cases hc : cnt xs = 0
  · have : nn xs = [] := by simpa [cnt] using hc
    simp [hc, this, Bag.dedup, sumVals]
  · have hne : Bag.dedup (nn xs) ≠ [] := by
      intro e
      have : nn xs = [] := by
        cases hx : nn xs with
        | nil => rfl
        | cons v vs => rw [hx] at e; simp [Bag.dedup] at e
      exact hc (by simp [cnt, this])
    obtain ⟨g, hg, hgr⟩ := sumVals_f64 E _ hne hall hok'
    have : g = sumF64Set fo (Bag.dedup (nn xs)) := hgr.unique E (sumF64Set_rep E _ hok')
    simp [hc, hne, hg, this]

/-! ### order of arrival is irrelevant (chunks may be merged in any order) -/

/-- the specified value depends only on the BAG of argument values -/
theorem C21_order_irrelevant (a : Agg) {xs ys : List Val} (hp : xs ~ ys) (hok : Ok E a xs) :
    aggVal fo a.fn false xs.length xs = aggVal fo a.fn false ys.length ys := by
  have hok' : Ok E a ys :=
    ⟨fun v hv => hok.ty v (hp.mem_iff.mpr hv), hok.fnty,
     fun h1 h2 => by rw [← iwt_perm hp]; exact hok.int h1 h2,
     fun hn => (hok.flt hn).perm E hp, fun x hx => hok.ford x (hp.mem_iff.mpr hx)⟩
  -- a float witness that is valid for both orders
  have hf : ∃ f, needsF a → FRep E f xs := by
    by_cases hn : needsF a
    · have hF := hok.flt hn
      exact ⟨sumF64Set fo xs, fun _ => sumF64Set_rep E xs hF⟩
    · exact ⟨F64.posZero, fun h => absurd h hn⟩
  obtain ⟨f, hf⟩ := hf
  rw [aggVal_eq_specVal E a xs f hok hf, aggVal_eq_specVal E a ys f hok' (fun hn => (hf hn).perm E hp)]
  congr 1
  have hI := hp.filterMap ikey
  have hFk := hp.filterMap fkey
  have hS := hp.filterMap skey
  have hord : ∀ x ∈ xs.filterMap fkey, F64.ordinary x := fun x hx => hok.ford x ((mem_filterMap_fkey xs x).mp hx)
  have e_cnt : (summ xs).cnt = (summ ys).cnt := by
    simp only [summ, cnt, nn]; exact (hp.filter _).length_eq
  have e_rows : (summ xs).rows = (summ ys).rows := hp.length_eq
  have e_isum : (summ xs).isum = (summ ys).isum := isum_perm hp
  have e_imin : (summ xs).imin = (summ ys).imin :=
    extBy_perm hI (weakOn_int_lt _) (fun a _ b _ h1 h2 => by simp at h1 h2; omega)
  have e_imax : (summ xs).imax = (summ ys).imax :=
    extBy_perm hI (weakOn_int_gt _) (fun a _ b _ h1 h2 => by simp at h1 h2; omega)
  have e_fmin : (summ xs).fmin = (summ ys).fmin :=
    extBy_perm hFk (F64.weakOn_lt _ hord) (fun a ha b hb h1 h2 => F64.tie_eq a b (hord a ha) (hord b hb) h1 h2)
  have e_fmax : (summ xs).fmax = (summ ys).fmax :=
    extBy_perm hFk (F64.weakOn_gt _ hord) (fun a ha b hb h1 h2 => F64.tie_eq a b (hord a ha) (hord b hb) h2 h1)
  have e_smin : (summ xs).smin = (summ ys).smin :=
    extBy_perm hS (weakOn_cmp_lt compare _) (fun a _ b _ h1 h2 => tie_eq compare a b h1 h2)
  have e_smax : (summ xs).smax = (summ ys).smax :=
    extBy_perm hS (weakOn_cmp_gt compare _) (fun a _ b _ h1 h2 => by
      rw [gt_eq_lt_swap] at h1 h2
      exact tie_eq compare a b h2 h1)
  unfold specVal
  rw [e_cnt, e_rows, e_isum, e_imin, e_imax, e_fmin, e_fmax, e_smin, e_smax]

/-! ### corollaries -/

/-- **NULL inputs are ignored**: dropping every NULL argument before aggregation changes nothing, on every path -/
theorem C21_ignores_null (dev : Dev) (hdev : dev.rawSumNoSeenBit = false) (a : Agg) (hd : a.distinct = false)
    (hcs : a.fn ≠ .countStar) (xs : List Val) (hok : Ok E a xs) :
    (Engine.Acc.hash dev fo a).run (.leaf xs) = (Engine.Acc.hash dev fo a).run (.leaf (nn xs)) ∧
    (vectorized fo a).run (.leaf xs) = (vectorized fo a).run (.leaf (nn xs)) ∧
    (morsel fo a).run (.leaf xs) = (morsel fo a).run (.leaf (nn xs)) ∧
    (RawFn a → (rawSum dev fo a).run (.leaf xs) = (rawSum dev fo a).run (.leaf (nn xs))) := by
  have hok' : Ok E a (nn xs) :=
    ⟨fun v hv => hok.ty v (mem_filter.mp hv).1, hok.fnty,
     fun h1 h2 => by have := hok.int h1 h2; have := iwt_filter_le (fun v => !v.isNull) xs; simp only [nn]; omega,
     fun hn => (hok.flt hn).filter E _, fun x hx => hok.ford x (mem_filter.mp hx).1⟩
  have hl : ∀ ys : List Val, (MTree.leaf ys).leaves.flatten = ys := fun ys => by simp [MTree.leaves]
  have key : ∀ {σ} (A : Alg σ),
      (∀ t : MTree (List Val), Ok E a t.leaves.flatten →
        .ok (A.run t) = aggVal fo a.fn false t.leaves.flatten.length t.leaves.flatten) →
      A.run (.leaf xs) = A.run (.leaf (nn xs)) := by
    intro σ A h
    have h1 := h (.leaf xs) (by rw [hl]; exact hok)
    have h2 := h (.leaf (nn xs)) (by rw [hl]; exact hok')
    rw [hl] at h1 h2
    rw [aggVal_nn a.fn hcs false xs.length (nn xs).length xs] at h1
    exact Except.ok.inj (h1.trans h2.symm)
  exact ⟨key _ (C21_hash_hom E dev a hd), key _ (C21_vectorized_hom E a), key _ (C21_morsel_hom E a),
    fun hr => key _ (C21_rawSum_hom E dev hdev a hr)⟩

include E in
/-- **a group with no non-NULL input** (all-NULL or empty, any chunking, any merge tree, every path):
    NULL from SUM / AVG / MIN / MAX, 0 from COUNT.  (`E` is only used to phrase the side conditions, which
    are trivially true here.) -/
theorem C21_empty_group (dev : Dev) (hdev : dev.rawSumNoSeenBit = false) (a : Agg) (hd : a.distinct = false)
    (hfn : FnTy a) (hcs : a.fn ≠ .countStar) (t : MTree (List Val)) (hnull : ∀ v ∈ t.leaves.flatten, v = .null) :
    let expected : Val := if a.fn = .count then .int 0 else .null
    (Engine.Acc.hash dev fo a).run t = expected ∧ (vectorized fo a).run t = expected ∧ (morsel fo a).run t = expected ∧
    (RawFn a → (rawSum dev fo a).run t = expected) := by
  intro expected
  have hok := ok_all_null E a hfn _ hnull
  have hspec := aggVal_all_null (fo := fo) a.fn hcs t.leaves.flatten.length _ hnull
  refine ⟨?_, ?_, ?_, fun hr => ?_⟩
  · exact Except.ok.inj ((C21_hash_hom E dev a hd t hok).trans hspec)
  · exact Except.ok.inj ((C21_vectorized_hom E a t hok).trans hspec)
  · exact Except.ok.inj ((C21_morsel_hom E a t hok).trans hspec)
  · exact Except.ok.inj ((C21_rawSum_hom E dev hdev a hr t hok).trans hspec)

/-- **NULL grouping keys form one group** (single- and multi-column keys alike): with all switches off the
    output has exactly one row per distinct key VALUE — `Val` equality, under which NULL = NULL — and every
    key occurring in the input is present. -/
theorem C21_null_key_one_group (p : Path) (aggs : List Agg) (keyed : List (Row × Row)) :
    ∃ out, groupAgg {} fo p aggs false keyed = .ok out ∧ (out.map (·.1)).Nodup ∧
      (∀ k, k ∈ out.map (·.1) ↔ k ∈ keyed.map (·.1)) ∧
      out.map (·.1) = (Spec.groupBy keyed).map (·.1) := by
  refine ⟨_, groupAgg_eq p aggs keyed, ?_, ?_, ?_⟩
  · simp only [map_map, Function.comp_def]; exact Bag.groupBy_keys_nodup keyed
  · intro k
    simp only [map_map, Function.comp_def]
    rw [Bag.groupBy_eq]; simp [Bag.groupSpec, Bag.mem_dedup]
  · simp [map_map, Function.comp_def]

/-- in particular COUNT(*) of the NULL-key group counts every row whose key is that (possibly all-NULL) key -/
theorem C21_null_key_group_rows (keyed : List (Row × Row)) (k : Row) (rows : Table)
    (h : (k, rows) ∈ Spec.groupBy keyed) : rows.length = (keyed.filter fun q => q.1 = k).length := by
  obtain ⟨_, rfl⟩ := (Bag.groupBy_mem_iff keyed k rows).mp h
  simp [Bag.rowsOf]

/-- **a global aggregate returns exactly one row**, also over zero rows; a grouped aggregate over zero rows
    returns none — on every path, with any switches -/
theorem C21_global_one_row (dev : Dev) (p : Path) (aggs : List Agg) (keyed : List (Row × Row)) :
    (∃ row, groupAgg dev fo p aggs true keyed = .ok [([], row)] ∧ row.length = aggs.length) ∧
    groupAgg dev fo p aggs false [] = .ok [] := by
  constructor
  · exact ⟨((List.range aggs.length).zip aggs).map fun ja =>
      aggOne dev fo p ja.2 (keyed.map fun kr => kr.2.getD ja.1 .null), by simp [groupAgg], by simp⟩
  · by_cases h1 : dev.emptyAggNullKeysUngrouped <;> by_cases h2 : dev.nullKeyEmptyAccDropped <;>
      simp [groupAgg, Spec.groupBy, h1, h2]

/-- the global row over ZERO input rows: COUNT = 0, everything else NULL (hash path shown; via `C21_empty_group`) -/
theorem C21_global_empty_values (dev : Dev) (a : Agg) (hd : a.distinct = false) (hfn : FnTy a) :
    (Engine.Acc.hash dev fo a).run .empty = (if a.fn = .count ∨ a.fn = .countStar then Val.int 0 else Val.null) := by
  obtain ⟨fn, d, ty⟩ := a
  simp only at hd; subst hd
  cases fn <;> cases ty <;> simp [Alg.run, Alg.evalTree, MTree.map, Engine.Acc.hash, hashFinalize]

/-! ### the hypothesis on `FloatOps` is satisfiable (non-vacuity), and concrete evaluations -/

-- the four paths on a chunked, NULL-carrying column, combined by a non-trivial tree: SUM = 6, COUNT = 3, MIN = 1
example : (Engine.Acc.hash {} fo0 ⟨.sum, false, .int⟩).run (.node (.leaf [.int 1, .null]) (.node .empty (.leaf [.int 2, .int 3]))) = .int 6 := by decide
example : (morsel fo0 ⟨.count, false, .int⟩).run (.node (.leaf [.int 1, .null]) (.leaf [.int 2, .int 3])) = .int 3 := by decide
example : (vectorized fo0 ⟨.min, false, .int⟩).run (.node (.leaf [.int 7, .null]) (.leaf [.int 1, .int 3])) = .int 1 := by decide
example : (rawSum {} fo0 ⟨.sum, false, .int⟩).run (.node (.leaf [.null]) (.leaf [.null, .null])) = .null := by decide
example : (Engine.Acc.hash {} fo0 ⟨.count, true, .int⟩).run (.node (.leaf [.int 1, .null, .int 1]) (.leaf [.int 2, .int 1])) = .int 2 := by decide

/-! ### the defects of the unchanged tree: kernel-checked negation witnesses, one per switch -/

/-- A.3 — `SUM(DISTINCT x)` over an all-NULL column is 0 on the hash path (`unwrap_or(0)`), the spec says NULL -/
example : (Engine.Acc.hash { sumDistinctEmptyZero := true } fo0 ⟨.sum, true, .int⟩).run (.leaf [.null, .null]) = .int 0
    ∧ aggVal fo0 .sum true 2 [.null, .null] = .ok .null := by decide

/-- raw / dense-direct sums without a "seen" bit: SUM over an all-NULL group is 0, the spec says NULL -/
example : (rawSum { rawSumNoSeenBit := true } fo0 ⟨.sum, false, .int⟩).run (.leaf [.null, .null]) = .int 0
    ∧ aggVal fo0 .sum false 2 [.null, .null] = .ok .null := by decide

/-- A.24 — with an empty aggregate list every NULL-key row is its own group: 3 groups instead of 2 -/
example : (groupAgg { emptyAggNullKeysUngrouped := true } fo0 .hash [] false
      [([.null], []), ([.int 1], []), ([.null], [])]).map (·.length) = .ok 3
    ∧ (groupAgg {} fo0 .hash [] false [([.null], []), ([.int 1], []), ([.null], [])]).map (·.length) = .ok 2 := by decide

/-- A.25 — the NULL-key group disappears when all its accumulators stayed empty (`COUNT(b)` with b all NULL) -/
example : groupAgg { nullKeyEmptyAccDropped := true } fo0 .morsel [⟨.count, false, .int⟩] false
      [([.null], [.null]), ([.int 1], [.null])] = .ok [([.int 1], [.int 0])]
    ∧ groupAgg {} fo0 .morsel [⟨.count, false, .int⟩] false
      [([.null], [.null]), ([.int 1], [.null])] = .ok [([.null], [.int 0]), ([.int 1], [.int 0])] := by decide

/-- A.5 — the dense-direct path refuses NULL group keys with an error; the spec answers -/
example : groupAgg { denseRefusesNullKeys := true } fo0 .raw [⟨.countStar, false, .int⟩] false
      [([.null], [.null]), ([.int 1], [.null])] = .error (.unsupported "dense agg: null group keys unsupported")
    ∧ groupAgg {} fo0 .raw [⟨.countStar, false, .int⟩] false
      [([.null], [.null]), ([.int 1], [.null])] = .ok [([.null], [.int 1]), ([.int 1], [.int 1])] := by decide

end IQE.Props.C21
