/-
  C14 — Nodes that disagree about the data refuse to answer.
  Model: IQE.Engine.Shard.fragment (mirror of `execute_fragment` + the index check of `shard_context`,
  src/distributed/coordinator.rs) over IQE.Engine.SplitEnum.enumerate / IQE.Engine.Fnv.digest / IQE.Engine.Lpt.assign.
  The theorems hold for every deviation switch setting (`dev` is universally quantified).
-/
import IQE.Lemmas.Fnv
import IQE.Lemmas.SplitEnum
import IQE.Props.C12
import IQE.Engine.Shard
namespace IQE.Props.C14
open IQE.Engine IQE.Engine.SplitEnum IQE.Engine.Shard

/-- A fragment RUNS only if the worker, from its own files, computes exactly the initiator's digest, and the shard index
    is in range; what it runs over is then the `shard_index`-th part of the LPT assignment of the worker's own split set. -/
theorem C14_runs_only_on_equal_digest (dev : Dev) (req : FragmentReq) (files : Option (List FileMeta)) (owned : List Split)
    (h : fragment dev req files = .ran owned) :
    ∃ fs set, files = some fs ∧ enumerate dev req.table fs req.shardCount = .ok set ∧ set.digest = req.digest ∧
      req.shardIndex < max req.shardCount 1 ∧
      ∃ idx, (Lpt.assign set.splits set.totalBytes req.shardCount).perNode[req.shardIndex]? = some idx ∧
        owned = idx.map (fun i => set.splits[i]!) := by
  unfold fragment at h
  cases files with
  | none => simp at h
  | some fs =>
    simp only at h
    cases he : enumerate dev req.table fs req.shardCount with
    | error e => simp [he] at h
    | ok set =>
      simp only [he] at h
      by_cases hd : set.digest = req.digest
      · simp only [hd, ne_eq, not_true_eq_false, ↓reduceIte] at h
        cases hi : (Lpt.assign set.splits set.totalBytes req.shardCount).perNode[req.shardIndex]? with
        | none => simp [hi] at h
        | some idx =>
          simp only [hi, FragOut.ran.injEq] at h
          have hlen := (C12.C12_partition set.splits set.totalBytes req.shardCount).2.1
          have hlt : req.shardIndex < (Lpt.assign set.splits set.totalBytes req.shardCount).perNode.length :=
            (List.getElem?_eq_some_iff.1 hi).1
          exact ⟨fs, set, rfl, he, hd, by omega, idx, hi, h.symm⟩
      · simp [hd] at h

/-- Any digest difference refuses: if the worker's digest is not the request's, the outcome is the digest-mismatch error. -/
theorem C14_mismatch_refuses (dev : Dev) (req : FragmentReq) (fs : List FileMeta) (set : SplitSet)
    (he : enumerate dev req.table fs req.shardCount = .ok set) (hd : set.digest ≠ req.digest) :
    fragment dev req (some fs) = .err .digestMismatch := by
  simp [fragment, he, hd]

/-- An out-of-range shard index never runs; with matching digests it is exactly the shard-index error. -/
theorem C14_index_range (dev : Dev) (req : FragmentReq) (files : Option (List FileMeta))
    (hi : max req.shardCount 1 ≤ req.shardIndex) :
    (∀ owned, fragment dev req files ≠ .ran owned) ∧
    (∀ fs set, files = some fs → enumerate dev req.table fs req.shardCount = .ok set → set.digest = req.digest →
      fragment dev req files = .err .shardIndexOutOfRange) := by
  refine ⟨?_, ?_⟩
  · intro owned h
    obtain ⟨_, _, _, _, _, hlt, _⟩ := C14_runs_only_on_equal_digest dev req files owned h
    omega
  · intro fs set hf he hd
    subst hf
    have hlen := (C12.C12_partition set.splits set.totalBytes req.shardCount).2.1
    have hnone : (Lpt.assign set.splits set.totalBytes req.shardCount).perNode[req.shardIndex]? = none :=
      List.getElem?_eq_none (by omega)
    simp [fragment, he, hd, hnone]

/-- PARTIAL detection of a single changed attribute. Two canonical split lists that are equal except for ONE split-relevant
    attribute of ONE split have DIFFERENT digests when the change is confined to the two low bytes of the attribute's
    little-endian encoding (byte size, row count, row offset or row-group index changed by a small amount without carry
    beyond 16 bits), or to one byte of the file name. By `C14_mismatch_refuses` the fragment then fails.
    MISSING: changes touching three or more encoded bytes, several attributes at once, added/removed splits — a 64-bit
    digest cannot separate ALL pairs (pigeonhole); those are covered by the correspondence runs only. -/
theorem C14_attribute_detected_partial (t : List UInt8) (pre post : List Split) (s : Split) :
    (∀ b', s.bytes / 65536 = b' / 65536 → s.bytes ≠ b' →
      Fnv.digest t (pre ++ s :: post) ≠ Fnv.digest t (pre ++ { s with bytes := b' } :: post)) ∧
    (∀ g', s.rowGroup / 65536 = g' / 65536 → s.rowGroup ≠ g' →
      Fnv.digest t (pre ++ s :: post) ≠ Fnv.digest t (pre ++ { s with rowGroup := g' } :: post)) ∧
    (∀ n' : Int, (s.numRows % 18446744073709551616).toNat / 65536 = (n' % 18446744073709551616).toNat / 65536 →
      (s.numRows % 18446744073709551616).toNat ≠ (n' % 18446744073709551616).toNat →
      Fnv.digest t (pre ++ s :: post) ≠ Fnv.digest t (pre ++ { s with numRows := n' } :: post)) ∧
    (∀ o' : Int, (s.rowOffset % 18446744073709551616).toNat / 65536 = (o' % 18446744073709551616).toNat / 65536 →
      (s.rowOffset % 18446744073709551616).toNat ≠ (o' % 18446744073709551616).toNat →
      Fnv.digest t (pre ++ s :: post) ≠ Fnv.digest t (pre ++ { s with rowOffset := o' } :: post)) ∧
    (∀ (p q : List UInt8) (a b : UInt8), s.file = p ++ a :: q → a ≠ b →
      Fnv.digest t (pre ++ s :: post) ≠ Fnv.digest t (pre ++ { s with file := p ++ b :: q } :: post)) := by
  refine ⟨?_, ?_, ?_, ?_, ?_⟩
  · intro b' hq hne
    refine Fnv.digest_ne_of_window t pre post s { s with bytes := b' }
      (s.file ++ Fnv.le64 s.rowGroup ++ Fnv.leI64 s.rowOffset ++ Fnv.leI64 s.numRows) (Fnv.le64Hi (s.bytes / 65536))
      ?_ ?_ (Fnv.low_two_differ hq hne)
    · simp only [Fnv.splitBytes, Fnv.le64_split s.bytes]
    · simp only [Fnv.splitBytes, Fnv.le64_split b', hq]
  · intro g' hq hne
    refine Fnv.digest_ne_of_window t pre post s { s with rowGroup := g' }
      s.file (Fnv.le64Hi (s.rowGroup / 65536) ++ Fnv.leI64 s.rowOffset ++ Fnv.leI64 s.numRows ++ Fnv.le64 s.bytes)
      ?_ ?_ (Fnv.low_two_differ hq hne)
    · simp [Fnv.splitBytes, Fnv.le64_split s.rowGroup]
    · simp [Fnv.splitBytes, Fnv.le64_split g', hq]
  · intro n' hq hne
    refine Fnv.digest_ne_of_window t pre post s { s with numRows := n' }
      (s.file ++ Fnv.le64 s.rowGroup ++ Fnv.leI64 s.rowOffset)
      (Fnv.le64Hi ((s.numRows % 18446744073709551616).toNat / 65536) ++ Fnv.le64 s.bytes)
      ?_ ?_ (Fnv.low_two_differ hq hne)
    · simp [Fnv.splitBytes, Fnv.leI64, Fnv.le64_split (s.numRows % 18446744073709551616).toNat]
    · simp [Fnv.splitBytes, Fnv.leI64, Fnv.le64_split (n' % 18446744073709551616).toNat, hq]
  · intro o' hq hne
    refine Fnv.digest_ne_of_window t pre post s { s with rowOffset := o' }
      (s.file ++ Fnv.le64 s.rowGroup)
      (Fnv.le64Hi ((s.rowOffset % 18446744073709551616).toNat / 65536) ++ Fnv.leI64 s.numRows ++ Fnv.le64 s.bytes)
      ?_ ?_ (Fnv.low_two_differ hq hne)
    · simp [Fnv.splitBytes, Fnv.leI64, Fnv.le64_split (s.rowOffset % 18446744073709551616).toNat]
    · simp [Fnv.splitBytes, Fnv.leI64, Fnv.le64_split (o' % 18446744073709551616).toNat, hq]
  · intro p q a b hf hab
    exact Fnv.digest_ne_of_name_byte t pre post s p q hf hab

-- non-vacuity: a concrete refusal and a concrete run of the model
private def f1 : FileMeta := { name := [97], footer := some [{ rows := 4, bytes := 100 }] }
private def f2 : FileMeta := { name := [97], footer := some [{ rows := 5, bytes := 100 }] }
private def d1 : UInt64 := ((enumerate {} [116] [f1] 2).toOption.map (·.digest)).getD 0
example : (match fragment {} { table := [116], shardIndex := 0, shardCount := 2, digest := d1 } (some [f2]) with
    | .err .digestMismatch => true | _ => false) = true := by decide +kernel
example : (match fragment {} { table := [116], shardIndex := 1, shardCount := 2, digest := d1 } (some [f1]) with
    | .ran [s] => s.numRows == 2 | _ => false) = true := by decide +kernel
example : (match fragment {} { table := [116], shardIndex := 2, shardCount := 2, digest := d1 } (some [f1]) with
    | .err .shardIndexOutOfRange => true | _ => false) = true := by decide +kernel

end IQE.Props.C14
