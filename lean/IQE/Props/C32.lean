/-
  C32 — Join reordering never introduces a cross product.

  Model: IQE.Engine.JoinGraph (relations, equality predicates incl. composite keys, join trees, the
  greedy order, the checker `validReorder`).  Spec predicates: `CrossFree`, `ConnectedOn`, `Connected`,
  `WellFormed` (same file).  The theorems are about every graph / tree, not about sampled ones; the tie to
  the optimizer is per-program: the plan exporter hands `(g, t)` of the bound and of the optimized plan to the
  driver, which runs `validReorder` (Driver/C32.lean).
-/
import IQE.Lemmas.JoinGraph
namespace IQE.Props.C32
open IQE.Engine.JoinGraph

/-- Soundness (and completeness) of the checker run on exported plans: acceptance means exactly that the tree's
    leaves are the graph's relations as a bag, every join node carries an equality predicate across its two
    sides, and the graph's predicates occur exactly once in the tree (ON keys or filters, orientation ignored). -/
theorem C32_checker_sound (g : Graph) (t : Tree) :
    validReorder g t = true →
      t.leaves.Perm g.rels ∧ CrossFree t ∧ (t.preds.map Pred.norm).Perm (g.preds.map Pred.norm) :=
  (validReorder_iff g t).mp

theorem C32_checker_complete (g : Graph) (t : Tree) :
    t.leaves.Perm g.rels → CrossFree t → (t.preds.map Pred.norm).Perm (g.preds.map Pred.norm) →
      validReorder g t = true :=
  fun h1 h2 h3 => (validReorder_iff g t).mpr ⟨h1, h2, h3⟩

/-- A connected join graph has a cross-free tree that uses every relation once and every predicate once, and
    the greedy order (always extend by a relation adjacent to the part already joined — the shape of the rule's
    greedy fallback) constructs it: it never gets stuck. -/
theorem C32_exists (g : Graph) (wf : WellFormed g) (conn : Connected g) :
    ∃ t, greedyTree g = some t ∧
      t.leaves.Perm g.rels ∧ CrossFree t ∧ (t.preds.map Pred.norm).Perm (g.preds.map Pred.norm) := by
  obtain ⟨t, ht, hv⟩ := greedyTree_valid wf conn
  exact ⟨t, ht, (validReorder_iff g t).mp hv⟩

/-- The DPsize invariant: joining two connected sub-plans that are linked by an equality predicate yields a
    connected sub-plan (so a memo built only from such pairs never contains a cross product). -/
theorem C32_dpsize_pairs (g : Graph) (S1 S2 : List Nat)
    (h1 : ConnectedOn g S1) (h2 : ConnectedOn g S2)
    (link : ∃ p ∈ g.preds, (p.a ∈ S1 ∧ p.b ∈ S2) ∨ (p.b ∈ S1 ∧ p.a ∈ S2)) :
    ConnectedOn g (S1 ++ S2) :=
  connectedOn_append h1 h2 link

/-- The deviation switch only ever *adds* allowed trees: a tree the strict checker accepts is accepted whatever
    relations are declared blind, so a case is attributed to finding C32-F1 only when the strict checker rejects it. -/
theorem C32_dev_conservative (g : Graph) (blind : List Nat) (t : Tree) :
    validReorder g t = true → validReorderDev g blind t = true :=
  validReorder_imp_dev g blind t

/-! ### non-vacuity -/

/-- a 4-cycle 0-1-2-3-0 with a composite key on the edge 0-1 -/
def cyc : Graph :=
  { rels := [0, 1, 2, 3],
    preds := [⟨0, 10, 1, 11⟩, ⟨0, 12, 1, 13⟩, ⟨2, 20, 1, 21⟩, ⟨2, 22, 3, 23⟩, ⟨0, 30, 3, 31⟩] }

-- the greedy order finds a tree for it and the checker accepts that tree
example : (greedyTree cyc).isSome = true := by decide
example : (greedyTree cyc).map (validReorder cyc) = some true := by decide
-- a reordered tree in a different shape (bushy, the cycle-closing predicate as a filter) is accepted
example : validReorder cyc
    (.filt [⟨3, 31, 0, 30⟩]
      (.node [⟨1, 21, 2, 20⟩] (.node [⟨1, 11, 0, 10⟩, ⟨1, 13, 0, 12⟩] (.leaf 1) (.leaf 0)) (.node [⟨3, 23, 2, 22⟩] (.leaf 3) (.leaf 2)))) = true := by
  decide
-- a cross product is rejected although every relation and predicate is present
example : validReorder cyc
    (.filt [⟨2, 20, 1, 21⟩, ⟨2, 22, 3, 23⟩]
      (.node [⟨0, 30, 3, 31⟩] (.node [] (.node [⟨0, 10, 1, 11⟩, ⟨0, 12, 1, 13⟩] (.leaf 0) (.leaf 1)) (.leaf 2)) (.leaf 3))) = false := by
  decide
-- a lost predicate is rejected
example : validReorder cyc
    (.node [⟨0, 30, 3, 31⟩] (.node [⟨2, 20, 1, 21⟩] (.node [⟨0, 10, 1, 11⟩, ⟨0, 12, 1, 13⟩] (.leaf 0) (.leaf 1)) (.leaf 2)) (.leaf 3)) = false := by
  decide
-- a lost relation is rejected
example : validReorder cyc (.node [⟨0, 10, 1, 11⟩, ⟨0, 12, 1, 13⟩] (.leaf 0) (.leaf 1)) = false := by decide
-- a disconnected graph: the greedy order reports that only a cross product could continue
example : greedyTree { rels := [0, 1, 2], preds := [⟨0, 1, 1, 1⟩] } = none := by decide

/-- Finding C32-F1 (negation witness): chain 0-1-2-3 with relation 2 blind.  The deviating rule sees only `0-1`,
    joins {0,1} with 3 by a cross product and re-attaches the invisible predicates on top: allowed with the
    switch on, rejected by the property's checker although the graph is connected. -/
def chain4 : Graph := { rels := [0, 1, 2, 3], preds := [⟨0, 1, 1, 1⟩, ⟨1, 2, 2, 2⟩, ⟨2, 3, 3, 3⟩] }
def chain4Dev : Tree :=
  .node [⟨1, 2, 2, 2⟩, ⟨3, 3, 2, 3⟩] (.node [] (.node [⟨0, 1, 1, 1⟩] (.leaf 0) (.leaf 1)) (.leaf 3)) (.leaf 2)
example : (greedyTree chain4).isSome = true := by decide
example : validReorderDev chain4 [2] chain4Dev = true := by decide
example : validReorder chain4 chain4Dev = false := by decide
-- with no blind relation the same tree is not excused: predicates of the graph do cross the product node's sides … via relation 2 only,
-- so the excuse needs relation 2 to be blind; a product between directly linked sides is never excused
example : validReorderDev chain4 [2]
    (.node [⟨2, 3, 3, 3⟩, ⟨1, 2, 2, 2⟩] (.node [] (.leaf 0) (.leaf 1)) (.node [] (.leaf 3) (.leaf 2))) = false := by decide

end IQE.Props.C32
