/-
  C43 — Exact vector search is the literal ORDER BY … LIMIT.

  Models: IQE.Engine.VectorSearch (`canonicalKnn` = the gates of VectorSearchPushdown::try_match; `execute`/`shapeOutput` =
  VectorSearchExec; `score`/`rowLe` = the exact order of the four distance functions on integer-valued vectors; `meaning` = the
  literal meaning of the plan fragment; `knnAnswer` = the k nearest rows a spec asks for) and IQE.Engine.SortLimit (the exact path IS
  the planner's Limit-over-Sort lowering, C25's model).

  What is NOT proved here: that the engine's FLOAT evaluation of a distance orders rows like the exact `score` (rounding; C38 is
  partial in the same way) — tied by correspondence on integer-valued vectors, where both orders coincide.
-/
import IQE.Props.C25
import IQE.Lemmas.VectorSearch
import IQE.Lemmas.VectorSearchShape
namespace IQE.Props.C43
open IQE IQE.Spec IQE.Engine IQE.Engine.PlanWf IQE.Engine.VectorSearch IQE.Engine.SortLimit
open IQE.Lemmas.Sorting IQE.Lemmas.SortModel IQE.Lemmas.OrderAux IQE.Lemmas.VectorSearch IQE.Lemmas.VectorSearchShape

/-! ### C43_no_index_exact -/

/-- Mode `Exact`, no provider, `skip + k` overflowing, or a provider that declines (`scan_knn → Ok(None)`: no index): the operator
    executes the fallback plan — EVERY partition it declares, in order — and returns exactly its batches; in mode `Exact` the provider is
    never consulted, and the outcome does not depend on it at all. -/
theorem C43_no_index_exact {α : Type} (e : Exec α)
    (h : e.mode = .exact ∨ e.provider = none ∨ e.skip + e.k > e.usizeMax ∨ ∃ p, e.provider = some p ∧ p (e.skip + e.k) = none) :
    (execute {} e).path = .fallback ∧ (execute {} e).result = .ok e.fallback.flatten ∧
    (execute {} e).opened = List.range (max e.fallback.length 1) ∧
    (e.mode = .exact → (execute {} e).asked = [] ∧ ∀ p', execute {} { e with provider := p' } = execute {} e) := by
  unfold execute
  rcases h with h | h | h | ⟨p, hp, hn⟩
  · simp [h]
  · cases hm : e.mode <;> simp [h]
  · cases hm : e.mode
    · simp
    · cases hp : e.provider
      · simp
      · simp [h]
  · cases hm : e.mode
    · simp
    · simp only [hp]
      split
      · simp
      · simp [hn]

/-- the defect repaired by /repo commit b96001d, as a deviation of the model: with `partition0Only` the exact path loses the rows of
    every fallback partition but the first -/
theorem C43_partition0_only_loses_rows :
    ∃ e : Exec Nat, e.mode = .exact ∧ (execute { partition0Only := true } e).result ≠ .ok e.fallback.flatten ∧
      (execute {} e).result = .ok e.fallback.flatten :=
  ⟨{ mode := .exact, provider := none, k := 5, skip := 0, usizeMax := 100, fallback := [[[1, 2]], [[3]]] }, rfl, by intro h; simp [execute] at h, rfl⟩

/-! ### the index path's OFFSET / LIMIT (what mode `Indexed` returns is the provider's answer, windowed) -/

/-- `shape_output` emits, over ANY batching of the provider's answer, exactly rows `skip .. skip + k` of it (when no batch is rejected). -/
theorem C43_index_window {α : Type} (k skip : Nat) (bs : List (IdxBatch α)) (out : List (List α))
    (h : shapeOutput k skip bs = .ok out) :
    out.flatten = (((bs.map (·.rows)).flatten).drop skip).take k := by
  have := shapeGo_flatten k skip bs 0 0 out (Nat.zero_le _) h
  simpa using this

/-! ### C43_topk -/

/-- The exact path is C25's `Limit(skip, k) ∘ Sort` instantiated with the one-element key vector [distance]: whenever the index is not used
    (`C43_no_index_exact`), for EVERY cut of the scanned rows into partitions and batches (`parts`) and EVERY batching of the fallback
    operator's output, the rows returned are `((sort rows).drop skip).take k` under the (distance, ASC/DESC, NULLS) comparator; that sort is
    sorted and a permutation of the input. -/
theorem C43_topk (fo : FloatOps) (desc nf : Bool) (e : Exec Keyed) (parts : List (List (List Keyed)))
    (hfb : e.fallback.flatten.flatten = orderLimit fo [(desc, nf)] e.skip (some e.k) parts)
    (hexact : e.mode = .exact ∨ e.provider = none ∨ e.skip + e.k > e.usizeMax ∨ ∃ p, e.provider = some p ∧ p (e.skip + e.k) = none)
    (hU1 : (e.skip : Int) ≤ Rs.USIZE_MAX) (hU2 : (parts.flatten.flatten.length : Int) ≤ Rs.USIZE_MAX)
    (ht : KeysTyped [.f64] parts.flatten.flatten) :
    ∃ bs, (execute {} e).result = .ok bs ∧
      bs.flatten = ((sortKeyed fo [(desc, nf)] parts.flatten.flatten).drop e.skip).take e.k ∧
      (sortKeyed fo [(desc, nf)] parts.flatten.flatten).Pairwise (fun a b => cmpKeys fo [(desc, nf)] a.1 b.1 ≠ .gt) ∧
      (sortKeyed fo [(desc, nf)] parts.flatten.flatten).Perm parts.flatten.flatten := by
  obtain ⟨_, hres, _, _⟩ := C43_no_index_exact e hexact
  obtain ⟨_, hol, _⟩ := IQE.Props.C25.C25_topk_fusion fo [(desc, nf)] e.skip (some e.k) parts hU1 hU2
  obtain ⟨hsorted, hperm, heq⟩ := IQE.Props.C25.C25_order fo [(desc, nf)] [.f64] parts (by simp) ht
  refine ⟨e.fallback.flatten, hres, ?_, ?_, ?_⟩
  · rw [hfb, hol]; rfl
  · rw [← heq]; exact hsorted
  · rw [← heq]; exact hperm

/-- On exact distances (`rowLe`: the order of `score`, a total preorder): whatever sorted order an implementation produces — ties broken
    in any way — its OFFSET/LIMIT window agrees with the model's window position by position up to ties, and the model's window is the
    declarative "k nearest after the first skip" (`IsWindow`: no sort involved). -/
theorem C43_topk_exact_order (f : DistFn) (desc nf : Bool) (q : List Int) (col : Nat) (rows s : List VRow)
    (hp : s.Perm rows) (hs : s.Pairwise (fun a b => rowLe f desc nf q col a b)) (skip k : Nat) :
    PointwiseTied (rowLe f desc nf q col) ((s.drop skip).take k) (window (rowLe f desc nf q col) skip (some k) rows) ∧
    IsWindow (rowLe f desc nf q col) skip k rows (window (rowLe f desc nf q col) skip (some k) rows) := by
  refine ⟨?_, window_isWindow (rowLe_trans f desc nf q col) (rowLe_total f desc nf q col) skip k rows⟩
  have h := sorted_perm_pointwise (rowLe_trans f desc nf q col) (rowLe_total f desc nf q col)
    (hp.trans (List.mergeSort_perm rows _).symm) hs
    (List.pairwise_mergeSort (rowLe_trans f desc nf q col) (rowLe_total f desc nf q col) rows)
  exact (h.drop skip).take k

/-! ### C43_canonical_shape -/

/-- What the matcher accepts, gate by gate: a `Limit(skip, k ≥ 1)` directly over a `Sort` with exactly ONE key, NULLS LAST, the key a call of
    one of the four distance functions over (column, constant vector) in either order, the direction "nearest first" for that function, and
    below the Sort a chain the walk follows down to a scan whose column is a float vector of the literal's width. -/
theorem C43_canonical_structure (p : Plan) (s : KnnSpec) (h : canonicalKnn p = some s) :
    ∃ (key : PExpr) (tag : String) (a0 a1 ce : PExpr) (rel : Option String) (v : String) (hit : ScanHit),
      p = .limit s.skip (some s.k) (.sort [key] [(s.desc, false)] s.input) ∧ s.k ≠ 0 ∧
      stripAlias key = .op "fn" tag [a0, a1] ∧ DistFn.ofName tag = some s.fn ∧ s.desc = s.fn.nearestDesc ∧
      splitArgs a0 a1 = some (ce, s.query) ∧ stripAlias ce = .col rel v ∧
      walk v s.query.length ((schemaOf s.input).map (fun f => (f.name, f.name))) s.input = some hit ∧
      s.table = hit.table ∧ s.column = hit.column ∧ s.filter = hit.filter ∧ s.scanSchema = hit.scanSchema ∧
      s.outputs = (hit.a2s.map (·.2)).zip (schemaOf s.input) ∧ s.sortKey = key :=
  canonicalKnn_inv p s h

/-- The shape the rule may rewrite MEANS the k nearest rows.  If the matcher accepts `p` with extraction `s`, then the literal meaning of
    `p` — scan the table under the pushed filter, apply the column projections level by level, sort by the distance key, skip, take k —
    is exactly the answer `s` describes ON THE TABLE: prefilter by `s.filter`, order nearest-first by `s.fn` over scan column `s.column`,
    skip `s.skip`, take `s.k`, output scan columns `s.outputs` (`knnAnswer`).  In particular the rule's bookkeeping through renaming /
    reordering projections (`alias_to_source`) names the right scan columns.
    Hypotheses (all decidable, evaluated on every exported plan by the driver): names pairwise distinct ignoring case at every level of the
    chain, projections as wide as their schemas, pushed scan projections in range (`chainOk`); the chain's top schema is the one
    `LogicalPlan::schema()` reports (`hsch`: automatic when the Sort's input is a Project); the catalog table has the scan's schema. -/
theorem C43_canonical_shape (pred : List PExpr → Schema → VRow → Bool) (litInts : List Nat → List Int) (cat : List VTable)
    (p : Plan) (s : KnnSpec) (sch : Schema) (out : List VRow)
    (hc : canonicalKnn p = some s) (hm : meaning pred litInts cat p = some (sch, out))
    (hok : chainOk s.input = true) (htop : noCiDup ((schemaOf s.input).map (·.name)) = true)
    (hsch : ∀ si rows, meaning pred litInts cat s.input = some (si, rows) → si = schemaOf s.input)
    (hcat : ∀ t, cat.find? (fun t => t.name == s.table) = some t → t.schema = s.scanSchema) :
    knnAnswer pred litInts cat s = some out :=
  canonical_meaning pred litInts cat p s sch out hc hm hok htop hsch hcat

/-- `hsch` of `C43_canonical_shape` holds by definition when the Sort's input is a Project (what the binder always builds) -/
theorem C43_canonical_shape_top_schema (pred : List PExpr → Schema → VRow → Bool) (litInts : List Nat → List Int) (cat : List VTable)
    (exprs : List PExpr) (s : Schema) (i : Plan) (si : Schema) (rows : List VRow)
    (h : meaning pred litInts cat (.project exprs s i) = some (si, rows)) : si = schemaOf (.project exprs s i) := by
  simp only [meaning] at h
  split at h
  · cases h
  · split at h
    · cases h
    · split at h
      · cases h
      · simp only [Option.some.injEq, Prod.mk.injEq] at h
        exact h.1.symm

/-- … and that answer is the declarative "k nearest after the first skip" of the prefiltered table under the exact order of the metric
    (NULL vectors last): no sort in the statement (`IsWindow`). -/
theorem C43_knn_answer_is_nearest (pred : List PExpr → Schema → VRow → Bool) (litInts : List Nat → List Int) (cat : List VTable)
    (s : KnnSpec) (out : List VRow) (h : knnAnswer pred litInts cat s = some out) :
    ∃ (t : VTable) (ci : Nat) (idx : List Nat) (w : List VRow),
      cat.find? (fun t => t.name == s.table) = some t ∧ colIndex t.schema s.column = some ci ∧
      out = w.map (pick idx) ∧
      IsWindow (nearLe s.fn (litInts s.query) ci) s.skip s.k (t.rows.filter (pred s.filter t.schema)) w := by
  simp only [knnAnswer] at h
  split at h
  · cases h
  · rename_i t ht
    split at h
    · rename_i ci idx hci hidx
      simp only [Option.some.injEq] at h
      refine ⟨t, ci, idx, _, ht, hci, h.symm, ?_⟩
      exact window_isWindow (rowLe_trans _ _ _ _ _) (rowLe_total _ _ _ _ _) s.skip s.k _
    · cases h

/-! ### the matcher refuses every non-canonical shape -/

/-- no LIMIT at the root (a bare Sort, a Filter above the Limit, a Project above it, …): refused at this node -/
theorem C43_refuses_non_limit (p : Plan) (h : ∀ skip fetch i, p ≠ .limit skip fetch i) : canonicalKnn p = none := by
  unfold canonicalKnn
  split
  · rename_i skip fetch key desc nf input
    exact absurd rfl (h skip (some fetch) _)
  · rfl

/-- a filter above the limit is refused at the Filter node (the rule may still rewrite the Limit(Sort) BELOW it — never with that predicate) -/
theorem C43_refuses_filter_above (pred : PExpr) (p : Plan) : canonicalKnn (.filter pred p) = none := rfl

/-- OFFSET without LIMIT, and LIMIT 0 -/
theorem C43_refuses_no_fetch (skip : Nat) (i : Plan) : canonicalKnn (.limit skip none i) = none := rfl
theorem C43_refuses_fetch0 (skip : Nat) (i : Plan) : canonicalKnn (.limit skip (some 0) i) = none := by
  unfold canonicalKnn
  split <;> simp_all

/-- the Limit's input is not a Sort (a Filter between them, …) -/
theorem C43_refuses_limit_not_over_sort (skip : Nat) (fetch : Option Nat) (i : Plan) (h : ∀ ks fl j, i ≠ .sort ks fl j) :
    canonicalKnn (.limit skip fetch i) = none := by
  unfold canonicalKnn
  split
  · rename_i heq
    injection heq with _ _ h3
    exact absurd h3 (h _ _ _)
  · rfl

/-- extra sort keys (a tiebreaker after the distance, or the distance as a secondary key) -/
theorem C43_refuses_extra_keys (skip : Nat) (fetch : Option Nat) (keys : List PExpr) (flags : List (Bool × Bool)) (i : Plan)
    (h : keys.length ≠ 1) : canonicalKnn (.limit skip fetch (.sort keys flags i)) = none := by
  unfold canonicalKnn
  split
  · rename_i heq
    injection heq with _ _ h3
    injection h3 with h4 _ _
    subst h4
    simp at h
  · rfl

/-- NULLS FIRST -/
theorem C43_refuses_nulls_first (skip fetch : Nat) (key : PExpr) (desc : Bool) (i : Plan) :
    canonicalKnn (.limit skip (some fetch) (.sort [key] [(desc, true)] i)) = none := by
  simp [canonicalKnn]

/-- the sort key is not a call of one of the four distance functions: an expression AROUND the distance (`-d`, `d + 1`, `d * 2` decode as
    `op "bin"/"un"`), a plain column, a cast, any other scalar function -/
theorem C43_refuses_non_distance_key (skip fetch : Nat) (key : PExpr) (desc nf : Bool) (i : Plan)
    (h : ∀ tag a0 a1, stripAlias key = .op "fn" tag [a0, a1] → DistFn.ofName tag = none) :
    canonicalKnn (.limit skip (some fetch) (.sort [key] [(desc, nf)] i)) = none := by
  simp only [canonicalKnn]
  split
  · rfl
  · split
    · rfl
    · split
      · rename_i tag a0 a1 heq
        rw [h tag a0 a1 heq]
      · rfl

/-- wrong direction for the metric: DESC on a distance / ASC on a similarity asks for the FURTHEST rows -/
theorem C43_refuses_wrong_direction (skip fetch : Nat) (key : PExpr) (desc nf : Bool) (i : Plan) (tag : String) (a0 a1 : PExpr) (f : DistFn)
    (hk : stripAlias key = .op "fn" tag [a0, a1]) (hf : DistFn.ofName tag = some f) (hd : desc ≠ f.nearestDesc) :
    canonicalKnn (.limit skip (some fetch) (.sort [key] [(desc, nf)] i)) = none := by
  simp only [canonicalKnn, hk, hf]
  split
  · rfl
  · split
    · rfl
    · have : (desc != f.nearestDesc) = true := by simpa using hd
      simp [this]

/-- no constant vector among the two arguments (column-to-column distance, a non-constant expression) -/
theorem C43_refuses_no_literal (skip fetch : Nat) (key : PExpr) (desc nf : Bool) (i : Plan) (tag : String) (a0 a1 : PExpr)
    (hk : stripAlias key = .op "fn" tag [a0, a1]) (h0 : constantVector a0 = none) (h1 : constantVector a1 = none) :
    canonicalKnn (.limit skip (some fetch) (.sort [key] [(desc, nf)] i)) = none := by
  simp only [canonicalKnn, hk, splitArgs, h0, h1]
  split
  · rfl
  · split
    · rfl
    · split
      · rfl
      · split <;> rfl

/-- anything but column-only projections between the Sort and the Scan — a Filter, a Join, an Aggregate, a derived-table alias, a Limit … —
    stops the walk -/
theorem C43_walk_refuses_other_nodes (v : String) (n : Nat) (a2s : List (String × String)) (p : Plan)
    (h1 : ∀ es s i, p ≠ .project es s i) (h2 : ∀ t s pr fl, p ≠ .scan t s pr fl) : walk v n a2s p = none := by
  unfold walk
  split
  · exact absurd rfl (h1 _ _ _)
  · exact absurd rfl (h2 _ _ _ _)
  · rfl

/-- a computed projection (the distance in the SELECT list, any expression) stops the walk -/
theorem C43_walk_refuses_computed_projection (v : String) (n : Nat) (a2s : List (String × String)) (es : List PExpr) (s : Schema) (i : Plan)
    (h : projectLevel es s = none) : walk v n a2s (.project es s i) = none := by
  simp [walk, h]

/-- dimension mismatch (or a column that is not a float vector): the scan column's width must equal the literal's length -/
theorem C43_walk_refuses_dimension_mismatch (v : String) (n : Nat) (a2s : List (String × String)) (t : String) (s : Schema)
    (pr : Option (List Nat)) (fl : List PExpr)
    (h : ∀ f, uniqueByName s (((a2s.find? (fun e => eqIgnoreAsciiCase e.1 v)).map (·.2)).getD v) = some f → vecDim f.ty ≠ some n) :
    walk v n a2s (.scan t s pr fl) = none := by
  simp only [walk]
  split
  · rfl
  · rename_i f hf
    have := h f hf
    split
    · rfl
    · rename_i d hd
      have : d ≠ n := by intro hdn; subst hdn; exact this hd
      simp [this]

/-- whenever the walk below the Sort fails, the matcher refuses -/
theorem C43_refuses_when_walk_fails (skip fetch : Nat) (key : PExpr) (desc nf : Bool) (i : Plan)
    (h : ∀ v n, walk v n ((schemaOf i).map (fun f => (f.name, f.name))) i = none) :
    canonicalKnn (.limit skip (some fetch) (.sort [key] [(desc, nf)] i)) = none := by
  simp only [canonicalKnn, h]
  repeat' split
  all_goals rfl

/-! ### non-vacuity -/

def fld (n t : List Char) : Field := { name := String.ofList n, rel := some "vt", ty := String.ofList t }
def vt : Plan := .scan "vt" [fld ['i', 'd'] ['i', '6', '4'], fld ['e', 'm', 'b'] ['f', 's', 'l', '<', 'f', '3', '2', ',', '2', '>']] none []
def distKey : PExpr := .op "fn" "L2Distance" [.col none (String.ofList ['e', 'm', 'b']), .lit "list" (.vec [1, 0])]
def knnPlan : Plan := .limit 1 (some 2) (.sort [distKey] [(false, false)]
  (.project [.col none (String.ofList ['i', 'd']), .col none (String.ofList ['e', 'm', 'b'])]
    [fld ['i', 'd'] ['i', '6', '4'], fld ['e', 'm', 'b'] ['f', 's', 'l', '<', 'f', '3', '2', ',', '2', '>']] vt))

/-- the matcher does accept the canonical plan … -/
example : (canonicalKnn knnPlan).isSome = true := by decide
/-- … whose chain satisfies the hypotheses of C43_canonical_shape, and which has a meaning over a catalog holding the table -/
example : (canonicalKnn knnPlan).map (fun s => chainOk s.input && noCiDup ((schemaOf s.input).map (·.name))) = some true := by decide
example : (meaning (fun _ _ _ => true) (fun _ => [1, 0])
    [{ name := "vt", schema := [fld ['i', 'd'] ['i', '6', '4'], fld ['e', 'm', 'b'] ['f', 's', 'l', '<', 'f', '3', '2', ',', '2', '>']],
       rows := [[.int 1, .vec [0, 0]], [.int 2, .vec [1, 0]], [.int 3, .null]] }] knnPlan).isSome = true := by decide
/-- … and refuses the same plan with the direction reversed, a 3-element literal, or NULLS FIRST -/
example : (canonicalKnn (.limit 1 (some 2) (.sort [distKey] [(true, false)] vt))).isSome = false := by decide
example : (canonicalKnn (.limit 1 (some 2) (.sort [.op "fn" "L2Distance" [.col none (String.ofList ['e', 'm', 'b']), .lit "list" (.vec [1, 0, 0])]] [(false, false)] vt))).isSome = false := by decide

/-- exact order: [3,4] is nearer to the origin than [6,8] under L2, they tie under cosine distance, and a NULL vector sorts last -/
example : rowLe .l2 false false [0, 0] 0 [.vec [3, 4]] [.vec [6, 8]] = true ∧ rowLe .l2 false false [0, 0] 0 [.vec [6, 8]] [.vec [3, 4]] = false := by decide
example : rowLe .cosDist false false [1, 0] 0 [.vec [3, 4]] [.vec [6, 8]] = true ∧ rowLe .cosDist false false [1, 0] 0 [.vec [6, 8]] [.vec [3, 4]] = true := by decide
example : rowLe .dot true false [1, 0] 0 [.null] [.vec [6, 8]] = false ∧ rowLe .dot true false [1, 0] 0 [.vec [6, 8]] [.null] = true := by decide

/-- the index path's window over two batches: OFFSET 1 LIMIT 2 of [[10, 11], [12, 13]] -/
example : shapeOutput 2 1 [⟨[10, 11], none⟩, ⟨[12, 13], none⟩] = .ok [[11], [12]] := by rfl
/-- mode Indexed with an index uses it; mode Exact with the same provider does not -/
example : (execute {} { mode := .indexed, provider := some (fun _ => some [⟨[7, 8, 9], none⟩]), k := 2, skip := 0, usizeMax := 100, fallback := [[[1, 2]]] : Exec Nat }).result = .ok [[7, 8]] := by rfl
example : (execute {} { mode := .exact, provider := some (fun _ => some [⟨[7, 8, 9], none⟩]), k := 2, skip := 0, usizeMax := 100, fallback := [[[1, 2]]] : Exec Nat }).result = .ok [[1, 2]] := by rfl

end IQE.Props.C43
