/-
  C10 — a failing fragment fails the whole query.
  Property theorems only (helper lemmas: IQE/Lemmas/Coordinator.lean).
  Model: IQE.Engine.Coordinator — `scatter_sql_over_table` / `execute_distributed` / `execute_gathered` as a
  function of per-shard outcomes `ok payload | transportErr | httpErr status | badPayload`, and the Arrow IPC
  stream framing read by `decode_ipc`.  All theorems hold for EVERY metadata parser `parse`, every number of
  tables, shards, messages and bytes.

  Finding C10-F1 (switches `eofIsEos`, `ignoreDeclaredRows`; FIXED by /repo commit caf22ad): `C10_truncation_detected`
  needs the decoder to demand the end-of-stream marker (or the coordinator to check the declared row count / length);
  the code before the fix did neither, and `C10_F1_witness` exhibits a strict prefix that the legacy decoder accepts
  with fewer rows.
-/
import IQE.Lemmas.Coordinator
namespace IQE.Props.C10
open IQE.Engine.Coordinator IQE.Lemmas.Coordinator

/-! ## Specification-side vocabulary -/

/-- a stream as `encode_ipc` writes it: one schema message, then dictionary / record-batch messages -/
def WfStream (parse : List Byte → Option Hdr) (ms : List Msg) : Prop :=
  ∃ s tl, ms = s :: tl ∧ WfMsg parse s ∧ (∃ h, parse s.md = some h ∧ h.kind = .schema) ∧ BodyMsgs parse tl

/-- the payloads of a list of remote shards, `none` as soon as one is not a complete decodable payload -/
def okPayloads {ρ : Type} : List (Nat × Outcome ρ) → Option (List ρ)
  | [] => some []
  | (_, .ok p) :: xs => (okPayloads xs).map (p :: ·)
  | _ :: _ => none

/-- every payload of the table's ACTIVE shards (own shard first, then the remote ones in shard order);
    `none` as soon as one of them failed -/
def completeParts {ρ : Type} (t : TableRun ρ) : Option (List ρ) :=
  match t.loc, t.remote with
  | none, [] => t.emptyLocal.map (fun p => [p])
  | none, remote => okPayloads remote
  | some (_, none), _ => none
  | some (_, some p), remote => (okPayloads remote).map (p :: ·)

/-- the complete parts of every table of the query, `none` as soon as any shard of any table failed -/
def allComplete {ρ : Type} : List (TableRun ρ) → Option (List (List ρ))
  | [] => some []
  | t :: ts =>
    match completeParts t, allComplete ts with
    | some p, some r => some (p :: r)
    | _, _ => none

def tableFails {ρ : Type} (t : TableRun ρ) : Prop :=
  (∃ i, t.loc = some (i, none)) ∨ (∃ x ∈ t.remote, x.2.isOk = false)

/-! ## Propagation -/

private theorem collectRemote_ok_iff {ρ : Type} (remote : List (Nat × Outcome ρ)) (acc parts : List ρ) :
    collectRemote remote acc = .ok parts ↔ ∃ r, okPayloads remote = some r ∧ parts = acc ++ r := by
  induction remote generalizing acc with
  | nil => simp [collectRemote, okPayloads]; exact ⟨fun h => h.symm, fun h => h.symm⟩
  | cons x xs ih =>
    obtain ⟨i, o⟩ := x
    cases o with
    | ok p =>
      simp only [collectRemote, okPayloads, ih]
      constructor
      · rintro ⟨r, hr, rfl⟩; exact ⟨p :: r, by simp [hr], by simp⟩
      · rintro ⟨r, hr, rfl⟩
        simp at hr
        obtain ⟨r', hr', rfl⟩ := hr
        exact ⟨r', hr', by simp⟩
    | transportErr => simp [collectRemote, okPayloads]
    | httpErr s => simp [collectRemote, okPayloads]
    | badPayload => simp [collectRemote, okPayloads]

private theorem collectRemote_fails {ρ : Type} (remote : List (Nat × Outcome ρ)) (acc : List ρ)
    (h : ∃ x ∈ remote, x.2.isOk = false) : ∃ i c, collectRemote remote acc = .error i c := by
  induction remote generalizing acc with
  | nil => simp at h
  | cons x xs ih =>
    obtain ⟨i, o⟩ := x
    cases o with
    | ok p =>
      simp only [collectRemote]
      apply ih
      obtain ⟨y, hy, hb⟩ := h
      simp at hy
      rcases hy with rfl | hy
      · simp [Outcome.isOk] at hb
      · exact ⟨y, hy, hb⟩
    | transportErr => exact ⟨i, _, rfl⟩
    | httpErr s => exact ⟨i, _, rfl⟩
    | badPayload => exact ⟨i, _, rfl⟩

private theorem scatter_some_some {ρ : Type} (e : Option ρ) (i : Nat) (p : ρ) (remote : List (Nat × Outcome ρ)) :
    scatter e (some (i, some p)) remote = collectRemote remote [p] := by cases remote <;> rfl

/-- **C10 (propagation).**  If the initiator's own shard fails, or ANY remote active shard's outcome is not a
    complete decodable payload (transport error, HTTP error, undecodable payload), the fan-out is an error. -/
theorem C10_any_failure_fails {ρ : Type} (t : TableRun ρ) (h : tableFails t) :
    ∃ i c, scatter t.emptyLocal t.loc t.remote = .error i c := by
  obtain ⟨e, loc, remote⟩ := t
  rcases h with ⟨i, hl⟩ | h
  · simp only at hl; subst hl
    cases remote <;> exact ⟨i, _, rfl⟩
  · simp only at h
    cases loc with
    | none =>
      cases remote with
      | nil => simp at h
      | cons x xs => exact collectRemote_fails (x :: xs) [] h
    | some l =>
      obtain ⟨i, lp⟩ := l
      cases lp with
      | none => cases remote <;> exact ⟨i, _, rfl⟩
      | some p => rw [scatter_some_some]; exact collectRemote_fails remote [p] h

/-- **C10 (completeness of an answer).**  A fan-out answers `ok parts` exactly when EVERY active shard delivered
    a complete payload, and then `parts` is all of them — nothing dropped, nothing duplicated. -/
theorem C10_ok_is_complete {ρ : Type} (t : TableRun ρ) (parts : List ρ) :
    scatter t.emptyLocal t.loc t.remote = .ok parts ↔ completeParts t = some parts := by
  obtain ⟨e, loc, remote⟩ := t
  cases loc with
  | none =>
    cases remote with
    | nil => cases e <;> simp [scatter, completeParts]
    | cons x xs =>
      simp only [scatter, completeParts, collectRemote_ok_iff, List.nil_append]
      constructor
      · rintro ⟨r, hr, rfl⟩; exact hr
      · intro hr; exact ⟨parts, hr, rfl⟩
  | some l =>
    obtain ⟨i, lp⟩ := l
    cases lp with
    | none => cases remote <;> simp [scatter, completeParts]
    | some p =>
      rw [scatter_some_some, collectRemote_ok_iff]
      simp only [completeParts]
      constructor
      · rintro ⟨r, hr, rfl⟩; simp [hr]
      · intro h
        simp at h
        obtain ⟨r, hr, rfl⟩ := h
        exact ⟨r, hr, by simp⟩

/-- the bag reading of `C10_ok_is_complete`: the answer's parts are a permutation of (in fact equal to) the
    multiset union over ALL active shards, and no shard failed -/
theorem C10_ok_is_complete_bag {ρ : Type} (t : TableRun ρ) (parts : List ρ)
    (h : scatter t.emptyLocal t.loc t.remote = .ok parts) :
    ¬ tableFails t ∧ ∃ all, completeParts t = some all ∧ parts.Perm all := by
  refine ⟨?_, parts, (C10_ok_is_complete t parts).mp h, List.Perm.refl _⟩
  intro hf
  obtain ⟨i, c, he⟩ := C10_any_failure_fails t hf
  rw [h] at he; cases he

/-! ### the whole query: one fan-out per table, then the final step on the initiator -/

private theorem gatherAll_ok_iff {ρ : Type} (ts : List (TableRun ρ)) (pos : Nat) (acc out : List (List ρ)) :
    gatherAll ts pos acc = .ok out ↔ ∃ r, allComplete ts = some r ∧ out = acc ++ r := by
  induction ts generalizing pos acc with
  | nil => simp [gatherAll, allComplete]; exact ⟨fun h => by cases h; rfl, fun h => by rw [h]⟩
  | cons t ts ih =>
    simp only [gatherAll, allComplete]
    cases hs : scatter t.emptyLocal t.loc t.remote with
    | error i c =>
      have : completeParts t = none := by
        cases hc : completeParts t with
        | none => rfl
        | some parts => rw [← C10_ok_is_complete, hs] at hc; cases hc
      simp [this]
    | ok parts =>
      have : completeParts t = some parts := (C10_ok_is_complete t parts).mp hs
      simp only [this, ih]
      constructor
      · rintro ⟨r, hr, rfl⟩; exact ⟨parts :: r, by simp [hr], by simp⟩
      · rintro ⟨r, hr, rfl⟩
        cases hac : allComplete ts with
        | none => simp [hac] at hr
        | some r' =>
          simp [hac] at hr; subst hr
          exact ⟨r', rfl, by simp⟩

private theorem gatherAll_fails {ρ : Type} (ts : List (TableRun ρ)) (pos : Nat) (acc : List (List ρ))
    (h : ∃ t ∈ ts, tableFails t) : ∃ e, gatherAll ts pos acc = .error e := by
  induction ts generalizing pos acc with
  | nil => simp at h
  | cons t ts ih =>
    simp only [gatherAll]
    cases hs : scatter t.emptyLocal t.loc t.remote with
    | error i c => exact ⟨_, rfl⟩
    | ok parts =>
      simp only
      apply ih
      obtain ⟨u, hu, hf⟩ := h
      simp at hu
      rcases hu with rfl | hu
      · obtain ⟨i, c, he⟩ := C10_any_failure_fails u hf
        rw [hs] at he; cases he
      · exact ⟨u, hu, hf⟩

/-- **C10 for the query** (`execute_distributed`: one table; `execute_gathered`: every referenced table):
    a failing shard of ANY table makes the query a fragment error — the final step never runs, so there is no
    partial answer and no fallback. -/
theorem C10_any_failure_fails_query {ρ σ : Type} (tables : List (TableRun ρ)) (fin : List (List ρ) → Option σ)
    (h : ∃ t ∈ tables, tableFails t) : ∃ tp i c, runQuery tables fin = .fragmentError tp i c := by
  obtain ⟨⟨tp, i, c⟩, he⟩ := gatherAll_fails tables 0 [] h
  exact ⟨tp, i, c, by simp [runQuery, he]⟩

/-- an answer is the final step applied to the COMPLETE parts of every table -/
theorem C10_ok_is_complete_query {ρ σ : Type} (tables : List (TableRun ρ)) (fin : List (List ρ) → Option σ) (a : σ) :
    runQuery tables fin = .ok a ↔ ∃ parts, allComplete tables = some parts ∧ fin parts = some a := by
  unfold runQuery
  cases hg : gatherAll tables 0 [] with
  | error e =>
    obtain ⟨tp, i, c⟩ := e
    simp only
    constructor
    · intro h; cases h
    · rintro ⟨parts, hp, _⟩
      have := (gatherAll_ok_iff tables 0 [] parts).mpr ⟨parts, hp, by simp⟩
      rw [hg] at this; cases this
  | ok out =>
    obtain ⟨r, hr, hout⟩ := (gatherAll_ok_iff tables 0 [] out).mp hg
    simp only [List.nil_append] at hout
    subst hout
    simp only
    constructor
    · intro h
      refine ⟨out, hr, ?_⟩
      cases hf : fin out with
      | none => simp [hf] at h
      | some b => simp [hf] at h; rw [h]
    · rintro ⟨parts, hp, hfin⟩
      rw [hr] at hp; cases hp
      simp [hfin]

/-! ## Truncation -/

private theorem batchesOf_schema (parse : List Byte → Option Hdr) (s : Msg) (tl : List Msg) (h : Hdr)
    (hp : parse s.md = some h) (hk : h.kind = .schema) : batchesOf parse (s :: tl) = batchesOf parse tl := by
  obtain ⟨bl, k⟩ := h
  simp only at hk; subst hk
  simp [batchesOf, hp]

/-- the complete framed stream decodes to all of its record batches, under every switch setting -/
theorem C10_decode_complete (parse : List Byte → Option Hdr) (dev : Dev) (ms : List Msg) (hw : WfStream parse ms) :
    decode parse dev (frame ms) = some (batchesOf parse ms) := by
  obtain ⟨s, tl, rfl, hws, ⟨h, hparse, hk⟩, hb⟩ := hw
  unfold decode frame
  simp only [frameMsgs, List.append_assoc]
  rcases readMsg_prefix parse s hws (frameMsgs tl ++ EOS) _ (List.prefix_refl _) with ⟨hl, _⟩ | ⟨hl, _⟩ | ⟨p', h', hp, _, hparse', he⟩
  · have := frameMsg_length s; simp at hl; omega
  · simp at hl; omega
  · have hp'e : p' = frameMsgs tl ++ EOS := (List.append_cancel_left hp).symm
    subst hp'e
    rw [he]
    have hh : h' = h := by rw [hparse] at hparse'; exact (Option.some.inj hparse').symm
    subst hh
    simp only [hk]
    rw [decodeLoop_full parse dev tl _ [] hb (by omega), batchesOf_schema parse s tl h' hparse hk]; simp

/-- What any decoder setting returns on ANY prefix of a well-formed framed stream is the batches of a prefix
    of its messages (never invented rows), and a decoder that does not take EOF for end-of-stream returns
    something only on the complete stream. -/
private theorem decode_prefix (parse : List Byte → Option Hdr) (dev : Dev) (ms : List Msg) (hw : WfStream parse ms)
    (p : List Byte) (hp : p <+: frame ms) (r : List Msg) (hd : decode parse dev p = some r) :
    (∃ k, r = batchesOf parse (ms.take k)) ∧ (dev.eofIsEos = false → p = frame ms ∧ r = batchesOf parse ms) := by
  obtain ⟨s, tl, rfl, hws, ⟨h, hparse, hk⟩, hb⟩ := hw
  unfold frame at hp ⊢
  simp only [frameMsgs, List.append_assoc] at hp ⊢
  unfold decode at hd
  rcases readMsg_prefix parse s hws (frameMsgs tl ++ EOS) p hp with ⟨_, he⟩ | ⟨_, he⟩ | ⟨p', h', rfl, hp', hparse', he⟩
  · rw [he] at hd; cases hd
  · rw [he] at hd; cases hd
  · rw [he] at hd
    have hh : h' = h := by rw [hparse] at hparse'; exact (Option.some.inj hparse').symm
    subst hh
    simp only [hk] at hd
    obtain ⟨⟨k, hk1⟩, hk2⟩ := decodeLoop_prefix parse dev tl p' _ [] r hb hp' (by omega) hd
    refine ⟨⟨k + 1, ?_⟩, ?_⟩
    · simp only [List.take_succ_cons]
      rw [batchesOf_schema parse s _ h' hparse hk]; simpa using hk1
    · intro hs
      obtain ⟨e1, e2⟩ := hk2 hs
      refine ⟨by rw [e1], ?_⟩
      rw [batchesOf_schema parse s _ h' hparse hk]; simpa using e2

/-- **C10 (truncation), proviso "the decoder demands the end-of-stream marker".**  Every STRICT prefix of a
    framed fragment response — a cut at any byte, message boundary or not — is rejected.  The proviso
    `dev.eofIsEos = false` is exactly what the code lacked before commit caf22ad (finding C10-F1). -/
theorem C10_truncation_detected (parse : List Byte → Option Hdr) (dev : Dev) (heos : dev.eofIsEos = false)
    (ms : List Msg) (hw : WfStream parse ms) (p : List Byte) (hp : p <+: frame ms) (hne : p ≠ frame ms) :
    decode parse dev p = none := by
  cases hd : decode parse dev p with
  | none => rfl
  | some r => exact absurd ((decode_prefix parse dev ms hw p hp r hd).2 heos).1 hne

/-- consequently the coordinator classifies every truncated response as a bad payload -/
theorem C10_truncation_is_bad_payload (parse : List Byte → Option Hdr) (dev : Dev) (heos : dev.eofIsEos = false)
    (ms : List Msg) (hw : WfStream parse ms) (p : List Byte) (hp : p <+: frame ms) (hne : p ≠ frame ms) (declared : Nat) :
    classify parse dev (.resp p declared) = .badPayload := by
  simp [classify, C10_truncation_detected parse dev heos ms hw p hp hne]

/-- … and the query fails: a truncated response of any remote active shard of any table, at any byte. -/
theorem C10_truncated_fragment_fails_query {σ : Type} (parse : List Byte → Option Hdr) (dev : Dev) (heos : dev.eofIsEos = false)
    (tables : List (TableRun (List Msg))) (fin : List (List (List Msg)) → Option σ)
    (t : TableRun (List Msg)) (ht : t ∈ tables) (i : Nat) (ms : List Msg) (hw : WfStream parse ms)
    (p : List Byte) (hp : p <+: frame ms) (hne : p ≠ frame ms) (declared : Nat)
    (hx : (i, classify parse dev (.resp p declared)) ∈ t.remote) :
    ∃ tp j c, runQuery tables fin = .fragmentError tp j c := by
  apply C10_any_failure_fails_query
  refine ⟨t, ht, Or.inr ⟨_, hx, ?_⟩⟩
  rw [C10_truncation_is_bad_payload parse dev heos ms hw p hp hne]; rfl

private theorem sum_map_filter_ne_zero (f : Msg → Nat) (l : List Msg) :
    ((l.filter (fun m => f m != 0)).map f).sum = (l.map f).sum := by
  induction l with
  | nil => rfl
  | cons a l ih =>
    by_cases h : f a = 0
    · simp [h, ih]
    · simp [h, ih]

/-- **C10 (truncation), proviso "the coordinator compares the decoded row count with the declared one"**
    (`x-qe-rows`): even a decoder that takes EOF for end-of-stream cannot lose a row — whatever prefix is
    accepted carries exactly the non-empty record batches of the complete response. -/
theorem C10_truncation_detected_by_declared_rows (parse : List Byte → Option Hdr) (dev : Dev)
    (hrows : dev.ignoreDeclaredRows = false) (ms : List Msg) (hw : WfStream parse ms) (p : List Byte)
    (hp : p <+: frame ms) (r : List Msg)
    (hc : classify parse dev (.resp p (totalRows parse (batchesOf parse ms))) = .ok r) :
    r.filter (fun m => rowsOfMsg parse m != 0) = (batchesOf parse ms).filter (fun m => rowsOfMsg parse m != 0) := by
  simp only [classify] at hc
  cases hd : decode parse dev p with
  | none => simp [hd] at hc
  | some r' =>
    simp only [hd, hrows] at hc
    by_cases hne : totalRows parse r' = totalRows parse (batchesOf parse ms)
    · simp [hne] at hc; subst hc
      obtain ⟨k, hk⟩ := (decode_prefix parse dev ms hw p hp r' hd).1
      -- r' = batches of `ms.take k`; the batches of `ms.drop k` carry the remaining rows: none
      have hsplit : batchesOf parse ms = batchesOf parse (ms.take k) ++ batchesOf parse (ms.drop k) := by
        unfold batchesOf
        rw [← List.filter_append, List.take_append_drop]
      rw [hsplit, hk] at hne ⊢
      have hz : totalRows parse (batchesOf parse (ms.drop k)) = 0 := by
        simp only [totalRows, List.map_append, List.sum_append] at hne ⊢; omega
      have hzero : ∀ m ∈ batchesOf parse (ms.drop k), rowsOfMsg parse m = 0 := by
        intro m hm
        have : ∀ (l : List Msg), (l.map (rowsOfMsg parse)).sum = 0 → ∀ m ∈ l, rowsOfMsg parse m = 0 := by
          intro l; induction l with
          | nil => simp
          | cons a l ih => intro hs m hm; simp at hs hm; rcases hm with rfl | hm; exact hs.1; exact ih hs.2 m hm
        exact this _ hz m hm
      rw [List.filter_append]
      have : (batchesOf parse (ms.drop k)).filter (fun m => rowsOfMsg parse m != 0) = [] := by
        rw [List.filter_eq_nil_iff]; intro m hm; simp [hzero m hm]
      simp [this]
    · simp [hne] at hc

/-- **C10 (truncation), proviso "the declared length is enforced"** (C16: `body.len() ≥ Content-Length` or the
    response is rejected): a strict prefix is shorter than the declared length, hence rejected. -/
theorem C10_truncation_detected_by_declared_length (body p : List Byte) (hp : p <+: body) (hne : p ≠ body) :
    p.length < body.length := by
  obtain ⟨t, rfl⟩ := hp
  cases t with
  | nil => simp at hne
  | cons a t => simp

/-! ## Non-vacuity and the negation witness of finding C10-F1 (kernel-checked on a toy metadata layout:
       md = [kind, rows, bodyLen, 0,0,0,0,0], kind 1 = schema, 2 = dictionary, 3 = record batch) -/

def toyParse : List Byte → Option Hdr
  | [1, _, b, _, _, _, _, _] => some ⟨b, .schema⟩
  | [2, _, b, _, _, _, _, _] => some ⟨b, .dict⟩
  | [3, r, b, _, _, _, _, _] => some ⟨b, .batch r⟩
  | _ => none

def toyStream : List Msg :=
  [⟨[1, 0, 0, 0, 0, 0, 0, 0], []⟩, ⟨[3, 3, 2, 0, 0, 0, 0, 0], [7, 7]⟩, ⟨[3, 2, 1, 0, 0, 0, 0, 0], [9]⟩]

theorem toyStream_wf : WfStream toyParse toyStream := by
  refine ⟨_, _, rfl, ⟨by decide, by decide, ⟨_, rfl, rfl⟩⟩, ⟨_, rfl, rfl⟩, ?_⟩
  intro m hm
  simp at hm
  rcases hm with rfl | rfl
  · exact ⟨⟨by decide, by decide, ⟨_, rfl, rfl⟩⟩, _, rfl, Or.inr ⟨3, rfl⟩⟩
  · exact ⟨⟨by decide, by decide, ⟨_, rfl, rfl⟩⟩, _, rfl, Or.inr ⟨2, rfl⟩⟩

/-- the complete stream: 59 bytes, 5 rows in two batches -/
example : (frame toyStream).length = 59 ∧ (decode toyParse Dev.legacy (frame toyStream)).map (totalRows toyParse) = some 5 := by decide

/-- **Negation witness (C10-F1).**  With the switches of the code before commit caf22ad on, a strict prefix of a well-formed
    fragment response — cut at the message boundary after the first batch, byte 34 of 59 — is accepted as a
    complete payload carrying 3 of the 5 rows, although the peer declared 5. -/
theorem C10_F1_witness :
    ∃ (ms : List Msg) (p : List Byte) (r : List Msg), WfStream toyParse ms ∧ p <+: frame ms ∧ p ≠ frame ms ∧
      classify toyParse Dev.legacy (.resp p (totalRows toyParse (batchesOf toyParse ms))) = .ok r ∧
      totalRows toyParse r < totalRows toyParse (batchesOf toyParse ms) :=
  ⟨toyStream, (frame toyStream).take 34, [⟨[3, 3, 2, 0, 0, 0, 0, 0], [7, 7]⟩], toyStream_wf, List.take_prefix _ _, by decide, by decide, by decide⟩

/-- the same cut is rejected by the intended decoder, and by the row-count check alone -/
example : classify toyParse Dev.fixed (.resp ((frame toyStream).take 34) 5) = .badPayload ∧
          classify toyParse { eofIsEos := true, ignoreDeclaredRows := false } (.resp ((frame toyStream).take 34) 5) = .badPayload := by decide

/-- propagation, concretely: three shards, the middle one cut short ⇒ error naming shard 1; all complete ⇒ all parts -/
example : scatter (ρ := Nat) none (some (0, some 10)) [(1, .badPayload), (2, .ok 30)] = .error 1 .payload ∧
          scatter (ρ := Nat) none (some (0, some 10)) [(1, .ok 20), (2, .ok 30)] = .ok [10, 20, 30] ∧
          scatter (ρ := Nat) none none [(0, .ok 1), (1, .httpErr 503), (2, .transportErr)] = .error 1 (.http 503) := by decide

end IQE.Props.C10
