/-
  C03 — Optimization never changes a query's answer.

  (a) verified rewrites, stated over `Spec.run` (the reference SQL semantics) for plan nodes without subqueries, in
      the style of `IQE.Join.joinRows_eq_nlJoin`: the side conditions say how the expressions evaluate on the rows
      (error-free, to SQL truth values) and which input a predicate reads; the conclusion gives the answer of BOTH
      plans, so they are equal (or a permutation where the join order changes).  The bag algebra lives in
      IQE/Lemmas/Rewrites.lean and IQE/Lemmas/JoinDecomp.lean.
  (b) gate soundness over the TRANSLATED statistics gates (IQE/Gen/OptGates.lean, regenerated from the Rust source on
      every run): the packing gate of PackedJoinKeys is sound; the unique-key gate of GroupKeyReduction is NOT —
      its negation is proved with the witness `k = [1,1,5]` (finding C03-F1).
-/
import IQE.Lemmas.Rewrites
import IQE.Gen.OptGates
namespace IQE.Props.C03
open IQE IQE.Spec IQE.Bag IQE.Join IQE.Rewrites

section rewrites
variable (fo : FloatOps) (fns : String → List Val → Except Err Val) (cat : List Table)

private theorem isTrue_and3 {a b v : Val} (ha : IsTV a) (hb : IsTV b) (h : Val.and3 a b = .ok v) :
    IsTV v ∧ isTrue v = (isTrue a && isTrue b) := by
  rcases ha with rfl | ⟨x, rfl⟩ <;> rcases hb with rfl | ⟨y, rfl⟩
  · cases h; exact ⟨Or.inl rfl, rfl⟩
  · cases y <;> cases h <;> first | exact ⟨Or.inl rfl, rfl⟩ | exact ⟨Or.inr ⟨_, rfl⟩, rfl⟩
  · cases x <;> cases h <;> first | exact ⟨Or.inl rfl, rfl⟩ | exact ⟨Or.inr ⟨_, rfl⟩, rfl⟩
  · cases x <;> cases y <;> cases h <;> exact ⟨Or.inr ⟨_, rfl⟩, rfl⟩

private theorem and3_ok {a b : Val} (ha : IsTV a) (hb : IsTV b) : ∃ v, Val.and3 a b = .ok v := by
  rcases ha with rfl | ⟨x, rfl⟩ <;> rcases hb with rfl | ⟨y, rfl⟩
  · exact ⟨_, rfl⟩
  · cases y <;> exact ⟨_, rfl⟩
  · cases x <;> exact ⟨_, rfl⟩
  · cases x <;> cases y <;> exact ⟨_, rfl⟩

/-- **Conjunct splitting**: `σ_{P AND Q}` is `σ_P ∘ σ_Q` (the predicates evaluate to truth values on every row). -/
theorem C03_conjunct_split {q : Query} {ctes : List Table} {env : Env} {rows : Table} (P Q : Expr) (tp tq : Row → Val)
    (hq : run fo fns cat q ctes env = .ok rows)
    (hP : ∀ r ∈ rows, eval (cx0 fo fns) (r :: env) P = .ok (tp r)) (hbP : ∀ r ∈ rows, IsTV (tp r))
    (hQ : ∀ r ∈ rows, eval (cx0 fo fns) (r :: env) Q = .ok (tq r)) (hbQ : ∀ r ∈ rows, IsTV (tq r)) :
    run fo fns cat (.filter [] (.bin .and P Q) q) ctes env = run fo fns cat (.filter [] P (.filter [] Q q)) ctes env := by
  -- right-hand side
  have hQrun := run_filter_ok fo fns cat Q tq hq hQ hbQ
  have hsub : ∀ r ∈ rows.filter (fun r => isTrue (tq r)), r ∈ rows := fun r hr => (List.mem_filter.mp hr).1
  have hR := run_filter_ok fo fns cat P tp hQrun (fun r hr => hP r (hsub r hr)) (fun r hr => hbP r (hsub r hr))
  -- left-hand side: the conjunction evaluates to `and3`
  have hand : ∀ r ∈ rows, ∃ v, eval (cx0 fo fns) (r :: env) (.bin .and P Q) = .ok v ∧ IsTV v ∧ isTrue v = (isTrue (tp r) && isTrue (tq r)) := by
    intro r hr
    obtain ⟨v, hv⟩ := and3_ok (hbP r hr) (hbQ r hr)
    refine ⟨v, ?_, isTrue_and3 (hbP r hr) (hbQ r hr) hv⟩
    simp only [eval, hP r hr, hQ r hr]
    exact hv
  have hL := run_filter_ok fo fns cat (.bin .and P Q) (fun r => if h : r ∈ rows then (hand r h).choose else .null) hq
    (fun r hr => by simp only [hr, dite_true]; exact (hand r hr).choose_spec.1)
    (fun r hr => by simp only [hr, dite_true]; exact (hand r hr).choose_spec.2.1)
  rw [hL, hR, List.filter_filter]
  congr 1
  apply List.filter_congr
  intro r hr
  simp only [hr, dite_true, (hand r hr).choose_spec.2.2]

/-- **Filter push-down through a projection**: `σ_P ∘ π_es = π_es ∘ σ_{P'}` when `P'` on an input row has the truth
    value `P` has on the projected row (`P' = P[es]`). -/
theorem C03_filter_through_project {q : Query} {ctes : List Table} {env : Env} {rows : Table} (es : List Expr) (P P' : Expr)
    (f : Row → Row) (tv : Row → Val)
    (hq : run fo fns cat q ctes env = .ok rows)
    (hes : ∀ r ∈ rows, evalList (cx0 fo fns) (r :: env) es = .ok (f r))
    (hP : ∀ r ∈ rows, eval (cx0 fo fns) (f r :: env) P = .ok (tv (f r)))
    (hP' : ∀ r ∈ rows, eval (cx0 fo fns) (r :: env) P' = .ok (tv (f r)))
    (hb : ∀ r ∈ rows, IsTV (tv (f r))) :
    run fo fns cat (.filter [] P (.project [] es q)) ctes env = run fo fns cat (.project [] es (.filter [] P' q)) ctes env := by
  have hproj := run_project_ok fo fns cat es f hq hes
  have hL := run_filter_ok fo fns cat P tv hproj
    (fun r' hr' => by obtain ⟨r, hr, rfl⟩ := List.mem_map.mp hr'; exact hP r hr)
    (fun r' hr' => by obtain ⟨r, hr, rfl⟩ := List.mem_map.mp hr'; exact hb r hr)
  have hfil := run_filter_ok fo fns cat P' (fun r => tv (f r)) hq hP' hb
  have hR := run_project_ok fo fns cat es f hfil (fun r hr => hes r (List.mem_filter.mp hr).1)
  rw [hL, hR, filter_map_comm]
  rfl

private theorem mem_inner {lw rw : Nat} {m : Row → Row → Bool} {ls rs : Table} {row : Row}
    (h : row ∈ nlJoin .inner lw rw m ls rs) : ∃ a ∈ ls, ∃ b ∈ rs, row = a ++ b := by
  simp only [nlJoin, List.mem_flatMap, List.mem_map, List.mem_filter] at h
  obtain ⟨a, ha, b, ⟨hb, _⟩, rfl⟩ := h
  exact ⟨a, ha, b, hb, rfl⟩

/-- **Filter push-down through an inner join** into the input the predicate reads (here the left one; `tv` gives the
    predicate's truth value on a joined row, which depends on its left part only). -/
theorem C03_filter_through_inner_join {l r : Query} {ctes : List Table} {env : Env} {ls rs : Table}
    (lw rw : Nat) (on P P' : Expr) (m : Row → Row → Bool) (tvJ tvL : Row → Val)
    (hl : run fo fns cat l ctes env = .ok ls) (hr : run fo fns cat r ctes env = .ok rs)
    (hon : ∀ a ∈ ls, ∀ b ∈ rs, onTrue (cx0 fo fns) env on (a ++ b) = .ok (m a b))
    (hP : ∀ a ∈ ls, ∀ b ∈ rs, eval (cx0 fo fns) ((a ++ b) :: env) P = .ok (tvJ (a ++ b)))
    (hdep : ∀ a ∈ ls, ∀ b ∈ rs, tvJ (a ++ b) = tvL a)
    (hP' : ∀ a ∈ ls, eval (cx0 fo fns) (a :: env) P' = .ok (tvL a)) (hb : ∀ a ∈ ls, IsTV (tvL a)) :
    run fo fns cat (.filter [] P (.join .inner lw rw [] on l r)) ctes env
      = run fo fns cat (.join .inner lw rw [] on (.filter [] P' l) r) ctes env := by
  have hjoin := run_join_ok fo fns cat .inner lw rw on m hl hr hon
  have hL := run_filter_ok fo fns cat P tvJ hjoin
    (fun row hrow => by obtain ⟨a, ha, b, hb', rfl⟩ := mem_inner hrow; exact hP a ha b hb')
    (fun row hrow => by obtain ⟨a, ha, b, hb', rfl⟩ := mem_inner hrow; rw [hdep a ha b hb']; exact hb a ha)
  have hfl := run_filter_ok fo fns cat P' tvL hl hP' hb
  have hR := run_join_ok fo fns cat .inner lw rw on m hfl hr (fun a ha b hb' => hon a (List.mem_filter.mp ha).1 b hb')
  rw [hL, hR]
  congr 1
  exact filter_inner_left lw rw m (fun row => isTrue (tvJ row)) (fun a => isTrue (tvL a)) ls rs
    (fun a ha b hb' => by rw [hdep a ha b hb'])

private theorem mem_left {lw rw : Nat} {m : Row → Row → Bool} {ls rs : Table} {row : Row}
    (h : row ∈ nlJoin .left lw rw m ls rs) : ∃ a ∈ ls, ∃ b, row = a ++ b := by
  simp only [nlJoin, List.mem_flatMap] at h
  obtain ⟨a, ha, hrow⟩ := h
  split at hrow
  · simp at hrow; exact ⟨a, ha, _, hrow⟩
  · obtain ⟨b, _, rfl⟩ := List.mem_map.mp hrow; exact ⟨a, ha, b, rfl⟩

/-- **Filter push-down into the preserved side of an outer join** (LEFT JOIN, predicate on the left input): the
    predicate's truth value must depend on the left part only — on the NULL-extended rows too. -/
theorem C03_filter_into_preserved_side {l r : Query} {ctes : List Table} {env : Env} {ls rs : Table}
    (lw rw : Nat) (on P P' : Expr) (m : Row → Row → Bool) (tvJ tvL : Row → Val)
    (hl : run fo fns cat l ctes env = .ok ls) (hr : run fo fns cat r ctes env = .ok rs)
    (hon : ∀ a ∈ ls, ∀ b ∈ rs, onTrue (cx0 fo fns) env on (a ++ b) = .ok (m a b))
    (hP : ∀ a ∈ ls, ∀ b, eval (cx0 fo fns) ((a ++ b) :: env) P = .ok (tvJ (a ++ b)))
    (hdep : ∀ a ∈ ls, ∀ b, tvJ (a ++ b) = tvL a)
    (hP' : ∀ a ∈ ls, eval (cx0 fo fns) (a :: env) P' = .ok (tvL a)) (hb : ∀ a ∈ ls, IsTV (tvL a)) :
    run fo fns cat (.filter [] P (.join .left lw rw [] on l r)) ctes env
      = run fo fns cat (.join .left lw rw [] on (.filter [] P' l) r) ctes env := by
  have hjoin := run_join_ok fo fns cat .left lw rw on m hl hr hon
  have hL := run_filter_ok fo fns cat P tvJ hjoin
    (fun row hrow => by obtain ⟨a, ha, b, rfl⟩ := mem_left hrow; exact hP a ha b)
    (fun row hrow => by obtain ⟨a, ha, b, rfl⟩ := mem_left hrow; rw [hdep a ha b]; exact hb a ha)
  have hfl := run_filter_ok fo fns cat P' tvL hl hP' hb
  have hR := run_join_ok fo fns cat .left lw rw on m hfl hr (fun a ha b hb' => hon a (List.mem_filter.mp ha).1 b hb')
  rw [hL, hR]
  congr 1
  exact filter_left_preserved lw rw m (fun row => isTrue (tvJ row)) (fun a => isTrue (tvL a)) ls rs
    (fun a ha b => by rw [hdep a ha b])

/-- … and NOT into the null-supplying side: filtering the right input of a LEFT JOIN before the join keeps the left
    row (NULL-extended), filtering after the join drops it. -/
theorem C03_filter_not_into_null_side :
    (nlJoin .left 1 1 (fun a b => a == b) [[.int 1]] [[.int 1]]).filter (fun row => row == [.int 1, .int 2])
      ≠ nlJoin .left 1 1 (fun a b => a == b) [[.int 1]] ([[.int 1]].filter (fun b => b == [.int 2])) := by
  decide

/-- **Projection pruning / merging**: two projections collapse into one that computes the composed expressions. -/
theorem C03_project_prune {q : Query} {ctes : List Table} {env : Env} {rows : Table} (es es' es'' : List Expr) (f' g : Row → Row)
    (hq : run fo fns cat q ctes env = .ok rows)
    (hes' : ∀ r ∈ rows, evalList (cx0 fo fns) (r :: env) es' = .ok (f' r))
    (hes : ∀ r ∈ rows, evalList (cx0 fo fns) (f' r :: env) es = .ok (g r))
    (hes'' : ∀ r ∈ rows, evalList (cx0 fo fns) (r :: env) es'' = .ok (g r)) :
    run fo fns cat (.project [] es (.project [] es' q)) ctes env = run fo fns cat (.project [] es'' q) ctes env := by
  have h1 := run_project_ok fo fns cat es' f' hq hes'
  have hL := run_project_ok fo fns cat es (fun r' => match rows.find? (fun r => f' r == r') with | some r => g r | none => []) h1
    (fun r' hr' => by
      obtain ⟨r, hr, rfl⟩ := List.mem_map.mp hr'
      have : ∃ r0, rows.find? (fun x => f' x == f' r) = some r0 ∧ r0 ∈ rows ∧ f' r0 = f' r := by
        cases hf : rows.find? (fun x => f' x == f' r) with
        | none => exact absurd (List.find?_eq_none.mp hf r hr) (by simp)
        | some r0 => exact ⟨r0, rfl, List.mem_of_find?_eq_some hf, by simpa using List.find?_some hf⟩
      obtain ⟨r0, hf, hr0, heq⟩ := this
      simp only [hf]
      rw [← heq]; exact hes r0 hr0)
  have hR := run_project_ok fo fns cat es'' g hq hes''
  rw [hL, hR, List.map_map]
  congr 1
  apply List.map_congr_left
  intro r hr
  simp only [Function.comp]
  cases hf : rows.find? (fun x => f' x == f' r) with
  | none => exact absurd (List.find?_eq_none.mp hf r hr) (by simp)
  | some r0 =>
    have hr0 := List.mem_of_find?_eq_some hf
    have heq : f' r0 = f' r := by simpa using List.find?_some hf
    -- both `g r0` and `g r` are the value of `es` on the same projected row
    have h1 := hes r0 hr0
    have h2 := hes r hr
    rw [heq] at h1
    exact Except.ok.inj (h1.symm.trans h2)

/-- **Inner-join commutativity**: the same bag with the column blocks exchanged (the projection above the join, which
    refers to columns by name, is what puts them back). -/
theorem C03_join_comm {l r : Query} {ctes : List Table} {env : Env} {ls rs : Table}
    (lw rw : Nat) (on on' : Expr) (m : Row → Row → Bool)
    (hl : run fo fns cat l ctes env = .ok ls) (hr : run fo fns cat r ctes env = .ok rs)
    (hon : ∀ a ∈ ls, ∀ b ∈ rs, onTrue (cx0 fo fns) env on (a ++ b) = .ok (m a b))
    (hon' : ∀ b ∈ rs, ∀ a ∈ ls, onTrue (cx0 fo fns) env on' (b ++ a) = .ok (m a b))
    (hw : ∀ b ∈ rs, b.length = rw) :
    ∃ t₁ t₂, run fo fns cat (.join .inner lw rw [] on l r) ctes env = .ok t₁ ∧
             run fo fns cat (.join .inner rw lw [] on' r l) ctes env = .ok t₂ ∧ t₁.Perm (t₂.map (swapCols rw)) :=
  ⟨_, _, run_join_ok fo fns cat .inner lw rw on m hl hr hon,
        run_join_ok fo fns cat .inner rw lw on' (fun b a => m a b) hr hl hon',
        inner_swap lw rw m ls rs hw⟩

/-- **Inner-join associativity with predicate re-attachment** (`C03_join_reassoc`): with `p1` between A and B, `p2`
    between B and C, `p3` between A and C, `(A ⋈_{p1} B) ⋈_{p2 ∧ p3} C` and `A ⋈_{p1 ∧ p3} (B ⋈_{p2} C)` return the
    same rows (in the same order): a predicate may be attached to whichever join is the first to see both of its
    relations — what the DPsize enumerator does when it collects "every edge condition crossing this split". -/
theorem C03_join_reassoc {qa qb qc : Query} {ctes : List Table} {env : Env} {as bs cs : Table}
    (wa wb wc : Nat) (on1 on2 on1' on2' : Expr) (p1 p2 p3 m2 m1 : Row → Row → Bool)
    (ha : run fo fns cat qa ctes env = .ok as) (hb : run fo fns cat qb ctes env = .ok bs) (hc : run fo fns cat qc ctes env = .ok cs)
    (h1 : ∀ a ∈ as, ∀ b ∈ bs, onTrue (cx0 fo fns) env on1 (a ++ b) = .ok (p1 a b))
    (h2 : ∀ ab ∈ nlJoin .inner wa wb p1 as bs, ∀ c ∈ cs, onTrue (cx0 fo fns) env on2 (ab ++ c) = .ok (m2 ab c))
    (h2' : ∀ b ∈ bs, ∀ c ∈ cs, onTrue (cx0 fo fns) env on2' (b ++ c) = .ok (p2 b c))
    (h1' : ∀ a ∈ as, ∀ bc ∈ nlJoin .inner wb wc p2 bs cs, onTrue (cx0 fo fns) env on1' (a ++ bc) = .ok (m1 a bc))
    (hm2 : ∀ a ∈ as, ∀ b ∈ bs, ∀ c ∈ cs, m2 (a ++ b) c = (p2 b c && p3 a c))
    (hm1 : ∀ a ∈ as, ∀ b ∈ bs, ∀ c ∈ cs, m1 a (b ++ c) = (p1 a b && p3 a c)) :
    run fo fns cat (.join .inner (wa + wb) wc [] on2 (.join .inner wa wb [] on1 qa qb) qc) ctes env
      = run fo fns cat (.join .inner wa (wb + wc) [] on1' qa (.join .inner wb wc [] on2' qb qc)) ctes env := by
  have hab := run_join_ok fo fns cat .inner wa wb on1 p1 ha hb h1
  have hL := run_join_ok fo fns cat .inner (wa + wb) wc on2 m2 hab hc h2
  have hbc := run_join_ok fo fns cat .inner wb wc on2' p2 hb hc h2'
  have hR := run_join_ok fo fns cat .inner wa (wb + wc) on1' m1 ha hbc h1'
  rw [hL, hR, inner_reassoc wa wb wc p1 p2 p3 m2 m1 as bs cs hm2 hm1]

/-- **Semi-join push-down below an inner join**: the semi condition reads the left input only. -/
theorem C03_semi_pushdown {l r s : Query} {ctes : List Table} {env : Env} {ls rs ss : Table}
    (lw rw sw : Nat) (on ons ons' : Expr) (m ms msL : Row → Row → Bool)
    (hl : run fo fns cat l ctes env = .ok ls) (hr : run fo fns cat r ctes env = .ok rs) (hs : run fo fns cat s ctes env = .ok ss)
    (hon : ∀ a ∈ ls, ∀ b ∈ rs, onTrue (cx0 fo fns) env on (a ++ b) = .ok (m a b))
    (hons : ∀ ab ∈ nlJoin .inner lw rw m ls rs, ∀ x ∈ ss, onTrue (cx0 fo fns) env ons (ab ++ x) = .ok (ms ab x))
    (hons' : ∀ a ∈ ls, ∀ x ∈ ss, onTrue (cx0 fo fns) env ons' (a ++ x) = .ok (msL a x))
    (hdep : ∀ a ∈ ls, ∀ b ∈ rs, ∀ x, ms (a ++ b) x = msL a x) :
    run fo fns cat (.join .semi (lw + rw) sw [] ons (.join .inner lw rw [] on l r) s) ctes env
      = run fo fns cat (.join .inner lw rw [] on (.join .semi lw sw [] ons' l s) r) ctes env := by
  have hj := run_join_ok fo fns cat .inner lw rw on m hl hr hon
  have hL := run_join_ok fo fns cat .semi (lw + rw) sw ons ms hj hs hons
  have hsl := run_join_ok fo fns cat .semi lw sw ons' msL hl hs hons'
  have hR := run_join_ok fo fns cat .inner lw rw on m hsl hr
    (fun a ha b hb => hon a (by simp only [nlJoin] at ha; exact (List.mem_filter.mp ha).1) b hb)
  rw [hL, hR, semi_below_inner lw rw m ms msL ls rs ss hdep sw sw]

/-- **Anti-join push-down below an inner join.** -/
theorem C03_anti_pushdown {l r s : Query} {ctes : List Table} {env : Env} {ls rs ss : Table}
    (lw rw sw : Nat) (on ons ons' : Expr) (m ms msL : Row → Row → Bool)
    (hl : run fo fns cat l ctes env = .ok ls) (hr : run fo fns cat r ctes env = .ok rs) (hs : run fo fns cat s ctes env = .ok ss)
    (hon : ∀ a ∈ ls, ∀ b ∈ rs, onTrue (cx0 fo fns) env on (a ++ b) = .ok (m a b))
    (hons : ∀ ab ∈ nlJoin .inner lw rw m ls rs, ∀ x ∈ ss, onTrue (cx0 fo fns) env ons (ab ++ x) = .ok (ms ab x))
    (hons' : ∀ a ∈ ls, ∀ x ∈ ss, onTrue (cx0 fo fns) env ons' (a ++ x) = .ok (msL a x))
    (hdep : ∀ a ∈ ls, ∀ b ∈ rs, ∀ x, ms (a ++ b) x = msL a x) :
    run fo fns cat (.join .anti (lw + rw) sw [] ons (.join .inner lw rw [] on l r) s) ctes env
      = run fo fns cat (.join .inner lw rw [] on (.join .anti lw sw [] ons' l s) r) ctes env := by
  have hj := run_join_ok fo fns cat .inner lw rw on m hl hr hon
  have hL := run_join_ok fo fns cat .anti (lw + rw) sw ons ms hj hs hons
  have hsl := run_join_ok fo fns cat .anti lw sw ons' msL hl hs hons'
  have hR := run_join_ok fo fns cat .inner lw rw on m hsl hr
    (fun a ha b hb => hon a (by simp only [nlJoin] at ha; exact (List.mem_filter.mp ha).1) b hb)
  rw [hL, hR, anti_below_inner lw rw m ms msL ls rs ss hdep sw sw]

end rewrites

/-! ### OR factoring (PredicatePushdown::extract_common_or_factors; finding C03-F3) -/

/-- `(C AND R1) OR (C AND R2) = C AND (R1 OR R2)` in SQL's three-valued logic. -/
theorem C03_or_factor (c r1 r2 : Val) (hc : IsTV c) (h1 : IsTV r1) (h2 : IsTV r2) :
    (do Val.or3 (← Val.and3 c r1) (← Val.and3 c r2)) = (do Val.and3 c (← Val.or3 r1 r2)) :=
  or_and_distrib c r1 r2 hc h1 h2

/-- Absorption: a branch that consists of the common conjuncts only makes the whole disjunction equal to them:
    `(A AND B) OR A = A` (also for NULLs). -/
theorem C03_or_absorb (a b : Val) (ha : IsTV a) (hb : IsTV b) : (do Val.or3 (← Val.and3 a b) a) = .ok a :=
  or_and_absorb a b ha hb

/-- The law the unfixed rule applied, `(A AND B) OR A = A AND B`, is false (A true, B false). -/
theorem C03_or_factor_dropping_empty_branch_unsound :
    ¬ ∀ a b : Val, IsTV a → IsTV b → (do Val.or3 (← Val.and3 a b) a) = Val.and3 a b := by
  intro h
  have := h (.bool true) (.bool false) (Or.inr ⟨_, rfl⟩) (Or.inr ⟨_, rfl⟩)
  have h' : (Except.ok (Val.bool true) : Except Err Val) = Except.ok (Val.bool false) := this
  cases h'

/-! ### group-key reduction -/

/-- **Group-key reduction** (`C03_gkr`): if the key `k` is unique over the rows (as SQL values: no two rows agree on
    it — in particular at most one NULL key, which the engine's gate strengthens to "no NULL"), grouping by `k, d…`
    and grouping by `k` alone produce the same groups — every row is a group of its own, in input order — so every
    aggregate sees the same rows and the dependent columns `d…` can be read off the group's only row. -/
theorem C03_gkr (rows : Table) (k d : Row → Row) (n : Nat) (hlen : ∀ r ∈ rows, (k r).length = n)
    (huniq : (rows.map k).Nodup) :
    Spec.groupBy (rows.map fun r => (k r ++ d r, r)) = rows.map (fun r => (k r ++ d r, [r])) ∧
    Spec.groupBy (rows.map fun r => (k r, r)) = rows.map (fun r => (k r, [r])) := by
  have hnd : ∀ (rows : Table), (∀ r ∈ rows, (k r).length = n) → (rows.map k).Nodup → (rows.map fun r => k r ++ d r).Nodup := by
    intro rows hlen huniq
    induction rows with
    | nil => simp
    | cons r rs ih =>
      simp only [List.map_cons, List.nodup_cons] at huniq ⊢
      refine ⟨?_, ih (fun x hx => hlen x (List.mem_cons_of_mem _ hx)) huniq.2⟩
      intro hmem
      obtain ⟨r', hr', heq⟩ := List.mem_map.mp hmem
      have hl : (k r').length = (k r).length := by
        rw [hlen r' (List.mem_cons_of_mem _ hr'), hlen r List.mem_cons_self]
      exact huniq.1 (List.mem_map.mpr ⟨r', hr', (List.append_inj heq hl).1⟩)
  constructor
  · have := groupBy_unique (rows.map fun r => (k r ++ d r, r))
      (by simpa [List.map_map, Function.comp_def] using hnd rows hlen huniq)
    simpa [List.map_map, Function.comp_def] using this
  · have := groupBy_unique (rows.map fun r => (k r, r)) (by simpa [List.map_map, Function.comp_def] using huniq)
    simpa [List.map_map, Function.comp_def] using this

/-- Without uniqueness the reduction is wrong: `k = [1,1,5], d = [10,20,30]` (finding C03-F1, DESIGN A.8) has three
    groups by `(k, d)` and two by `k`. -/
theorem C03_gkr_needs_unique :
    (Spec.groupBy ([[Val.int 1, .int 10], [.int 1, .int 20], [.int 5, .int 30]].map fun r => (r, r))).length = 3 ∧
    (Spec.groupBy ([[Val.int 1, .int 10], [.int 1, .int 20], [.int 5, .int 30]].map fun r => (r.take 1, r))).length = 2 := by
  decide

/-! ### packed keys -/

/-- **`pack a b = a*K + b` is injective** on `0 ≤ b < K` … -/
theorem C03_pack_injective (K a b a' b' : Int) (hb : 0 ≤ b ∧ b < K) (hb' : 0 ≤ b' ∧ b' < K)
    (h : a * K + b = a' * K + b') : a = a' ∧ b = b' :=
  pack_injective K a b a' b' hb hb' h

/-- … and stays in i64 (no wrap-around, so the machine value IS `a*K + b`) when `a ≥ 0`, `b ≥ 0` and
    `max₁*K + max₂ ≤ i64::MAX`. -/
theorem C03_pack_in_i64 (K a b max1 max2 : Int) (hK : 0 ≤ K) (ha : 0 ≤ a ∧ a ≤ max1) (hb : 0 ≤ b ∧ b ≤ max2)
    (hfit : max1 * K + max2 ≤ Rs.I64_MAX) : Rs.I64_MIN ≤ a * K + b ∧ a * K + b ≤ Rs.I64_MAX := by
  have := pack_in_range K a b max1 max2 hK ha hb
  have hmin : Rs.I64_MIN ≤ 0 := by decide
  omega

/-- NULL keys stay NULL: `CAST(NULL)*K + x` and `x*K + CAST(NULL)` are NULL, and an equi-join never matches NULL. -/
theorem C03_pack_null (fo : FloatOps) (K x : Val) :
    (do Val.arith fo .add (← Val.arith fo .mul .null K) x) = .ok .null ∧
    (∀ y, Val.arith fo .mul x K = .ok y → Val.arith fo .add y .null = .ok .null) := by
  constructor
  · cases K <;> cases x <;> rfl
  · intro y _; cases y <;> rfl

/-! ### gate soundness over the translated gates -/

open IQE.Gen.OptGates

/-- The gate of `PackedJoinKeys::try_pack` assembled from the translated pieces.  `lo i / hi i` are the statistics
    bounds of the four key columns in the order of `cols` (first key left, first key right, second key left, second key
    right).  Hand-written here: the loop `bounds.iter().any(|(lo, _)| *lo < 0)` and the sequencing of the pieces. -/
def packJoinGate (lo0 lo1 lo2 lo3 hi0 hi1 hi2 hi3 : Int) : Option Int :=
  if lo0 < 0 ∨ lo1 < 0 ∨ lo2 < 0 ∨ lo3 < 0 then none
  else
    let max2 := pj_max2 hi2 hi3
    match pj_k max2 with
    | none => none
    | some k => if pj_overflow (pj_max1 hi0 hi1) k max2 then none else some k

theorem nextPow2_ge {n K : Int} (h : nextPow2 n = some K) : n ≤ K ∧ 1 ≤ K := by
  unfold nextPow2 at h
  by_cases hn1 : n ≤ 1
  · simp only [hn1, if_true] at h
    have hK : K = 1 := by
      have : (1 : Int) ≤ 18446744073709551615 := by decide
      simp only [this, if_true] at h
      exact (Option.some.inj h).symm
    omega
  · simp only [hn1, if_false] at h
    split at h
    · have hK := (Option.some.inj h).symm
      have hlt := @Nat.lt_log2_self (n.toNat - 1)
      have hn : (n.toNat : Int) = n := Int.toNat_of_nonneg (by omega)
      have hp : (1:Nat) ≤ 2 ^ ((n.toNat - 1).log2 + 1) := Nat.one_le_two_pow
      have hle : n.toNat ≤ 2 ^ ((n.toNat - 1).log2 + 1) := by omega
      have hKeq : K = ((2 ^ ((n.toNat - 1).log2 + 1) : Nat) : Int) := by rw [hK]; rfl
      constructor
      · rw [hKeq, ← hn]; exact_mod_cast hle
      · rw [hKeq]; exact_mod_cast hp
    · cases h

/-- **`C03_pack_gate_sound`**: if the translated gate accepts with modulus `K` and the statistics bounds hold for the
    data (every first-key value lies in `[lo0, hi0]` or `[lo1, hi1]`, every second-key value in `[lo2, hi2]` or
    `[lo3, hi3]`), then for any two key pairs of the data — from either side of the join — the packed values are
    machine-representable and equal only if the pairs are equal: packing neither adds nor loses a join match. -/
theorem C03_pack_gate_sound (lo0 lo1 lo2 lo3 hi0 hi1 hi2 hi3 K : Int)
    (hg : packJoinGate lo0 lo1 lo2 lo3 hi0 hi1 hi2 hi3 = some K)
    (a b a' b' : Int)
    (ha : (lo0 ≤ a ∧ a ≤ hi0) ∨ (lo1 ≤ a ∧ a ≤ hi1)) (hb : (lo2 ≤ b ∧ b ≤ hi2) ∨ (lo3 ≤ b ∧ b ≤ hi3))
    (ha' : (lo0 ≤ a' ∧ a' ≤ hi0) ∨ (lo1 ≤ a' ∧ a' ≤ hi1)) (hb' : (lo2 ≤ b' ∧ b' ≤ hi2) ∨ (lo3 ≤ b' ∧ b' ≤ hi3)) :
    (Rs.I64_MIN ≤ a * K + b ∧ a * K + b ≤ Rs.I64_MAX) ∧ (Rs.I64_MIN ≤ a' * K + b' ∧ a' * K + b' ≤ Rs.I64_MAX) ∧
    (a * K + b = a' * K + b' → a = a' ∧ b = b') := by
  unfold packJoinGate at hg
  split at hg
  · cases hg
  · rename_i hlo
    simp only at hg
    split at hg
    · cases hg
    · rename_i k hk
      split at hg
      · cases hg
      · rename_i hov
        cases hg
        -- facts from the pieces
        obtain ⟨hkge, hk1⟩ := nextPow2_ge (by simpa [pj_k] using hk)
        have hfit : pj_max1 hi0 hi1 * K + pj_max2 hi2 hi3 ≤ Rs.I64_MAX := by
          simp only [pj_overflow, Rs.gt, Rs.Cmp.lt, decide_eq_true_eq, Int.not_lt] at hov
          exact hov
        have hm1 : hi0 ≤ pj_max1 hi0 hi1 ∧ hi1 ≤ pj_max1 hi0 hi1 := by
          simp only [pj_max1, Rs.max]; split <;> omega
        have hm2 : hi2 ≤ pj_max2 hi2 hi3 ∧ hi3 ≤ pj_max2 hi2 hi3 := by
          simp only [pj_max2, Rs.max]; split <;> omega
        have hA : ∀ x, ((lo0 ≤ x ∧ x ≤ hi0) ∨ (lo1 ≤ x ∧ x ≤ hi1)) → 0 ≤ x ∧ x ≤ pj_max1 hi0 hi1 := by
          intro x hx; rcases hx with h | h <;> omega
        have hB : ∀ y, ((lo2 ≤ y ∧ y ≤ hi2) ∨ (lo3 ≤ y ∧ y ≤ hi3)) → 0 ≤ y ∧ y ≤ pj_max2 hi2 hi3 := by
          intro y hy; rcases hy with h | h <;> omega
        have hK0 : 0 ≤ K := by omega
        refine ⟨C03_pack_in_i64 K a b _ _ hK0 (hA a ha) (hB b hb) hfit,
                C03_pack_in_i64 K a' b' _ _ hK0 (hA a' ha') (hB b' hb') hfit, ?_⟩
        intro heq
        have hbK : b < K := by have := (hB b hb).2; omega
        have hbK' : b' < K := by have := (hB b' hb').2; omega
        exact pack_injective K a b a' b' ⟨(hB b hb).1, hbK⟩ ⟨(hB b' hb').1, hbK'⟩ heq

/-- What goes wrong when a bound does NOT hold for the data (finding C03-F2: a derived column `b + 4 AS b` is packed
    with the base column's `K = 4`): different key pairs collide. -/
theorem C03_pack_collides_outside_bounds : (0 : Int) * 4 + 4 = 1 * 4 + 0 ∧ ((0 : Int), (4 : Int)) ≠ (1, 0) := by decide

/-- Statistics are sound bounds of the data: `min ≤ v ≤ max` for every non-NULL value, exact NULL and row counts. -/
structure StatsSound (vals : List (Option Int)) (min max : Int) (null_count row_count : Int) : Prop where
  bounds : ∀ v, some v ∈ vals → min ≤ v ∧ v ≤ max
  nulls : null_count = (vals.filter Option.isNone).length
  rows : row_count = vals.length

/-- **`C03_unique_gate_sound` is FALSE.**  The translated gate `is_unique_key` applied to the translated estimate
    `ndv_est = min(non_null, max − min + 1)` accepts the column `k = [1, 1, 5]` under perfectly sound statistics
    (min 1, max 5, no NULL, 3 rows: `ndv_est = 3 ≥ 3`), and the column is not unique. -/
theorem C03_unique_gate_unsound :
    ¬ ∀ (vals : List (Option Int)) (min max null_count row_count : Int),
        StatsSound vals min max null_count row_count →
        unique_key_gate (some null_count) (ndv_est_int (some min) (some max) (row_count - null_count)) row_count = true →
        vals.Nodup := by
  intro h
  have hs : StatsSound [some 1, some 1, some 5] 1 5 0 3 :=
    ⟨by intro v hv; simp at hv; omega, by decide, by decide⟩
  have := h [some 1, some 1, some 5] 1 5 0 3 hs (by decide)
  exact absurd this (by decide)

/-- The gate IS sound for what it can really conclude: under sound statistics an accepting gate means the column has
    no NULL and its value range is at least as wide as the table is long — necessary for uniqueness, not sufficient. -/
theorem C03_unique_gate_partial (vals : List (Option Int)) (min max null_count row_count : Int)
    (hs : StatsSound vals min max null_count row_count)
    (hg : unique_key_gate (some null_count) (ndv_est_int (some min) (some max) (row_count - null_count)) row_count = true) :
    null_count = 0 ∧ (∀ v ∈ vals, v ≠ none) := by
  have h0 : null_count = 0 := by
    simp only [unique_key_gate, Bool.and_eq_true, beq_iff_eq] at hg
    exact Option.some.inj hg.1
  refine ⟨h0, ?_⟩
  intro v hv hnone
  have hn := hs.nulls
  rw [h0] at hn
  have : v ∈ vals.filter Option.isNone := List.mem_filter.mpr ⟨hv, by simp [hnone]⟩
  have hlen : (vals.filter Option.isNone).length = 0 := by omega
  rw [List.length_eq_zero_iff.mp hlen] at this
  cases this

end IQE.Props.C03
