-- FAMILY: C30
import Driver.Util
import Driver.SqlJson
import IQE.Spec.Schema
open Lean IQE IQE.Spec
namespace Driver.C30

/-!
  C30 — the reported result schema describes the returned rows.
  O (the property, judged on the implementation alone): for a statement that executed, `QueryResult.schema`,
    `physical_plan(sql).schema()`, the schema of every returned batch and the data types of the batches' column arrays agree
    in column count, names and Arrow types (nullability is not compared); with zero batches the first two must still agree.
  K (model vs implementation): the logical types of the reported schema equal `Spec.schemaOf plan` (when the model types the
    plan) and the names equal the aliases the generator wrote (the exactly specifiable part of the binder's naming rule).
-/

def tyOfCol (s : String) : Option Ty :=
  if s == "i64" || s == "i32" then some .int else if s == "f64" then some .f64 else if s == "str" then some .str
  else if s == "date" then some .date else if s == "bool" then some .bool else none

/-- Arrow type name (Display) → logical type of the reference semantics -/
def tyOfArrow (s : String) : Option Ty :=
  if s == "Int64" || s == "Int32" || s == "Int16" || s == "Int8" || s == "UInt64" || s == "UInt32" || s == "UInt16" || s == "UInt8" then some .int
  else if s == "Float64" || s == "Float32" then some .f64
  else if s == "Utf8" || s == "LargeUtf8" || s == "Utf8View" then some .str
  else if s == "Date32" then some .date
  else if s == "Boolean" then some .bool
  else none

def tyName : Ty → String
  | .bool => "bool" | .int => "int" | .f64 => "f64" | .str => "str" | .date => "date"

/-- [[name, type]…] -/
def fieldsOf (j : Json) : Except String (List (String × String)) := do
  (← j.getArr?).toList.mapM fun f => do
    let a ← f.getArr?
    match a.toList with
    | [n, t] => pure (← n.getStr?, ← t.getStr?)
    | _ => throw "bad field"

def catTys (c : Json) : Except String (List (List Ty)) := do
  (← Driver.getArr c "cat").toList.mapM fun t => do
    (← Driver.getArr t "cols").toList.mapM fun col => do
      match tyOfCol (← Driver.getStr col "ty") with
      | some τ => pure τ
      | none => throw "unknown column type"

def handler : Driver.Handler := fun c i => do
  -- raw-stream cases (type-blind statements of the C29 grammar) carry no plan: only O applies to them
  let raw := (c.getObjValAs? String "kind").toOption == some "raw"
  let plan ← if raw then pure (Query.values []) else Driver.SqlJson.queryOfJson (← Driver.getObj c "plan")
  let cat ← if raw then pure [] else catTys c
  let model := if raw then none else schemaOf { cat := cat } plan [] []
  let expNames : List (Option String) :=
    match c.getObjValAs? (Array Json) "names" with
    | .ok a => a.toList.map (fun j => j.getStr?.toOption)
    | .error _ => []
  let modelJson := Json.mkObj [
    ("types", match model with | some ts => Json.arr (ts.map (fun t => Json.str (tyName t))).toArray | none => Json.null),
    ("names", Json.arr (expNames.map (fun n => match n with | some s => Json.str s | none => Json.null)).toArray)]
  let tags0 := match c.getObjValAs? (Array String) "tags" with | .ok a => a.toList | .error _ => []
  if (i.getObjVal? "panic").toOption.isSome then
    -- a panic is C29's business; nothing is reported, so nothing to judge here
    return { model := modelJson, k := true, oracle := none, nt := false, tags := ["status:panic"] ++ tags0 }
  let status ← Driver.getStr i "status"
  if status != "ok" then
    return { model := modelJson, k := true, oracle := none, nt := false, tags := [if status == "err" then "status:err" else "status:crash"] ++ tags0 }
  let result ← fieldsOf (← Driver.getObj i "result")
  let planJ ← Driver.getObj i "plan"
  let planF : Option (List (String × String)) := (fieldsOf planJ).toOption
  let batches ← (← Driver.getArr i "batches").toList.mapM fieldsOf
  let arrays ← (← Driver.getArr i "arrays").toList.mapM (fun a => do (← a.getArr?).toList.mapM (·.getStr?))
  let rtypes := result.map (·.2)
  -- O: the four views agree
  let badBatchNames := batches.any (fun b => b.map (·.1) != result.map (·.1))
  let badBatchTypes := batches.any (fun b => b.map (·.2) != rtypes)
  let badArrays := arrays.any (fun a => a != rtypes)
  let o : Option String :=
    match planF with
    | none => some "physical_plan(sql) failed for a statement that executed"
    | some pf =>
      if pf != result then some s!"QueryResult.schema {result} differs from physical_plan(sql).schema() {pf}"
      else if badBatchTypes then some s!"a returned batch's schema types differ from the reported schema {result}: {batches}"
      else if badArrays then some s!"a returned batch's column arrays {arrays} do not have the reported types {rtypes}"
      else if batches.any (fun b => b.length != result.length) then some "a returned batch has a different column count"
      else if badBatchNames then some s!"a returned batch's column names differ from the reported schema {result.map (·.1)}: {batches.map (fun b => b.map (·.1))}"
      else none
  -- K: reported logical types = schemaOf, reported names = the aliases written
  let implTys := rtypes.map tyOfArrow
  let kTypes := match model with
    | some ts => implTys == ts.map some
    | none => true
  let kNames := expNames.isEmpty || (expNames.length == result.length &&
    (List.zip expNames (result.map (·.1))).all (fun (e, n) => match e with | some s => s == n | none => true))
  let nb := (i.getObjValAs? Nat "nbatches").toOption.getD 0
  -- C30-F4: every disagreeing column is REPORTED as Decimal128(38, 10) and RETURNED as some other Decimal128 (names and the
  -- plan/result agreement are intact); any other O-failure is a new VIOLATION
  let decimalOnly (acts : List String) : Bool :=
    acts.length == rtypes.length && (List.zip rtypes acts).all (fun (r, a) => r == a || (r == "Decimal128(38, 10)" && a.startsWith "Decimal128("))
  let attr : Option String :=
    match o with
    | some _ =>
      if (badBatchTypes || badArrays) && !badBatchNames && planF == some result
         && batches.all (fun b => decimalOnly (b.map (·.2))) && arrays.all decimalOnly then some "C30-F4" else none
    | none => none
  let preDict := (i.getObjValAs? Bool "pre_dict").toOption.getD false
  let tags := ["status:ok", if model.isSome then "model:typed" else "model:none", if nb == 0 then "batches:0" else "batches:some"]
              ++ (if nb > 1 then ["batches>1"] else []) ++ (if preDict then ["dict-batch"] else [])
              ++ (if !kTypes then ["k:types"] else []) ++ (if !kNames then ["k:names"] else []) ++ tags0
  pure { model := modelJson, k := kTypes && kNames, oracle := o, nt := model.isSome || raw, tags := tags, attr := attr }

end Driver.C30
