-- FAMILY: C02
import Driver.Util
import Driver.SqlJson
import Driver.FloatRt
import IQE.Engine.Filter
open Lean IQE IQE.Spec IQE.Engine
namespace Driver.C02

/-
  case : {"schema":[ty…], "rows":[[Val…]…], "expr":Expr, "pred":bool}    (SqlJson wire format; pred = the expression is boolean-typed, i.e. usable as a filter mask)
  impl : {"vals": OUT, "kept": [row index…] | null, "pe": OUT | null, "pe_kept": [..] | null, "compiled": bool}
         OUT = {"ok":[Val…]} | {"err":kind} | {"panic":msg}
         vals    = evaluate_expr(batch, expr) row by row
         kept    = rows that arrow `filter` keeps under that mask (boolean results only)
         pe      = PredicateEvaluator::evaluate(batch) (compiled program when the predicate compiles, boolean results only)
  K      : vals / kept / pe = the model `Engine.Filter` with the switches of the current tree (`Dev.current`; = intended since fix e4c7c04)
  oracle : vals = Spec.eval at every row incl. NULL-ness; kept = {rows where Spec.eval = TRUE}; same for pe
-/

def cx : EvalCtx := { fo := Driver.floatRt, runSub := fun _ _ => .error (.unsupported "no subqueries in this family") }

inductive Out | ok (vs : List Val) | err
deriving DecidableEq

def outOfJson (j : Json) : Except String Out :=
  match j.getObjVal? "ok" with
  | .ok a => do pure (.ok (← (← a.getArr?).toList.mapM Driver.SqlJson.valOfJson))
  | .error _ => pure .err

def outToJson : Out → Json
  | .ok vs => Json.mkObj [("ok", Json.arr (vs.map Driver.SqlJson.valToJson).toArray)]
  | .err => Json.mkObj [("err", "error")]

def allOk : List (Except Err Val) → Out
  | l => match l.mapM (fun x => x.toOption) with | some vs => .ok vs | none => .err

def trueIdx (vs : List Val) : List Nat :=
  ((List.range vs.length).zip vs).filterMap (fun (i, v) => if v = .bool true then some i else none)

def isBoolOut : Out → Bool
  | .ok vs => vs.all Filter.isBoolOrNull
  | .err => false

partial def constructs : Expr → List String
  | .lit .null => ["nulllit"]
  | .lit _ => []
  | .col _ => []
  | .un .not e => "not" :: constructs e
  | .un .neg e => "neg" :: constructs e
  | .un _ e => "isnull" :: constructs e
  | .bin op a b =>
    (match op with
     | .and => "and" | .or => "or" | .like | .notLike => "like" | .concat => "concat"
     | .eq | .ne | .lt | .le | .gt | .ge => "cmp" | _ => "arith") :: (constructs a ++ constructs b)
  | .inList e items _ => "inlist" :: (constructs e ++ items.flatMap constructs)
  | .between e lo hi _ => "between" :: (constructs e ++ constructs lo ++ constructs hi)
  | .case_ arms => "case" :: arms.flatMap constructs
  | .coalesce es => "coalesce" :: es.flatMap constructs
  | .nullif a b => "nullif" :: (constructs a ++ constructs b)
  | _ => ["other"]

partial def depth : Expr → Nat
  | .un _ e => depth e + 1
  | .bin _ a b => max (depth a) (depth b) + 1
  | .inList e items _ => (items.foldl (fun m x => max m (depth x)) (depth e)) + 1
  | .between e lo hi _ => max (depth e) (max (depth lo) (depth hi)) + 1
  | .case_ arms => (arms.foldl (fun m x => max m (depth x)) 0) + 1
  | .coalesce es => (es.foldl (fun m x => max m (depth x)) 0) + 1
  | .nullif a b => max (depth a) (depth b) + 1
  | _ => 0

def natListOfJson (j : Json) : Option (List Nat) :=
  match j with
  | .null => none
  | _ => (Driver.asNatList j).toOption

def handler : Driver.Handler := fun c i => do
  let rows ← Driver.SqlJson.tableOfJson (← Driver.getObj c "rows")
  let e ← Driver.SqlJson.exprOfJson (← Driver.getObj c "expr")
  let implVals ← outOfJson (← Driver.getObj i "vals")
  let implKept := (i.getObjVal? "kept").toOption.bind natListOfJson
  let implPe : Option Out ← match i.getObjVal? "pe" with
    | .ok .null => pure none
    | .ok j => do pure (some (← outOfJson j))
    | .error _ => pure none
  let implPeKept := (i.getObjVal? "pe_kept").toOption.bind natListOfJson
  let compiled := (i.getObjValAs? Bool "compiled").toOption.getD false
  let pred := (c.getObjValAs? Bool "pred").toOption.getD true
  -- models and specification
  let cur := allOk (rows.map (fun r => Filter.eval Filter.Dev.current cx.fo r e))
  let fixed := allOk (rows.map (fun r => Filter.eval Filter.Dev.none cx.fo r e))
  let strict := allOk (rows.map (fun r => Filter.eval Filter.Dev.strict cx.fo r e))
  let spec := allOk (rows.map (fun r => Spec.eval cx [r] e))
  let keptOf : Out → Option (List Nat) := fun o => match o with
    | .ok vs => if pred && vs.all Filter.isBoolOrNull then some (trueIdx vs) else none
    | .err => none
  -- K: behaviour of the unchanged tree = model with the current switches (interpreter and predicate evaluator)
  let kVals := implVals == cur
  let kKept := implKept == keptOf cur
  let kPe := match implPe with | some p => p == cur | none => true
  let kPeKept := match implPe with | some _ => implPeKept == keptOf cur | none => true
  let k := kVals && kKept && kPe && kPeKept
  -- oracle on the implementation's outputs
  let judge (what : String) (vals : Out) (kept : Option (List Nat)) : Option String :=
    match spec, vals with
    | .err, _ => none                                   -- the reference itself raises: engine-defined
    | .ok _, .err => some s!"{what}: error where SQL defines a value"
    | .ok sv, .ok iv =>
      if iv != sv then
        (if iv.length != sv.length then some s!"{what}: wrong number of rows"
         else if (iv.zip sv).any (fun (a, b) => a.isNull != b.isNull) then some s!"{what}: NULL where SQL has a value (or the reverse)"
         else some s!"{what}: value differs from the SQL value")
      else if pred && sv.all Filter.isBoolOrNull && kept != some (trueIdx sv) then some s!"{what}: rows kept differ from the rows where the predicate is TRUE"
      else none
  let o1 := judge "evaluate_expr" implVals implKept
  let o2 := match implPe with | some p => judge "PredicateEvaluator" p implPeKept | none => none
  let oracle := match o1 with | some w => some w | none => o2
  -- finding C02-F1 (null-strict kernels) is fixed (e4c7c04): nothing is attributed; a recurrence is reported as a violation, tagged below
  let attr : Option String := none
  let regressed := oracle.isSome && implVals == strict && fixed != strict
  let cs := (constructs e).eraseDups
  let strictVisible := strict != fixed
  let filterVisible := keptOf strict != keptOf fixed
  let hasNullRow := rows.any (fun r => r.any Val.isNull)
  let nonConst := match spec with | .ok (v :: vs) => vs.any (· != v) | _ => false
  let tags := cs ++ (if compiled then ["compiled"] else ["interpreted"]) ++ (if strictVisible then ["strict-visible"] else [])
    ++ (if filterVisible then ["filter-visible"] else []) ++ (if Filter.conjunctive e then ["conjunctive"] else [])
    ++ (if spec == .err then ["spec-error"] else []) ++ (if regressed then ["C02-F1-regressed"] else []) ++ [s!"depth{min (depth e) 6}"]
  pure { model := outToJson cur, k := k, oracle := oracle, nt := hasNullRow && nonConst, tags := tags, attr := attr }

end Driver.C02
