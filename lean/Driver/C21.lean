-- FAMILY: C21
/-
  Driver.C21.handler — aggregate statements of harness/src/fam_c21.rs (sqlgen case format, mode spec).
    model  = IQE.Engine.Acc.groupAgg with ALL switches off over the recorded path (hash / vectorized / morsel / raw),
             fed with the key / argument values `Spec.eval` computes per input row, then the statement's projection;
    K      = implementation rows = model rows as bags (an engine error or panic never agrees);
    O      = `Spec.acceptable plan tables impl_rows` (Driver.SQL machinery; engine error = failure: `strict_err`);
    attr   = id of the listed finding(s) whose deviation switch(es) make the model reproduce the implementation's
             outcome exactly (rows as a bag, or the refusal error), while the all-off model satisfies the oracle.
             Switch sets are tried smallest first; a case needing several listed switches is reported under the
             first of them.  Findings that cannot be mirrored (C21-F4) use a decidable signature over the case.
-/
import Driver.SqlCore
import IQE.Engine.Acc
open Lean IQE IQE.Spec IQE.Engine.Acc

namespace Driver.C21
open Driver.SQL

/-- every NaN is one value here (which NaN an arithmetic operation yields — e.g. the sign of 0.0/0 — is hardware / engine-defined) -/
def canonNaN (t : Table) : Table :=
  t.map fun r => r.map fun v => match v with
    | .f64 x => if x.isNaN then .f64 F64.nan else v
    | v => v

def bagEq (a b : Table) : Bool :=
  let a := canonNaN a
  let b := canonNaN b
  a.length == b.length && (a.foldl (fun rest r => Spec.removeFirst r rest) b).isEmpty

def colTy (dflt : Ty) (vals : List Val) : Ty :=
  match vals.find? (fun v => !v.isNull) with
  | some v => v.tyOf.getD dflt
  | none => dflt

def tyOfName : String → Ty
  | "f64" => .f64 | "str" => .str | "date" => .date | "bool" => .bool | _ => .int

def pathOf : String → Path
  | "vectorized" => .vectorized
  | "morsel" => .morsel
  | "raw" => .raw
  | "scalar" => .scalar
  | _ => .hash

def cx0 : EvalCtx := { fo := fo, fn := fns, runSub := fun _ _ => .error (.unsupported "subquery") }

/-- (key values, one argument value per aggregate) per input row -/
def keyedOf (keys : List Expr) (aggs : List AggCall) (rows : Table) : Except Err (List (Row × Row)) :=
  rows.mapM fun r => do
    let k ← evalList cx0 [r] keys
    let args ← aggs.mapM fun a => match a.fn with
      | .countStar => pure (Val.bool true)
      | _ => eval cx0 [r] a.arg
    pure (k, args)

/-- the engine model of the statement shapes fam_c21 generates -/
def modelRun (dev : Dev) (p : Path) (xty : Ty) (c : Case) : Except Err Table :=
  match c.plan with
  | .project _ es (.agg keys aggs q) => do
    let rows ← Spec.run fo fns c.tables q [] []
    let keyed ← keyedOf keys aggs rows
    let eaggs : List Agg := ((List.range aggs.length).zip aggs).map fun (j, a) =>
      { fn := a.fn, distinct := a.distinct, ty := colTy xty (keyed.map fun kr => kr.2.getD j .null) }
    let groups ← groupAgg dev fo p eaggs keys.isEmpty keyed
    groups.mapM fun (k, vals) => evalList cx0 [k ++ vals] es
  | .distinct (.project _ es q) => do
    let rows ← Spec.run fo fns c.tables q [] []
    let keyed ← rows.mapM fun r => do pure ((← evalList cx0 [r] es), ([] : Row))
    let groups ← groupAgg dev fo p [] false keyed
    pure (groups.map (·.1))
  | _ => .error (.unsupported "statement shape outside the C21 model")

/-! ### the parallel partial-state path, along the engine's own chunking -/

/-- cut the rows of t0 into its batches -/
def splitBatches (rows : Table) : List Nat → List Table
  | [] => if rows.isEmpty then [] else [rows]
  | n :: ns => rows.take n :: splitBatches (rows.drop n) ns

/-- Rust `slice.chunks(k)` -/
def chunksOf {α} (k : Nat) (l : List α) : List (List α) :=
  let rec go (fuel : Nat) (l : List α) : List (List α) :=
    match fuel with
    | 0 => []
    | fuel + 1 => if l.isEmpty then [] else l.take k :: go fuel (l.drop k)
  if k == 0 then [l] else go l.length l

/-- `aggregate_batches_parallel` (hash_agg.rs 1187): `effective_threads = min(threads, #batches)`, the batches are cut into
    `chunks(ceil(#batches / effective_threads))`, every chunk builds a partial hash table (one accumulator state per group
    and aggregate, groups absent from the chunk have no entry), the partial tables are merged left to right with
    `merge_accumulator_states`.  Model: per group and aggregate `(hash …).run (MTree.comb <args of each chunk that holds the group>)`. -/
def modelRunPar (dev : Dev) (xty : Ty) (c : Case) (cuts : List Nat) (threads : Nat) : Except Err Table :=
  match c.plan, c.tables with
  | .project _ es (.agg keys aggs q), t0 :: rest => do
    let batches := splitBatches t0 cuts
    let eff := min threads batches.length
    let chunkSize := if eff == 0 then 1 else (batches.length + eff - 1) / eff
    let chunks := chunksOf chunkSize batches
    -- rows of every chunk after the statement's WHERE (evaluated batch by batch, as the engine does)
    let keyedChunks ← chunks.mapM fun ch => do
      let parts ← ch.mapM fun b => do
        let rows ← Spec.run fo fns (b :: rest) q [] []
        keyedOf keys aggs rows
      pure parts.flatten
    let all := keyedChunks.flatten
    let eaggs : List Agg := ((List.range aggs.length).zip aggs).map fun (j, a) =>
      { fn := a.fn, distinct := a.distinct, ty := colTy xty (all.map fun kr => kr.2.getD j .null) }
    let groupKeys : List Row := if keys.isEmpty then [[]] else (Spec.groupBy all).map (·.1)
    groupKeys.mapM fun k => do
      let perChunk : List Table := (keyedChunks.map fun ch => (ch.filter fun kr => kr.1 == k).map (·.2)).filter (fun l => !l.isEmpty)
      let vals := ((List.range eaggs.length).zip eaggs).map fun (j, a) =>
        (hash dev fo a).run (MTree.comb (perChunk.map fun rows => rows.map fun (r : Row) => r.getD j .null))
      evalList cx0 [k ++ vals] es
  | _, _ => .error (.unsupported "statement shape outside the C21 parallel model")

/-- listed findings with a deviation switch: (id, switch setter, needs the error outcome?) -/
def switches : List (String × (Dev → Dev)) :=
  -- repaired in /repo and therefore no attribution targets any more: F1 sumDistinctEmptyZero (2b108eb), F5 denseRefusesNullKeys
  -- (4efd9ed), F8 NULL key = -1 (16c594a), F9 scalarMinMaxSentinel (988d68a), F10 qualifiedSumIntNull (ace82a4)
  [ ("C21-F2", fun d => { d with emptyAggNullKeysUngrouped := true }),
    ("C21-F3", fun d => { d with nullKeyEmptyAccDropped := true }) ]   -- F6 rawSumNoSeenBit repaired by 6f0d3ea

/-- non-empty sublists, smallest first -/
def subsets {α} : List α → List (List α)
  | [] => [[]]
  | x :: xs => let r := subsets xs; r ++ r.map (x :: ·)
/-- `pqQualified`: the statement runs over Parquet and spells a column `t0.x` (the only situation F10 applies to) -/
def switchSets (pqQualified : Bool) : List (List (String × (Dev → Dev))) :=
  let sw := switches.filter fun s => pqQualified || s.1 != "C21-F10"
  ((subsets sw).filter (fun s => !s.isEmpty && s.length ≤ 3)).mergeSort (fun a b => a.length ≤ b.length)

def sameOutcome (o : Outcome) (msg : String) (m : Except Err Table) : Bool :=
  match o, m with
  | .ok out, .ok t => bagEq out (normTable t)
  | .err _, .error (.unsupported w) => w.length > 0 && (msg.splitOn w).length > 1
  | _, _ => false

/-- MIN / MAX over an INTEGER (i32) column is "not implemented" on the in-memory aggregate (C21-F7): an error, never a
    wrong answer; signature = error message + a MIN/MAX aggregate in the statement -/
def sigMinMaxI32 (c : Case) (o : Outcome) (msg : String) : Bool :=
  match c.plan, o with
  | .project _ _ (.agg _ aggs _), .err _ =>
    aggs.any (fun a => a.fn == .min || a.fn == .max || a.fn == .avg || a.fn == .sum) &&
      ((msg.splitOn "with type Int32 not supported").length > 1 || (msg.splitOn "not implemented for type Int32").length > 1)
  | _, _ => false

/-- dense-direct SUM over a BIGINT column named with a qualified column fails "expected Float64" (C21-F10) -/
def sigDenseF64 (o : Outcome) (msg : String) : Bool :=
  match o with
  | .err _ => decide ((msg.splitOn "dense agg: expected Float64").length > 1)
  | _ => false

/-- key values of the input rows of a grouped / DISTINCT statement -/
def inputKeys (c : Case) : Except Err (List Row × Nat) :=
  match c.plan with
  | .project _ _ (.agg keys aggs q) => do
    let rows ← Spec.run fo fns c.tables q [] []
    pure ((← keyedOf keys aggs rows).map (·.1), aggs.length)
  | .distinct (.project _ es q) => do
    let rows ← Spec.run fo fns c.tables q [] []
    pure ((← rows.mapM fun r => evalList cx0 [r] es), 0)
  | _ => .error (.unsupported "shape")

/-- the table with every NULL of the key columns (1 and 2 of t0) replaced by the fresh value fam_c21 uses -/
def neutralTables (c : Case) (cat : Json) : List Table :=
  let tyAt (i : Nat) : String :=
    match cat.getArrVal? 0 with
    | .ok t0 => (match t0.getObjVal? "cols" with
        | .ok cols => (match cols.getArrVal? i with | .ok cj => (cj.getObjValAs? String "ty").toOption.getD "i64" | .error _ => "i64")
        | .error _ => "i64")
    | .error _ => "i64"
  let fresh (ty : String) : Val := match ty with
    | "str" => .str "zzz9" | "date" => .date 28261 | "f64" => .f64 (Driver.SQL.fo.ofInt 7777) | "bool" => .bool true | _ => .int 7777
  match c.tables with
  | t0 :: rest =>
    (t0.map fun r => r.mapIdx fun i v => if (i == 1 || i == 2) && v.isNull then fresh (tyAt i) else v) :: rest
  | [] => []

/-- is every aggregate value of this output row "empty" (NULL, or a COUNT of 0)?  `nk` = number of key columns -/
def emptyAggRow (nk : Nat) (r : Row) : Bool := (r.drop nk).all fun v => v.isNull || v == .int 0

/-- Signature of "groups whose accumulators all stayed empty are dropped" (C21-F3; occupancy of a perfect-hash slot is
    inferred from the key values / the accumulators, morsel_agg.rs `slot_has_data`, merge and rehash): every row the
    implementation returned is a row of the reference answer, and every missing row carries only empty aggregates. -/
def sigEmptyAccDropped (nk : Nat) (out ref : Table) : Bool :=
  let rest := out.foldl (fun acc r => Spec.removeFirst r acc) ref
  out.length + rest.length == ref.length && !rest.isEmpty && rest.all (emptyAggRow nk)

def acceptableOn (tables : List Table) (c : Case) (out : Table) : Bool :=
  match Spec.acceptable fo fns tables c.plan out with | .ok true => true | _ => false

/-- Signature + neutraliser attribution (DESIGN §3.4) of the NULL-grouping-key findings of the perfect-hash / raw-key
    aggregation state (src/physical/morsel_agg.rs): the case is grouped, some input row has a NULL key component, and the
    engine answers the neutralised twin (NULL keys replaced by a fresh value) correctly — or wrongly only by the
    empty-accumulator signature above.  Which finding:
      F4  ≥ 2 keys and a row whose keys are ALL NULL (the slot of an all-NULL composite key counts as free: rows lost);
      F8  an integer / date key column holds both NULL and -1 (raw key u64::MAX = -1);
      F3  otherwise (NULL-key group dropped / split). -/
def sigNullKeys (c : Case) (o : Outcome) (neutral : Option Outcome) (cat : Json) : Option String :=
  match o, neutral, inputKeys c with
  | .ok _, some (.ok nout), .ok (ks, _) =>
    let hasNull := ks.any keyHasNull
    let nt := neutralTables c cat
    let nk := (ks.head?.map (·.length)).getD 0
    let nOk := acceptableOn nt c nout ||
      (match Spec.run fo fns nt c.plan [] [] with
       | .ok nref => sigEmptyAccDropped nk nout (normTable nref)
       | .error _ => false)
    if !(hasNull && nOk) then none else
    if nk ≥ 2 && ks.any keyAllNull then some "C21-F4" else some "C21-F3"
  | _, _, _ => none

def attrC21 (path : Path) (xty : Ty) (msg : String) (neutral : Option Outcome) (cat : Json) (pqQualified : Bool) : AttrFn :=
  fun c o spec =>
  -- the model with all switches off must itself be a correct answer
  let okOff : Bool := match modelRun {} path xty c with
    | .ok t => acceptableOn c.tables c (normTable t)
    | .error _ => false
  if !okOff then none else
  match (switchSets pqQualified).find? (fun s => sameOutcome o msg (modelRun (s.foldl (fun d sw => sw.2 d) {}) path xty c)) with
  | some (sw :: _) => some sw.1
  | _ =>
    if sigMinMaxI32 c o msg then some "C21-F7"
    else match sigNullKeys c o neutral cat with
    | some f => some f
    | none =>
      match o, spec, inputKeys c with
      | .ok out, .ok ref, .ok (ks, _) =>
        if sigEmptyAccDropped ((ks.head?.map (·.length)).getD 0) out ref then some "C21-F3" else none
      | _, _, _ => none

def handler : Driver.Handler := fun cj i => do
  let msg := (i.getObjValAs? String "msg").toOption.getD ""
  let cmeta := (cj.getObjVal? "c21").toOption.getD Json.null
  let pathS := (cmeta.getObjValAs? String "path").toOption.getD "hash"
  let xty := tyOfName ((cmeta.getObjValAs? String "xty").toOption.getD "i64")
  let path := pathOf pathS
  let neutral : Option Outcome := match i.getObjVal? "neutral" with
    | .ok nj => (outcomeOfJson nj).toOption
    | .error _ => none
  let cat := (cj.getObjVal? "cat").toOption.getD Json.null
  -- engine errors on these plain aggregate statements are failures of the property
  let cj := cj.setObjVal! "strict_err" (Json.bool true)
  let cfgS := (cj.getObjValAs? String "cfg").toOption.getD ""
  let sqlS := (cj.getObjValAs? String "sql").toOption.getD ""
  let pqQualified := cfgS.startsWith "pq" && (sqlS.splitOn "t0.").length > 1
  let v ← handlerWith (attrC21 path xty msg neutral cat pqQualified) cj i
  let c ← caseOfJson cj
  let o ← outcomeOfJson i
  let cuts : List Nat := match cat.getArrVal? 0 with
    | .ok t0 => (match t0.getObjValAs? (List Nat) "cuts" with | .ok l => l | .error _ => [])
    | .error _ => []
  let threads := (cmeta.getObjValAs? Nat "threads").toOption.getD 4
  let m := if pathS == "parallel" then modelRunPar {} xty c cuts threads else modelRun {} path xty c
  let k := match m, o with
    | .ok t, .ok out => bagEq out (normTable t)
    | .error _, _ => true          -- Spec-level error (overflow …): K not applicable, the case is skipped by O as well
    | .ok _, _ => false
  pure { v with model := specJson (m.map normTable), k := k, tags := v.tags ++ [s!"model:{pathS}"],
                attr := if v.oracle.isSome || !k then v.attr else none }

end Driver.C21
