-- FAMILY: Fn
/-
  C36 driver: evaluates the documented meaning (IQE.Spec.Fn) and the engine model (specification + the listed
  deviations of IQE.Engine.FnDev) on the arguments of each case and judges the engine's result rows.
    k      : engine = engine model (specification with the known deviations switched on)
    oracle : engine = documented value; for law cases additionally / instead the law itself on the ENGINE's outputs
    attr   : a failing case is attributed to finding F only if every row equals the engine model AND
             the deviating rows are all explained by entries of that one finding
-/
import Driver.Util
import IQE.Engine.FnDev
open Lean IQE.Spec.Fn IQE.Engine.FnDev
namespace Driver.Fn

def vOfJson (j : Json) : Except String V :=
  match j with
  | .null => pure .null
  | _ =>
    if let .ok b := j.getObjValAs? Bool "b" then pure (.bool b)
    else if let .ok i := j.getObjValAs? Int "i" then pure (.int i)
    else if let .ok s := j.getObjValAs? String "s" then pure (.str s.toList)
    else if let .ok d := j.getObjValAs? Int "d" then pure (.date d)
    else if let .ok n := j.getObjValAs? Nat "f" then pure (.f64 n)
    else if let .ok x := j.getObjVal? "x" then do pure (.bytes (← Driver.asBytes x))
    else throw s!"bad value {j.compress}"

def vToJson : V → Json
  | .null => .null
  | .bool b => Json.mkObj [("b", b)]
  | .int i => Json.mkObj [("i", Json.num (JsonNumber.fromInt i))]
  | .str s => Json.mkObj [("s", String.ofList s)]
  | .date d => Json.mkObj [("d", Json.num (JsonNumber.fromInt d))]
  | .f64 n => Json.mkObj [("f", Json.num (JsonNumber.fromNat n))]
  | .bytes b => Json.mkObj [("x", Driver.jBytes b)]

partial def eOfJson (j : Json) : Except String E := do
  if let .ok k := j.getObjValAs? Nat "arg" then return .arg k
  if let .ok v := j.getObjVal? "k" then return .const (← vOfJson v)
  let f ← j.getObjValAs? String "f"
  let a ← j.getObjValAs? (Array Json) "a"
  return .app f (← a.toList.mapM eOfJson)

/-- engine model: like `Spec.Fn.eval`, but a function with a deviation entry computes what the engine computes;
    also returns the ids of the entries that were consulted and changed the value.  `row0` is row 0 of the batch:
    the arms that read a "constant" argument from row 0 see the value the argument EXPRESSION has there. -/
partial def evalEngine (nrows : Nat) (lit : List Bool) (row0 row : List V) : E → Option (EOut × List String)
  | .arg j => (row[j]?).map (fun v => (.val v, []))
  | .const v => some (.val v, [])
  | .app f as => do
    let rs ← as.mapM (evalEngine nrows lit row0 row)
    let ids := (rs.map (·.2)).flatten
    if rs.any (fun r => r.1 == .panic) then return (.panic, ids)
    if rs.any (fun r => r.1 == .err) then return (.err, ids)
    let vs := rs.filterMap (fun r => match r.1 with | .val v => some v | _ => none)
    -- the same argument expressions evaluated on row 0 (NULL if they fail there)
    let vs0 := as.map (fun a => match evalEngine nrows lit row0 row0 a with | some (.val v, _) => v | _ => .null)
    let flags := as.map (fun a => match a with | .const _ => true | .arg j => lit.getD j false | .app _ _ => false)
    let ctx : Ctx := { nrows := nrows, lit := flags, row0 := vs0 }
    let spec := call f vs
    match devCall ctx f vs with
    | some (id, e) => if spec.map ofOut == some e then return (e, ids) else return (e, id :: ids)
    | none => match spec with
      | some o => return (ofOut o, ids)
      | none => none

def eoutToJson : EOut → Json
  | .val v => Json.mkObj [("v", vToJson v)]
  | .err => Json.str "err"
  | .panic => Json.str "panic"

/-- numerically equal: a float result that is exactly the documented integer is accepted (result *types* are C30's business) -/
def f64IsInt (bits : Nat) (i : Int) : Bool :=
  let x := Float.ofBits bits.toUInt64
  x == Float.ofInt i && i.natAbs < 2 ^ 53
def vEq (a b : V) : Bool :=
  match a, b with
  | .f64 n, .int i => f64IsInt n i
  | .int i, .f64 n => f64IsInt n i
  | a, b => a == b

inductive Impl | rows (r : List V) | err | panic | bad (m : String)

def implOfJson (i : Json) : Impl :=
  if (i.getObjVal? "panic").isOk then .panic
  else if (i.getObjVal? "err").isOk then .err
  else match i.getObjValAs? (Array Json) "rows" with
    | .ok a => match a.toList.mapM vOfJson with
      | .ok vs => .rows vs
      | .error e => .bad e
    | .error e => .bad e

/-- expected whole-query outcome from per-row outcomes: a raising / panicking row fails the query -/
def combine (rs : List EOut) : EOut ⊕ List V :=
  if rs.any (· == .panic) then .inl .panic
  else if rs.any (· == .err) then .inl .err
  else .inr (rs.filterMap (fun r => match r with | .val v => some v | _ => none))

def agrees (exp : EOut ⊕ List V) (imp : Impl) : Bool :=
  match exp, imp with
  | .inl .panic, .panic => true
  | .inl .err, .err => true
  | .inr vs, .rows ws => vs.length == ws.length && (vs.zip ws).all (fun p => vEq p.1 p.2)
  | _, _ => false

def handler : Driver.Handler := fun c i => do
  let tag ← Driver.getStr c "fn"
  let e ← eOfJson (← Driver.getObj c "e")
  let rowsJ ← Driver.getArr c "rows"
  let rows ← rowsJ.toList.mapM (fun r => do (← r.getArr?).toList.mapM vOfJson)
  let lit := ((c.getObjValAs? (Array Json) "lit").toOption.getD #[]).toList.map (fun j => j.getBool?.toOption.getD false)
  let law := (c.getObjValAs? String "law").toOption
  let row0 := rows.headD []
  let imp := implOfJson i
  match imp with
  | .bad m => throw s!"bad impl: {m}"
  | _ => pure ()
  let e2 : Option E ← match c.getObjVal? "e2" with
    | .ok j => if j.isNull then pure none else (do pure (some (← eOfJson j)))
    | .error _ => pure none
  let imp2 : Option Impl := match i.getObjVal? "second" with | .ok j => some (implOfJson j) | .error _ => none
  -- documented values
  let specRows := rows.map (fun r => eval r e)
  let spec2Rows := match e2 with | some x => rows.map (fun r => eval r x) | none => []
  if specRows.any Option.isNone || spec2Rows.any Option.isNone then
    -- outside the claim (excluded input class): nothing is judged, the case does not count
    return { model := Json.str "unclaimed", k := true, oracle := none, nt := false, tags := [tag ++ ":unclaimed"] }
  let spec := combine (specRows.filterMap (fun o => o.map ofOut))
  let engRows := rows.map (fun r => evalEngine rows.length lit row0 r e)
  let eng : EOut ⊕ List V := combine (engRows.filterMap (fun o => o.map (·.1)))
  let eng2Rows := match e2 with | some x => rows.map (fun r => evalEngine rows.length lit row0 r x) | none => []
  let eng2 : EOut ⊕ List V := combine (eng2Rows.filterMap (fun o => o.map (·.1)))
  let ids := ((((engRows ++ eng2Rows).filterMap (fun o => o.map (·.2))).flatten)).eraseDups
  let specOk := agrees spec imp
  let kOk := agrees eng imp && (match e2, imp2 with | some _, some i2 => agrees eng2 i2 | some _, none => false | none, _ => true)
  -- laws on the engine's own output (independent of the model)
  let lawFail : Option String :=
    match law with
    | some "eq" =>
      (match imp, imp2 with
       | .rows a, some (.rows b) => if a.length == b.length && (a.zip b).all (fun p => vEq p.1 p.2) then none else some "the two sides of the law differ on the engine"
       | .err, some .err => none
       | _, _ => some "the two sides of the law end differently on the engine (value / error / panic)")
    | some l =>
      if l.startsWith "id" then
        let k := (l.drop 2).toNat!
        (match imp with
         | .rows ws =>
           -- rows where another argument is NULL are not judged (the law is about non-NULL parameters)
           let judged := (rows.zip ws).filter (fun p => !((p.1.zipIdx).any (fun q => q.2 != k && q.1.isNull)))
           if rows.length == ws.length && judged.all (fun p => vEq (p.1.getD k .null) p.2) then none else some "round trip / involution does not return its argument"
         | .err => some "round trip / involution raised"
         | .panic => some "round trip / involution panicked"
         | .bad _ => some "bad impl")
      else none
    | none => none
  let oracle : Option String :=
    match lawFail with
    | some w => some w
    | none => if law.isSome || specOk then none else some s!"{tag}: result differs from the documented value"
  -- a law case whose engine values differ from the documented ones without breaking the law is a K matter only
  let kFinal := kOk
  let attr : Option String :=
    if (oracle.isSome || !specOk) && kOk then (match ids with | [id] => some id | _ => none) else none
  let modelJ := match spec with
    | .inl o => eoutToJson o
    | .inr vs => Json.arr (vs.map vToJson).toArray
  let nt := match spec with | .inr vs => vs.any (fun v => !v.isNull) | _ => true
  let mode := if lit.all id then "lit" else if lit.any id then "mixed" else "col"
  let outTag := match spec with | .inl _ => "raises" | .inr vs => if vs.any V.isNull then "null" else "value"
  pure { model := modelJ, k := kFinal, oracle := oracle, nt := nt, tags := [tag, "mode:" ++ mode, "out:" ++ outTag], attr := attr }

end Driver.Fn
