-- FAMILY: C40
import Driver.Util
import IQE.Engine.CliOutput
import IQE.Spec.Csv
import IQE.Spec.JsonTable
open Lean IQE.Engine IQE.Engine.CliOutput
namespace Driver.C40

/-- Switches of the findings that are still open in /repo: the model K is run against.
    C40-F1..F5 were repaired by /repo commit 18209de (`fix: CLI CSV output quotes CR and header names; JSON output
    escapes …`), so no switch is on any more; output that does not read back is a VIOLATION again. -/
def current : Dev := Dev.fixed

/-- finding id ↦ switch (a function that turns exactly that switch on) -/
def csvFindings : List (String × (Dev → Dev)) :=
  [("C40-F1", fun d => { d with csvCrUnquoted := true }), ("C40-F2", fun d => { d with csvRawHeader := true })]
def jsonFindings : List (String × (Dev → Dev)) :=
  [("C40-F3", fun d => { d with jsonRawControl := true }), ("C40-F4", fun d => { d with jsonRawNames := true }),
   ("C40-F5", fun d => { d with jsonRawNonFinite := true })]

/-- all sub-lists, shortest first within each length class is not needed: we sort by length afterwards -/
def sublists {α} : List α → List (List α)
  | [] => [[]]
  | a :: t => let r := sublists t; r ++ r.map (a :: ·)

def asChars (j : Json) : Except String (List Char) := do
  let l ← Driver.asNatList j
  pure (l.map Char.ofNat)

def jChars (l : List Char) : Json := Json.arr (l.map (fun c => Json.num (JsonNumber.fromNat c.toNat))).toArray

def parseCell (j : Json) : Except String Cell :=
  match j.getObjVal? "n", j.getObjVal? "s", j.getObjVal? "i", j.getObjVal? "b", j.getObjVal? "f" with
  | .ok _, _, _, _, _ => pure .null
  | _, .ok s, _, _, _ => do pure (.str (← asChars s))
  | _, _, .ok i, _, _ => do pure (.int (← i.getStr?).toList)
  | _, _, _, .ok b, _ => do pure (.bool (← b.getBool?))
  | _, _, _, _, .ok f => do pure (.float (← f.getStr?).toList)
  | _, _, _, _, _ => throw "unrecognised cell"

open IQE.Spec.JsonTable in
/-- the JSON value a cell stands for -/
def cellScalar : Cell → Option Scalar
  | .null => some .null
  | .str s => some (.str s)
  | .bool b => some (.bool b)
  | .int t => match number t with
    | some (v, []) => some v
    | _ => none
  | .float t =>
    if nonFinite t then some .null          -- JSON has no NaN / Infinity: `null` (the serde_json convention)
    else match number t with
      | some (v, []) => some v
      | _ => none

def optAll {α} : List (Option α) → Option (List α)
  | [] => some []
  | none :: _ => none
  | some a :: t => (optAll t).map (a :: ·)

/-- the property predicate on the text the implementation printed; `none` = holds -/
def oracle (fmt : String) (noBatches : Bool) (names : List (List Char)) (rows : List (List Cell)) (out : Option (List Char)) : Option String :=
  match out with
  | none => some "the writer panicked"
  | some out =>
    if fmt == "csv" then
      if noBatches then none     -- nothing is printed for an empty batch list; outside the statement
      else
        let expected := names :: rows.map (·.map csvText)
        match IQE.Spec.Csv.parse out with
        | none => some "CSV output is not RFC 4180"
        | some recs => if recs == expected then none else some "CSV output parses to different header/cells"
    else
      match optAll (rows.map (fun row => optAll (List.zipWith (fun n c => (cellScalar c).map (fun v => (n, v))) names row))) with
      | none => some "harness: a numeric cell text is not a JSON number"
      | some expected =>
        match IQE.Spec.JsonTable.parse out with
        | none => some "JSON output is not valid JSON (array of flat objects)"
        | some got => if got == expected then none else some "JSON output parses to different names/values"

def handler : Driver.Handler := fun c i => do
  let fmt ← Driver.getStr c "fmt"
  let names ← (← Driver.getArr c "names").toList.mapM asChars
  let rowsJ ← Driver.getArr c "rows"
  let rows ← rowsJ.toList.mapM (fun r => do (← r.getArr?).toList.mapM parseCell)
  let batches ← Driver.asNatList (← Driver.getObj c "batches")
  let noBatches := batches.isEmpty
  let imp : Option (List Char) ← (match i.getObjVal? "out" with
    | .ok o => do pure (some (← asChars o))
    | .error _ => pure none)
  let isCsv := fmt == "csv"
  let render (d : Dev) : List Char := if isCsv then renderCsv d noBatches names rows else renderJson d noBatches names rows
  let m := render current
  let k := some m == imp
  let o := oracle fmt noBatches names rows imp
  -- attribution: the smallest set of still-open switches that reproduces the output exactly, provided the
  -- intended writers (all switches off) satisfy the oracle on this case
  let cands := (if isCsv then csvFindings else jsonFindings).filter (fun (_, f) => f Dev.fixed != Dev.fixed && (f current == current))
  let attr : Option String :=
    if o.isNone && k then none
    else if (oracle fmt noBatches names rows (some (render Dev.fixed))).isSome then none
    else
      let subs := ((sublists cands).filter (fun s => !s.isEmpty)).mergeSort (fun a b => a.length ≤ b.length)
      match subs.find? (fun s => some (render (s.foldl (fun d (_, f) => f d) Dev.fixed)) == imp) with
      | some ((id, _) :: _) => some id
      | _ => none
  let hasNull := rows.any (·.any (· == .null))
  let special := rows.any (·.any (fun c => match c with
    | .str s => s.any (fun ch => ch == ',' || ch == '"' || ch == '\n' || ch == '\r' || ch == '\\' || ch.toNat < 0x20)
    | _ => false))
  -- a single string (cell or column name) that needs CSV quoting / JSON escaping AND contains a non-ASCII character
  let needs (ch : Char) : Bool :=
    if isCsv then ch == ',' || ch == '"' || ch == '\n' || ch == '\r' else ch == '"' || ch == '\\' || ch.toNat < 0x20
  let mixed (t : List Char) : Bool := t.any needs && t.any (fun ch => ch.toNat > 127)
  let escUtf8 := names.any mixed || rows.any (·.any (fun c => match c with | .str t => mixed t | _ => false))
  let tags := [fmt] ++ (if escUtf8 then ["esc+utf8", s!"{fmt}:esc+utf8"] else []) ++ (if noBatches then ["no-batches"] else []) ++ (if rows.isEmpty then ["no-rows"] else [])
    ++ (if hasNull then ["null"] else []) ++ (if special then ["special-chars"] else []) ++ (if batches.length > 1 then ["multi-batch"] else [])
    ++ (match attr with | some a => [s!"attr:{a}"] | none => [])
  pure { model := jChars m, k := k, oracle := o, nt := !rows.isEmpty, tags := tags, attr := attr }

end Driver.C40
