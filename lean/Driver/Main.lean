import Driver.Util
import Driver.C42

def families : List (String × Driver.Handler) :=
  [ ("C42", Driver.C42.handler) ]

def main (args : List String) : IO UInt32 := do
  match args with
  | [fam] =>
    match families.lookup fam with
    | some h => Driver.loop (← IO.getStdin) (← IO.getStdout) h; pure 0
    | none => IO.eprintln s!"unknown family {fam}"; pure 2
  | _ => IO.eprintln "usage: iqe-driver <family>"; pure 2
