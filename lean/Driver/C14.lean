-- FAMILY: C14
import Driver.Util
import Driver.C11
import IQE.Engine.Shard
open Lean IQE.Engine IQE.Engine.SplitEnum IQE.Engine.Shard
namespace Driver.C14

def parseFiles (j : Json) : Except String (List FileMeta × List (List Nat)) := do
  let arr ← j.getArr?
  let fs ← arr.toList.mapM Driver.C11.parseFile
  let rows ← arr.toList.mapM fun f => do Driver.asNatList (← Driver.getObj f "rows")
  pure (fs, rows)

/-- first key of row group `g` of the file called `name` (keys are handed out file by file, row group by row group) -/
def keyBase (files : List FileMeta) (rows : List (List Nat)) (name : List UInt8) (g : Nat) : Option Nat :=
  let rec go : List FileMeta → List (List Nat) → Nat → Option Nat
    | f :: fs, r :: rs, acc => if f.name == name then some (acc + (r.take g).sum) else go fs rs (acc + r.sum)
    | _, _, _ => none
  go files rows 0

def keysOf (files : List FileMeta) (rows : List (List Nat)) (owned : List Split) : List Nat :=
  (owned.flatMap fun s =>
    match keyBase files rows s.file s.rowGroup with
    | some b => (List.range s.numRows.toNat).map (fun i => b + s.rowOffset.toNat + i)
    | none => []).mergeSort (fun a b => a ≤ b)

def sortedNoDup : List Nat → Bool
  | a :: b :: rest => a < b && sortedNoDup (b :: rest)
  | _ => true

def errName : FragErr → String
  | .tableNotFound => "table_not_found"
  | .enumerate .footer => "footer"
  | .enumerate .duplicateName => "duplicate_name"
  | .digestMismatch => "digest_mismatch"
  | .shardIndexOutOfRange => "shard_index"

def canon (fs : List FileMeta) : List (List UInt8 × List (Int × Int)) :=
  (fs.map fun f => (f.name, (f.footer.getD []).map fun rg => (rg.rows, rg.bytes))).mergeSort
    (fun a b => (compare a.1 b.1).isLE)

def handler : Driver.Handler := fun c i => do
  let tableS ← Driver.getStr c "table"
  let table := tableS.toUTF8.toList
  let count ← Driver.getNat c "count"
  let index ← Driver.getNat c "index"
  let mutation ← Driver.getStr c "mutation"
  let (initF, _) ← parseFiles (← Driver.getObj c "init")
  let workJ ← Driver.getObj c "work"
  let work : Option (List FileMeta × List (List Nat)) ← match workJ with
    | .null => pure none
    | j => do pure (some (← parseFiles j))
  let cur : Dev := { dupNames := true }
  let initDigestImpl : Option Nat := (i.getObjValAs? String "init_digest").toOption.map String.toNat!
  let sent := (← Driver.getStr i "sent_digest").toNat!
  let initModel := (enumerate cur table initF count).toOption.map (·.digest.toNat)
  let req : FragmentReq := { table := table, shardIndex := index, shardCount := count, digest := UInt64.ofNat sent }
  let m := fragment cur req (work.map (·.1))
  let out ← Driver.getObj i "out"
  let N := max count 1
  -- implementation outcome
  let implRan : Option (Nat × Int × Nat × List Nat) :=
    match out.getObjVal? "ran" with
    | .ok r => (do
        let b ← (r.getObjValAs? Nat "bytes").toOption
        let rw ← (r.getObjValAs? Int "rows").toOption
        let sp ← (r.getObjValAs? Nat "splits").toOption
        let ks ← (r.getObjVal? "keys").toOption >>= fun k => (Driver.asNatList k).toOption
        pure (b, rw, sp, ks))
    | .error _ => none
  let implErr : Option String := (out.getObjValAs? String "err").toOption
  -- K: same outcome; when it ran: same stats and exactly the keys of the model's owned splits
  let (k, mj) : Bool × Json :=
    match m, work with
    | .ran owned, some (wf, wr) =>
      let eb := (owned.map (·.bytes)).sum
      let er := (owned.map (·.numRows)).sum
      let ek := keysOf wf wr owned
      (implRan == some (eb, er, owned.length, ek) && initDigestImpl == initModel,
       Json.mkObj [("ran", Json.mkObj [("bytes", eb), ("rows", Json.num (JsonNumber.fromInt er)), ("splits", owned.length), ("keys", Driver.jNatList ek)])])
    | .ran _, none => (false, Json.mkObj [("ran", "?")])
    | .err e, _ => (implErr == some (errName e) && initDigestImpl == initModel, Json.mkObj [("err", errName e)])
  -- O: on the implementation's outcome, from the two copies' contents only
  let same := match work with | some (wf, _) => canon wf == canon initF | none => false
  let sentOk := initDigestImpl == some sent
  let allKeys : Nat := match work with | some (_, wr) => (wr.map List.sum).sum | none => 0
  let o : Option String :=
    if work.isNone then (if implErr.isSome then none else some "answered although the table is not registered")
    else if !same then (if implErr.isSome then none else some s!"worker copy differs ({mutation}) but the fragment answered")
    else if !sentOk then (if implErr.isSome then none else some "digest differs but the fragment answered")
    else if index ≥ N then (if implErr.isSome then none else some "shard index out of range but the fragment answered")
    else match implRan with
      | none => some s!"equal copies, index in range, but the fragment failed ({implErr.getD "?"})"
      | some (_, rw, _, ks) =>
        if !sortedNoDup ks then some "a row was returned twice"
        else if ks.any (· ≥ allKeys) then some "a row that is not in the table was returned"
        else if rw != (ks.length : Int) then some "reported shard rows differ from the rows returned"
        else none
  let tags := [s!"mut:{mutation}", match implErr with | some e => s!"err:{e}" | none => "ran"] ++
    (if index ≥ N then ["index-out"] else []) ++ (if count == 0 then ["count0"] else []) ++
    (if same && sentOk && index < N then ["should-run"] else ["should-refuse"])
  pure { model := mj, k := k, oracle := o, nt := (initF.length ≥ 1 && N ≥ 2), tags := tags }

end Driver.C14
