-- FAMILY: C07
/-
  Driver.C07 — answers do not depend on parallelism, batching or scheduling (harness/src/fam_c07.rs).

  kind "scan"  : `SELECT id FROM big` over ids 0..n cut into the given batches, planned with `threads` rayon threads.
                 model = IQE.Engine.Partition.{scanOutputPartitions, scanExecute} (declared count + ids per partition);
                 K = same declared count and same id lists;
                 O (on the implementation's output only) = at least one partition is declared, every declared partition
                     executes, partition `declared` is rejected, and the partitions together hold every id exactly once.
  kind "ojoin" : LEFT/RIGHT/FULL join of two (id,k) tables; every declared partition of the physical plan executed
                 concurrently (three repetitions) plus `ctx.sql`.
                 model = reference outer join (NULL keys never match; preserved side NULL-extended once per unmatched row);
                 K = the union of the partitions equals the model in every repetition;
                 O = every declared partition executes, and all repetitions' unions and `ctx.sql` are the same bag
                     (in particular the unmatched preserved rows come out exactly once however the partitions interleave).
  kind "tracker": `a FULL JOIN b` with every declared partition on its own OS thread and the `fetch_add`s of the shared match
                 tracker serialised in a generated order through the yield points of proposed hook-hashjoin.
                 model = for either choice of build side: probe partitions by IQE.Engine.Partition.scanExecute, the match sets
                         per partition, IQE.Engine.Tracker.runSchedule under the forced order (all publishes, then the
                         `fetch_add`s in that order) — the last partition of the order emits `unmatched`;
                 K = the implementation's per-partition outputs equal the model's for one choice of build side (with the hook
                     absent: for some choice of last finisher);
                 O = every partition executes, the union of the partitions is the reference FULL join (unmatched build rows
                     exactly once) and equals ctx.sql; with the hook present additionally: every partition passed the counter
                     exactly once, in the forced order, and the NULL-extended rows of one side all sit in the partition that
                     incremented last.
  kind "sql"   : one generated statement under layouts × thread counts × per-partition execution (meta mode of sqlgen); stratum
                 `s:aggcut`: hand-written aggregate statements over one small table with NULL runs, as one batch and re-cut into
                 1,2,3,5,6,7,10,12 batches under 1 and 4 rayon threads (partial-aggregation merge, C07_merge_order).
                 O = no panic, "succeeds in one configuration ⇒ succeeds in all", and every configuration gives the same
                     answer up to the freedom `Spec.sameAnswer` leaves.  No executable reference (tables are ≥1000 rows; the
                     naive reference semantics is quadratic) — K = O.
                 Attribution: none.  The three defects this family found are fixed in /repo (C07-F1 partition-0-only callers
                 b96001d; scalar MIN/MAX sentinel 988d68a; C07-F2 = C21-F8 NULL group key merged into key -1, 16c594a) and
                 suppress nothing; a failing case that has the shape of one of them is only tagged `looks_like:…` (for F2 the
                 harness still adds the runs with integer NULLs replaced, which makes the tag precise).
-/
import Driver.Util
import Driver.Sql
import IQE.Engine.Partition
import IQE.Engine.Tracker
open Lean IQE IQE.Spec IQE.Engine.Partition

namespace Driver.C07

/-! ### kind scan -/

/-- the OS refused the process another thread (EAGAIN from `std::thread::spawn` / rayon / tokio under a loaded machine or an
    exhausted pid limit): an environment failure of the run, not a behaviour of the engine — the case is not judged -/
def isEnvPanic (m : String) : Bool := (m.splitOn "failed to spawn thread").length > 1

def idBatches (cuts : List Nat) : List (List Nat) :=
  (cuts.foldl (fun (acc : List (List Nat) × Nat) n => (acc.1 ++ [(List.range n).map (· + acc.2)], acc.2 + n)) ([], 0)).1

def natLe (a b : Nat) : Bool := a ≤ b

def handleScan (c i : Json) : Except String Driver.Verdict := do
  let threads ← Driver.getNat c "threads"
  let cuts ← Driver.asNatList (← Driver.getObj c "cuts")
  let total := cuts.sum
  let batches := idBatches cuts
  let n := scanOutputPartitions threads cuts
  let mparts := (List.range n).map (fun p => (scanExecute (max n 1) p batches).flatten)
  let model := Json.mkObj [("declared", Json.num (JsonNumber.fromNat n)), ("parts", Json.arr (mparts.map Driver.jNatList).toArray)]
  if let .ok m := i.getObjValAs? String "panic" then
    if isEnvPanic m then return { model := model, k := true, oracle := none, nt := false, tags := ["scan", "env:thread-exhaustion"] }
    return { model := model, k := false, oracle := some s!"engine panicked: {m.take 120}", tags := ["scan", "scan:panic"] }
  if let .ok m := i.getObjValAs? String "err" then
    return { model := model, k := false, oracle := some s!"planning the scan failed: {m.take 120}", tags := ["scan", "scan:err"] }
  let declared ← Driver.getNat i "declared"
  let partsJ ← Driver.getArr i "parts"
  let beyond ← Driver.getStr i "beyond"
  let parts : List (Option (List Nat)) := partsJ.toList.map (fun j => (Driver.asNatList j).toOption)
  let okParts := parts.filterMap id
  let o : Option String :=
    if declared == 0 then some "no partition declared"
    else if okParts.length != parts.length then some "a declared partition could not be executed"
    else if parts.length != declared then some "declared partitions were not all executed"
    else if beyond != "err" then some s!"partition {declared} (= output_partitions) was accepted: {beyond}"
    else if (okParts.flatten.mergeSort natLe) != List.range total then some "the declared partitions do not hold every row exactly once"
    else none
  pure { model := model, k := (declared == n && okParts == mparts && okParts.length == parts.length), oracle := o,
         nt := total ≥ 1000 && declared ≥ 2,
         tags := ["scan", if declared ≥ 2 then "scan:multi" else "scan:single", s!"threads:{threads}"] }

/-! ### kind ojoin -/

abbrev Pair := Option Int × Option Int

/-- a nullable integer: a bare JSON number (case side) or sqlgen's `{"i": n}` (implementation side) -/
def optInt (j : Json) : Option Int :=
  match j with
  | .null => none
  | _ => match j.getObjValAs? Int "i" with
    | .ok v => some v
    | .error _ => j.getInt?.toOption

def pairsOf (j : Json) : Except String (List Pair) := do
  (← j.getArr?).toList.mapM fun r => do
    let a ← r.getArr?
    pure (optInt (a.getD 0 .null), optInt (a.getD 1 .null))

def optLe : Option Int → Option Int → Bool
  | none, _ => true
  | some _, none => false
  | some a, some b => a ≤ b
def pairLe (a b : Pair) : Bool := if a.1 == b.1 then optLe a.2 b.2 else optLe a.1 b.1
def sortPairs (l : List Pair) : List Pair := l.mergeSort pairLe

/-- reference outer join of a(id,k) and b(id,k) on a.k = b.k, output (a.id, b.id) -/
def refJoin (as bs : List Pair) (preserveA preserveB : Bool) : List Pair :=
  let keyEq (x y : Option Int) : Bool := match x, y with | some u, some v => u == v | _, _ => false
  let inner := as.flatMap fun a => (bs.filter fun b => keyEq a.2 b.2).map fun b => (a.1, b.1)
  let ua := if preserveA then (as.filter fun a => !(bs.any fun b => keyEq a.2 b.2)).map fun a => (a.1, (none : Option Int)) else []
  let ub := if preserveB then (bs.filter fun b => !(as.any fun a => keyEq a.2 b.2)).map fun b => ((none : Option Int), b.1) else []
  inner ++ ua ++ ub

def jPairs (l : List Pair) : Json :=
  let oj (x : Option Int) : Json := match x with | some v => Json.num (JsonNumber.fromInt v) | none => .null
  Json.arr (l.map fun p => Json.arr #[oj p.1, oj p.2]).toArray

def handleOjoin (c i : Json) : Except String Driver.Verdict := do
  let jt ← Driver.getStr c "jt"
  let swap := (Driver.getBool c "swap").toOption.getD false
  let as ← pairsOf (← Driver.getObj c "build")
  let bs ← pairsOf (← Driver.getObj c "probe")
  let preserveA := jt == "full" || (jt == "left" && !swap) || (jt == "right" && swap)
  let preserveB := jt == "full" || (jt == "left" && swap) || (jt == "right" && !swap)
  let m := sortPairs (refJoin as bs preserveA preserveB)
  -- the model is shipped as its size + a digest-free summary: the rows themselves can be large
  let model := Json.mkObj [("rows", Json.num (JsonNumber.fromNat m.length))]
  let tags0 := ["ojoin", s!"ojoin:{jt}"]
  if let .ok msg := i.getObjValAs? String "panic" then
    if isEnvPanic msg then return { model := model, k := true, oracle := none, nt := false, tags := tags0 ++ ["env:thread-exhaustion"] }
    return { model := model, k := false, oracle := some s!"engine panicked: {msg.take 120}", tags := tags0 ++ ["ojoin:panic"] }
  if let .ok msg := i.getObjValAs? String "err" then
    return { model := model, k := false, oracle := some s!"the join failed: {msg.take 120}", tags := tags0 ++ ["ojoin:err"] }
  let reps ← Driver.getArr i "reps"
  let fullJ ← Driver.getObj i "full"
  let full? := (pairsOf fullJ).toOption.map sortPairs
  let mut unions : List (List Pair) := []
  let mut bad : Option String := none
  let mut maxDecl := 0
  let mut oneHolder := true
  for r in reps.toList do
    let declared ← Driver.getNat r "declared"
    maxDecl := max maxDecl declared
    let partsJ ← Driver.getArr r "parts"
    let parts := partsJ.toList.map (fun j => (pairsOf j).toOption)
    if parts.any Option.isNone then bad := some "a declared partition of the join could not be executed"
    if parts.length != declared then bad := some "declared partitions were not all executed"
    let ps := parts.filterMap id
    unions := unions ++ [sortPairs ps.flatten]
    -- how many partitions hold NULL-extended rows (tag only: which side is the build side is the planner's choice)
    let holders := (ps.filter fun p => p.any fun x => x.1.isNone || x.2.isNone).length
    if holders > 1 then oneHolder := false
  let o : Option String :=
    match bad with
    | some w => some w
    | none =>
      match full? with
      | none => some "ctx.sql failed on the statement whose partitions execute"
      | some full =>
        if unions.all (· == full) then none
        else some s!"the union of the individually executed partitions differs from ctx.sql / between repetitions (sizes {unions.map List.length} vs {full.length})"
  let k := unions.all (· == m) && full? == some m
  let hasUnmatched := m.any fun x => x.1.isNone || x.2.isNone
  pure { model := model, k := k, oracle := o, nt := maxDecl ≥ 2 && hasUnmatched,
         tags := tags0 ++ [if maxDecl ≥ 2 then "ojoin:multi" else "ojoin:single",
                           if hasUnmatched then (if oneHolder then "ojoin:unmatched_in_one_partition" else "ojoin:unmatched_spread") else "ojoin:no_unmatched"] }

/-! ### kind tracker -/

def keyEq (x y : Option Int) : Bool := match x, y with | some u, some v => u == v | _, _ => false

def cutList {α : Type} : List Nat → List α → List (List α)
  | [], _ => []
  | n :: ns, l => l.take n :: cutList ns (l.drop n)

def natListLe (a b : Nat × Nat) : Bool := if a.1 == b.1 then a.2 ≤ b.2 else a.1 ≤ b.1

/-- expected output of every partition when `build` is the build side, `probe` (cut into `pcuts` batches) the probe side
    over `n` partitions and partition `last` increments the counter last.  `flip` = build is `b` (output columns are (a.id, b.id)). -/
def trackerModel (build probe : List Pair) (pcuts : List Nat) (n : Nat) (order : List Nat) (flip : Bool) : List (List Pair) :=
  let batches := cutList pcuts probe
  let pparts : List (List Pair) := (List.range n).map fun p => (scanExecute (max n 1) p batches).flatten
  let out (bId pId : Option Int) : Pair := if flip then (pId, bId) else (bId, pId)
  -- match sets: indices of build rows matched by partition p
  let ms : List (List Nat) := pparts.map fun rows =>
    (List.range build.length).filter fun i => match build[i]? with | some br => rows.any (fun pr => keyEq br.2 pr.2) | none => false
  -- the protocol: every partition publishes, then the counter is incremented in the forced order
  let sched := (List.range n).flatMap (fun p => List.replicate ((ms.getD p []).length) p) ++ order ++
               List.replicate (build.length + 2) (order.getLast?.getD 0)
  let fin := IQE.Engine.Tracker.runSchedule (IQE.Engine.Tracker.init build.length ms) sched
  (List.range n).map fun p =>
    let rows := pparts.getD p []
    let inner := rows.flatMap fun pr => (build.filter fun br => keyEq br.2 pr.2).map fun br => out br.1 pr.1
    let up := (rows.filter fun pr => !(build.any fun br => keyEq br.2 pr.2)).map fun pr => out none pr.1
    let ub := match fin.pcs[p]? with
      | some (.finished (some l)) => l.filterMap fun i => (build[i]?).map fun br => out br.1 none
      | _ => []
    sortPairs (inner ++ up ++ ub)

def handleTracker (c i : Json) : Except String Driver.Verdict := do
  let as ← pairsOf (← Driver.getObj c "a")
  let bs ← pairsOf (← Driver.getObj c "b")
  let acuts ← Driver.asNatList (← Driver.getObj c "acuts")
  let bcuts ← Driver.asNatList (← Driver.getObj c "bcuts")
  let mode := (Driver.getStr c "mode").toOption.getD "incr"
  let m := sortPairs (refJoin as bs true true)
  let model := Json.mkObj [("rows", Json.num (JsonNumber.fromNat m.length))]
  let tags0 := ["tracker", s!"tracker:{mode}"]
  if let .ok msg := i.getObjValAs? String "panic" then
    if isEnvPanic msg then return { model := model, k := true, oracle := none, nt := false, tags := tags0 ++ ["env:thread-exhaustion"] }
    return { model := model, k := false, oracle := some s!"engine panicked: {msg.take 120}", tags := tags0 ++ ["tracker:panic"] }
  if let .ok msg := i.getObjValAs? String "err" then
    return { model := model, k := false, oracle := some s!"the join failed: {msg.take 120}", tags := tags0 ++ ["tracker:err"] }
  let declared ← Driver.getNat i "declared"
  let partsJ ← Driver.getArr i "parts"
  let parts := partsJ.toList.map (fun j => (pairsOf j).toOption.map sortPairs)
  let order ← Driver.asNatList (← Driver.getObj i "order")
  let hook := (Driver.getBool i "hook").toOption.getD false
  let timeouts := (Driver.getNat i "timeouts").toOption.getD 0
  let logJ ← Driver.getArr i "log"
  let log : List (Nat × Nat) := logJ.toList.filterMap fun e => match e.getArr? with
    | .ok a => some ((a.getD 0 .null).getNat?.toOption.getD 0, (a.getD 1 .null).getNat?.toOption.getD 0)
    | .error _ => none
  let full? := (pairsOf (← Driver.getObj i "full")).toOption.map sortPairs
  let okParts := parts.filterMap id
  let union := sortPairs okParts.flatten
  let incrOrder := (log.filter fun e => e.1 == 22).map (·.2)      -- order in which the partitions left the fetch_add
  let lastP := incrOrder.getLast?
  let nullA (p : Pair) : Bool := p.1.isNone
  let nullB (p : Pair) : Bool := p.2.isNone
  let sideInLast (isNull : Pair → Bool) : Bool := match lastP with
    | some l => (List.range okParts.length).all fun p => p == l || !((okParts.getD p []).any isNull)
    | none => true
  let o : Option String :=
    if okParts.length != parts.length then some "a declared partition of the join could not be executed"
    else if parts.length != declared || declared == 0 then some "declared partitions were not all executed"
    else if union != m then some s!"the partitions together are not the FULL join: {union.length} rows, reference {m.length} (an unmatched build row missing or emitted twice?)"
    else if full? != some m then some "ctx.sql differs from the union of the partitions"
    else if hook && timeouts == 0 && incrOrder.mergeSort natLe != List.range declared then some s!"partitions did not each pass the counter exactly once: {incrOrder}"
    else if hook && timeouts == 0 && incrOrder != order then some s!"the forced order {order} was not followed: {incrOrder}"
    else if hook && timeouts == 0 && !(sideInLast nullA || sideInLast nullB) then
      some s!"unmatched build rows were not emitted by the partition that incremented the counter last ({lastP})"
    else none
  -- K: per-partition outputs against the model, for either build side; without the hook for any last finisher
  let candidates (build probe : List Pair) (pcuts : List Nat) (flip : Bool) : Bool :=
    let orders : List (List Nat) :=
      if hook && timeouts == 0 then [order] else (List.range declared).map fun l => ((List.range declared).filter (· != l)) ++ [l]
    orders.any fun ord => trackerModel build probe pcuts declared ord flip == okParts
  let k := okParts.length == parts.length && (candidates as bs bcuts false || candidates bs as acuts true)
  let hasUnmatched := m.any fun x => x.1.isNone || x.2.isNone
  pure { model := model, k := k, oracle := o, nt := declared ≥ 2 && hasUnmatched,
         tags := tags0 ++ [if hook then "tracker:hook" else "tracker:hook_absent", if declared ≥ 2 then "tracker:multi" else "tracker:single"]
                 ++ (if timeouts > 0 then ["tracker:sched_timeout"] else []) }

/-! ### kind sql -/

mutual
partial def usesSubplan : Query → Bool
  | .scan _ | .cteRef _ | .values _ => false
  | .filter subs _ q | .project subs _ q => !subs.isEmpty || usesSubplan q
  | .join _ _ _ subs _ l r => !subs.isEmpty || usesSubplan l || usesSubplan r
  | .agg _ _ q | .groupingSets _ _ _ q | .distinct q | .sort _ q | .limit _ _ q | .window _ q => usesSubplan q
  | .setop _ _ l r => usesSubplan l || usesSubplan r
  | .withCte _ _ => true
end

/-- the plan groups rows by a key somewhere (GROUP BY / DISTINCT / GROUPING SETS / a de-duplicating set operation) -/
partial def hasGrouping : Query → Bool
  | .scan _ | .cteRef _ | .values _ => false
  | .filter subs _ q | .project subs _ q => subs.any hasGrouping || hasGrouping q
  | .join _ _ _ subs _ l r => subs.any hasGrouping || hasGrouping l || hasGrouping r
  | .agg keys _ q => !keys.isEmpty || hasGrouping q
  | .groupingSets _ _ _ _ => true
  | .distinct _ => true
  | .sort _ q | .limit _ _ q | .window _ q => hasGrouping q
  | .setop _ all l r => !all || hasGrouping l || hasGrouping r
  | .withCte defs body => defs.any hasGrouping || hasGrouping body

/-- the plan holds an aggregate without GROUP BY that computes MIN or MAX -/
partial def hasGlobalMinMax : Query → Bool
  | .scan _ | .cteRef _ | .values _ => false
  | .filter subs _ q | .project subs _ q => subs.any hasGlobalMinMax || hasGlobalMinMax q
  | .join _ _ _ subs _ l r => subs.any hasGlobalMinMax || hasGlobalMinMax l || hasGlobalMinMax r
  | .agg keys aggs q => (keys.isEmpty && aggs.any fun a => a.fn == .min || a.fn == .max) || hasGlobalMinMax q
  | .groupingSets _ _ _ q | .distinct q | .sort _ q | .limit _ _ q | .window _ q => hasGlobalMinMax q
  | .setop _ _ l r => hasGlobalMinMax l || hasGlobalMinMax r
  | .withCte defs body => defs.any hasGlobalMinMax || hasGlobalMinMax body

/-- all scans are single-partition in this configuration: one batch per table, or one rayon thread -/
def singlePartitionCfg (name : String) : Bool := name.startsWith "mem1@" || (name.splitOn "@t1w").length > 1

def layoutOf (name : String) : String := (name.splitOn "@").headD name

def tablesEq (a b : Table) : Bool := a == b

def handleSql (c i : Json) : Except String Driver.Verdict := do
  let cs ← Driver.SQL.caseOfJson c
  let runsJ ← Driver.getObj i "runs"
  let runs ← match runsJ with
    | .obj kv => kv.toList.mapM (fun (k, v) => do pure (k, ← Driver.SQL.outcomeOfJson v))
    | _ => throw "runs is not an object"
  let declMax : Nat := match i.getObjVal? "decl" with
    | .ok (.obj kv) => kv.toList.foldl (fun m (_, v) => max m (v.getNat?.toOption.getD 0)) 0
    | _ => 0
  -- some table reaches the multi-partition rule of MemoryTableExec (>= 1000 rows in >= 2 batches) under memb or rk
  let recut := (Driver.getNat c "recut").toOption.getD 1
  let multiScan : Bool := match c.getObjValAs? (Array Json) "cat" with
    | .ok metas => (metas.toList.zip cs.tables).any fun (m, t) =>
        t.length ≥ 1000 && (recut ≥ 2 || (match m.getObjValAs? (Array Json) "cuts" with | .ok a => a.size ≥ 2 | .error _ => false))
    | .error _ => false
  let oks := runs.filterMap fun (k, o) => match o with | .ok t => some (k, t) | _ => none
  let panics := runs.filterMap fun (k, o) => match o with | .panic m => if isEnvPanic m then none else some s!"{k}: {m.take 100}" | _ => none
  let errs := runs.filterMap fun (k, o) => match o with | .err "timeout" => none | .err e => some s!"{k}: {e}" | _ => none
  -- reference configuration: single batch, one thread (if it answered), else the first answer
  let ref? : Option (String × Table) :=
    match oks.find? (fun (k, _) => k.startsWith "mem1@t1w") with
    | some r => some r
    | none => oks.head?
  let same (t0 t : Table) : Bool :=
    tablesEq t0 t || (match Spec.sameAnswer Driver.SQL.fo Driver.SQL.fns cs.plan t0 t with | .ok b => b | .error _ => true)
  let differing : List String := match ref? with
    | none => []
    | some (_, t0) => oks.filterMap fun (k, t) => if same t0 t then none else some k
  let ofail : Option String :=
    if !panics.isEmpty then some s!"engine panicked under {panics.head!}"
    else if !oks.isEmpty && !errs.isEmpty then some s!"succeeds under {oks.head!.1} but fails under {errs.head!}"
    else match ref?, differing with
      | some (k0, t0), k :: _ =>
        let t := (oks.find? (fun x => x.1 == k)).map (·.2) |>.getD []
        some s!"configurations {k0} and {k} disagree ({differing.length} of {oks.length} differ from the reference): {Driver.SQL.diffSummary t t0}"
      | _, _ => none
  let sig := usesSubplan cs.plan
  let clean := ofail.isSome && panics.isEmpty && errs.isEmpty && !differing.isEmpty
  -- C07-F1: only multi-partition configurations deviate and the plan routes a subplan through a partition-0-only caller
  let f1 := clean && sig && differing.all (fun k => !singlePartitionCfg k) && (oks.any fun (k, _) => singlePartitionCfg k)
  -- C07-F3 (= C21-F9): the answers split exactly along "every table is ONE batch" vs "some table has several batches",
  -- each class agrees internally, and the plan holds a global MIN/MAX
  let isMem1 (k : String) : Bool := k.startsWith "mem1@"
  let classAgrees (cls : List (String × Table)) : Bool := match cls with
    | [] => true
    | (_, t0) :: rest => rest.all fun (_, t) => same t0 t
  let f3 := clean && hasGlobalMinMax cs.plan && differing.all (fun k => !isMem1 k)
            && (oks.filter fun (k, _) => !isMem1 k).all (fun (k, _) => differing.contains k)
            && classAgrees (oks.filter fun (k, _) => isMem1 k) && classAgrees (oks.filter fun (k, _) => !isMem1 k)
  -- C07-F2 (= C21-F8): the plan groups by a key, some integer column holds NULL and -1 (the harness then adds the
  -- neutralised runs), and with the NULLs of integer columns replaced by a fresh value every configuration agrees
  let neutralOk : Bool := match i.getObjVal? "neutral" with
    | .ok nj => match nj.getObjVal? "no_int_null" with
      | .ok (.obj kv) =>
        let ns := kv.toList.filterMap fun (_, v) => match Driver.SQL.outcomeOfJson v with | .ok (.ok t) => some t | _ => none
        ns.length == kv.toList.length && (match ns with | [] => false | t0 :: rest => rest.all fun t => same t0 t)
      | _ => false
    | .error _ => false
  let f2 := clean && hasGrouping cs.plan && neutralOk
  -- C07-F1 (fixed by b96001d) and the scalar MIN/MAX sentinel (C21-F9, fixed by 988d68a) suppress nothing any more: a case
  -- with their signature is a new VIOLATION.  `f1` / `f3` only label it.
  -- C07-F2 (= C21-F8, fixed by 16c594a) suppresses nothing either.  No finding of C07 is open: nothing is attributed.
  let attr : Option String := none
  let diffTags := (differing.map fun k => s!"diff:{layoutOf k}").eraseDups
                  ++ (if f1 then ["looks_like:C07-F1"] else []) ++ (if f3 then ["looks_like:C21-F9"] else [])
                  ++ (if f2 then ["looks_like:C07-F2"] else [])
  let nonEmpty := oks.any fun (_, t) => !t.isEmpty
  let tags := ["sql", if multiScan then "sql:multi" else "sql:single", if declMax ≥ 2 then "sql:root_multi" else "sql:root_single", if sig then "sql:subplan" else "sql:plain",
               Driver.SQL.topShape cs.plan, if errs.isEmpty then "sql:answered" else "sql:err"]
              ++ cs.tags ++ diffTags ++ (if nonEmpty then [] else ["empty_result"])
  pure { model := Json.null, k := ofail.isNone, oracle := ofail, nt := oks.length ≥ 2 && (multiScan || cs.tags.contains "s:aggcut") && nonEmpty,
         tags := tags, attr := attr }

def handler : Driver.Handler := fun c i => do
  let kind ← Driver.getStr c "kind"
  if kind == "scan" then handleScan c i
  else if kind == "ojoin" then handleOjoin c i
  else if kind == "tracker" then handleTracker c i
  else if kind == "sql" then handleSql c i
  else throw s!"unknown kind {kind}"

end Driver.C07
