-- FAMILY: SQLC27
/-
  Driver.SQLC27.handler — C27 (GROUPING SETS / ROLLUP / CUBE): `Driver.SqlCore` (O = `Spec.acceptable` on the engine's rows) plus
  * K-side tie of the desugaring model: `Spec.run` of the plan with every grouping-sets node replaced by the binder's
    UNION ALL of Project-over-Aggregate branches (`Engine.GroupingSets.desugarPlan`) must be the same bag as `Spec.run`
    of the plan (tags `desugar:agree|disagree`; a disagreement breaks K);
  * shape tags: number of keys / sets, an empty set present, real NULL keys in the data (`null_key_data`), GROUPING projected;
  * attribution (DESIGN §3.4, signature + neutraliser): C27-F1 = the NULL-key defects inherited from C21 — a WRONG ANSWER over
    tables that contain NULLs whose `nonull`-neutralised variant (every NULL cell replaced by a fresh value; shipped by the
    harness as `impl.neutral_nonull`) passes the oracle on the real engine.
-/
import Driver.SqlCore
import IQE.Engine.GroupingSets
open Lean IQE IQE.Spec IQE.Engine.GroupingSets Driver.SqlJson

namespace Driver.SQLC27
open Driver.SQL

def attrC27 : AttrFn := fun c o _ =>
  match o with
  | .ok _ => if hasNull c && neutralPasses c then some "C27-F1" else none
  | _ => none

/-- first grouping-sets node on the spine of the plan -/
partial def findGs : Query → Option (List Expr × List (List Nat) × Query)
  | .groupingSets keys sets _ q => some (keys, sets, q)
  | .sort _ q | .limit _ _ q | .distinct q | .project _ _ q | .filter _ _ q | .withCte _ q => findGs q
  | _ => none

def bagEq (a b : Table) : Bool := a.length == b.length && a.all (fun r => a.count r == b.count r)

def extraTags (c : Case) : List String × Bool :=
  let shape : List String := match findGs c.plan with
    | some (keys, sets, q) =>
      let nullKey : Bool := match Spec.run fo fns c.tables q [] [] with
        | .ok rows => rows.any fun r => match evalList { fo := fo, fn := fns, runSub := fun _ _ => .error (.bad "sub") } [r] keys with
            | .ok kv => kv.any (·.isNull)
            | .error _ => false
        | .error _ => false
      [s!"keys:{keys.length}", s!"sets:{min sets.length 8}"] ++ (if sets.any (·.isEmpty) then ["empty_set"] else []) ++
        (if nullKey then ["null_key_data"] else ["no_null_key"])
    | none => ["no_gsets_on_spine"]
  let agree : Option Bool := match specRun c with
    | .ok sp => (match Spec.run fo fns c.tables (desugarPlan c.plan) [] [] with
        | .ok t => some (bagEq (normTable t) sp)
        | .error _ => some false)
    | .error _ => none
  (shape ++ (match agree with | some true => ["desugar:agree"] | some false => ["desugar:disagree"] | none => []), agree != some false)

def handler : Driver.Handler := fun cj i => do
  let v ← handlerWith attrC27 cj i
  let c := { (← caseOfJson cj) with impl := i }
  let (tags, kOk) := extraTags c
  pure { v with tags := v.tags ++ tags, k := v.k && kOk }

end Driver.SQLC27
