-- FAMILY: C45
/-
  Driver.C45.handler — gathered tables carry every column the statement reads.

  case : sqlgen case {"prop":"C45","sql","plan","tables","cat","tags","engine_defined","layout","n","self"} of a statement
         that takes the GATHER path
  impl : {"gather": {"tables":[{"name","columns":[…]|null,"gather_sql"}]} | {"err":…},
          "optimized": exported optimized plan (Driver/PlanJson), "bound": exported bound plan, "schemas": {table:[columns]},
          "runs": {"local", "gathered", "full"}}

  K (model = impl): `gatherPlans today schemas (optimized :: cte_optimized)` (the model of `plan_gather` / `collect_scans`
    with the deviation switches of the code as it is — none since C45-F1 was fixed) equals the implementation's gather plan:
    same tables, same column lists in schema order.
  O (the property, on the IMPLEMENTATION's output): the statement re-run over the gathered tables (`runs.gathered`) binds and
    gives the single-node answer (`runs.local`) up to `Spec.sameAnswer`; no panic.
  Attribution (the failing run must be repaired by the FULL gather `runs.full`, i.e. the pruning is what breaks it):
    C45-F1 `skipSubqueryPlans`: with the switch OFF the model gathers strictly more (a scan inside a subquery expression
           reads a column / table the walk over `children()` never sees);
    C45-F2 (signature) the statement defines a CTE that it never references: the binder binds the definition anyway, the
           optimized plan does not contain it, its tables / columns are not gathered.
-/
import Driver.SqlCore
import Driver.PlanJson
import IQE.Engine.Gather
open Lean IQE IQE.Spec Driver.SqlJson Driver.SQL IQE.Engine.PlanWf IQE.Engine.Gather

namespace Driver.C45

/-- the switches of the code as it is: none since /repo 1c600c2 (C45-F1 fixed: the walk enters subquery expression plans);
    before that commit `{ skipSubqueryPlans := true }` -/
def today : Dev := {}

/-- `plan_gather` since /repo 6d3344d: the optimized plan of the statement, then the optimized plan of every top-level CTE
    definition (each behind the definitions before it), into ONE requirement map -/
def gatherPlans (dev : Dev) (full : String → Option (List String)) (ps : List Plan) : Except String (List (String × Option (List String))) := do
  let req ← collectPs dev full ps []
  if req.isEmpty then .error "no base table"
  else pure ((sortByName req).map fun tc => (tc.1, normCols full tc.1 tc.2))

def schemasOf (i : Json) : String → Option (List String) := fun t =>
  match (getObj i "schemas").toOption.bind (fun s => (s.getObjValAs? (Array String) t).toOption) with
  | some a => some a.toList
  | none => none

abbrev GPlan := List (String × Option (List String))

def implGather (i : Json) : Except String (Option GPlan) := do
  let g ← getObj i "gather"
  match g.getObjValAs? (Array Json) "tables" with
  | .ok ts =>
    let l ← ts.toList.mapM fun t => do
      let name ← getStr t "name"
      let cols := match t.getObjValAs? (Array String) "columns" with | .ok a => some a.toList | .error _ => none
      pure (name, cols)
    pure (some l)
  | .error _ => pure none        -- plan_gather refused / failed

def gplanJson (g : GPlan) : Json :=
  Json.arr (g.map fun (t, c) => Json.mkObj [("name", t), ("columns", match c with | some l => Json.arr (l.map Json.str).toArray | none => Json.null)]).toArray

mutual
/-- every CTE index referenced anywhere in the plan -/
def cteRefs : Query → List Nat
  | .scan _ => []
  | .cteRef i => [i]
  | .values _ => []
  | .filter subs _ q => cteRefsL subs ++ cteRefs q
  | .project subs _ q => cteRefsL subs ++ cteRefs q
  | .join _ _ _ subs _ l r => cteRefsL subs ++ cteRefs l ++ cteRefs r
  | .agg _ _ q => cteRefs q
  | .groupingSets _ _ _ q => cteRefs q
  | .distinct q => cteRefs q
  | .sort _ q => cteRefs q
  | .limit _ _ q => cteRefs q
  | .setop _ _ l r => cteRefs l ++ cteRefs r
  | .window _ q => cteRefs q
  | .withCte defs body => cteRefsL defs ++ cteRefs body
def cteRefsL : List Query → List Nat
  | [] => []
  | q :: qs => cteRefs q ++ cteRefsL qs
end

/-- the statement's top-level WITH defines a CTE nobody references -/
def hasUnreferencedCte : Query → Bool
  | .limit _ _ q => hasUnreferencedCte q
  | .sort _ q => hasUnreferencedCte q
  | .withCte defs body =>
    let refs := cteRefsL defs ++ cteRefs body
    (List.range defs.length).any fun k => !refs.contains k
  | _ => false

def handler : Driver.Handler := fun cj i => do
  let c := { (← caseOfJson cj) with impl := i }
  let runsJ ← getObj i "runs"
  let run (k : String) : Option (Outcome × String) :=
    match (getObj runsJ k).toOption with
    | some j => (match outcomeOfJson j with | .ok o => some (o, (getStr j "msg").toOption.getD "") | .error _ => none)
    | none => none
  let spec := specRun c
  match spec with
  | .error (.bad m) => throw s!"malformed plan (generator defect): {m} — {c.sql.take 200}"
  | .error (.type m) => throw s!"ill-typed plan (generator defect): {m} — {c.sql.take 200}"
  | _ => pure ()
  -- K: the model of plan_gather over the exported optimized plan
  let full := schemasOf i
  let impl ← implGather i
  let optimized := match PlanJson.planOrErr ((getObj i "optimized").toOption.getD Json.null) with | .ok (.ok p) => some p | _ => none
  let ctePlans : List Plan := match (getObj i "cte_optimized").toOption.bind (fun j => j.getArr?.toOption) with
    | some a => a.toList.filterMap fun pj => match PlanJson.planOrErr pj with | .ok (.ok p) => some p | _ => none
    | none => []
  let modelToday : Option (Except String GPlan) := optimized.map fun p => gatherPlans today full (p :: ctePlans)
  let modelIntended : Option (Except String GPlan) := optimized.map fun p => gatherPlans {} full (p :: ctePlans)
  let kOk : Bool := match modelToday, impl with
    | some (.ok m), some g => m == g
    | some (.error _), none => true
    | none, _ => true                    -- the optimizer itself failed: nothing to compare
    | _, _ => false
  let model := match modelToday with
    | some (.ok m) => Json.mkObj [("gather", gplanJson m)]
    | some (.error e) => Json.mkObj [("refused", e)]
    | none => Json.mkObj [("no_plan", true)]
  -- O: gathered run vs single-node run
  let localO := run "local"
  let gatheredO := run "gathered"
  let fullO := run "full"
  let sameAs (a b : Table) : Bool := match Spec.sameAnswer fo fns c.plan a b with | .ok true => true | _ => false
  let fullRepairs : Bool := match localO, fullO with
    | some (.ok t0, _), some (.ok t, _) => sameAs t0 t
    | _, _ => false
  let widened : Bool := match modelToday, modelIntended with
    | some (.ok a), some (.ok b) => a != b
    | _, _ => false
  let attr : Option String :=
    if !fullRepairs then none
    else if widened then some "C45-F1"
    else if hasUnreferencedCte c.plan then some "C45-F2"
    else none
  let ofail : Option String :=
    match localO, gatheredO with
    | some (.panic m, _), _ => some s!"engine panicked (single-node): {m.take 80}"
    | _, some (.panic m, _) => some s!"engine panicked (gathered): {m.take 80}"
    | some (.ok _, _), some (.err e, msg) => some s!"single-node run succeeds but the statement over the gathered tables fails: {e}: {msg.take 100}"
    | some (.ok t0, _), some (.ok t, _) =>
      if c.engineDefined || sameAs t0 t then none
      else some s!"the statement over the gathered tables disagrees with the single-node answer: {diffSummary t t0}"
    | some (.ok _, _), none => (if impl.isNone then some "single-node run succeeds but plan_gather refuses the statement" else none)
    | _, _ => none
  let pruned := match impl with | some g => g.any (fun (_, cs) => cs.isSome) | none => false
  let ntab := match impl with | some g => g.length | none => 0
  let label (o : Option (Outcome × String)) : String := match o with | some (o, _) => (judge c spec o).1 | none => "none"
  let tags := (c.tags ++ [topShape c.plan, s!"gather_tables:{ntab}", (if pruned then "gather:pruned" else "gather:all"),
    s!"local:{label localO}", s!"gathered:{label gatheredO}", s!"full:{label fullO}"] ++
    (if widened then ["subquery_scan_missed"] else []) ++ (if hasUnreferencedCte c.plan then ["unreferenced_cte"] else []) ++
    (if optimized.isNone then ["no_optimized_plan"] else [])).eraseDups
  let nt := match gatheredO with | some (.ok t, _) => !t.isEmpty && pruned | _ => false
  pure { model := model, k := kOk, oracle := ofail, nt := nt, tags := tags, attr := if ofail.isSome then attr else none }

end Driver.C45
