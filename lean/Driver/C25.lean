-- FAMILY: C25
/-
  Driver.C25 — ORDER BY / LIMIT / OFFSET.

  kind "limit_op": LimitExec(skip, fetch) over an operator with chosen partitions × batches (rows = their global index).
      case {"kind","skip","fetch":n|null,"parts":[[len…]…]}        impl {"ok":{"rows":[i…],"opened":k}} | {"err":k} | {"panic":m}
      model = IQE.Engine.SortLimit.limitExec (the loop around the TRANSLATED take_from / satisfied);  K: rows and opened equal.
      O: rows = (0..n).drop skip |>.take fetch (computed without the model), opened = number of partitions that start
         before the limit is satisfied.
  kind "sort_op": SortExec::new / with_fetch over chosen partitions × batches.
      case {"kind","keys":[{"col","desc","nf"}],"fetch":n|null,"parts":[[[Row…]…]…]}   impl {"ok":Table} | …
      model = IQE.Engine.SortLimit.sortExec;  K: impl ∈ allowed(model) = same key vector at every position, sub-bag of the input.
      O: output sorted under the comparator, keys pointwise those of the reference (sort xs).take fetch, sub-bag of the input, right length.
  kind "sql": `SELECT * FROM t ORDER BY … LIMIT … OFFSET …` through ExecutionContext::sql (sqlgen case format).
      O = Spec.acceptable on the engine's rows (Driver.SQL.handleSpec);  K = the same relation against the ENGINE model
      (planner fusion + SortExec + LimitExec over the table's batches).
-/
import Driver.SqlCore
import IQE.Engine.SortLimit
open Lean IQE IQE.Spec IQE.Engine.SortLimit Driver.SqlJson

namespace Driver.C25

def fo : FloatOps := Driver.SQL.fo

def optNat (j : Json) (k : String) : Option Nat :=
  match j.getObjValAs? Nat k with | .ok n => some n | .error _ => none

def takeOpt {α : Type} (fetch : Option Nat) (l : List α) : List α :=
  match fetch with | some n => l.take n | none => l

/-- partitions that start before the limit is satisfied (the property's "stops opening partitions once satisfied") -/
def openedWanted (skip : Nat) (fetch : Option Nat) (lens : List (List Nat)) : Nat :=
  let rec go (c : Nat) : List (List Nat) → Nat
    | [] => 0
    | p :: ps =>
      let sat := match fetch with | some n => n == 0 || skip + n ≤ c | none => false
      if sat then 0 else go (c + p.sum) ps + 1
  go 0 lens

def implErr (i : Json) : Option String :=
  if let .ok k := i.getObjValAs? String "err" then some s!"error:{k}"
  else if let .ok m := i.getObjValAs? String "panic" then some s!"panic:{m.take 100}" else none

def handleLimitOp (c i : Json) : Except String Driver.Verdict := do
  let skip ← Driver.getNat c "skip"
  let fetch := optNat c "fetch"
  let lens ← (← Driver.getArr c "parts").toList.mapM Driver.asNatList
  let n := (lens.map List.sum).sum
  -- rows are their global index: build the partitions × batches × rows the model runs on
  let rec mk (c : Nat) : List Nat → List (List Nat) × Nat
    | [] => ([], c)
    | l :: ls => let r := mk (c + l) ls; ((List.range l).map (· + c) :: r.1, r.2)
  let rec mkParts (c : Nat) : List (List Nat) → List (List (List Nat))
    | [] => []
    | p :: ps => let r := mk c p; r.1 :: mkParts r.2 ps
  let parts := mkParts 0 lens
  let m := limitExec skip fetch parts
  let mrows := m.1.flatten
  let model := Json.mkObj [("rows", Driver.jNatList mrows), ("opened", Json.num (JsonNumber.fromNat m.2))]
  let tags := ["limit_op", if lens.length > 1 then "parts>1" else "parts1",
               if fetch.isSome then "fetch" else "nofetch", if skip == 0 then "skip0" else if skip ≥ n then "skip>=n" else "skip<n"] ++
              (if m.2 < lens.length then ["stops_early"] else []) ++
              (match fetch with | some f => (if f == 0 then ["fetch0"] else if skip + f ≥ n then ["fetch>=rest"] else ["fetch<rest"]) | none => [])
  match implErr i with
  | some e => pure { model := model, k := false, oracle := some s!"LimitExec failed: {e}", nt := true, tags := tags ++ ["impl:fail"] }
  | none =>
    let o ← Driver.getObj i "ok"
    let rows ← Driver.asNatList (← Driver.getObj o "rows")
    let opened ← Driver.getNat o "opened"
    let want := takeOpt fetch ((List.range n).drop skip)
    let wantOpened := openedWanted skip fetch lens
    let oracle : Option String :=
      if rows != want then some s!"rows are not rows {skip}..{skip}+fetch of the input: got {rows.length} rows, first {rows.head?}, expected {want.length} rows, first {want.head?}"
      else if opened != wantOpened then some s!"opened {opened} input partitions, {wantOpened} start before the limit is satisfied"
      else none
    pure { model := model, k := rows == mrows && opened == m.2, oracle := oracle, nt := n ≥ 2 && (skip > 0 || fetch.isSome), tags := tags }

/-! ### sort_op -/

structure KeySpec where
  col : Nat
  desc : Bool
  nf : Bool

def keySpec (j : Json) : Except String KeySpec := do
  pure { col := ← Driver.getNat j "col", desc := (Driver.getBool j "desc").toOption.getD false, nf := (Driver.getBool j "nf").toOption.getD false }

def keyed (ks : List KeySpec) (r : Row) : Keyed := (ks.map (fun k => r.getD k.col .null), r)

def sortedKeys (flags : List (Bool × Bool)) : List (List Val) → Bool
  | a :: b :: rest => cmpKeys fo flags a b != .gt && sortedKeys flags (b :: rest)
  | _ => true

def keysEq (flags : List (Bool × Bool)) : List (List Val) → List (List Val) → Bool
  | [], [] => true
  | a :: as, b :: bs => cmpKeys fo flags a b == .eq && keysEq flags as bs
  | _, _ => false

/-- `out` is an allowed answer given a canonical answer `canon` drawn from `input`: same key vector at every position, sub-bag of the input -/
def allowed (flags : List (Bool × Bool)) (ks : List KeySpec) (input canon out : Table) : Option String :=
  if out.length != canon.length then some s!"{out.length} rows, expected {canon.length}"
  else if !keysEq flags (out.map (fun r => (keyed ks r).1)) (canon.map (fun r => (keyed ks r).1)) then some "key vectors differ from the sorted order at some position"
  else if !subBag out input then some "output rows are not a sub-bag of the input rows"
  else none

def handleSortOp (c i : Json) : Except String Driver.Verdict := do
  let ks ← (← Driver.getArr c "keys").toList.mapM keySpec
  let fetch := optNat c "fetch"
  let partsJ ← Driver.getArr c "parts"
  let parts : List (List Table) ← partsJ.toList.mapM (fun p => do (← p.getArr?).toList.mapM (fun b => do pure (Driver.SQL.normTable (← tableOfJson b))))
  let flags := ks.map (fun k => (k.desc, k.nf))
  let input := parts.flatten.flatten
  let kparts := parts.map (·.map (·.map (keyed ks)))
  let m := (sortExec fo flags fetch kparts).flatten.map (·.2)
  let keys := input.map (fun r => (keyed ks r).1)
  let distinctKeys := (keys.foldl (fun acc k => if acc.any (fun k' => cmpKeys fo flags k k' == .eq) then acc else k :: acc) []).length
  let tags := ["sort_op", if fetch.isSome then "with_fetch" else "full_sort", if ks.length > 1 then "multi_key" else "one_key"] ++
    (if distinctKeys < input.length then ["ties"] else []) ++ (if keys.any (·.any Val.isNull) then ["null_keys"] else []) ++
    (if ks.any (·.desc) then ["desc"] else []) ++ (if ks.any (·.nf) then ["nulls_first"] else []) ++
    (if parts.length > 1 then ["parts>1"] else ["parts1"])
  match implErr i with
  | some e => pure { model := tableToJson m, k := false, oracle := some s!"SortExec failed: {e}", nt := true, tags := tags ++ ["impl:fail"] }
  | none =>
    let out := Driver.SQL.normTable (← tableOfJson (← Driver.getObj i "ok"))
    -- oracle: independent of the engine model — sortedness of the output itself + the reference (Spec.sortKeyed) keys
    let canon := takeOpt fetch ((sortKeyed fo flags (input.map (keyed ks))).map (·.2))
    let oracle : Option String :=
      if !sortedKeys flags (out.map (fun r => (keyed ks r).1)) then some "output is not sorted under the ORDER BY comparator"
      else allowed flags ks input canon out
    let k := (allowed flags ks input m out).isNone
    pure { model := tableToJson m, k := k, oracle := oracle, nt := distinctKeys ≥ 2, tags := tags }

/-! ### sql -/

/-- the ORDER BY / LIMIT spine of the plan: (skip, fetch, keys, input plan) -/
def spine : Query → Option (Nat × Option Nat × List SortKey × Query)
  | .limit skip fetch (.sort keys q) => some (skip, fetch, keys, q)
  | .sort keys q => some (0, none, keys, q)
  | _ => none

def handleSql (cj i : Json) : Except String Driver.Verdict := do
  let c ← Driver.SQL.caseOfJson cj
  let v ← Driver.SQL.handleSpec Driver.SQL.noAttr c i
  -- K against the engine pipeline model (fusion + SortExec + LimitExec over the table's batches)
  let o ← Driver.SQL.outcomeOfJson i
  match spine c.plan, o with
  | some (skip, fetch, keys, q), .ok out =>
    let keyExprs : List Expr := keys.map SortKey.e
    match Spec.run fo Driver.SQL.fns c.tables q [] [] with
    | .ok input =>
      let cx : EvalCtx := { fo := fo, fn := Driver.SQL.fns, runSub := fun _ _ => .error (.unsupported "subquery inside ORDER BY") }
      match input.mapM (fun (r : Row) => do pure ((← evalList cx [r] keyExprs), r)) with
      | .ok kd =>
        let flags : List (Bool × Bool) := keys.map (fun (k : SortKey) => (k.desc, k.nullsFirst))
        -- batch cuts of the scanned table, when the input is a bare scan (otherwise one batch)
        let cuts : List Nat := match q with
          | .scan t => match cj.getObjVal? "cat" with
            | .ok cat => match cat.getArr? with
              | .ok a => match a[t]? with
                | some m => match m.getObjVal? "cuts" with | .ok cs => (Driver.asNatList cs).toOption.getD [] | .error _ => []
                | none => []
              | .error _ => []
            | .error _ => []
          | _ => []
        let rec cut (l : List Keyed) : List Nat → List (List Keyed)
          | [] => if l.isEmpty then [] else [l]
          | n :: ns => l.take n :: cut (l.drop n) ns
        let m : Table := (orderLimit fo flags skip fetch [cut kd cuts]).map (fun (x : Keyed) => x.2)
        let kout := out.mapM (fun (r : Row) => evalList cx [r] keyExprs)
        let kmod := m.mapM (fun (r : Row) => evalList cx [r] keyExprs)
        let kk : Bool := match kout, kmod with
          | .ok a, .ok b => keysEq flags a b && subBag out input
          | _, _ => false
        pure { v with model := tableToJson m, k := kk, tags := v.tags ++ ["sql", if skip == 0 && fetch.isSome then "fused_topk" else if fetch.isSome || skip > 0 then "limit_exec" else "sort_only"] }
      | .error _ => pure v
    | .error _ => pure v
  | _, _ => pure { v with tags := v.tags ++ ["sql"] }

def handler : Driver.Handler := fun c i => do
  match (Driver.getStr c "kind").toOption.getD "sql" with
  | "limit_op" => handleLimitOp c i
  | "sort_op" => handleSortOp c i
  | _ => handleSql c i

end Driver.C25
