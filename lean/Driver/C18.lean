-- FAMILY: C18
import Driver.Util
import IQE.Engine.StatsFold
open Lean IQE.Engine.StatsFold
namespace Driver.C18

/-- canonical, comparable form of what `statistics()` returned / what the model computes -/
structure ColOut where
  name : String
  min : Option Int
  max : Option Int
  nc : Option Nat
  ndv : Option Nat
deriving BEq, Repr

inductive StatsOut where
  | panic
  | none
  | ok (rows : Nat) (bytes : Nat) (cols : List ColOut)
deriving BEq, Repr

structure ScanCol where
  name : String
  nulls : Nat
  min : Option Int
  max : Option Int
deriving BEq, Repr

def optInt (j : Json) (k : String) : Option Int :=
  match j.getObjVal? k with | .ok v => (v.getInt?).toOption | .error _ => none
def optNat (j : Json) (k : String) : Option Nat :=
  match j.getObjVal? k with | .ok v => (v.getNat?).toOption | .error _ => none

def jOptInt : Option Int → Json | some i => Json.num (JsonNumber.fromInt i) | none => Json.null
def jOptNat : Option Nat → Json | some i => Json.num (JsonNumber.fromNat i) | none => Json.null

def StatsOut.toJson : StatsOut → Json
  | .panic => Json.mkObj [("panic", true)]
  | .none => Json.null
  | .ok r b cs => Json.mkObj [("rows", r), ("bytes", b), ("cols", Json.arr (cs.map fun c =>
      Json.mkObj [("name", c.name), ("min", jOptInt c.min), ("max", jOptInt c.max), ("nc", jOptNat c.nc), ("ndv", jOptNat c.ndv)]).toArray)]

def insertSorted (c : ColOut) : List ColOut → List ColOut
  | [] => [c]
  | d :: rest => if c.name < d.name then c :: d :: rest else d :: insertSorted c rest
def sortCols (l : List ColOut) : List ColOut := l.foldl (fun acc c => insertSorted c acc) []

/-- parse the table of the case: row groups in visiting order, total bytes -/
def parseTable (c : Json) : Except String (Table × Nat) := do
  let files ← Driver.getArr c "files"
  let mut rgs : List RowGroup := []
  let mut bytes := 0
  for f in files.toList do
    bytes := bytes + (optNat f "bytes").getD 0
    for rg in (← Driver.getArr f "rgs").toList do
      let rows ← Driver.getNat rg "rows"
      let mut cols : List (String × Chunk) := []
      for cc in (← Driver.getArr rg "cols").toList do
        let name ← Driver.getStr cc "name"
        let vals ← Driver.getArr cc "vals"
        let values : List (Option Int) := vals.toList.map fun v => (v.getInt?).toOption
        let mm : Option (Int × Int) :=
          match cc.getObjVal? "mm" with
          | .ok (Json.arr a) => match a.toList with
            | [x, y] => match x.getInt?, y.getInt? with | .ok x, .ok y => some (x, y) | _, _ => none
            | _ => none
          | _ => none
        cols := cols ++ [(name, { rows := rows, nullCount := optNat cc "nc", minmax := mm, values := values, ub := (optNat cc "ub").getD 0 })]
      rgs := rgs ++ [{ rows := rows, cols := cols }]
  pure (rgs, bytes)

/-- model output in canonical form; `ndv` of non-integer columns is not modelled (dictionary probe) → compared as absent -/
def modelOut (dev : Dev) (t : Table) (bytes : Nat) (corrupt : Bool) : StatsOut :=
  if corrupt then .none else
  match stats dev t with
  | .panic => .panic
  | .ok ts => .ok ts.rowCount bytes (sortCols (ts.cols.map fun (n, s) =>
      { name := n, min := s.min, max := s.max, nc := s.nullCount, ndv := if s.hasInt then s.ndv else none }))

def parseImplStats (intCols : List String) (j : Json) : Except String StatsOut := do
  if j.isNull then return .none
  if (j.getObjVal? "panic").toOption.isSome then return .panic
  let rows ← Driver.getNat j "rows"
  let bytes ← Driver.getNat j "bytes"
  let cols ← Driver.getArr j "cols"
  let cs ← cols.toList.mapM fun c => do
    let name ← Driver.getStr c "name"
    -- ndv of a column without integer min/max comes from the dictionary-page probe: outside the model
    let hasInt := (optInt c "min").isSome && intCols.contains name
    pure ({ name := name, min := optInt c "min", max := optInt c "max", nc := optNat c "nc",
            ndv := if hasInt then optNat c "ndv" else none } : ColOut)
  pure (.ok rows bytes (sortCols cs))

def parseScan (j : Json) : Except String (Option (Nat × List ScanCol)) := do
  match j.getObjVal? "rows" with
  | .error _ => pure none
  | .ok r =>
    let rows ← r.getNat?
    let cols ← Driver.getArr j "cols"
    let cs ← cols.toList.mapM fun c => do
      pure ({ name := ← Driver.getStr c "name", nulls := ← Driver.getNat c "nulls", min := optInt c "min", max := optInt c "max" } : ScanCol)
    pure (some (rows, cs))

def listMin : List Int → Option Int
  | [] => none
  | x :: xs => some (xs.foldl (fun a b => if b < a then b else a) x)
def listMax : List Int → Option Int
  | [] => none
  | x :: xs => some (xs.foldl (fun a b => if b > a then b else a) x)

/-- what a correct scan must return, from the written data (integer columns only carry min/max) -/
def expectedScan (t : Table) (intCols : List String) : Nat × List ScanCol :=
  (totalRows t, (namesOf t).map fun n =>
    let vs := valuesOf t n
    let nn := vs.filterMap id
    { name := n, nulls := nulls vs, min := if intCols.contains n then listMin nn else none,
      max := if intCols.contains n then listMax nn else none })

/-- THE PROPERTY, evaluated on reported statistics against a scan: row count exact, null counts exact when present,
    every scanned value within the reported integer min/max; `statistics()` must not fail. -/
def oracle (s : StatsOut) (scan : Option (Nat × List ScanCol)) : Option String :=
  match s with
  | .panic => some "statistics() panicked"
  | .none => none
  | .ok rows _ cols =>
    match scan with
    | none => none
    | some (srows, scols) =>
      if rows != srows then some s!"row_count {rows} but the scan returns {srows} rows" else
      cols.foldl (fun acc c => match acc with
        | some e => some e
        | none =>
          match scols.find? (fun sc => sc.name == c.name) with
          | none => none
          | some sc =>
            match c.nc with
            | some n => if n != sc.nulls then some s!"{c.name}: null_count {n} but the scan has {sc.nulls} NULLs" else
              (match c.min, sc.min with
               | some lo, some m => if m < lo then some s!"{c.name}: min {lo} but the scan holds {m}" else none
               | _, _ => none) <|>
              (match c.max, sc.max with
               | some hi, some m => if m > hi then some s!"{c.name}: max {hi} but the scan holds {m}" else none
               | _, _ => none)
            | none =>
              (match c.min, sc.min with
               | some lo, some m => if m < lo then some s!"{c.name}: min {lo} but the scan holds {m}" else none
               | _, _ => none) <|>
              (match c.max, sc.max with
               | some hi, some m => if m > hi then some s!"{c.name}: max {hi} but the scan holds {m}" else none
               | _, _ => none)) none

def handler : Driver.Handler := fun c i => do
  let (t, bytes) ← parseTable c
  let corrupt := (c.getObjValAs? Bool "corrupt").toOption.getD false
  let colDefs ← Driver.getArr c "cols"
  let intCols : List String := colDefs.toList.filterMap fun d =>
    match d.getObjValAs? String "name", d.getObjValAs? String "ty" with
    | .ok n, .ok ty => if ty == "str" || ty == "f64" then none else some n
    | _, _ => none
  let mCur := modelOut Dev.current t bytes corrupt
  let mk (o : Option String) (k : Bool) (tags : List String) (attr : Option String := none) : Driver.Verdict :=
    { model := mCur.toJson, k := k, oracle := o, nt := totalRows t ≥ 2 && t.length ≥ 2, tags := tags, attr := attr }
  match i.getObjVal? "stats" with
  | .error _ =>
    -- the table could not be opened (corrupt first file …) or the harness failed: nothing to judge
    if (i.getObjVal? "open_err").toOption.isSome then pure (mk none (corrupt || t.isEmpty) ["open-err"])
    else pure (mk none false ["harness-error"])
  | .ok sj =>
    let impl ← parseImplStats intCols sj
    let scan ← parseScan (← Driver.getObj i "scan")
    let exp := expectedScan t intCols
    let scanOk : Bool := match scan with
      | some (r, cs) => r == exp.1 && (cs.all fun sc => match exp.2.find? (fun e => e.name == sc.name) with
          | some e => e == sc | none => t.isEmpty)
      | none => corrupt
    let o := oracle impl scan
    let k := (impl == mCur) && scanOk
    let anyNoStats := t.any fun rg => rg.cols.any fun (_, ch) => ch.minmax.isNone && !ch.allNull
    let tags := (if corrupt then ["corrupt"] else []) ++ (if anyNoStats then ["has-silent-chunk"] else ["all-report"])
      ++ (match impl with | .panic => ["impl-panic"] | .none => ["impl-none"] | .ok .. => ["impl-ok"])
      ++ (if !scanOk then ["scan-mismatch"] else [])
      ++ (if t.any (fun rg => rg.cols.any fun (_, ch) => ch.allNull && ch.rows > 0) then ["all-null-chunk"] else [])
      ++ (if t.length ≥ 5 then ["rg>=5"] else [])
      ++ (if t.any (fun rg => rg.cols.any fun (_, ch) => ch.ub > 0) then ["unsigned-col"] else [])
    -- attribution: the known defect must explain the whole deviation, and the intended algorithm must satisfy the oracle
    let attr : Option String :=
      match o with
      | none => none
      | some _ =>
        let m0 := modelOut {} t bytes corrupt
        let mF1 := modelOut { statslessKeepsMinMax := true } t bytes corrupt
        let mF2 := modelOut { ndvRangeOverflow := true } t bytes corrupt
        if (oracle m0 (some exp)).isSome then none
        else if impl == mF1 && scanOk then some "C18-F1"
        else if impl == mF2 && scanOk then some "C18-F2"
        else if impl == modelOut { unsignedAsSigned := true } t bytes corrupt && scanOk then some "C18-F3"
        else none
    pure (mk o k tags attr)

end Driver.C18
