-- FAMILY: C04
/-
  Driver.C04 — storage layout and fast-path choice never change an answer (harness/src/fam_c04.rs).

  case : sqlgen case (mode meta) + {"kind":"sql","files":f,"rg":g};  impl : {"runs":{"<layout>@<variant>": outcome}} with
         layouts mem1 | memb | pq<f>x<g> | pq1x1024 and planner-path variants d | s (forced streaming scan) | n (no shared
         prescan) | sn.
  O (on the implementation's outputs only): no run panics; "succeeds on one layout / path ⇒ succeeds on every other";
     every run gives the same answer up to the freedom `Spec.sameAnswer` leaves.  K = O (no executable reference: the
     comparison is between configurations; `Spec.run` is evaluated only as a tag when the tables are small).
  Attribution: C04-F2 only (signature, see below).  C04-F1 (dense aggregation refused NULL group keys, DESIGN A.5) is fixed (4efd9ed) and suppresses nothing;
     a failing case in which exactly the Parquet runs fail with `dense agg: null group keys unsupported` is tagged
     `looks_like:C04-F1`.
-/
import Driver.Util
import Driver.Sql
open Lean IQE IQE.Spec

namespace Driver.C04

def isParquet (name : String) : Bool := name.startsWith "pq"
def variantOf (name : String) : String := ((name.splitOn "@").getD 1 "d")
def layoutOf (name : String) : String := (name.splitOn "@").headD name

def containsSub (s sub : String) : Bool := (s.splitOn sub).length > 1

/-- GROUP BY with two or more keys -/
def manyKeyAgg : Query → Bool
  | .agg keys _ _ => keys.length ≥ 2
  | _ => false

def nullCells (r : Row) : Nat := (r.filter (· == Val.null)).length

/-- every row by which the two answers differ (as bags) carries at least two NULL cells — the shape of C21-F4: only the group
    whose composite key is NULL in every column loses rows, on some layouts / schedules and not on others -/
def differOnlyInAllNullKeyRows (t t0 : Table) : Bool :=
  (Spec.exceptAll t t0 ++ Spec.exceptAll t0 t).all (fun r => nullCells r ≥ 2)

def handler : Driver.Handler := fun c i => do
  let cs ← Driver.SQL.caseOfJson c
  let runsJ ← Driver.getObj i "runs"
  let kv ← match runsJ with
    | .obj kv => pure kv.toList
    | _ => throw "runs is not an object"
  let runs ← kv.mapM (fun (k, v) => do pure (k, ← Driver.SQL.outcomeOfJson v))
  let msgs : List (String × String) := kv.filterMap fun (k, v) => match v.getObjValAs? String "msg" with
    | .ok m => some (k, m) | .error _ => none
  let oks := runs.filterMap fun (k, o) => match o with | .ok t => some (k, t) | _ => none
  let panics := runs.filterMap fun (k, o) => match o with | .panic m => some s!"{k}: {m.take 100}" | _ => none
  let errs := runs.filterMap fun (k, o) => match o with | .err "timeout" => none | .err e => some (k, e) | _ => none
  let ref? : Option (String × Table) :=
    match oks.find? (fun (k, _) => k.startsWith "mem1@") with
    | some r => some r
    | none => oks.head?
  let same (t0 t : Table) : Bool :=
    t0 == t || (match Spec.sameAnswer Driver.SQL.fo Driver.SQL.fns cs.plan t0 t with | .ok b => b | .error _ => true)
  let differing : List String := match ref? with
    | none => []
    | some (_, t0) => oks.filterMap fun (k, t) => if same t0 t then none else some k
  let ofail : Option String :=
    if !panics.isEmpty then some s!"engine panicked under {panics.head!}"
    else if !oks.isEmpty && !errs.isEmpty then
      let (ek, ee) := errs.head!
      let m := (msgs.find? (·.1 == ek)).map (·.2) |>.getD ""
      some s!"succeeds under {oks.head!.1} but fails under {ek} ({ee}): {m.take 160}"
    else match ref?, differing with
      | some (k0, t0), k :: _ =>
        let t := (oks.find? (fun x => x.1 == k)).map (·.2) |>.getD []
        some s!"configurations {k0} and {k} disagree ({differing.length} of {oks.length} differ from the reference): {Driver.SQL.diffSummary t t0}"
      | _, _ => none
  -- C04-F1: only Parquet runs fail, all with the dense-aggregation refusal, and the answering runs agree
  let denseMsg := "dense agg: null group keys unsupported"
  let f1 := ofail.isSome && panics.isEmpty && !errs.isEmpty && differing.isEmpty && !oks.isEmpty
            && errs.all (fun (k, _) => isParquet k && (match msgs.find? (·.1 == k) with | some (_, m) => containsSub m denseMsg | none => false))
  -- C04-F1 is fixed (4efd9ed) and suppresses nothing; its shape is only tagged
  -- C04-F2 (inherited from C21-F4, open): GROUP BY over >= 2 keys, every run answers, and the runs that disagree with the
  -- reference do so only in rows of the all-NULL composite-key group; any other disagreement stays a VIOLATION
  let f2 := ofail.isSome && panics.isEmpty && errs.isEmpty && !differing.isEmpty && Driver.SQL.anyNode manyKeyAgg cs.plan
            && (match ref? with
                | some (_, t0) => differing.all (fun k => match oks.find? (fun x => x.1 == k) with
                    | some (_, t) => differOnlyInAllNullKeyRows t t0 | none => false)
                | none => false)
  let attr : Option String := if f2 then some "C04-F2" else none
  let small := (cs.tables.map List.length).sum ≤ 150
  let specTag : List String :=
    if !small || cs.engineDefined then ["spec:skipped"] else
    match ref?, Driver.SQL.specRun cs with
    | some (_, t0), .ok _ => (match Spec.acceptable Driver.SQL.fo Driver.SQL.fns cs.tables cs.plan t0 with
        | .ok true => ["spec:agree"] | .ok false => ["spec:disagree"] | .error _ => ["spec:unjudged"])
    | _, _ => ["spec:unjudged"]
  let variants := (runs.map fun (k, _) => s!"variant:{variantOf k}").eraseDups
  let diffTags := ((differing ++ errs.map (·.1)).map fun k => s!"diff:{layoutOf k}@{variantOf k}").eraseDups
                  ++ (if f1 then ["looks_like:C04-F1"] else [])
  -- evidence only: which scan / aggregation operators the planner chose over the Parquet layout, per variant
  let pathTags : List String := match i.getObjVal? "ops" with
    | .ok (.obj okv) => (okv.toList.flatMap fun (v, names) => match names.getArr? with
        | .ok a => a.toList.filterMap fun n => match n.getStr? with
          | .ok nm => if nm == "StreamingParquetScan" || nm == "MorselAggregate" || nm == "MemoryTableScan" then some s!"path:{v}:{nm}" else none
          | .error _ => none
        | .error _ => []).eraseDups
    | _ => []
  let nonEmpty := oks.any fun (_, t) => !t.isEmpty
  let hasPq := oks.any fun (k, _) => isParquet k
  let tags := ["sql", Driver.SQL.topShape cs.plan, if errs.isEmpty then "sql:answered" else "sql:err"]
              ++ (if (Driver.getNat c "files").toOption.getD 1 ≥ 2 then ["files:multi"] else ["files:one"])
              ++ [s!"rg:{(Driver.getNat c "rg").toOption.getD 0}"] ++ variants ++ pathTags ++ (if pathTags.any (·.endsWith "MorselAggregate") then ["path:morsel_taken"] else []) ++ specTag ++ cs.tags ++ diffTags
              ++ (if nonEmpty then [] else ["empty_result"])
  pure { model := Json.null, k := ofail.isNone, oracle := ofail, nt := oks.length ≥ 2 && hasPq && nonEmpty, tags := tags, attr := attr }

end Driver.C04
