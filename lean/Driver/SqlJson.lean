/-
  Driver.SqlJson — JSON wire format of values, expressions and resolved query plans
  (the contract between the Rust SQL generator in harness/src/sqlgen and IQE.Spec).

  Val    : null | {"b":bool} | {"i":int} | {"f":u64 bit pattern} | {"s":string} | {"d":days}
  Expr   : {"lit":Val} {"col":i} {"outer":[d,i]} {"un":[op,E]} {"bin":[op,A,B]} {"inlist":[E,[E…],neg]}
           {"between":[E,lo,hi,neg]} {"case":[arms…]} {"coalesce":[E…]} {"nullif":[A,B]} {"cast":[E,ty]}
           {"fn":[name,[E…]]} {"exists":[k,neg]} {"insub":[E,k,neg]} {"scalar":k}
           un ops: not neg isnull isnotnull; bin ops: add sub mul div mod eq ne lt le gt ge and or like notlike concat
           ty: bool int f64 str date
  Query  : {"scan":t} {"cte":i} {"values":[[E…]…]} {"filter":{subs,p,q}} {"project":{subs,es,q}}
           {"join":{jt,lw,rw,subs,on,l,r}} {"agg":{keys,aggs:[{fn,arg,distinct}],q}} {"gsets":{keys,sets,aggs,q}}
           {"distinct":Q} {"sort":{keys:[{e,desc,nf}],q}} {"limit":{skip,fetch|null,q}} {"setop":{op,all,l,r}}
           {"window":{calls:[{fn,args,partition,order,frame}],q}} {"with":{defs,body}}
           jt: inner left right full semi anti cross; agg fn: count_star count sum avg min max; setop: union intersect except
           window fn: row_number rank dense_rank percent_rank cume_dist ntile lag lead first_value last_value nth_value | {"agg":fn}
           frame: null | {"units":"rows"|"range","start":B,"stop":B};  B: "up" | {"p":k} | "cr" | {"f":k} | "uf"
  Table  : [[Val…]…]
-/
import Lean.Data.Json
import IQE.Spec.Query
open Lean IQE IQE.Spec

namespace Driver.SqlJson

def valOfJson (j : Json) : Except String Val :=
  match j with
  | .null => pure .null
  | _ =>
    if let .ok b := j.getObjValAs? Bool "b" then pure (.bool b)
    else if let .ok i := j.getObjValAs? Int "i" then pure (.int i)
    else if let .ok n := j.getObjValAs? Nat "f" then pure (.f64 ⟨n.toUInt64⟩)
    else if let .ok s := j.getObjValAs? String "s" then pure (.str s)
    else if let .ok d := j.getObjValAs? Int "d" then pure (.date d)
    else throw s!"bad value {j.compress}"

def valToJson : Val → Json
  | .null => .null
  | .bool b => Json.mkObj [("b", b)]
  | .int i => Json.mkObj [("i", Json.num (JsonNumber.fromInt i))]
  | .f64 x => Json.mkObj [("f", Json.num (JsonNumber.fromNat x.bits.toNat))]
  | .str s => Json.mkObj [("s", s)]
  | .date d => Json.mkObj [("d", Json.num (JsonNumber.fromInt d))]

def rowOfJson (j : Json) : Except String Row := do (← j.getArr?).toList.mapM valOfJson
def tableOfJson (j : Json) : Except String Table := do (← j.getArr?).toList.mapM rowOfJson
def tableToJson (t : Table) : Json := Json.arr (t.map (fun r => Json.arr (r.map valToJson).toArray)).toArray

def errToString : Err → String
  | .type m => s!"type:{m}" | .divZero => "div_zero" | .overflow => "overflow" | .card m => s!"card:{m}"
  | .unsupported m => s!"unsupported:{m}" | .bad m => s!"bad:{m}"

def unOp : String → Except String UnOp
  | "not" => pure .not | "neg" => pure .neg | "isnull" => pure .isNull | "isnotnull" => pure .isNotNull
  | s => throw s!"bad unop {s}"

def binOp : String → Except String BinOp
  | "add" => pure .add | "sub" => pure .sub | "mul" => pure .mul | "div" => pure .div | "mod" => pure .mod
  | "eq" => pure .eq | "ne" => pure .ne | "lt" => pure .lt | "le" => pure .le | "gt" => pure .gt | "ge" => pure .ge
  | "and" => pure .and | "or" => pure .or | "like" => pure .like | "notlike" => pure .notLike | "concat" => pure .concat
  | s => throw s!"bad binop {s}"

def tyOf : String → Except String Ty
  | "bool" => pure .bool | "int" => pure .int | "f64" => pure .f64 | "str" => pure .str | "date" => pure .date
  | s => throw s!"bad type {s}"

def idx (a : Array Json) (i : Nat) : Except String Json :=
  match a[i]? with | some j => pure j | none => throw "array too short"

partial def exprOfJson (j : Json) : Except String Expr := do
  let list (x : Json) : Except String (List Expr) := do (← x.getArr?).toList.mapM exprOfJson
  if let .ok v := j.getObjVal? "lit" then return .lit (← valOfJson v)
  if let .ok i := j.getObjValAs? Nat "col" then return .col i
  if let .ok a := j.getObjValAs? (Array Json) "outer" then return .outer (← (← idx a 0).getNat?) (← (← idx a 1).getNat?)
  if let .ok a := j.getObjValAs? (Array Json) "un" then return .un (← unOp (← (← idx a 0).getStr?)) (← exprOfJson (← idx a 1))
  if let .ok a := j.getObjValAs? (Array Json) "bin" then
    return .bin (← binOp (← (← idx a 0).getStr?)) (← exprOfJson (← idx a 1)) (← exprOfJson (← idx a 2))
  if let .ok a := j.getObjValAs? (Array Json) "inlist" then
    return .inList (← exprOfJson (← idx a 0)) (← list (← idx a 1)) (← (← idx a 2).getBool?)
  if let .ok a := j.getObjValAs? (Array Json) "between" then
    return .between (← exprOfJson (← idx a 0)) (← exprOfJson (← idx a 1)) (← exprOfJson (← idx a 2)) (← (← idx a 3).getBool?)
  if let .ok a := j.getObjVal? "case" then return .case_ (← list a)
  if let .ok a := j.getObjVal? "coalesce" then return .coalesce (← list a)
  if let .ok a := j.getObjValAs? (Array Json) "nullif" then return .nullif (← exprOfJson (← idx a 0)) (← exprOfJson (← idx a 1))
  if let .ok a := j.getObjValAs? (Array Json) "cast" then return .cast (← exprOfJson (← idx a 0)) (← tyOf (← (← idx a 1).getStr?))
  if let .ok a := j.getObjValAs? (Array Json) "fn" then return .fn (← (← idx a 0).getStr?) (← list (← idx a 1))
  if let .ok a := j.getObjValAs? (Array Json) "exists" then return .exists_ (← (← idx a 0).getNat?) (← (← idx a 1).getBool?)
  if let .ok a := j.getObjValAs? (Array Json) "insub" then
    return .inSub (← exprOfJson (← idx a 0)) (← (← idx a 1).getNat?) (← (← idx a 2).getBool?)
  if let .ok k := j.getObjValAs? Nat "scalar" then return .scalarSub k
  throw s!"bad expr {j.compress}"

def joinType : String → Except String JoinType
  | "inner" => pure .inner | "left" => pure .left | "right" => pure .right | "full" => pure .full
  | "semi" => pure .semi | "anti" => pure .anti | "cross" => pure .cross | s => throw s!"bad join type {s}"

def aggFn : String → Except String AggFn
  | "count_star" => pure .countStar | "count" => pure .count | "sum" => pure .sum | "avg" => pure .avg
  | "min" => pure .min | "max" => pure .max | s => throw s!"bad aggregate {s}"

def aggCall (j : Json) : Except String AggCall := do
  let f ← aggFn (← j.getObjValAs? String "fn")
  let arg ← match j.getObjVal? "arg" with | .ok a => (if a.isNull then pure (Expr.lit .null) else exprOfJson a) | .error _ => pure (Expr.lit .null)
  let d := (j.getObjValAs? Bool "distinct").toOption.getD false
  pure { fn := f, arg := arg, distinct := d }

def sortKey (j : Json) : Except String SortKey := do
  pure { e := ← exprOfJson (← j.getObjVal? "e"), desc := (j.getObjValAs? Bool "desc").toOption.getD false,
         nullsFirst := (j.getObjValAs? Bool "nf").toOption.getD false }

def setOp : String → Except String SetOp
  | "union" => pure .union | "intersect" => pure .intersect | "except" => pure .except | s => throw s!"bad setop {s}"

def frameBound (j : Json) : Except String FrameBound :=
  match j with
  | .str "up" => pure .unboundedPreceding | .str "cr" => pure .currentRow | .str "uf" => pure .unboundedFollowing
  | _ => if let .ok k := j.getObjValAs? Nat "p" then pure (.preceding k)
         else if let .ok k := j.getObjValAs? Nat "f" then pure (.following k) else throw "bad frame bound"

def winFn (j : Json) : Except String WinFn :=
  match j with
  | .str "row_number" => pure .rowNumber | .str "rank" => pure .rank | .str "dense_rank" => pure .denseRank
  | .str "percent_rank" => pure .percentRank | .str "cume_dist" => pure .cumeDist | .str "ntile" => pure .ntile
  | .str "lag" => pure .lag | .str "lead" => pure .lead | .str "first_value" => pure .firstValue
  | .str "last_value" => pure .lastValue | .str "nth_value" => pure .nthValue
  | _ => do pure (.agg (← aggFn (← j.getObjValAs? String "agg")))

def winCall (j : Json) : Except String WinCall := do
  let exprs (k : String) : Except String (List Expr) := do (← j.getObjValAs? (Array Json) k).toList.mapM exprOfJson
  let fr ← match j.getObjVal? "frame" with
    | .ok f => if f.isNull then pure none else do
        let u ← f.getObjValAs? String "units"
        pure (some { units := if u == "range" then .range else .rows, start := ← frameBound (← f.getObjVal? "start"),
                     stop := ← frameBound (← f.getObjVal? "stop") : Frame })
    | .error _ => pure none
  pure { fn := ← winFn (← j.getObjVal? "fn"), args := ← exprs "args", partition := ← exprs "partition",
         order := ← (← j.getObjValAs? (Array Json) "order").toList.mapM sortKey, frame := fr }

partial def queryOfJson (j : Json) : Except String Query := do
  let qs (x : Json) : Except String (List Query) := do (← x.getArr?).toList.mapM queryOfJson
  let es (x : Json) : Except String (List Expr) := do (← x.getArr?).toList.mapM exprOfJson
  let subsOf (o : Json) : Except String (List Query) :=
    match o.getObjVal? "subs" with | .ok s => qs s | .error _ => pure []
  if let .ok t := j.getObjValAs? Nat "scan" then return .scan t
  if let .ok i := j.getObjValAs? Nat "cte" then return .cteRef i
  if let .ok v := j.getObjValAs? (Array Json) "values" then return .values (← v.toList.mapM es)
  if let .ok o := j.getObjVal? "filter" then
    return .filter (← subsOf o) (← exprOfJson (← o.getObjVal? "p")) (← queryOfJson (← o.getObjVal? "q"))
  if let .ok o := j.getObjVal? "project" then
    return .project (← subsOf o) (← es (← o.getObjVal? "es")) (← queryOfJson (← o.getObjVal? "q"))
  if let .ok o := j.getObjVal? "join" then
    return .join (← joinType (← o.getObjValAs? String "jt")) (← o.getObjValAs? Nat "lw") (← o.getObjValAs? Nat "rw") (← subsOf o)
      (← exprOfJson (← o.getObjVal? "on")) (← queryOfJson (← o.getObjVal? "l")) (← queryOfJson (← o.getObjVal? "r"))
  if let .ok o := j.getObjVal? "agg" then
    return .agg (← es (← o.getObjVal? "keys")) (← (← o.getObjValAs? (Array Json) "aggs").toList.mapM aggCall) (← queryOfJson (← o.getObjVal? "q"))
  if let .ok o := j.getObjVal? "gsets" then
    let sets ← (← o.getObjValAs? (Array Json) "sets").toList.mapM (fun s => do (← s.getArr?).toList.mapM (·.getNat?))
    return .groupingSets (← es (← o.getObjVal? "keys")) sets (← (← o.getObjValAs? (Array Json) "aggs").toList.mapM aggCall)
      (← queryOfJson (← o.getObjVal? "q"))
  if let .ok q := j.getObjVal? "distinct" then return .distinct (← queryOfJson q)
  if let .ok o := j.getObjVal? "sort" then
    return .sort (← (← o.getObjValAs? (Array Json) "keys").toList.mapM sortKey) (← queryOfJson (← o.getObjVal? "q"))
  if let .ok o := j.getObjVal? "limit" then
    let f := match o.getObjValAs? Nat "fetch" with | .ok n => some n | .error _ => none
    return .limit (← o.getObjValAs? Nat "skip") f (← queryOfJson (← o.getObjVal? "q"))
  if let .ok o := j.getObjVal? "setop" then
    return .setop (← setOp (← o.getObjValAs? String "op")) (← o.getObjValAs? Bool "all") (← queryOfJson (← o.getObjVal? "l"))
      (← queryOfJson (← o.getObjVal? "r"))
  if let .ok o := j.getObjVal? "window" then
    return .window (← (← o.getObjValAs? (Array Json) "calls").toList.mapM winCall) (← queryOfJson (← o.getObjVal? "q"))
  if let .ok o := j.getObjVal? "with" then
    return .withCte (← qs (← o.getObjVal? "defs")) (← queryOfJson (← o.getObjVal? "body"))
  throw s!"bad query {j.compress.take 200}"

end Driver.SqlJson
