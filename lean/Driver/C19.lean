-- FAMILY: C19
import Driver.Util
import IQE.Engine.CacheStamp
open Lean IQE.Engine.CacheStamp
namespace Driver.C19

/-- a version of the file as the history wrote it and the file system reported it -/
structure Ver where
  idx : Nat                 -- position of the write op
  rgs : List (List Int)     -- content (row groups of k)
  len : Nat
  mtimeNs : Nat
deriving Repr

def Ver.sameContent (a b : Ver) : Bool := a.rgs == b.rgs
/-- content identity for the abstract model: the index of the first version with the same bytes-determining data -/
def contentId (vs : List Ver) (v : Ver) : Nat := match vs.find? (fun w => w.sameContent v) with | some w => w.idx | none => v.idx
def Ver.file (vs : List Ver) (v : Ver) : File := { content := contentId vs v, len := v.len, mtimeNs := v.mtimeNs }

inductive Ans where
  | ok (n : Int) (s : Option Int)
  | err
deriving BEq, Repr

def expected (v : Ver) (q : String) (c : Int) : Ans :=
  let all := v.rgs.flatten
  let sel := if q == "gt" then all.filter (· > c) else all
  .ok sel.length (if sel.isEmpty then none else some (sel.foldl (· + ·) 0))

def parseAns (j : Json) : Ans :=
  match j.getObjValAs? Int "n" with
  | .ok n => .ok n (match j.getObjVal? "s" with | .ok v => (v.getInt?).toOption | .error _ => none)
  | .error _ => .err

structure St where
  vers : List Ver := []            -- all versions written so far
  cur : Option Ver := none
  queried : List Ver := []         -- versions that were current at a query of this process (footer cache may hold them)
  built : List Ver := []           -- versions a sidecar may have been built from
  viaProvider : List Ver := []     -- versions seen through the currently registered provider
  -- exact single-layer models (every query consults the layer), for the `model` field
  footer : State Nat := State.init
  sidecar : State (Nat × Nat) := State.init

def handler : Driver.Handler := fun c i => do
  let mode ← Driver.getStr c "mode"
  let ops ← Driver.getArr c "ops"
  let answers ← match i.getObjVal? "answers" with
    | .ok a => a.getArr?
    | .error _ => throw "impl has no answers (harness error)"
  let mut st : St := {}
  let mut qi := 0
  let mut fails : List String := []
  let mut unexplained := false
  let mut firstAttr : Option String := none
  let mut kOk := true
  let mut tags : List String := [s!"mode-{mode}"]
  let mut modelOut : List Json := []
  let mut rewrites := 0
  let mut nt := false
  for (op, pos) in ops.toList.zip (List.range ops.size) do
    let kind ← Driver.getStr op "op"
    if kind == "write" then
      let rgsJ ← Driver.getArr op "rgs"
      let rgs ← rgsJ.toList.mapM Driver.asIntList
      let v : Ver := { idx := pos, rgs := rgs, len := ← Driver.getNat op "len", mtimeNs := ← Driver.getNat op "mtime_ns" }
      if st.cur.isSome then rewrites := rewrites + 1
      let vers := st.vers ++ [v]
      let f := v.file vers
      st := { st with vers := vers, cur := some v,
                      footer := (step stampFooter st.footer (.write 0 f)).1, sidecar := (step stampSidecar st.sidecar (.write 0 f)).1 }
    else if kind == "build" then
      match st.cur with
      | some v =>
        st := { st with built := st.built ++ [v], sidecar := (step stampSidecar st.sidecar (.query 0)).1 }
      | none => pure ()
    else if kind == "query" then
      let q ← Driver.getStr op "q"
      let cst ← Driver.getInt op "c"
      let fresh := (op.getObjValAs? Bool "fresh").toOption.getD true
      let some v := st.cur | throw "query before the first write"
      let impl := match answers[qi]? with | some a => parseAns a | none => Ans.err
      qi := qi + 1
      if rewrites > 0 then nt := true
      let viaProvider := if fresh then [] else st.viaProvider
      -- stamp collisions with versions a cache layer may still hold
      let colFooter := st.queried.any fun w => w.mtimeNs == v.mtimeNs && !w.sameContent v
      let colSidecar := mode != "0" && st.built.any fun w => w.len == v.len && w.mtimeNs / 1000000000 == v.mtimeNs / 1000000000 && !w.sameContent v
      let colProvider := viaProvider.any fun w => !w.sameContent v
      -- exact single-layer predictions
      let (f1, a1) := step stampFooter st.footer (.query 0)
      let (s1, a2) := if mode == "1" then step stampSidecar st.sidecar (.query 0)
                      else (st.sidecar, match st.sidecar.cache 0 with
                            | some (stp, cc) => if stp == stampSidecar (v.file st.vers) then some cc else some (contentId st.vers v)
                            | none => some (contentId st.vers v))
      let cid := contentId st.vers v
      modelOut := modelOut ++ [Json.mkObj [("footer", if a1 == some cid then "fresh" else "stale"),
                                          ("sidecar", if mode == "0" || a2 == some cid then "fresh" else "stale")]]
      let exp := expected v q cst
      if impl != exp then
        let what := match impl with | .err => "an error" | .ok n s => s!"n={n} s={s}"
        fails := fails ++ [s!"query #{qi} ({q}) after {rewrites} rewrite(s) served {what}, the file holds {match exp with | .ok n s => s!"n={n} s={s}" | .err => "?"}"]
        tags := tags ++ [match impl with | .err => "err-served" | _ => "stale-served"]
        if colSidecar then
          if firstAttr.isNone then firstAttr := some "C19-F1"
        else if colFooter then
          if firstAttr.isNone then firstAttr := some "C19-F2"
        else unexplained := true
        if !(colSidecar || colFooter || colProvider) then kOk := false
      else
        if colFooter || colSidecar then tags := tags ++ ["collision-harmless"]
      if colFooter then tags := tags ++ ["collision-footer"]
      if colSidecar then tags := tags ++ ["collision-sidecar"]
      st := { st with queried := st.queried ++ [v], built := if mode == "1" then st.built ++ [v] else st.built,
                      viaProvider := viaProvider ++ [v], footer := f1, sidecar := s1 }
    else pure ()
  if rewrites > 0 then tags := tags ++ ["rewrite"]
  let o : Option String := match fails with | [] => none | f :: _ => some f
  pure { model := Json.arr modelOut.toArray, k := kOk, oracle := o, nt := nt, tags := tags.eraseDups,
         attr := if o.isSome && !unexplained then firstAttr else none }

end Driver.C19
