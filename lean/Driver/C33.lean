-- FAMILY: C33
/-
  C33 driver: the observed trace of a scheduled run of real threads on the real `MemoryPool` must be a VALID RUN of the
  small-step model (IQE.Engine.MemPool) — K is a relation: the only choice the implementation resolves is whether a
  `compare_exchange_weak` succeeded (it may fail spuriously).  Under the harness scheduler exactly one thread runs at a
  time and hand-overs go through a mutex, so every load / failed CAS returns the current value of `used` (coherence).

  case: {"max","threads":[[op]],"schedule":[tid]}   impl: {"outcome","events":[{"t","op","id","used","done"}],
        "leftover_used","final_used"}   (see harness/src/fam_c33.rs)

  The oracle is evaluated on the implementation's trace alone (program text + reported results + observed `used`):
  used = Σ live reservations after every step (mod 2^64 when the true sum is not below 2^64), used ≤ max at every
  grant of try_allocate, no fetch_sub below zero, used = 0 after everything was dropped; for programs that only use
  try_allocate / shrink / drop additionally used ≤ max after every step.
-/
import Driver.Util
import IQE.Engine.MemPool
open Lean IQE.Engine IQE.Engine.MemPool
namespace Driver.C33

inductive POp where
  | try_ (n : Nat) | alloc (n : Nat) | resize (slot to : Nat) | drop (slot : Nat)
  deriving Repr, Inhabited

structure Ev where
  t : Nat
  op : Nat
  id : Nat
  used : Nat
  done : Option String
  deriving Repr

def parseOp (j : Json) : Except String POp := do
  let k ← Driver.getStr j "op"
  if k == "try" then pure (.try_ (← Driver.getNat j "n"))
  else if k == "alloc" then pure (.alloc (← Driver.getNat j "n"))
  else if k == "resize" then pure (.resize (← Driver.getNat j "slot") (← Driver.getNat j "to"))
  else if k == "drop" then pure (.drop (← Driver.getNat j "slot"))
  else throw s!"unknown op {k}"

def parseEv (j : Json) : Except String Ev := do
  let done : Option String := match j.getObjVal? "done" with
    | .ok v => (v.getStr?).toOption
    | .error _ => none
  pure { t := ← Driver.getNat j "t", op := ← Driver.getNat j "op", id := ← Driver.getNat j "id",
         used := ← Driver.getNat j "used", done := done }

/-- per-thread replay state: next program position, slot table (slot k ↦ index in `live`, none = empty) -/
structure Th where
  cursor : Nat := 0
  slots : List (Option Nat) := []
  deriving Repr, Inhabited

structure Rep where
  cfg : Cfg
  ths : List Th
  tags : List String := []
  switchedMidTry : Bool := false

def slotLive (th : Th) (k : Nat) : Option Nat := (th.slots[k]?).join

/-- an op that the harness thread skips without touching the pool -/
def skippable (th : Th) : POp → Bool
  | .resize k _ => (slotLive th k).isNone
  | .drop k => (slotLive th k).isNone
  | _ => false

def allSkippable (th : Th) (prog : List POp) (fromIdx toIdx : Nat) : Bool :=
  (List.range (toIdx - fromIdx)).all (fun d => match prog[fromIdx + d]? with | some o => skippable th o | none => false)

def addTag (r : Rep) (t : String) : Rep := if r.tags.contains t then r else { r with tags := t :: r.tags }

/-- One observed event against the model. `Except` carries the reason why the trace is not a valid run. -/
def replayEv (progs : List (List POp)) (r : Rep) (e : Ev) : Except String Rep := do
  let prog ← match progs[e.t]? with | some p => pure p | none => throw s!"event of unknown thread {e.t}"
  let th ← match r.ths[e.t]? with | some x => pure x | none => throw "thread table"
  let pc ← match r.cfg.pcs[e.t]? with | some x => pure x | none => throw "pc table"
  let op ← match prog[e.op]? with | some o => pure o | none => throw s!"thread {e.t}: event in op {e.op} beyond its program"
  -- program order: everything between the cursor and this op was skipped legitimately
  match pc with
  | .cas _ _ => if e.op != th.cursor then throw s!"thread {e.t}: left try_allocate without finishing it"
  | .idle =>
    if e.op < th.cursor then throw s!"thread {e.t}: op {e.op} executed twice"
    if !allSkippable th prog th.cursor e.op then throw s!"thread {e.t}: skipped an op that holds a live reservation"
  let c := r.cfg
  -- a switch to another thread while somebody is between its load and its CAS
  let mid := (List.range c.pcs.length).any (fun u => u != e.t && (match c.pcs[u]? with | some (.cas _ _) => true | _ => false))
  let r := if mid then { r with switchedMidTry := true } else r
  let (label, r) ← (match op, pc with
    | .try_ n, .idle =>
      if e.id != 1 then throw s!"thread {e.t}: try_allocate starts with yield {e.id}" else
      pure (Label.tryLoad e.t n c.used, r)
    | .try_ _, .cas _ cur =>
      if e.id != 2 then throw s!"thread {e.t}: expected the CAS (yield 2), saw yield {e.id}" else
      let ok := e.done == some "some"
      let r := if !ok && c.used == cur then addTag r "spurious-cas-fail" else r
      let r := if !ok then addTag r "cas-retry" else r
      pure (Label.cas e.t ok c.used, r)
    | .alloc n, .idle =>
      if e.id != 3 then throw s!"thread {e.t}: allocate with yield {e.id}" else pure (Label.allocate e.t n, r)
    | .resize k to, .idle =>
      match slotLive th k with
      | none => throw s!"thread {e.t}: resize of an empty slot touched the pool"
      | some idx =>
        let sz := ((c.live[idx]?).join).getD 0
        let want := if to > sz then 4 else 5
        if e.id != want then throw s!"thread {e.t}: resize {sz}→{to} took yield {e.id}" else
        pure (Label.resize e.t idx to, addTag r (if to > sz then "grow" else "shrink"))
    | .drop k, .idle =>
      match slotLive th k with
      | none => throw s!"thread {e.t}: drop of an empty slot touched the pool"
      | some idx => if e.id != 6 then throw s!"thread {e.t}: drop with yield {e.id}" else pure (Label.drop e.t idx, addTag r "drop")
    | _, _ => throw s!"thread {e.t}: op {e.op} started inside try_allocate")
  let c' ← match step c label with
    | some c' => pure c'
    | none => throw s!"step not enabled in the model: {repr label} (used={c.used})"
  if c'.used != e.used then throw s!"used after step: model {c'.used}, observed {e.used} ({repr label})"
  -- completion and result of the op
  let pc' := (c'.pcs[e.t]?).getD .idle
  let mdone : Option String := match op, pc', label with
    | .try_ _, .cas _ _, _ => none
    | .try_ _, .idle, .cas _ true _ => some "some"
    | .try_ _, .idle, _ => some "none"
    | _, _, _ => some "ok"
  if mdone != e.done then throw s!"thread {e.t} op {e.op}: model result {mdone}, observed {e.done}"
  let r := match op, mdone, label with
    | .try_ _, some "some", _ => addTag r "try-some"
    | .try_ n, some "none", .tryLoad _ _ v => addTag r (if v + n ≥ M then "try-none-overflow" else "try-none-at-load")
    | .try_ n, some "none", .cas _ _ v => addTag r (if v + n ≥ M then "try-none-overflow" else "try-none-after-retry")
    | .alloc _, _, _ => addTag r (if c'.used > c'.max then "forced-over-limit" else "alloc")
    | _, _, _ => r
  let th' : Th := match mdone, op with
    | none, _ => { th with cursor := e.op }
    | some res, .try_ _ => { cursor := e.op + 1, slots := th.slots ++ [if res == "some" then some c.live.length else none] }
    | some _, .alloc _ => { cursor := e.op + 1, slots := th.slots ++ [some c.live.length] }
    | some _, .resize _ _ => { th with cursor := e.op + 1 }
    | some _, .drop k => { cursor := e.op + 1, slots := th.slots.set k none }
  pure { r with cfg := c', ths := r.ths.set e.t th' }

def replayAll (progs : List (List POp)) : Rep → List Ev → Except String Rep
  | r, [] => pure r
  | r, e :: es => do replayAll progs (← replayEv progs r e) es

/-- drop everything that is still live (what the harness does on its main thread after the run) -/
def dropAll (c : Cfg) : Cfg :=
  (List.range c.live.length).foldl (fun c i => match step c (.drop 0 i) with | some c' => c' | none => c) c

/-! ### the oracle: on the implementation's trace only -/

structure OSt where
  tbl : List (Nat × Nat × Nat) := []   -- (thread, slot, size) of live reservations according to the reported results
  nslots : List Nat                    -- per thread: number of try/alloc ops completed
  prevUsed : Nat := 0

def osum (s : OSt) : Nat := (s.tbl.map (fun x => x.2.2)).sum

def oracleEv (max : Nat) (tryOnly : Bool) (progs : List (List POp)) (s : OSt) (e : Ev) : Except String OSt := do
  let op ← match (progs[e.t]?).bind (·[e.op]?) with | some o => pure o | none => throw "event outside the program"
  let before := osum s
  let s' ← (match e.done, op with
    | none, _ => pure s
    | some res, .try_ n =>
      let k := (s.nslots[e.t]?).getD 0
      let s1 := { s with nslots := s.nslots.set e.t (k + 1) }
      if res == "some" then
        -- a grant of the conditional reservation
        if before < M ∧ e.used > max then throw s!"try_allocate({n}) granted with used={e.used} > max={max}"
        else pure { s1 with tbl := (e.t, k, n) :: s1.tbl }
      else pure s1
    | some _, .alloc n =>
      let k := (s.nslots[e.t]?).getD 0
      pure { s with nslots := s.nslots.set e.t (k + 1), tbl := (e.t, k, n) :: s.tbl }
    | some _, .resize k to =>
      match s.tbl.find? (fun x => x.1 == e.t && x.2.1 == k) with
      | none => throw "resize reported for a reservation that is not live"
      | some (_, _, sz) =>
        if before < M ∧ to ≤ sz ∧ s.prevUsed < sz - to then throw s!"fetch_sub({sz - to}) with used={s.prevUsed}: underflow"
        else pure { s with tbl := s.tbl.map (fun x => if x.1 == e.t && x.2.1 == k then (x.1, x.2.1, to) else x) }
    | some _, .drop k =>
      match s.tbl.find? (fun x => x.1 == e.t && x.2.1 == k) with
      | none => throw "drop reported for a reservation that is not live"
      | some (_, _, sz) =>
        if before < M ∧ s.prevUsed < sz then throw s!"fetch_sub({sz}) with used={s.prevUsed}: underflow"
        else pure { s with tbl := s.tbl.filter (fun x => !(x.1 == e.t && x.2.1 == k)) })
  let after := osum s'
  if e.used != after % M then throw s!"used={e.used} but the live reservations sum to {after}"
  if tryOnly ∧ e.used > max then throw s!"used={e.used} > max={max} although only try_allocate/shrink/drop were used"
  pure { s' with prevUsed := e.used }

def oracleAll (max : Nat) (tryOnly : Bool) (progs : List (List POp)) : OSt → List Ev → Except String OSt
  | s, [] => pure s
  | s, e :: es => do oracleAll max tryOnly progs (← oracleEv max tryOnly progs s e) es

def isTryOnly (progs : List (List POp)) : Bool :=
  -- statically: no forced allocate and no resize at all above the current size cannot be known statically, so
  -- only programs without `alloc` whose resizes all go to 0 count
  progs.all (fun p => p.all (fun o => match o with | .alloc _ => false | .resize _ to => to == 0 | _ => true))

def handler : Driver.Handler := fun c i => do
  let max ← Driver.getNat c "max"
  let progs ← (← Driver.getArr c "threads").toList.mapM (fun p => do (← p.getArr?).toList.mapM parseOp)
  let outcome := (Driver.getStr i "outcome").toOption.getD "?"
  if outcome != "ok" then
    return { model := Json.null, k := false,
             oracle := if outcome == "panic" then some "the pool code panicked" else none,
             nt := false, tags := [s!"outcome-{outcome}"] }
  let evs ← (← Driver.getArr i "events").toList.mapM parseEv
  let leftover ← Driver.getNat i "leftover_used"
  let fin ← Driver.getNat i "final_used"
  let n := progs.length
  -- K: the trace is a valid run of the model
  let r0 : Rep := { cfg := init max n, ths := List.replicate n {} }
  let kres : Except String Rep := do
    let r ← replayAll progs r0 evs
    -- the end: nobody inside try_allocate, nothing left to execute that would touch the pool
    for t in List.range n do
      let th := (r.ths[t]?).getD {}
      let prog := (progs[t]?).getD []
      match r.cfg.pcs[t]? with
      | some (.cas _ _) => throw s!"thread {t} ended inside try_allocate"
      | _ => pure ()
      if !allSkippable th prog th.cursor prog.length then throw s!"thread {t} ended before an op that holds a live reservation"
    if r.cfg.used != leftover then throw s!"used after the threads: model {r.cfg.used}, observed {leftover}"
    let cf := dropAll r.cfg
    if cf.used != fin then throw s!"used after dropping everything: model {cf.used}, observed {fin}"
    pure r
  -- O: the property on the implementation's trace
  let tryOnly := isTryOnly progs
  let ores : Except String Unit := do
    let s ← oracleAll max tryOnly progs { nslots := List.replicate n 0 } evs
    if leftover != osum s % M then throw s!"after the threads finished used={leftover} but the live reservations sum to {osum s}"
    if fin != 0 then throw s!"used={fin} after every reservation was dropped"
  let o : Option String := match ores with | .ok _ => none | .error w => some w
  let threadsMoved := ((List.range n).filter (fun t => evs.any (fun e => e.t == t))).length
  match kres with
  | .ok r =>
    let live := total r.cfg.live
    let tags := r.tags ++ (if tryOnly then ["try-only"] else []) ++ (if live ≥ M then ["wrapped"] else [])
      ++ (if live > 0 then ["leftover"] else []) ++ (if r.switchedMidTry then ["switch-between-load-and-cas"] else [])
      ++ [s!"threads-{n}"]
    pure { model := Json.mkObj [("valid_run", true), ("steps", Json.num (JsonNumber.fromNat evs.length)),
                                ("leftover_used", Json.num (JsonNumber.fromNat r.cfg.used)), ("final_used", Json.num (JsonNumber.fromNat (dropAll r.cfg).used))],
           k := true, oracle := o, nt := threadsMoved ≥ 2 && r.switchedMidTry, tags := tags }
  | .error w =>
    pure { model := Json.mkObj [("valid_run", false), ("why", w)], k := false, oracle := o, nt := threadsMoved ≥ 2, tags := ["invalid-run"] }

end Driver.C33
