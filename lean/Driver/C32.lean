-- FAMILY: C32
import Driver.Util
import Driver.PlanJson
import IQE.Engine.PlanGraph
open Lean IQE.Engine IQE.Engine.PlanWf IQE.Engine.JoinGraph IQE.Engine.PlanGraph
namespace Driver.C32

/-- does any join of the plan carry a packed ON pair (what the final PackedJoinKeys pass leaves behind)? -/
def hasPacked : Plan → Bool
  | .join _ onL onR _ _ l r => (onL.any (fun e => (unpack e).isSome) && onR.any (fun e => (unpack e).isSome)) || hasPacked l || hasPacked r
  | .filter _ i => hasPacked i
  | .project _ _ i => hasPacked i
  | .agg _ _ _ i => hasPacked i
  | .sort _ _ i => hasPacked i
  | .limit _ _ i => hasPacked i
  | .distinct i => hasPacked i
  | .alias _ _ _ i => hasPacked i
  | _ => false

def isBushy : Tree → Bool
  | .leaf _ => false
  | .filt _ t => isBushy t
  | .node _ l r =>
    let inner (t : Tree) : Bool := match t with | .leaf _ => false | _ => true
    (inner l && inner r) || isBushy l || isBushy r

def hasFilt : Tree → Bool
  | .leaf _ => false
  | .filt ps t => !ps.isEmpty || hasFilt t
  | .node _ l r => hasFilt l || hasFilt r

def dedup (xs : List String) : List String := xs.foldl (fun acc x => if acc.contains x then acc else acc ++ [x]) []

/-- why `validReorder g t` is false, in the property's words -/
def diagnose (g : Graph) (t : Tree) : String :=
  if !t.leaves.isPerm g.rels then s!"relations changed: tree has {t.leaves}, graph has {g.rels}"
  else if !t.crossFree then "a join node has no equality predicate across its sides (cross product)"
  else "equality predicates not preserved exactly once"

structure Side where
  label : String
  plan : Except String Plan
  ans : Json

/-- verdict of one optimized plan: (oracle failure, tags, model JSON, explained by deviation `blindRelations`?) -/
def judgeSide (g : Graph) (connected : Bool) (ref cols : List String) (s : Side) : (Option String) × List String × Json × Bool :=
  match s.plan with
  | .error e => (none, [s.label ++ "_err"], Json.mkObj [("err", e)], false)
  | .ok p =>
    match extract p with
    | none =>
      -- no join region left: only legal when the graph has a single relation
      if g.rels.length ≤ 1 then (none, [], Json.str "no-region", false)
      else (some s!"{s.label}: the optimized plan has no inner-join region although the query joins {g.rels.length} relations", [], Json.str "no-region", false)
    | some ex =>
      match toTree ref cols ex.names ex.tree with
      | none => (some s!"{s.label}: a relation of the optimized plan ({ex.names}) is not a relation of the query ({ref})", [], Json.str "foreign-relation", false)
      | some t =>
        let ok := validReorder g t
        let tags := (if hasPacked p then [s.label ++ "_packed"] else []) ++ (if isBushy t then [s.label ++ "_bushy"] else [])
          ++ (if hasFilt t then [s.label ++ "_filter_pred"] else []) ++ (if ex.tree.crossCount > 0 then [s.label ++ "_has_cross"] else [])
          ++ (if t.leaves != g.rels then [s.label ++ "_reordered"] else [])
        let o := if connected && !ok then some s!"{s.label}: {diagnose g t}" else none
        -- deviation `blindRelations`: relations whose sub-plan is rooted in a Project (JoinReorder names them "project")
        let blind := (ex.names.zip ex.projLeaf).filterMap (fun (n, b) => if b then indexOf? n ref else none)
        let excused := !ok && !blind.isEmpty && validReorderDev g blind t
        (o, tags ++ (if blind.isEmpty then [] else [s.label ++ "_project_leaf"]),
         Json.mkObj [("valid", ok), ("leaves", Driver.jNatList t.leaves), ("blind", Driver.jNatList blind), ("valid_blind", excused)], excused)

def handler : Driver.Handler := fun c i => do
  let gj ← Driver.getObj c "graph"
  let relNames ← (← Driver.getArr gj "rels").toList.mapM (·.getStr?)
  let predsJ ← Driver.getArr gj "preds"
  let shape := (Driver.getStr c "shape").toOption.getD "?"
  let naming := (Driver.getStr c "naming").toOption.getD "?"
  let form := (Driver.getStr c "form").toOption.getD "?"
  let layout := (Driver.getStr c "layout").toOption.getD "?"
  let baseTags := ["shape_" ++ shape, "naming_" ++ naming, "form_" ++ form, "layout_" ++ layout]
  if let .ok e := i.getObjValAs? String "harness_err" then throw s!"harness: {e}"
  if let .ok m := i.getObjValAs? String "panic" then throw s!"harness panic: {m}"
  let bound ← PlanJson.planOrErr (← Driver.getObj i "bound")
  let opt ← PlanJson.planOrErr (← Driver.getObj i "opt")
  let jr ← PlanJson.planOrErr (← Driver.getObj i "jr")
  let ansB ← Driver.getObj i "ans_bound"
  let ansO ← Driver.getObj i "ans_opt"
  let ansJ ← Driver.getObj i "ans_jr"
  match bound with
  | .error e =>
    -- the binder refused a statement the generator considers valid: nothing to judge for C32
    return { model := Json.mkObj [("bind_err", e)], k := false, nt := false, tags := baseTags ++ ["bind_err"] }
  | .ok pb =>
    -- the graph as read off the bound plan
    let exb ← match extract pb with
      | some x => pure x
      | none =>
        if relNames.length ≤ 1 then pure { names := relNames, tree := .leaf 0 : Extracted }
        else throw "no join region in the bound plan"
    let ref := exb.names
    if dedup ref != ref then throw s!"relation names of the bound plan are not distinct: {ref}"
    let exo := match opt with | .ok p => (extract p).map (·.tree.colNames) |>.getD [] | .error _ => []
    let exj := match jr with | .ok p => (extract p).map (·.tree.colNames) |>.getD [] | .error _ => []
    -- intended predicates (generator) take part in the interning so that ids agree
    let intendedNamed ← predsJ.toList.mapM (fun pj => do
      let a ← pj.getArr?
      pure ((← (← PlanJson.idx a 0).getStr?), (← (← PlanJson.idx a 1).getStr?), (← (← PlanJson.idx a 2).getStr?), (← (← PlanJson.idx a 3).getStr?)))
    let cols := dedup (exb.tree.colNames ++ exo ++ exj ++ intendedNamed.flatMap (fun (_, ca, _, cb) => [ca, cb]))
    let tb ← match toTree ref cols exb.names exb.tree with | some t => pure t | none => throw "bound tree conversion failed"
    let g : Graph := { rels := List.range ref.length, preds := tb.preds }
    -- K: the graph read off the bound plan is the graph the generator rendered
    let intended : Option (List Pred) := intendedNamed.mapM (fun (ra, ca, rb, cb) => do
      pure { a := ← indexOf? ra ref, ca := ← indexOf? ca cols, b := ← indexOf? rb ref, cb := ← indexOf? cb cols : Pred })
    let graphAgrees : Bool := match intended with
      | some ps => (ps.map Pred.norm).isPerm (g.preds.map Pred.norm) && relNames.isPerm ref
      | none => false
    let connected : Bool := (greedyTree g).isSome
    let wfg : Bool := wellFormedB g
    let (oO, tO, mO, exO) := judgeSide g connected ref cols { label := "opt", plan := opt, ans := ansO }
    let (oJ, tJ, mJ, _) := judgeSide g connected ref cols { label := "jr", plan := jr, ans := ansJ }
    -- answers: optimized vs unoptimized, whenever the unoptimized plan ran
    let ran (a : Json) : Bool := (a.getObjVal? "rows").toOption.isSome || (a.getObjVal? "digest").toOption.isSome
    let ansCheck (label : String) (a : Json) (planOk : Bool) : Option String :=
      if !planOk then none
      else if ran ansB then (if a == ansB then none else some s!"{label}: answer differs from the unoptimized plan's answer")
      else none
    let oA := ansCheck "opt" ansO (match opt with | .ok _ => true | _ => false)
    let oB := ansCheck "jr" ansJ (match jr with | .ok _ => true | _ => false)
    let oracle := oO <|> oJ <|> oA <|> oB
    -- Finding C32-F1: the ONLY failure is the production plan's cross product, it is explained by the deviation
    -- (every product node is crossed by invisible predicates only), and JoinReorder alone on the bound plan
    -- (no Project wrapper yet — the neutraliser) passes the strict checker; anything else stays a VIOLATION.
    let attr : Option String :=
      if oO.isSome && exO && oJ.isNone && oA.isNone && oB.isNone && (match jr with | .ok _ => true | _ => false) then some "C32-F1" else none
    let errTags := (if ran ansB then [] else ["unopt_not_run"])
    let planErr := (match opt with | .error _ => true | _ => false) || (match jr with | .error _ => true | _ => false)
    let model := Json.mkObj [("connected", Json.bool connected), ("well_formed", Json.bool wfg), ("graph_agrees", Json.bool graphAgrees),
      ("greedy_leaves", match greedyTree g with | some t => Driver.jNatList t.leaves | none => Json.null), ("opt", mO), ("jr", mJ)]
    -- plans the optimizer failed to produce are C31's business: tagged (`opt_err`, `jr_err`), not judged here
    let _ := planErr
    pure { model := model, k := graphAgrees, oracle := oracle, nt := connected && ref.length ≥ 3, attr := attr,
           tags := baseTags ++ [if connected then "connected" else "disconnected", s!"n{ref.length}"] ++ tO ++ tJ ++ errTags
                   ++ (if attr.isSome then ["attr_C32-F1"] else []) }

end Driver.C32
