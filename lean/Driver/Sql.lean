-- FAMILY: SQL
/-
  Driver.SQL.handler — the SQL family: `Driver.SqlCore` plus the attribution of failing cases to the listed known
  findings of the properties served by the generic harness family `SQL` (C44, C24, C01, C28, C27).
  Rule (DESIGN §3.4): a failing case is attributed to finding F only if the implementation's rows are an acceptable
  answer of the plan *as the engine model with exactly F's deviation switch on executes it*; the model with all
  switches off is the reference semantics, which satisfies the oracle by `C01_acceptable_refl`.
-/
import Driver.SqlCore
import IQE.Engine.Values
import IQE.Engine.SetOps
open Lean IQE IQE.Spec

namespace Driver.SQL

/-- C44-F1 (fixed by /repo 70263df: the planner lowered every VALUES list to an empty table).  The switch is no longer in the
    active set: `attrByProp` does not consult it, so a recurrence is reported as a violation. -/
def attrC44 : AttrFn := fun c o _ =>
  match o with
  | .ok out =>
    if Engine.Values.hasValues c.plan then
      match Spec.acceptable fo fns c.tables (Engine.Values.devPlan { valuesEmpty := true } c.plan) out with
      | .ok true => some "C44-F1"
      | _ => none
    else none
  | _ => none

/-- is `out` an acceptable answer of the plan as the set-operation model executes it under `dev`? -/
def setopsExplain (dev : Engine.SetOps.Dev) (c : Case) (out : Table) : Bool :=
  match Engine.SetOps.materialiseTop dev fo fns c.tables c.plan with
  | .ok q => (match Spec.acceptable fo fns c.tables q out with | .ok true => true | _ => false)
  | .error _ => false

/-- C24-F1 (NULL: join keys never match NULL; Distinct keeps every NULL row) and C24-F2 (ALL forms keep left multiplicities).
    Tried in the order F1 alone, F2 alone, both (reported as F1). -/
def attrC24 : AttrFn := fun c o _ =>
  match o with
  | .ok out =>
    if Engine.SetOps.hasTopSetop c.plan then
      if setopsExplain { nullNeverMatches := true, distinctNullOwnGroup := true } c out then some "C24-F1"
      else if setopsExplain { allIgnoresCount := true } c out then some "C24-F2"
      else if setopsExplain Engine.SetOps.today c out then some "C24-F1"
      else none
    else none
  | _ => none

mutual
/-- does some node of the plan (subqueries and CTE definitions included) satisfy `f`? -/
def anyNode (f : Query → Bool) : Query → Bool
  | .scan t => f (.scan t)
  | .cteRef i => f (.cteRef i)
  | .values rows => f (.values rows)
  | .filter subs p q => f (.filter subs p q) || anyNodeL f subs || anyNode f q
  | .project subs es q => f (.project subs es q) || anyNodeL f subs || anyNode f q
  | .join jt lw rw subs on l r => f (.join jt lw rw subs on l r) || anyNodeL f subs || anyNode f l || anyNode f r
  | .agg keys aggs q => f (.agg keys aggs q) || anyNode f q
  | .groupingSets keys sets aggs q => f (.groupingSets keys sets aggs q) || anyNode f q
  | .distinct q => f (.distinct q) || anyNode f q
  | .sort keys q => f (.sort keys q) || anyNode f q
  | .limit s fe q => f (.limit s fe q) || anyNode f q
  | .setop op all l r => f (.setop op all l r) || anyNode f l || anyNode f r
  | .window calls q => f (.window calls q) || anyNode f q
  | .withCte defs body => f (.withCte defs body) || anyNodeL f defs || anyNode f body
def anyNodeL (f : Query → Bool) : List Query → Bool
  | [] => false
  | q :: qs => anyNode f q || anyNodeL f qs
end

def isAggNode : Query → Bool
  | .agg _ _ _ | .groupingSets _ _ _ _ | .distinct _ => true
  | _ => false
/-- an aggregation that forms groups by key: GROUP BY with at least one key, grouping sets, DISTINCT. A global aggregate
    (no key) is NOT one: none of the open C21 findings (F2 empty aggregate list with NULL keys, F3 / F4 all-NULL key group)
    concerns it, so a wrong global aggregate is never explained by C01-F21. -/
def isGroupedNode : Query → Bool
  | .agg keys _ _ => !keys.isEmpty
  | .groupingSets _ _ _ _ | .distinct _ => true
  | _ => false
def isJoinNode : Query → Bool
  | .join _ _ _ _ _ _ _ => true
  | _ => false
def hasSubqueryExpr : Query → Bool
  | .filter subs _ _ | .project subs _ _ | .join _ _ _ subs _ _ _ => !subs.isEmpty
  | _ => false
def isSetopNode : Query → Bool
  | .setop _ _ _ _ => true
  | _ => false

/-- the statement has a correlated subquery: some expression refers to an enclosing query's row -/
def hasCorrelatedSubquery (c : Case) : Bool :=
  match c.raw.getObjVal? "plan" with
  | .ok p => (p.compress.splitOn "\"outer\"").length > 1
  | .error _ => false

/-- a FROM clause with two or more joins: a join whose input is itself a join -/
def joinOverJoin : Query → Bool
  | .join _ _ _ _ _ l r => isJoinNode l || isJoinNode r
  | _ => false

/-- GROUPING SETS / ROLLUP / CUBE whose input contains a join -/
def groupingOverJoin : Query → Bool
  | .groupingSets _ _ _ q => anyNode isJoinNode q
  | _ => false

/-- C01 inherits the defects of the operator properties.  Exact attribution where the defect is mirrored by a model
    (set operations at the top of the statement: C01-F24a NULLs / C01-F24b ALL multiplicities); otherwise signature +
    neutraliser (DESIGN §3.4): a WRONG ANSWER (never a panic) over tables that contain NULLs whose `nonull`-neutralised
    case passes the oracle on the real code, classified by the constructs present:
      C01-F21 GROUP BY with keys / DISTINCT / grouping sets (C21-F2/F3/F4: NULL keys); a statement whose only aggregations are
              global (no key) is never attributed here
      C01-F23 subquery expressions, no aggregation     (C23: NULL operands of IN / scalar subqueries)
      C01-F22 joins, no aggregation, no subquery       (C22: NULL join keys / NULL-extended rows)
      C01-F24a set operations below the top level       (C24: NULLs not distinct)
    and, for failures that survive the NULL neutraliser, neutraliser `noopt` (the same case with every optimizer rule
    switched off passes the oracle):
      C01-F03 an optimizer rule changes the answer      (C03: PredicatePushdown OR-factoring, JoinReorder over outer joins, …)
    and finally three signature-only classes, tried in this order, for defects that no data / configuration neutraliser removes:
      C01-F23c the statement has a correlated subquery   (C23: scalar / IN / NOT IN / EXISTS subqueries with an outer reference)
      C01-F27b grouping sets over a join                 (C27/A.27: equally named key columns of a self join)
      C01-F22b a FROM clause with two or more joins      (C22: keys from two earlier FROM items, outer join below another join) -/
def attrC01 : AttrFn := fun c o spec =>
  match o with
  | .ok out =>
    let exact : Option String :=
      if Engine.SetOps.hasTopSetop c.plan then
        (attrC24 c o spec).map (fun id => if id == "C24-F1" then "C01-F24a" else "C01-F24b")
      else none
    -- the NULL-neutraliser classes; a case they do not explain (e.g. a wrong GLOBAL aggregate) falls through to the later classes
    let viaNull : Option String :=
      if hasNull c && neutralPasses c then
        if anyNode isAggNode c.plan then (if anyNode isGroupedNode c.plan then some "C01-F21" else none)
        else if anyNode hasSubqueryExpr c.plan then some "C01-F23"
        else if anyNode isJoinNode c.plan then some "C01-F22"
        else if anyNode isSetopNode c.plan then some "C01-F24a"
        else none
      else none
    if exact.isSome then exact
    else if viaNull.isSome then viaNull
    else if nooptPasses c then some "C01-F03"
    -- signature-only classes (no neutraliser exists at the data / configuration level); a failure outside them is a new VIOLATION
    else if hasCorrelatedSubquery c then some "C01-F23c"
    else if anyNode groupingOverJoin c.plan then some "C01-F27b"
    else if anyNode joinOverJoin c.plan then some "C01-F22b"
    else let _ := out; none
  | _ => none

/-- C03 over the shared generator (meta mode): the open finding C03-F1 (GroupKeyReduction infers "unique" from a distinct-count
    ESTIMATE, so a non-unique column whose max−min+1 ≥ row count is taken for a key and the other GROUP BY keys are dropped)
    is attributed by signature + neutraliser: the plan has a key-forming aggregation, every configuration that is not a plain
    optimized layout (`L+noopt`, `L+without:GroupKeyReduction`, …) answers and they all agree, at least one plain layout `L`
    disagrees with them, and for each such `L` the run `L+without:GroupKeyReduction` exists — i.e. removing exactly that rule
    repairs the answer on the real engine.  Anything else (no such run, the neutralised run still wrong, an error, a panic)
    stays a VIOLATION. -/
def attrC03 : AttrFn := fun c _ _ =>
  match c.impl.getObjVal? "runs" with
  | .ok (.obj kv) =>
    let runs := kv.toList.filterMap fun (k, v) => match outcomeOfJson v with | .ok o => some (k, o) | .error _ => none
    let isPlain (k : String) : Bool := (k.splitOn "+").length == 1
    let oks := runs.filterMap fun (k, o) => match o with | .ok t => some (k, t) | _ => none
    if oks.length != runs.length || !anyNode isGroupedNode c.plan then none else
    let refs := oks.filter (fun (k, _) => !isPlain k)
    match refs with
    | [] => none
    | (_, t0) :: _ =>
      let same (t : Table) : Bool := match Spec.sameAnswer fo fns c.plan t0 t with | .ok b => b | .error _ => false
      let refsAgree := refs.all (fun (_, t) => same t)
      let bad := (oks.filter (fun (k, t) => isPlain k && !same t)).map (·.1)
      let neutralised := bad.all (fun k => refs.any (fun (k', _) => k' == k ++ "+without:GroupKeyReduction"))
      if refsAgree && !bad.isEmpty && neutralised then some "C03-F1" else none
  | _ => none

def attrByProp : AttrFn := fun c o spec =>
  match c.prop with
  | "C01" => attrC01 c o spec
  | "C03" => attrC03 c o spec
  | "C24" => attrC24 c o spec
  | _ => none

def handler : Driver.Handler := handlerWith attrByProp

end Driver.SQL
