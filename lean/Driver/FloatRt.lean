/-
  Driver.FloatRt — the machine's IEEE doubles as the `FloatOps` instance used by the driver
  (the theorems hold for every instance; this one is what Rust computes with, too).
-/
import IQE.Core.Val
namespace Driver
open IQE

def f (x : F64) : Float := Float.ofBits x.bits
def g (x : Float) : F64 := ⟨x.toBits⟩

def floatRt : FloatOps where
  add a b := g (f a + f b)
  sub a b := g (f a - f b)
  mul a b := g (f a * f b)
  div a b := g (f a / f b)
  neg a := g (- f a)
  ofInt i := g (Float.ofInt i)
  toInt x :=
    let v := f x
    if v.isNaN || v.isInf then none
    else
      let t := if v < 0 then Float.ceil v else Float.floor v
      if t < -9.3e18 || t > 9.3e18 then none
      else if t < 0 then some (-(Int.ofNat (Float.toUInt64 (-t)).toNat)) else some (Int.ofNat (Float.toUInt64 t).toNat)

end Driver
