-- FAMILY: C35
import Driver.Util
import IQE.Engine.FrontDoor
open Lean IQE.Engine IQE.Engine.FrontDoor
namespace Driver.C35

/-- `DistMode::parse(query)`: first `distributed=` pair, value through `parseModeHttp` (proved equal to the
    translator-generated `parse_value` in IQE.Props.C35); absent ⇒ Auto -/
def parseModeQ (q : String) : Option Mode :=
  match firstValue "distributed" q with
  | none => some .auto
  | some v => parseModeHttp v

/-- `ResultFormat::parse(query)`: absent ⇒ Arrow -/
def parseFormatQ (q : String) : Option FrontDoor.Format :=
  match firstValue "format" q with
  | none => some .arrow
  | some v => parseFormatValue v

def execOf (s : String) : Exec :=
  if s == "ok" then .ok else if s == "notimpl" then .notImplemented else .queryError

def reasonClass (h : Option String) : String :=
  match h with
  | none => "none"
  | some t => if t == "distributed=0 requested" then "off" else if t == "only one cluster member is up" then "one-member" else "plan-refused"

def reasonName : Option Reason → String
  | none => "none"
  | some .offRequested => "off"
  | some .oneMember => "one-member"
  | some .planRefused => "plan-refused"

def optStr (j : Json) (k : String) : Option String :=
  match j.getObjVal? k with
  | .ok (Json.str s) => some s
  | _ => none

def strList? (j : Json) (k : String) : Option (List String) :=
  match j.getObjVal? k with
  | .ok (Json.arr a) => (a.toList.mapM (fun (x : Json) => x.getStr?)).toOption
  | _ => none

def respJson (r : Response) : Json :=
  match r with
  | .ok d why => Json.mkObj [("status", (200 : Nat)), ("distributed", d), ("reason", reasonName why)]
  | .notReady => Json.mkObj [("status", (503 : Nat))]
  | .error s => Json.mkObj [("status", s)]

def handler : Driver.Handler := fun c i => do
  match i.getObjVal? "status" with
  | .error _ =>
    let why := if (i.getObjVal? "panic").isOk then "panic" else if (i.getObjVal? "transport_error").isOk then "no-response" else "setup"
    pure { model := Json.str "n/a", k := false, oracle := if why == "panic" then some "the harness/engine panicked" else none, nt := false, tags := [s!"c35-{why}"] }
  | .ok st =>
    let status ← st.getNat?
    let node ← Driver.getStr c "node"
    let path ← Driver.getStr c "path"
    let q ← Driver.getStr c "q"
    let bodyJ ← Driver.getObj c "body"
    let bodyK ← Driver.getStr bodyJ "k"
    let ready ← Driver.getBool i "ready"
    let membersUp := (i.getObjValAs? Nat "members_up").toOption.getD 0
    let planOk := (i.getObjValAs? Bool "plan_ok").toOption.getD false
    let localOut := execOf ((optStr i "local").getD "error")
    let distOut := execOf ((optStr i "dist").getD "error")
    let faultActive := (i.getObjValAs? Bool "fault_active").toOption.getD false
    let distHdr := optStr i "distributed"
    let skipped := optStr i "skipped"
    let mode := parseModeQ q
    let fmt := parseFormatQ q
    -- the model's response
    let model : Response :=
      if path == "/fragment" then
        let raw := (optStr bodyJ "text").getD ""
        let looksValid := raw.startsWith "{\"sql\""
        fragmentHandler ready false looksValid .queryError
      else
        let sqlText := (optStr bodyJ "sql").getD ""
        let req : SqlRequest := { formatOk := fmt.isSome, mode := mode, bodyTooLarge := bodyK == "huge", bodyUtf8 := bodyK != "nonutf8",
                                  bodyEmpty := bodyK == "empty" || bodyK == "spaces" || (bodyK == "stmt" && sqlText.toList.all (fun ch => ch.isWhitespace)) }
        sqlHandler req ready membersUp planOk localOut distOut
    let k : Bool :=
      status == model.status &&
      (match model with
       | .ok d why => distHdr == some (if d then "true" else "false") && reasonClass skipped == reasonName why
       | _ => true)
    -- the property predicate, on the implementation's response
    let got := strList? i "got"
    let expect := strList? i "expect"
    let o : Option String :=
      if !ready && status == 200 then some "a node whose tables are not loaded answered 200"
      else if !ready && (path == "/fragment" || (mode.isSome && fmt.isSome)) && status != 503 then some s!"not-ready node answered {status}, expected 503"
      else if node == "L1" && (i.getObjValAs? Nat "status_before_load").toOption != some 503 then some "late node did not answer 503 before its tables were loaded"
      else if status == 200 && path == "/sql" then
        if (i.getObjVal? "decode_error").isOk && (i.getObjVal? "decode_error").toOption != some Json.null then some "the body does not decode in its declared format"
        else if got.isNone || expect.isNone then some "no decodable body / no in-process answer to compare with"
        else if got != expect then some s!"the {(optStr i "format").getD "?"} body does not carry the rows of the same statement run in-process ({(got.getD []).length} vs {(expect.getD []).length} rows)"
        else if (match strList? i "got_header", strList? i "expect_header" with | some g, some e => g != e | _, _ => false) then some "column names differ from the in-process schema"
        else if (optStr i "rows_hdr") != some (toString (expect.getD []).length) then some "x-qe-rows differs from the number of rows returned"
        else
          match mode with
          | none => some "answered 200 to an unknown distributed mode"
          | some .off => if distHdr == some "false" && skipped.isSome then none else some "distributed=0 but the response does not say local-with-reason"
          | some .force => if distHdr == some "true" then none else some "distributed=1 answered without distributing"
          | some .auto =>
            if distHdr == some "true" then (if membersUp ≥ 2 && planOk then none else some "auto distributed without two members up and an exact plan")
            else if distHdr == some "false" then
              (if skipped.isNone then some "auto answered locally without a reason"
               else if membersUp ≥ 2 && planOk then some "auto answered locally although two members are up and the shape is exactly mergeable"
               else none)
            else some "x-qe-distributed missing"
      else none
    -- the view decides: a statement that the view says is answered locally, and that the local engine answers, is a 200
    let o : Option String :=
      match o with
      | some w => some w
      | none =>
        match mode with
        | some m =>
          let localDue := !(route m membersUp planOk).1
          if path == "/sql" && ready && fmt.isSome && bodyK == "stmt" && localDue && localOut == .ok && status != 200 then
            some s!"the view ({membersUp} member(s) up, mode/plan say local) calls for a local answer but the node answered {status}"
          else if status == 200 && path == "/sql" &&
                  (match (optStr i "shards").bind String.toNat? with | some sh => sh > membersUp | none => false) then
            some "fragments were sent to more nodes than the members that are up"
          else none
        | none => none
    let o : Option String :=
      match o with
      | some w => some w
      | none =>
        let wouldDistribute := match mode with | some m => (route m membersUp planOk).1 | none => false
        if faultActive && wouldDistribute && fmt.isSome && status == 200 then some "the peer's fragment failed but the node answered 200 (fallback or swallowed failure)" else none
    let modeTag := match mode with | some .auto => "mode-auto" | some .force => "mode-force" | some .off => "mode-off" | none => "mode-bad"
    let fmtTag := match fmt with | some .arrow => "fmt-arrow" | some .json => "fmt-json" | some .csv => "fmt-csv" | none => "fmt-bad"
    let tags := [s!"node-{node}", s!"path{path}", modeTag, fmtTag, s!"status-{status}", s!"body-{bodyK}"]
                ++ (if status == 200 && path == "/sql" then [if distHdr == some "true" then "dist-true" else s!"dist-false-{reasonClass skipped}"] else [])
                ++ (if faultActive then ["fault-active"] else []) ++ (if !ready then ["not-ready"] else [])
                ++ (match (c.getObjVal? "view").toOption.bind (fun v => v.getArr?.toOption) with
                    | some arr =>
                      let ks := arr.toList.filterMap (fun (x : Json) => x.getStr?.toOption)
                      ["view-unknown-peer"] ++ (if ks.contains "unknown-absent" then ["unk-absent"] else []) ++ (if ks.contains "unknown-alive" then ["unk-alive"] else [])
                      ++ (if ks.contains "up" || ks.contains "down" then ["view-mixed"] else ["view-unknown-only"])
                    | none => [])
                ++ (if status == 200 && (expect.getD []).length > 0 then ["rows-compared"] else [])
    pure { model := respJson model, k := k, oracle := o, nt := status == 200 || !ready || faultActive, tags := tags }

end Driver.C35
