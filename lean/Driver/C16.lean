-- FAMILY: C16
import Driver.Util
import IQE.Engine.HttpParse
open Lean IQE.Engine IQE.Engine.HttpParse IQE.Text
namespace Driver.C16

/-- Switches of the findings that are still open in /repo: the model K is run against.
    C16-F1 was repaired by /repo commit b8ec721 (`fix: parse_response rejects a body shorter than the declared
    Content-Length`), so no switch is on any more; a truncated success is a VIOLATION again. -/
def current : Dev := Dev.fixed

def findings : List (String × Dev) := [("C16-F1", { ignoreContentLength := true })]

inductive Obs where
  | ok (r : Resp) | err (kind : String) | panic | hang
deriving BEq, Repr

def Obs.ofOutcome : Outcome → Obs
  | .ok r => .ok r
  | .error .invalidData => .err "InvalidData"
  | .error .unexpectedEof => .err "UnexpectedEof"
  | .panic => .panic

def jChars (l : List Char) : Json := Json.arr (l.map (fun c => Json.num (JsonNumber.fromNat c.toNat))).toArray

def Obs.toJson : Obs → Json
  | .ok r => Json.mkObj [("ok", Json.mkObj [("status", Json.num (JsonNumber.fromNat r.status)),
      ("headers", Json.arr (r.headers.map (fun kv => Json.arr #[jChars kv.1, jChars kv.2])).toArray),
      ("body", Driver.jBytes r.body)])]
  | .err k => Json.mkObj [("err", k)]
  | .panic => Json.mkObj [("panic", true)]
  | .hang => Json.mkObj [("hang", true)]

def Obs.kind : Obs → String
  | .ok _ => "out:ok" | .err k => "out:err-" ++ k | .panic => "out:panic" | .hang => "out:hang"

def asChars (j : Json) : Except String (List Char) := do
  let l ← Driver.asNatList j
  pure (l.map Char.ofNat)

def asPair (f : Json → Except String (List Char)) (j : Json) : Except String (List Char × List Char) := do
  let a ← j.getArr?
  match a.toList with
  | [k, v] => pure (← f k, ← f v)
  | _ => throw "header pair expected"

def parseImpl (i : Json) : Except String Obs :=
  match i.getObjVal? "ok" with
  | .ok r => do
    let status ← Driver.getNat r "status"
    let hs ← Driver.getArr r "headers"
    let headers ← hs.toList.mapM (asPair asChars)
    let body ← Driver.asBytes (← Driver.getObj r "body")
    pure (.ok ⟨status, headers, body⟩)
  | .error _ =>
    match i.getObjVal? "err", i.getObjVal? "panic", i.getObjVal? "hang" with
    | .ok k, _, _ => do pure (.err (← k.getStr?))
    | _, .ok _, _ => pure .panic
    | _, _, .ok _ => pure .hang
    | _, _, _ => throw "unrecognised impl output"

structure Full where
  status : Nat
  headers : List (List Char × List Char)
  body : List UInt8
  cl : Bool

def parseFull (j : Json) : Except String Full := do
  let status ← Driver.getNat j "status"
  let hs ← Driver.getArr j "headers"
  let headers ← hs.toList.mapM (asPair (fun x => do pure (← x.getStr?).toList))
  let body ← Driver.asBytes (← Driver.getObj j "body")
  let cl ← Driver.getBool j "cl"
  pure ⟨status, headers, body, cl⟩

/-- C16_complete_or_error evaluated on an observed success: every declared content-length that denotes a
    number is ≤ the length of the body returned. -/
def completeOk (r : Resp) : Bool :=
  r.headers.all fun kv =>
    if kv.1 == contentLength then
      match parseUsize kv.2 with
      | some n => n ≤ r.body.length
      | none => true
    else true

/-- the property predicate on an observed output; `none` = holds -/
def oracle (full : Option Full) (cut len : Nat) (stall : Bool) : Obs → Option String
  | .panic => some "the client panicked"
  | .hang => some "the client was still pending long after its timeout"
  | .err k => if stall && k != "TimedOut" then some s!"stalled peer: expected TimedOut, got {k}"
              else match full with
                | some _ => if !stall && cut == len then some s!"complete well-formed response rejected ({k})" else none
                | none => none
  | .ok r =>
    if stall then some "stalled peer: success returned before EOF"
    else if !completeOk r then some "success with a body shorter than the declared Content-Length"
    else match full with
      | none => none
      | some f =>
        if cut == len then
          (if r.status == f.status && r.headers == lowerHeaders f.headers && r.body == f.body then none
           else some "complete response parsed to different status/headers/body")
        else if f.cl then some "truncated response (declared Content-Length) returned as success"
        else none

def handler : Driver.Handler := fun c i => do
  let kind ← Driver.getStr c "kind"
  let raw ← Driver.asBytes (← Driver.getObj c "raw")
  let imp ← parseImpl i
  let full : Option Full ← (match c.getObjVal? "full" with
    | .ok f => do pure (some (← parseFull f))
    | .error _ => pure none)
  let isSock := kind == "sock"
  let cut := (c.getObjValAs? Nat "cut").toOption.getD raw.length
  let len := (c.getObjValAs? Nat "len").toOption.getD raw.length
  let stall := (c.getObjValAs? Bool "stall").toOption.getD false
  let sub := (c.getObjValAs? String "sub").toOption.getD ((c.getObjValAs? String "api").toOption.getD "")
  -- bytes the client saw before EOF
  let seen := if isSock then raw.take cut else raw
  let view (d : Dev) : Obs := if stall then .err "TimedOut" else Obs.ofOutcome (parse d seen)
  let m := view current
  let k := m == imp
  let o := oracle full cut len stall imp
  let attr : Option String :=
    if o.isNone && k then none
    else if (oracle full cut len stall (view Dev.fixed)).isSome then none
    else (findings.find? (fun (_, d) => view d == imp)).map (·.1)
  let trunc := full.isSome && cut < len
  let tags := [kind, s!"{kind}:{sub}", imp.kind] ++ (if trunc then ["truncated"] else []) ++ (if stall then ["stall"] else [])
    ++ (match full with | some f => [if f.cl then "declared-length" else "no-length"] | none => [])
  pure { model := m.toJson, k := k, oracle := o,
         nt := (match imp with | .ok _ => true | _ => false) || trunc || stall,
         tags := tags, attr := attr }

end Driver.C16
