-- FAMILY: C39
import Driver.Util
import IQE.Engine.Tpch
import Std.Data.HashSet
open Lean IQE.Engine IQE.Engine.Tpch
namespace Driver.C39

/-- exact value of an f64 bit pattern (finite, positive) as `num / 2^k` -/
def f64Exact (bits : Nat) : Nat × Nat :=
  let e := (bits / 2 ^ 52) % 2048
  let m := bits % 2 ^ 52
  if e == 0 then (m, 2 ^ 1074)
  else
    let mant := m + 2 ^ 52
    -- value = mant · 2^(e - 1075)
    if e ≥ 1075 then (mant * 2 ^ (e - 1075), 1) else (mant, 2 ^ (1075 - e))

/-- `(ratio as f64 * sf) as usize` with the f64 product as computed by the hardware -/
def countF (ratio : Nat) (sfBits : Nat) : Nat := (Float.ofNat ratio * Float.ofBits sfBits.toUInt64).floor.toUInt64.toNat

def getCol (cols : Json) (k : String) : Except String (List Nat) := do
  let a ← (← cols.getObjVal? k).getArr?
  a.toList.mapM fun x => do
    let i ← x.getInt?
    if i < 0 then throw s!"negative key in {k}" else pure i.toNat

def setOf (l : List Nat) : Std.HashSet Nat := l.foldl (fun s x => s.insert x) {}
def allIn (l : List Nat) (s : Std.HashSet Nat) : Bool := l.all s.contains
def pairKey (p : Nat × Nat) : Nat := p.1 * 4294967296 + p.2

/-- `(l_orderkey, l_linenumber)` follows the generator's state machine for SOME sequence of coin flips -/
def orderLineOk (orders : Nat) : List (Nat × Nat) → Bool
  | [] => true
  | first :: rest =>
    first == (1, 1) &&
    (rest.foldl (fun (acc : Bool × (Nat × Nat)) cur =>
      let prev := acc.2
      (acc.1 && (cur == (prev.1, prev.2 + 1) || cur == (prev.1 % orders + 1, 1)), cur)) (true, first)).1

def countsOf (j : Json) : Except String Counts := do
  pure { part := ← Driver.getNat j "part", supplier := ← Driver.getNat j "supplier", partsupp := ← Driver.getNat j "partsupp",
         customer := ← Driver.getNat j "customer", orders := ← Driver.getNat j "orders", lineitem := ← Driver.getNat j "lineitem" }

def ratios : List (String × Nat) :=
  [("part", ratioPart), ("supplier", ratioSupplier), ("partsupp", ratioPartsupp), ("customer", ratioCustomer), ("orders", ratioOrders), ("lineitem", ratioLineitem)]

def handler : Driver.Handler := fun c i => do
  let kind ← Driver.getStr c "kind"
  let sfBits ← Driver.getNat c "sf_bits"
  let (num, den) := f64Exact sfBits
  let implCounts ← Driver.getObj i "counts"
  let cnt ← countsOf implCounts
  -- the model: exact rational floor (theorem C39_counts); the hardware product may round across an integer (tagged, accepted)
  let exact := rowCounts num den
  let hw : Counts := { part := countF ratioPart sfBits, supplier := countF ratioSupplier sfBits, partsupp := countF ratioPartsupp sfBits,
                       customer := countF ratioCustomer sfBits, orders := countF ratioOrders sfBits, lineitem := countF ratioLineitem sfBits }
  let fixedOk := (implCounts.getObjValAs? Nat "nation").toOption == some 25 && (implCounts.getObjValAs? Nat "region").toOption == some 5
  let countsOk := (cnt == exact || cnt == hw) && fixedOk
  let roundTag := if exact != hw then ["f64-product-rounds-across-integer"] else []
  -- the composite-key condition of C39_ps_fk on these counts
  let psBreaks := cnt.part > 0 && cnt.supplier > 0 && !(cnt.lineitem ≤ cnt.partsupp || Nat.lcm cnt.part cnt.supplier ≤ cnt.partsupp)
  let exactRatios := cnt.part == 20 * cnt.supplier && cnt.partsupp == 80 * cnt.supplier
  let cTags := roundTag ++ [if psBreaks then "sf-breaks-partsupp-fk" else "sf-keeps-partsupp-fk", if exactRatios then "exact-ratios" else "truncated-ratios"]
  if kind == "counts" then
    pure { model := toJson [exact.part, exact.supplier, exact.partsupp, exact.customer, exact.orders, exact.lineitem], k := countsOk,
           oracle := if countsOk then none else some "row counts are not floor(ratio * sf)", nt := cnt.supplier ≥ 1, tags := ["counts"] ++ cTags }
  else
    let cols ← Driver.getObj i "cols"
    let det ← Driver.getObj i "deterministic"
    let declared ← countsOf (← Driver.getObj i "declared")
    let pPk ← getCol cols "p_partkey"; let sPk ← getCol cols "s_suppkey"; let cPk ← getCol cols "c_custkey"; let oPk ← getCol cols "o_orderkey"
    let sNat ← getCol cols "s_nationkey"; let cNat ← getCol cols "c_nationkey"
    let nPk ← getCol cols "n_nationkey"; let nReg ← getCol cols "n_regionkey"; let rPk ← getCol cols "r_regionkey"
    let psP ← getCol cols "ps_partkey"; let psS ← getCol cols "ps_suppkey"
    let oCust ← getCol cols "o_custkey"
    let lOrd ← getCol cols "l_orderkey"; let lP ← getCol cols "l_partkey"; let lS ← getCol cols "l_suppkey"; let lLn ← getCol cols "l_linenumber"
    let twice := (det.getObjValAs? Bool "twice").toOption.getD false
    let threads := (det.getObjValAs? Bool "threads").toOption.getD false
    let parquet : Option Bool := (det.getObjValAs? Bool "parquet").toOption
    -- history independence: (sf,A), (sf,B), (sf,A) in one process vs fresh child processes; none = not run (old corpus case / child failed)
    let hist : Option Bool := (det.getObjValAs? Bool "hist").toOption
    let sameAB : List String := (det.getObjValAs? (List String) "same_ab").toOption.getD []
    -- O: the property on the generated data itself (no model): determinism, counts, dense primary keys, every FK present
    let dense := fun (l : List Nat) => l == (List.range l.length).map (· + 1)
    let psPairs := setOf ((psP.zip psS).map pairKey)
    let failures : List String :=
      (if twice then [] else ["two runs differ"]) ++ (if threads then [] else ["concurrent runs differ"]) ++
      (if parquet == some false then ["parquet read-back differs"] else []) ++
      (if hist == some false then ["history dependence: data after another seed differs from a fresh process"] else []) ++
      (if sameAB.isEmpty then [] else ["different seeds give identical " ++ ", ".intercalate sameAB]) ++
      (if countsOk && cnt == declared then [] else ["row counts"]) ++
      (if pPk.length == cnt.part && sPk.length == cnt.supplier && cPk.length == cnt.customer && oPk.length == cnt.orders && psP.length == cnt.partsupp
          && lOrd.length == cnt.lineitem then [] else ["column lengths"]) ++
      (if dense pPk && dense sPk && dense cPk && dense oPk then [] else ["primary keys not 1..count"]) ++
      (if allIn sNat (setOf nPk) && allIn cNat (setOf nPk) && allIn nReg (setOf rPk) then [] else ["nation/region key"]) ++
      (if allIn psP (setOf pPk) && allIn psS (setOf sPk) then [] else ["partsupp key"]) ++
      (if allIn lOrd (setOf oPk) then [] else ["l_orderkey"]) ++
      (if allIn lP (setOf pPk) && allIn lS (setOf sPk) then [] else ["l_partkey/l_suppkey"]) ++
      (if allIn oCust (setOf cPk) then [] else ["o_custkey"]) ++
      (if allIn ((lP.zip lS).map pairKey) psPairs then [] else ["(l_partkey,l_suppkey) not in partsupp"])
    -- K: the deterministic columns are the model's; the RNG-dependent ones satisfy the model's relation, under some listed switch set
    let base := pPk == pkColumn cnt.part && sPk == pkColumn cnt.supplier && cPk == pkColumn cnt.customer && oPk == pkColumn cnt.orders
      && psP.zip psS == partsuppKeys cnt && sNat.all (· ≤ 24) && cNat.all (· ≤ 24)
      && nPk.zip nReg == nationRegion && rPk == regionKeys && orderLineOk cnt.orders (lOrd.zip lLn)
    let lineOk := fun (d : Dev) => lP.zip lS == (List.range cnt.lineitem).map (lineKeys d cnt)
    let custOk := fun (d : Dev) => oCust.all fun k => 1 ≤ k && k ≤ custkeyRange d cnt
    let f1 := !custOk {}          -- needs switch custkeyOneAndHalf
    let f2 := !lineOk {}          -- needs switch lineitemIgnoresPartsupp
    let dev : Dev := { custkeyOneAndHalf := f1, lineitemIgnoresPartsupp := f2 }
    let k := base && lineOk dev && custOk dev && countsOk
    -- attribution: every failure is one a listed switch predicts, and the model with that switch on is what the code produced
    let explained := failures.all fun f =>
      (f == "o_custkey" && f1 && custOk dev) || (f == "(l_partkey,l_suppkey) not in partsupp" && f2 && lineOk dev && psBreaks)
    let attr : Option String :=
      if failures.isEmpty || !explained || !k then none
      else if failures.contains "o_custkey" then some "C39-F1" else some "C39-F2"
    pure { model := toJson [exact.part, exact.supplier, exact.partsupp, exact.customer, exact.orders, exact.lineitem], k := k,
           oracle := if failures.isEmpty then none else some (", ".intercalate failures), attr := attr, nt := cnt.lineitem ≥ 100,
           tags := ["gen"] ++ cTags ++ (if parquet.isSome then ["parquet"] else []) ++ (if hist.isSome then ["hist"] else ["hist-not-run"]) ++ ["no-rng-column:nation,region"] ++ (if f1 then ["needs-C39-F1"] else []) ++ (if f2 then ["needs-C39-F2"] else [])
             ++ (failures.map fun f => "fails:" ++ f) }

end Driver.C39
