-- FAMILY: C08
/-
  Driver.C08 — running out of memory budget never changes an answer (harness/src/fam_c08.rs).

  case : sqlgen case format, mode "meta": {"sql","plan","tables","cat","cfgs":["memb","memb+lim<N>",…], "kind":"sort"|"join"|"agg",
         "stratum":…, "neutral_sql"?, "neutral_plan"?}
  impl : {"runs":{cfg:outcome,…}, "neutral":{cfg:outcome,…}?}     outcome = {"ok":Table} | {"err":kind,"msg"} | {"panic":msg}

  O (the property): for every memory-limited configuration the outcome is EITHER the same answer as the unlimited run (`Spec.sameAnswer`:
    up to exactly the freedom ORDER BY / LIMIT leave) OR an explicit error; a panic is always a failure.
  K: the intended algorithm's answer (C08_external_sort / C08_grace_join / C08_spilled_agg: = the reference answer `Spec.run`) — every
    successful run must be an acceptable answer of the plan.  (If already the UNLIMITED run is not acceptable the case belongs to another
    property: tagged `base:wrong`, not judged here.)
  Attribution to the listed findings of the unchanged tree:
    C08-F1  (repaired by 6bbb4e5; no longer listed as open, so a recurrence is reported as a VIOLATION) the limited rows are an acceptable
            answer of the plan WITHOUT its fused LIMIT (fetch ignored on the spilled path) — exact mirror
    C08-F2  signature: a sort key whose requested NULL placement differs from the merge's (ASC+NULLS FIRST / DESC+NULLS LAST) over a column
            holding NULLs; neutraliser: the same statement with those placements flipped gives the right answer under the same limit
    C08-F3  signature: a BOOLEAN sort key; neutraliser: the statement without the boolean keys is right under the same limit
    C08-F4  signature: a sort input of more than 8192 rows (a run longer than the merge's read buffer): panic or wrong rows
    C08-F5  signature: INNER join on a DATE / BOOLEAN key; the limited run returns no row at all (keys read as NULL) — exact mirror
    C08-F6  signature: GROUP BY over a key holding NULLs (the aggregation path chosen under the limit groups NULL keys differently: C21-F2/F4);
            neutraliser: the statement restricted to rows without NULL keys is right under the same limit

  kind "agg-spill" (strata spill_distinct / spill_union / spill_cdist / spill_groups: aggregations that reach the partition-and-spill path, keys with 10-50 % NULLs):
    impl.spilled = {cfg: the engine created its spill directory during that run} → tags part:yes / part:no / part+same (a run that partitioned AND returned
    the unlimited answer).  The limited runs are ALWAYS compared with the unlimited run, also when the unlimited run is itself not the reference answer
    (tags base:nullsplit = the unlimited answer is the reference answer with groups of NULL-holding keys split into several rows, C21-F2; base:wrong = anything
    else); K is judged only if the unlimited run is right.  A limited answer that differs is attributed to C08-F6 only by its exact shape (`nullRefines`):
    the rows whose key has no NULL are exactly the reference's, and re-aggregating the answer by its key columns (COUNT/SUM → SUM, MIN → MIN, MAX → MAX; no
    aggregates: DISTINCT) gives exactly the reference answer — i.e. groups of NULL-holding keys may be SPLIT, but no input row is lost, duplicated or moved.
    DISTINCT aggregates cannot be recombined: there any difference is a violation.
-/
import Driver.SqlCore
open Lean IQE IQE.Spec Driver.SqlJson Driver.SQL

namespace Driver.C08

def runsOf (i : Json) (field : String) : Except String (List (String × Outcome)) :=
  match i.getObjVal? field with
  | .ok (.obj kv) => kv.toList.mapM (fun (k, v) => do pure (k, ← outcomeOfJson v))
  | _ => pure []

def acceptableB (c : Case) (plan : Query) (t : Table) : Bool :=
  match Spec.acceptable fo fns c.tables plan t with | .ok b => b | .error _ => false

def sameB (plan : Query) (a b : Table) : Bool :=
  match Spec.sameAnswer fo fns plan a b with | .ok x => x | .error _ => false

/-- column types of table `t` from the catalog meta -/
def colTy (cj : Json) (t col : Nat) : String :=
  match cj.getObjVal? "cat" with
  | .ok cat => match cat.getArr? with
    | .ok a => match a[t]? with
      | some m => match m.getObjVal? "cols" with
        | .ok cs => match cs.getArr? with
          | .ok ca => match ca[col]? with
            | some c => (c.getObjValAs? String "ty").toOption.getD "?"
            | none => "?"
          | .error _ => "?"
        | .error _ => "?"
      | none => "?"
    | .error _ => "?"
  | .error _ => "?"

def sortSpine : Query → Option (Nat × Option Nat × List SortKey × Query)
  | .limit skip fetch (.sort keys q) => some (skip, fetch, keys, q)
  | .sort keys q => some (0, none, keys, q)
  | _ => none

/-- key width and aggregate list of an agg-spill statement (output row = keys ++ aggregates) -/
def spillShape : Query → Option (Nat × List AggCall)
  | .distinct (.project _ es _) => some (es.length, [])
  | .setop .union false (.project _ es _) _ => some (es.length, [])
  | .agg keys aggs _ => some (keys.length, aggs)
  | _ => none

/-- the statement that puts split groups back together, over the answer registered as table `tbl` -/
def recombinePlan (nk : Nat) (aggs : List AggCall) (tbl : Nat) : Option Query := do
  let aggs' ← aggs.zipIdx.mapM fun ((a, i) : AggCall × Nat) =>
    if a.distinct then (none : Option AggCall) else
    match a.fn with
    | .countStar | .count | .sum => some { fn := .sum, arg := .col (nk + i) }
    | .min => some { fn := .min, arg := .col (nk + i) }
    | .max => some { fn := .max, arg := .col (nk + i) }
    | .avg => none
  pure (.agg ((List.range nk).map Expr.col) aggs' (.scan tbl))

/-- `t` is the reference answer `ref` up to splitting of groups whose key holds a NULL (see the header) -/
def nullRefines (c : Case) (ref t : Table) : Bool :=
  match spillShape c.plan with
  | none => false
  | some (nk, aggs) =>
    let nullFree (x : Table) : Table := x.filter fun r => (r.take nk).all fun v => match v with | .null => false | _ => true
    match recombinePlan nk aggs c.tables.length with
    | none => false
    | some rp =>
      match Spec.run fo fns (c.tables ++ [t]) rp [] [] with
      | .ok back => Spec.bagEq (nullFree t) (nullFree ref) && Spec.bagEq (normTable back) ref
      | .error _ => false

def spilledOf (i : Json) : List (String × Bool) :=
  match i.getObjVal? "spilled" with
  | .ok (.obj kv) => kv.toList.filterMap fun (k, v) => match v with | .bool b => some (k, b) | _ => none
  | _ => []

def handler : Driver.Handler := fun cj i => do
  let c ← caseOfJson cj
  let runs ← runsOf i "runs"
  let neutral ← runsOf i "neutral"
  let kind := (Driver.getStr cj "kind").toOption.getD "sort"
  let stratum := (Driver.getStr cj "stratum").toOption.getD "?"
  let spec := specRun c
  let base : Option Outcome := (runs.find? (fun r => r.1 == "memb" || r.1 == "mem1")).map (·.2)
  let limited := runs.filter (fun r => !(r.1 == "memb" || r.1 == "mem1"))
  let baseTags := c.tags ++ [s!"kind:{kind}", s!"stratum:{stratum}"]
  match base with
  | none => throw "C08: no unlimited run in the case"
  | some (.panic m) => pure { model := specJson spec, k := false, oracle := some s!"engine panicked without a memory limit: {m.take 100}", nt := true, tags := baseTags ++ ["base:panic"] }
  | some (.err kd) =>
    -- the statement fails even with unlimited memory: nothing to compare (a panic under a limit is still a failure)
    let p := limited.filterMap fun (k, o) => match o with | .panic m => some s!"{k}: {m.take 80}" | _ => none
    pure { model := specJson spec, k := true, oracle := p.head?.map (fun x => s!"engine panicked under {x}"), nt := false, tags := baseTags ++ [s!"base:err:{kd}"] }
  | some (.ok b) =>
    let baseOk := match spec with | .ok _ => acceptableB c c.plan b | .error _ => true
    let spillKind := kind == "agg-spill"
    let refines (t : Table) : Bool := match spec with | .ok ref => nullRefines c ref t | .error _ => false
    if !baseOk && !spillKind then
      pure { model := specJson spec, k := true, oracle := none, nt := false, tags := baseTags ++ ["base:wrong"] }
    else
      let baseTag := if baseOk then "base:right" else if refines b then "base:nullsplit" else "base:wrong"
      let spilled := spilledOf i
      -- judge every limited configuration
      let judged : List (String × String × Option String × Option String) := limited.map fun (cfg, o) =>
        match o with
        | .panic m =>
          -- C08-F4: a run longer than the 8192-row merge buffer: row references into a buffer that was replaced
          (cfg, "panic", some s!"engine panicked under {cfg}: {m.take 100}",
           if stratum == "sort_f4" && kind == "sort" && b.length > 8192 then some "C08-F4" else none)
        | .err kd => (cfg, s!"err:{kd}", none, none)
        | .ok t =>
          if sameB c.plan b t then (cfg, "same", none, none)
          else
            -- attribution
            let attr : Option String :=
              match sortSpine c.plan with
              | some (skip, fetch, keys, q) =>
                let noLimit := Query.sort keys q
                if skip == 0 && fetch.isSome && t.length > (fetch.getD 0) && acceptableB c noLimit t then some "C08-F1"
                else if stratum == "sort_f4" && b.length > 8192 then some "C08-F4"
                else
                  let nplan : Option Query := match cj.getObjVal? "neutral_plan" with
                    | .ok pj => (queryOfJson pj).toOption
                    | .error _ => none
                  let nOk : Bool := match nplan, neutral.find? (fun r => r.1 == cfg) with
                    | some np, some (_, .ok nt) => acceptableB c np nt
                    | _, _ => false
                  let rowsOfInput := match Spec.run fo fns c.tables q [] [] with | .ok r => r | .error _ => []
                  let cxe : EvalCtx := { fo := fo, fn := fns, runSub := fun _ _ => .error (.unsupported "sub") }
                  let keyHasNull (e : Expr) : Bool := rowsOfInput.any (fun r => match eval cxe [r] e with | .ok .null => true | _ => false)
                  let keyIsBool (e : Expr) : Bool := rowsOfInput.any (fun r => match eval cxe [r] e with | .ok (.bool _) => true | _ => false)
                  let sigF2 := keys.any (fun k => (k.desc != k.nullsFirst) == false && keyHasNull k.e) &&
                               keys.any (fun k => ((!k.desc && k.nullsFirst) || (k.desc && !k.nullsFirst)) && keyHasNull k.e)
                  let sigF2' := keys.any (fun k => ((!k.desc && k.nullsFirst) || (k.desc && !k.nullsFirst)) && keyHasNull k.e)
                  let sigF3 := keys.any (fun k => keyIsBool k.e)
                  if stratum == "sort_f2" && (sigF2 || sigF2') && nOk then some "C08-F2"
                  else if stratum == "sort_f3" && sigF3 && nOk then some "C08-F3"
                  else none
              | none =>
                if kind == "join" && stratum == "join_f5" && t.isEmpty && !b.isEmpty then some "C08-F5"
                else if spillKind then (if refines t then some "C08-F6" else none)
                else if kind == "agg" && stratum == "agg_nullkeys" then
                  -- C08-F6: signature = a group key holds NULLs; neutraliser = the statement over the rows without NULL keys is right under the same limit
                  let nplan : Option Query := match cj.getObjVal? "neutral_plan" with
                    | .ok pj => (queryOfJson pj).toOption
                    | .error _ => none
                  match nplan, neutral.find? (fun r => r.1 == cfg) with
                  | some np, some (_, .ok nt) => if acceptableB c np nt then some "C08-F6" else none
                  | _, _ => none
                else none
            (cfg, "different", some s!"answer under {cfg} differs from the unlimited answer: {diffSummary t b}", attr)
      let fails := judged.filter (fun j => j.2.2.1.isSome)
      let partTags : List String := if !spillKind then [] else
        let took (cfg : String) : Bool := (spilled.find? (·.1 == cfg)).map (·.2) |>.getD false
        (if limited.any (fun r => took r.1) then ["part:yes"] else []) ++
        (if limited.any (fun r => !took r.1) then ["part:no"] else []) ++
        (if judged.any (fun j => j.2.1 == "same" && took j.1) then ["part+same"] else [])
      let tags := baseTags ++ judged.map (fun j => s!"lim:{j.2.1}") ++ [baseTag] ++ partTags
      let kOk := !baseOk || limited.all fun (_, o) => match o with
        | .ok t => acceptableB c c.plan t
        | .err _ => true
        | .panic _ => false
      match fails with
      | [] => pure { model := specJson spec, k := kOk, oracle := none, nt := !b.isEmpty && judged.any (fun j => j.2.1 == "same"), tags := tags }
      | f :: _ =>
        -- a failing case is attributed only if EVERY failing configuration is explained by the same finding
        let attrs := fails.map (fun j => j.2.2.2)
        let attr := match attrs with
          | a :: rest => if rest.all (· == a) then a else none
          | [] => none
        pure { model := specJson spec, k := kOk, oracle := f.2.2.1, nt := true, tags := tags, attr := attr }

end Driver.C08
