-- FAMILY: C12
import Driver.Util
import IQE.Engine.Lpt
open Lean IQE.Engine IQE.Engine.Lpt
namespace Driver.C12

def parseSplit (j : Json) : Except String Split := do
  let t ← Driver.asBytes (← Driver.getObj j "t")
  let f ← Driver.asBytes (← Driver.getObj j "f")
  pure { table := t, file := f, rowGroup := ← Driver.getNat j "rg", rowOffset := ← Driver.getInt j "off",
         numRows := ← Driver.getInt j "rows", bytes := ← Driver.getNat j "bytes" }

/-- the synthetic set of kind "small": table "t", file "t.parquet", row_group = i, 1000 rows -/
def smallSplits (sizes : List Nat) : List Split :=
  sizes.zipIdx.map fun (b, i) =>
    { table := "t".toUTF8.toList, file := "t.parquet".toUTF8.toList, rowGroup := i, rowOffset := 0, numRows := 1000, bytes := b }

def parseCase (c : Json) : Except String (List Split × Nat × Nat) := do
  let kind ← Driver.getStr c "kind"
  let nodes ← Driver.getNat c "nodes"
  if kind == "small" then
    let sizes ← Driver.asNatList (← Driver.getObj c "sizes")
    pure (smallSplits sizes, sizes.sum, nodes)
  else
    let arr ← Driver.getArr c "splits"
    let splits ← arr.toList.mapM parseSplit
    pure (splits, ← Driver.getNat c "total_bytes", nodes)

def jIntList (l : List Int) : Json := Json.arr (l.map (fun (n : Int) => Json.num (JsonNumber.fromInt n))).toArray

def assignmentJson (a : Assignment) : Json :=
  Json.mkObj [("nodes", a.nodes), ("per_node", Json.arr (a.perNode.map Driver.jNatList).toArray),
    ("node_bytes", Driver.jNatList a.nodeBytes), ("node_rows", jIntList a.nodeRows),
    ("node_splits", Driver.jNatList a.nodeSplits), ("total_bytes", a.totalBytes)]

def parseAssignment (i : Json) : Except String Assignment := do
  let per ← (← Driver.getArr i "per_node").toList.mapM Driver.asNatList
  pure { nodes := ← Driver.getNat i "nodes", perNode := per,
         nodeBytes := ← Driver.asNatList (← Driver.getObj i "node_bytes"),
         nodeRows := ← Driver.asIntList (← Driver.getObj i "node_rows"),
         nodeSplits := ← Driver.asNatList (← Driver.getObj i "node_splits"),
         totalBytes := ← Driver.getNat i "total_bytes" }

def sortedByKey (splits : Array Split) : List Nat → Bool
  | a :: b :: rest => (splits.getD a default).keyLe (splits.getD b default) && sortedByKey splits (b :: rest)
  | _ => true

/-- k-th largest (1-based) of a descending list, 0 when absent -/
def kth (desc : List Nat) (k : Nat) : Nat := desc.getD (k - 1) 0

/-- The property predicate on the IMPLEMENTATION's assignment (independent of the model `assign`). -/
def oracle (splits : List Split) (nodes : Nat) (a : Assignment) (same : Bool) : Option String × List String :=
  let n := splits.length
  let N := max nodes 1
  let arr := splits.toArray
  let bytesOf (l : List Nat) : Nat := (l.map fun i => (arr.getD i default).bytes).sum
  let rowsOf (l : List Nat) : Int := (l.map fun i => (arr.getD i default).numRows).sum
  let flat := a.perNode.flatten
  if a.nodes != N || a.perNode.length != N then (some "node count is not max(nodes,1)", [])
  else if flat.mergeSort (fun x y => x ≤ y) != List.range n then (some "per_node is not a partition of the split indices", [])
  else if a.nodeBytes != a.perNode.map bytesOf then (some "node_bytes is not the sum of the owned splits' bytes", [])
  else if a.nodeRows != a.perNode.map rowsOf then (some "node_rows is not the sum of the owned splits' rows", [])
  else if a.nodeSplits != a.perNode.map List.length then (some "node_splits is not the number of owned splits", [])
  else if a.nodeBytes.sum != (splits.map (·.bytes)).sum then (some "node_bytes do not add up to the table", [])
  else if !(a.perNode.all (sortedByKey arr)) then (some "a node's splits are not in canonical order", [])
  else if !same then (some "two calls on identical split sets (different mount paths) returned different assignments", [])
  else
    let bytes := splits.map (·.bytes)
    let ml := maxLoad a.nodeBytes
    if n ≤ 10 then
      let opt := bruteOpt bytes N
      if 3 * N * ml ≤ (4 * N - 1) * opt then (none, ["bound-brute"])
      else (some s!"max load {ml} exceeds (4/3 - 1/(3N)) x optimum {opt} (brute force, N={N})", ["bound-brute"])
    else
      -- lower bounds on the optimum: mean load, largest split, and the two splits that must share a node
      let desc := bytes.mergeSort (fun x y => x ≥ y)
      let total := bytes.sum
      let lb := max (max ((total + N - 1) / N) (kth desc 1)) (if n > N then kth desc N + kth desc (N + 1) else 0)
      if 3 * N * ml ≤ (4 * N - 1) * lb then (none, ["bound-lb"])
      else (none, ["bound-inconclusive"])

def handler : Driver.Handler := fun c i => do
  let (splits, tb, nodes) ← parseCase c
  let m := assignRust splits tb nodes
  let bytes := splits.map (·.bytes)
  let baseTags : List String :=
    (if (c.getObjValAs? String "kind").toOption == some "small" then ["small"] else ["set"]) ++
    (if nodes == 0 then ["nodes0"] else []) ++ (if nodes > splits.length then ["nodes>n"] else []) ++
    (if bytes.contains 0 then ["zero-bytes"] else []) ++
    (if bytes.eraseDups.length < bytes.length then ["size-ties"] else []) ++
    (if (splits.map fun s => (s.table, s.file, s.rowGroup, s.rowOffset)).eraseDups.length < splits.length then ["dup-keys"] else [])
  match i.getObjVal? "panic" with
  | .ok msg =>
    -- the only modelled panic is arithmetic overflow; outside the property (u64 sums of a real table fit), so the oracle is silent
    let mj := match m with | .panic => Json.mkObj [("panic", "overflow")] | .ok a => assignmentJson a
    pure { model := mj, k := (m == .panic) && ((msg.getStr?.toOption.getD "").splitOn "overflow").length > 1,
           oracle := none, nt := false, tags := "panic" :: baseTags }
  | .error _ =>
    let a ← parseAssignment i
    let same ← Driver.getBool i "same"
    let (o, t) := oracle splits nodes a same
    let mj := match m with | .panic => Json.mkObj [("panic", "overflow")] | .ok a => assignmentJson a
    pure { model := mj, k := (m == .ok a), oracle := o, nt := splits.length ≥ 2 && nodes ≥ 2, tags := t ++ baseTags }

end Driver.C12
