-- FAMILY: C11
import Driver.Util
import IQE.Engine.SplitEnum
open Lean IQE.Engine IQE.Engine.SplitEnum
namespace Driver.C11

def parseFile (j : Json) : Except String FileMeta := do
  let name ← Driver.asBytes (← Driver.getObj j "name")
  let rgsJ ← Driver.getObj j "rgs"
  match rgsJ with
  | .null => pure { name := name, footer := none }
  | _ =>
    let arr ← rgsJ.getArr?
    let rgs ← arr.toList.mapM fun p => do
      let l ← Driver.asIntList p
      match l with
      | [r, b] => pure ({ rows := r, bytes := b } : RgMeta)
      | _ => throw "rg pair"
    pure { name := name, footer := some rgs }

def jInt (n : Int) : Json := Json.num (JsonNumber.fromInt n)

def splitJson (s : Split) : Json :=
  Json.mkObj [("t", Driver.jBytes s.table), ("f", Driver.jBytes s.file), ("rg", s.rowGroup), ("off", jInt s.rowOffset),
              ("rows", jInt s.numRows), ("bytes", s.bytes)]

def setJson (s : SplitSet) : Json :=
  Json.mkObj [("ok", Json.mkObj [("table", Driver.jBytes s.table), ("splits", Json.arr (s.splits.map splitJson).toArray),
    ("total_bytes", s.totalBytes), ("total_rows", jInt s.totalRows), ("target", s.target), ("digest", toString s.digest.toNat)])]

def outJson : Except Err SplitSet → Json
  | .ok s => setJson s
  | .error .footer => Json.mkObj [("err", "footer")]
  | .error .duplicateName => Json.mkObj [("err", "duplicate_name")]

def parseSplit (j : Json) : Except String Split := do
  pure { table := ← Driver.asBytes (← Driver.getObj j "t"), file := ← Driver.asBytes (← Driver.getObj j "f"),
         rowGroup := ← Driver.getNat j "rg", rowOffset := ← Driver.getInt j "off",
         numRows := ← Driver.getInt j "rows", bytes := ← Driver.getNat j "bytes" }

/-- implementation output of one view: a split set with its reported digest, or an error kind -/
inductive ImplOut where
  | ok (s : SplitSet) (digest : Nat)
  | err (kind : String)
  | panic
deriving DecidableEq

def parseView (j : Json) : Except String ImplOut := do
  match j.getObjVal? "ok" with
  | .ok o =>
    let splits ← (← Driver.getArr o "splits").toList.mapM parseSplit
    let d ← Driver.getStr o "digest"
    pure (.ok { table := ← Driver.asBytes (← Driver.getObj o "table"), splits := splits, totalBytes := ← Driver.getNat o "total_bytes",
                totalRows := ← Driver.getInt o "total_rows", target := ← Driver.getNat o "target" } d.toNat!)
  | .error _ =>
    match j.getObjVal? "err" with
    | .ok e => pure (.err (e.getStr?.toOption.getD "other"))
    | .error _ => pure .panic

def agrees (m : Except Err SplitSet) (i : ImplOut) : Bool :=
  match m, i with
  | .ok s, .ok t d => s == t && s.digest.toNat == d
  | .error .footer, .err k => k == "footer"
  | .error .duplicateName, .err k => k == "duplicate_name"
  | _, _ => false

def keySorted : List Split → Bool
  | a :: b :: rest => a.keyLe b && keySorted (b :: rest)
  | _ => true

/-- contiguous ranges 0, n₀, n₀+n₁, … with every n ≥ 1, ending at `rows` -/
def contiguous (rows : Int) : Int → List Split → Bool
  | at_, [] => at_ == rows
  | at_, s :: rest => s.rowOffset == at_ && s.numRows ≥ 1 && contiguous rows (at_ + s.numRows) rest

/-- Property predicate on ONE implementation split set, against the footers the harness read back itself. -/
def checkSet (table : List UInt8) (files : List FileMeta) (s : SplitSet) : Option String :=
  let names := files.map (·.name)
  let distinct := !hasDup names
  let rgsAll : List (List UInt8 × Nat × RgMeta) :=
    files.flatMap fun f => (f.footer.getD []).zipIdx.map fun (rg, i) => (f.name, i, rg)
  let nonEmpty := rgsAll.filter fun (_, _, rg) => rg.rows > 0
  let expBytes : Nat := (nonEmpty.map fun (_, _, rg) => (max rg.bytes 0).toNat).sum
  let expRows : Int := (nonEmpty.map fun (_, _, rg) => rg.rows).sum
  if s.table != table || s.splits.any (fun x => x.table != table) then some "table name not carried"
  else if s.totalBytes != expBytes then some "total_bytes is not the sum over non-empty row groups"
  else if s.totalRows != expRows then some "total_rows is not the sum over non-empty row groups"
  else if (s.splits.map (·.bytes)).sum != expBytes then some "split bytes do not sum to the table's"
  else if (s.splits.map (·.numRows)).sum != expRows then some "split rows do not sum to the table's"
  else if s.target < 1 then some "target split size below 1"
  else if !keySorted s.splits then some "splits are not in canonical order"
  else if s.splits.any (fun x => !(rgsAll.any fun (n, i, rg) => n == x.file && i == x.rowGroup && rg.rows > 0)) then
    some "a split names a row group that does not exist or is empty"
  else if distinct then
    -- exact cover of every non-empty row group by contiguous ranges, bytes exact per row group
    let bad := nonEmpty.find? fun (n, i, rg) =>
      let mine := s.splits.filter fun x => x.file == n && x.rowGroup == i
      !(contiguous rg.rows 0 mine && (mine.map (·.bytes)).sum == (max rg.bytes 0).toNat && mine.length ≤ rg.rows.toNat)
    match bad with
    | some _ => some "a row group is not covered exactly once by contiguous ranges with exact bytes"
    | none => none
  else
    -- duplicate names: the (file, row_group) key is ambiguous; demand the aggregate per key
    let bad := nonEmpty.find? fun (n, i, _) =>
      let mine := s.splits.filter fun x => x.file == n && x.rowGroup == i
      let grp := nonEmpty.filter fun (n', i', _) => n' == n && i' == i
      !((mine.map (·.numRows)).sum == (grp.map fun (_, _, rg) => rg.rows).sum && mine.all (fun x => x.numRows ≥ 1 && x.rowOffset ≥ 0) &&
        (mine.map (·.bytes)).sum == (grp.map fun (_, _, rg) => (max rg.bytes 0).toNat).sum)
    match bad with
    | some _ => some "rows/bytes of a (file name, row group) key do not add up"
    | none => none

def permute (files : List FileMeta) (view : List Nat) : List FileMeta := view.filterMap fun i => files[i]?

def handlerEnum (c i : Json) : Except String Driver.Verdict := do
  let table ← Driver.asBytes (← Driver.getObj c "table")
  let nodes ← Driver.getNat c "nodes"
  let files ← (← Driver.getArr c "files").toList.mapM parseFile
  let views ← (← Driver.getArr c "views").toList.mapM Driver.asNatList
  let impls ← (← Driver.getArr i "views").toList.mapM parseView
  if impls.length != views.length then throw "views/impl length"
  let cur : Dev := { dupNames := true }      -- the code as it is (finding C11-F1 open)
  let models := views.map fun v => enumerate cur table (permute files v) nodes
  let fixed := views.map fun v => enumerate {} table (permute files v) nodes
  let k := (models.zip impls).all fun (m, im) => agrees m im
  let dup := hasDup (files.map (·.name))
  let anyJunk := files.any (·.footer.isNone)
  -- oracle, on the implementation's outputs only
  let perSet : Option String := impls.findSome? fun
    | .ok s _ => checkSet table files s
    | .err kd => if kd == "footer" && anyJunk then none
                 else if kd == "duplicate_name" && dup then none
                 else some s!"enumeration failed ({kd}) on readable files"
    | .panic => some "panic"
  let invariant : Option String :=
    match impls with
    | [] => none
    | first :: rest =>
      if rest.all (· == first) then none
      else some "splits or digest depend on file order / mount path"
  -- "any change changes the digest" within the case: views with different split lists must not share a digest
  let collide := impls.any fun a => impls.any fun b =>
    match a, b with
    | .ok s d, .ok t e => d == e && (s.splits != t.splits || s.table != t.table)
    | _, _ => false
  let o := perSet <|> invariant <|> (if collide then some "different split lists share a digest" else none)
  let fixedOk := match fixed.map outJson with | [] => true | f :: r => r.all (· == f)
  let attr := if o.isSome && dup && k && fixedOk && perSet.isNone then some "C11-F1" else none
  let nSplits := match impls.head? with | some (.ok s _) => s.splits.length | _ => 0
  let cutHappened := impls.any fun | .ok s _ => s.splits.any (·.rowOffset > 0) | _ => false
  let zeroRg := files.any fun f => (f.footer.getD []).any (·.rows == 0)
  let tags := (if dup then ["dup-names"] else ["distinct-names"]) ++ (if anyJunk then ["bad-footer"] else []) ++
    (if cutHappened then ["cut"] else []) ++ (if zeroRg then ["zero-row-group"] else []) ++
    (if files.length ≥ 2 then ["multi-file"] else []) ++ (if files.isEmpty then ["no-files"] else []) ++
    (if files.any (fun f => (f.footer.getD []).length ≥ 2) then ["multi-row-group"] else []) ++
    (if nodes == 0 then ["nodes0"] else [])
  pure { model := Json.arr (models.map outJson).toArray, k := k, oracle := o, nt := nSplits ≥ 2 && views.length ≥ 2,
         tags := "enum" :: tags, attr := attr }

def handler : Driver.Handler := fun c i => do
  let kind ← Driver.getStr c "kind"
  if kind == "target" then
    let total ← Driver.getNat c "total"
    let nodes ← Driver.getNat c "nodes"
    let m := targetSplitBytes total nodes
    match i.getObjVal? "out" with
    | .ok o =>
      let out ← o.getNat?
      let n := max nodes 1
      let floor := max (min MIN_SPLIT_BYTES ((total + n - 1) / n)) 1
      let orc : Option String :=
        if out < 1 then some "target below 1"
        else if out > max MAX_SPLIT_BYTES floor then some "target above max(MAX_SPLIT_BYTES, floor)"
        else if out < floor then some "target below the floor"
        else none
      pure { model := Json.num (JsonNumber.fromNat m), k := m == out, oracle := orc, nt := total ≥ 1 && nodes ≥ 1,
             tags := ["target", if m == floor then "target-floor" else if m == MAX_SPLIT_BYTES then "target-max" else "target-ideal"] }
    | .error _ => pure { model := Json.num (JsonNumber.fromNat m), k := false, oracle := some "target_split_bytes panicked", nt := false, tags := ["target"] }
  else handlerEnum c i

end Driver.C11
