-- FAMILY: C10
import Driver.Util
import IQE.Engine.Coordinator
open Lean IQE.Engine IQE.Engine.Coordinator
namespace Driver.C10

/-- Switch settings the correspondence K accepts besides the intended behaviour: the deviations of the findings
    that are still OPEN in known_findings.json.  C10-F1 (`Dev.legacy`: EOF taken for end-of-stream, declared rows
    ignored) was repaired by /repo commit caf22ad, so the list is empty: only the intended model is accepted, and a
    return of the old behaviour is an unattributed oracle failure (a VIOLATION). -/
def fixedDev : Dev := Dev.fixed
def knownDevs : List Dev := []
def findingId : String := "C10-F1"

def jNat (n : Nat) : Json := Json.num (JsonNumber.fromNat n)

/-! ### decode cases: every truncation offset of one real fragment body -/

def acceptedAt (dev : Dev) (wire : List Nat) (cuts : List Nat) : List (Nat × List Nat) :=
  cuts.filterMap (fun cut =>
    match decode fbHdr dev (wire.take cut) with
    | some ms => some (cut, rowsOut fbHdr ms)
    | none => none)

def accJson (l : List (Nat × List Nat)) : Json :=
  Json.arr (l.map (fun (c, rs) => Json.arr #[jNat c, Driver.jNatList rs])).toArray

/-- property predicate on the accepted cuts: only the complete body is accepted, and it carries the declared rows -/
def decodeOracle (len declared : Nat) (acc : List (Nat × List Nat)) : Option String :=
  match acc.find? (fun (c, _) => c < len) with
  | some (c, rs) => some s!"a body cut at byte {c} of {len} decodes successfully to {rs.sum} of {declared} rows"
  | none =>
    match acc.find? (fun (c, _) => c == len) with
    | none => some "the complete body is rejected"
    | some (_, rs) => if rs.sum == declared then none else some "the complete body decodes to a different row count"

def handleDecode (i : Json) : Except String Driver.Verdict := do
  match i.getObjVal? "wire" with
  | .error _ => pure { model := Json.str "n/a", k := false, oracle := none, nt := false, tags := ["decode-setup-failed"] }
  | .ok w =>
    let wire ← Driver.asNatList w
    let declared ← Driver.getNat i "rows"
    let cuts : List Nat ← (match i.getObjVal? "cuts" with
      | .ok (Json.str _) => pure (List.range (wire.length + 1))
      | .ok a => Driver.asNatList a
      | .error e => throw e)
    let implAcc : List (Nat × List Nat) ← (← Driver.getArr i "accepted").toList.mapM (fun p => do
      let a ← p.getArr?
      if h : a.size = 2 then
        let c ← a[0].getNat?
        let rs ← Driver.asNatList a[1]
        pure (c, rs)
      else throw "accepted entry")
    let mFixed := acceptedAt fixedDev wire cuts
    let mLegacy := acceptedAt Dev.legacy wire cuts
    let o := decodeOracle wire.length declared implAcc
    -- the harness also runs the decoder of the PROPOSED patch on the same cuts: it must be the intended model
    let patchedOk : Bool := match i.getObjVal? "patched_accepted" with
      | .ok pa => (match pa.getArr? with
                   | .ok arr =>
                     let parsed : Except String (List (Nat × List Nat)) := arr.toList.mapM (fun p => do
                        let a ← p.getArr?
                        if h : a.size = 2 then
                          let c ← a[0].getNat?
                          let rs ← Driver.asNatList a[1]
                          pure (c, rs)
                        else throw "entry")
                     (match parsed with | .ok l => l == mFixed | .error _ => false)
                   | .error _ => false)
      | .error _ => true
    let k := (implAcc == mFixed || implAcc == mLegacy) && patchedOk
    let attr := if o.isSome && implAcc == mLegacy && implAcc != mFixed && (decodeOracle wire.length declared mFixed).isNone
                then some findingId else none
    let nb := (mLegacy.find? (fun (c, _) => c == wire.length)).map (fun (_, rs) => rs.length)
    let tags := ["decode"] ++ (match nb with | some n => if n ≥ 2 then ["dec-multibatch"] else ["dec-onebatch"] | none => ["dec-full-rejected"])
                ++ (if declared == 0 then ["dec-zero-rows"] else []) ++ (if patchedOk then [] else ["proposed-patch-differs-from-model"])
    pure { model := Json.mkObj [("fixed", accJson mFixed), ("legacy", accJson mLegacy)], k := k, oracle := o,
           nt := declared > 0, tags := tags, attr := attr }

/-! ### scatter cases: the coordinator under injected faults -/

structure Fault where
  table : String
  shard : Nat
  kind : String
  status : Nat := 0
  delta : Int := 0
deriving Repr, Inhabited

structure Obs where
  ok : Bool
  rows : List String := []
  cls : String := ""
  shard : Option Nat := none
  table : Option String := none
deriving BEq, Repr

def Obs.toJson (o : Obs) : Json :=
  if o.ok then Json.mkObj [("res", "ok"), ("rows", Json.arr (o.rows.map Json.str).toArray)]
  else Json.mkObj [("res", "err"), ("class", o.cls), ("shard", match o.shard with | some s => jNat s | none => Json.null),
                   ("table", match o.table with | some t => Json.str t | none => Json.null)]

def strList (j : Json) : Except String (List String) := do
  let a ← j.getArr?
  a.toList.mapM (fun x => x.getStr?)

def insertSorted (x : String) : List String → List String
  | [] => [x]
  | y :: ys => if x ≤ y then x :: y :: ys else y :: insertSorted x ys
def sortStrings (l : List String) : List String := l.foldr insertSorted []

def clsOf : ErrClass → String
  | .localFailed => "local"
  | .transport => "transport"
  | .http _ => "transport"      -- both arrive as `Err` of `FragmentTransport::send`: "did not complete shard"
  | .payload => "payload"

/-- Outcome of one remote shard under `dev`, payload = the shard's rows (Concat shapes) -/
def outcomeOf (dev : Dev) (i : Json) (t : String) (s : Nat) (f : Option Fault) (ids : List String) : Except String (Outcome (List String)) :=
  match f with
  | none => pure (.ok ids)
  | some f =>
    if f.kind == "transport" || f.kind == "digest" then pure .transportErr
    else if f.kind == "http" then pure (.httpErr f.status)
    else if f.kind == "bad" then pure .badPayload
    else if f.kind == "trunc" || f.kind == "rows" then do
      let w ← (← Driver.getObj i "wire").getObjVal? s!"{t}:{s}"
      let body ← Driver.asNatList (← w.getObjVal? "body")
      let rows ← Driver.getNat w "rows"
      let cut : Nat := match w.getObjValAs? Nat "cut" with | .ok c => c | .error _ => body.length
      let declared : Nat := if f.kind == "rows" then (Int.ofNat rows + f.delta).toNat else rows
      match classify fbHdr dev (.resp (body.take cut) declared) with
      | .ok ms => pure (.ok (ids.take (totalRows fbHdr ms)))
      | .badPayload => pure .badPayload
      | .transportErr => pure .transportErr
      | .httpErr x => pure (.httpErr x)
    else throw s!"unknown fault kind {f.kind}"

def natListOf (j : Json) (k : String) : List Nat :=
  match j.getObjVal? k with
  | .ok a => (Driver.asNatList a).toOption.getD []
  | .error _ => []

def modelScatter (dev : Dev) (c i : Json) (faults : List Fault) (concat : Bool) : Except String Obs := do
  let tables ← strList (← Driver.getObj i "tables")
  let active ← Driver.getObj i "active"
  let idsJ ← Driver.getObj i "ids"
  let self : Option Nat := (c.getObjValAs? Nat "self").toOption
  let idsOf (t : String) (s : Nat) : List String :=
    match idsJ.getObjVal? s!"{t}:{s}" with | .ok a => (strList a).toOption.getD [] | .error _ => []
  let runs ← tables.mapM (fun t => do
    let act := natListOf active t
    let loc : Option (Nat × Option (List String)) :=
      match self with
      | some s => if act.contains s then some (s, some (idsOf t s)) else none
      | none => none
    let remote ← (act.filter (fun s => some s != self)).mapM (fun s => do
      let f := faults.find? (fun f => f.table == t && f.shard == s)
      let o ← outcomeOf dev i t s f (idsOf t s)
      pure (s, o))
    pure ({ emptyLocal := some [], loc := loc, remote := remote } : TableRun (List String)))
  match runQuery runs (fun parts => some (parts.flatten.flatten)) with
  | .ok rows => pure { ok := true, rows := if concat then sortStrings rows else [] }
  | .fragmentError tpos s cl => pure { ok := false, cls := clsOf cl, shard := some s, table := tables[tpos]? }
  | .finalError => pure { ok := false, cls := "final" }

def obsEq (concat : Bool) (impl model : Obs) : Bool :=
  if impl.ok != model.ok then false
  else if impl.ok then (!concat || impl.rows == model.rows)
  else impl.cls == model.cls && impl.shard == model.shard &&
       (match impl.table with | some t => model.table == some t | none => true)

def handleScatter (c i : Json) : Except String Driver.Verdict := do
  match i.getObjVal? "res" with
  | .error _ =>
    if (i.getObjVal? "baseline_error").isOk then
      -- the FAULT-FREE distributed run of this configuration already fails (e.g. the C09 defect "no shard returned a
      -- schema" for an empty Concat answer held by the initiator alone): nothing about fault propagation can be observed
      pure { model := Json.str "n/a", k := true, oracle := none, nt := false, tags := ["baseline-error"] }
    else
    let why := if (i.getObjVal? "panic").isOk then "panic" else "setup"
    pure { model := Json.str "n/a", k := false, oracle := if why == "panic" then some "the coordinator panicked" else none,
           nt := false, tags := [s!"scatter-{why}"] }
  | .ok res =>
    let res ← res.getStr?
    let shape ← Driver.getStr i "shape"
    let concat := shape == "Concat"
    let baseline ← strList (← Driver.getObj i "baseline")
    let faults : List Fault ← (← Driver.getArr c "faults").toList.mapM (fun f => do
      let ff ← Driver.getObj f "f"
      pure { table := (← Driver.getStr f "t"), shard := (← Driver.getNat f "shard"), kind := (← Driver.getStr ff "k"),
             status := (ff.getObjValAs? Nat "status").toOption.getD 0, delta := (ff.getObjValAs? Int "delta").toOption.getD 0 })
    let impl : Obs ← (if res == "ok" then do
        pure { ok := true, rows := (← strList (← Driver.getObj i "rows")) }
      else do
        pure { ok := false, cls := (← Driver.getStr i "class"), shard := (i.getObjValAs? Nat "shard").toOption,
               table := (i.getObjValAs? String "table").toOption })
    let implK : Obs := if impl.ok && !concat then { impl with rows := [] } else impl
    let mFixed ← modelScatter fixedDev c i faults concat
    let mKnown ← knownDevs.mapM (fun d => modelScatter d c i faults concat)
    -- which faults hit an active remote shard, and do they make the shard's answer incomplete?
    let tables ← strList (← Driver.getObj i "tables")
    let active ← Driver.getObj i "active"
    let self : Option Nat := (c.getObjValAs? Nat "self").toOption
    let wireJ ← Driver.getObj i "wire"
    let effective := faults.filter (fun f => tables.contains f.table && (natListOf active f.table).contains f.shard && some f.shard != self)
    let failing := effective.filter (fun f =>
      if f.kind == "rows" then false
      else if f.kind == "trunc" then
        match wireJ.getObjVal? s!"{f.table}:{f.shard}" with
        | .ok w => (match w.getObjValAs? Nat "cut", (w.getObjVal? "body").bind Driver.asNatList with
                    | .ok cut, .ok body => cut < body.length
                    | _, _ => true)
        | .error _ => true
      else true)
    let o : Option String :=
      if impl.ok then
        if !failing.isEmpty then
          let f := failing.head!
          some s!"shard {f.shard} of `{f.table}` failed ({f.kind}) but the query returned {impl.rows.length} rows (complete answer: {baseline.length} rows)"
        else if impl.rows != baseline then some "answer differs from the fault-free distributed answer"
        else none
      else none
    let k := obsEq concat implK mFixed || mKnown.any (obsEq concat implK)
    let explainedByKnown := !(obsEq concat implK mFixed) && mKnown.any (obsEq concat implK)
    let fixedHolds := failing.isEmpty || !mFixed.ok
    let attr := if o.isSome && explainedByKnown && fixedHolds then some findingId else none
    let ftags := if effective.isEmpty then [if faults.isEmpty then "no-fault" else "fault-on-self-or-idle"]
                 else effective.map (fun f => if f.kind == "trunc" then (if failing.any (fun g => g.table == f.table && g.shard == f.shard) then "f-trunc" else "f-trunc-complete") else s!"f-{f.kind}")
    let tags := ["scatter", s!"shape-{shape}", if impl.ok then "res-ok" else s!"res-err-{impl.cls}"] ++ ftags.eraseDups
                ++ (if effective.length ≥ 2 then ["pair"] else []) ++ (if self.isNone then ["no-self"] else [])
    pure { model := Json.mkObj [("fixed", mFixed.toJson), ("legacy", (mKnown.headD mFixed).toJson)], k := k, oracle := o,
           nt := !effective.isEmpty, tags := tags, attr := attr }

def handler : Driver.Handler := fun c i => do
  let kind ← Driver.getStr c "kind"
  if kind == "decode" then handleDecode i
  else if kind == "scatter" then handleScatter c i
  else throw s!"unknown kind {kind}"

end Driver.C10
