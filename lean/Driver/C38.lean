-- FAMILY: C38
import Driver.Util
import IQE.Engine.VecDist
open Lean IQE.Engine IQE.Engine.VecDist
namespace Driver.C38

structure PCol where
  col : Col                      -- integer view (stream "int"); for stream "float" the flat values are f32 bit patterns
  rowsF : List (List Float)      -- float view of the rows


def toF (isFloat : Bool) (j : Json) : Except String (Int × Float) := do
  if isFloat then
    let n ← j.getNat?
    pure (Int.ofNat n, (Float32.ofBits n.toUInt32).toFloat)
  else
    let i ← j.getInt?
    pure (i, Float.ofInt i)

def parseVec (isFloat : Bool) (j : Json) : Except String (List (Int × Float)) := do
  (← j.getArr?).toList.mapM (toF isFloat)

def parseCol (isFloat : Bool) (j : Json) : Except String PCol := do
  let dim ← Driver.getNat j "dim"
  let elem := match (j.getObjValAs? String "elem").toOption.getD "f32" with | "f32" => Elem.f32 | "f64" => Elem.f64 | _ => Elem.other
  let isList := (j.getObjValAs? Bool "list").toOption.getD true
  let rows ← Driver.getArr j "rows"
  let parsed ← rows.toList.mapM fun r => do
    let v ← (← r.getArrVal? 0).getNat?
    let vs ← parseVec isFloat (← r.getArrVal? 1)
    pure (v == 1, vs)
  -- the model's column = the sliced window (C38_slice_invariance: the surrounding rows do not matter)
  pure { col := { isList := isList, elem := elem, dim := dim, flat := parsed.flatMap (fun r => r.2.map (·.1)), valid := parsed.map (·.1) },
         rowsF := parsed.map (fun r => r.2.map (·.2)) }

def parseKind : String → Except String Kind
  | "l2" => pure .l2 | "cosine" => pure .cosine | "cosine_similarity" => pure .cosineSimilarity | "dot" => pure .dot
  | s => throw s!"unknown kind {s}"

/-- the f64 operations the code applies to the exact ingredients -/
def valToFloat : Val → Float
  | .l2 sq => (Float.ofInt sq).sqrt
  | .dot d => Float.ofInt d
  | .cos dist zero d na nb =>
    let denom := (Float.ofInt na).sqrt * (Float.ofInt nb).sqrt
    let sim := if zero then 0.0 else Float.ofInt d / denom
    if dist then 1.0 - sim else sim

def errStr : Err → String | .notVector => "notvec" | .dimMismatch => "dim" | .notFloat => "notfloat" | .shortBuffer => "short"

def jOutBits (r : Except Err (List (Option Float))) : Json :=
  match r with
  | .error e => Json.mkObj [("err", errStr e)]
  | .ok l => Json.mkObj [("ok", Json.arr (l.map fun o => match o with
      | some f => Json.arr #[Json.num (JsonNumber.fromNat 1), Json.num (JsonNumber.fromNat f.toBits.toNat)]
      | none => Json.arr #[Json.num (JsonNumber.fromNat 0), Json.null]).toArray)]

/-- documented formulas evaluated directly (no chunking) in f64: (value, error scale) -/
def sumF (l : List Float) : Float := l.foldl (· + ·) 0.0
def dotF (a b : List Float) : Float := sumF (List.zipWith (· * ·) a b)
def refValue (kind : Kind) (a b : List Float) : Float × Float :=
  let absdot := sumF (List.zipWith (fun x y => (x * y).abs) a b)
  match kind with
  | .dot => (dotF a b, absdot)
  | .l2 => let s := sumF (List.zipWith (fun x y => (x - y) * (x - y)) a b); (s.sqrt, s.sqrt)
  | .cosine | .cosineSimilarity =>
    let denom := (dotF a a).sqrt * (dotF b b).sqrt
    let sim := if denom == 0.0 then 0.0 else dotF a b / denom
    (if kind == .cosine then 1.0 - sim else sim, 1.0)

def parseImpl (i : Json) : Except String (Option (List (Option Float))) := do
  match i.getObjVal? "ok" with
  | .ok arr =>
    let l ← (← arr.getArr?).toList.mapM fun s => do
      let v ← (← s.getArrVal? 0).getNat?
      if v == 1 then pure (some (Float.ofBits (← (← s.getArrVal? 1).getNat?).toUInt64)) else pure none
    pure (some l)
  | .error _ => pure none

def handler : Driver.Handler := fun c i => do
  let fn ← Driver.getStr c "fn"
  let kindS ← Driver.getStr c "kind"
  let kind ← parseKind kindS
  let sliced := ((← Driver.getObj c "a").getObjValAs? Nat "pre").toOption.getD 0 > 0
  let isFloat := (← Driver.getStr c "stream") == "float"
  let a ← parseCol isFloat (← Driver.getObj c "a")
  let isColumns := fn == "columns"
  let (model, rowPairs, n) : Except Err (List (Option Val)) × List (List Float × List Float) × Nat ←
    if isColumns then do
      let b ← parseCol isFloat (← Driver.getObj c "b")
      pure (distanceColumns a.col b.col kind, a.rowsF.zip b.rowsF, min a.col.len b.col.len)
    else do
      let q ← parseVec isFloat (← Driver.getObj c "query")
      pure (distanceColumn a.col (q.map (·.1)) kind, a.rowsF.map (fun r => (r, q.map (·.2))), a.col.len)
  let implVals ← parseImpl i
  let implErr := (i.getObjValAs? String "err").toOption
  let isPanic := (i.getObjVal? "panic").toOption.isSome
  -- which rows are NULL, from the case alone
  let nulls : List Bool ←
    if isColumns then do
      let b ← parseCol isFloat (← Driver.getObj c "b")
      pure ((a.col.valid.zip b.col.valid).map fun p => !(p.1 && p.2))
    else pure (a.col.valid.map (!·))
  let dimA := a.col.dim
  let dimOther : Nat ← if isColumns then do pure (← parseCol isFloat (← Driver.getObj c "b")).col.dim
                       else do pure (← parseVec isFloat (← Driver.getObj c "query")).length
  let wellTyped := match model with | .error .notVector | .error .notFloat => false | _ => true
  -- O: the property on the implementation's outcome, from the documented formulas evaluated directly
  let oracle : Option String :=
    if isPanic then some "kernel panicked"
    else if !wellTyped then (if implErr.isSome then none else some "non-vector input accepted")
    else if dimA != dimOther then (if implErr == some "dim" then none else some "dimension mismatch is not an error")
    else match implVals with
      | none => some "equal-dimension vectors rejected"
      | some vals =>
        if vals.length != n then some "one output per row expected"
        else
          let bad := (vals.zip (nulls.zip rowPairs)).findSome? fun (v, isNull, (ra, rb)) =>
            match v, isNull with
            | none, true => none
            | none, false => some "NULL for a non-NULL vector"
            | some _, true => some "value for a NULL vector"
            | some x, false =>
              let (ref, scale) := refValue kind ra rb
              let tol := if isFloat then 1e-3 * (if scale > 1.0 then scale else 1.0) else 1e-9 * (if ref.abs > 1.0 then ref.abs else 1.0)
              if (x - ref).abs ≤ tol then none else some s!"value {x} differs from the formula's {ref}"
          bad
  -- K: exact stream: bit-for-bit the chunked model; float stream: same outcome class (values judged by O's tolerance)
  let modelJ := jOutBits (model.map (·.map (·.map valToFloat)))
  let k :=
    if isFloat then
      match model, implVals with
      | .error e, _ => implErr == some (errStr e)
      | .ok m, some vals => m.map Option.isSome == vals.map Option.isSome
      | .ok _, none => false
    else modelJ.compress == i.compress
  let dimTag := if dimA < 8 then "dim<8" else if dimA % 8 == 0 then "dim%8=0" else "dim-chunks+rem"
  let zeroTag := match model with
    | .ok m => if m.any (fun o => match o with | some (.cos _ true ..) => true | _ => false) then ["zero-norm"] else []
    | _ => []
  pure { model := modelJ, k := k, oracle := oracle,
         nt := implVals.isSome && n ≥ 1 && dimA ≥ 2,
         tags := [fn, kindS, if sliced then "sliced" else "unsliced", if isFloat then "random-float" else "exact-int", dimTag,
                  if nulls.any id then "null-rows" else "no-null-rows",
                  match implErr with | some e => "err-" ++ e | none => if isPanic then "panic" else "ok"] ++ zeroTag ++
                 (if a.col.elem == .f64 then ["elem-f64"] else []) }

end Driver.C38
