-- FAMILY: C23
/-
  Driver.C23.handler — subquery statements of harness/src/fam_c23.rs (sqlgen case format, mode spec).
    case["c23"] : {kind, neg, corr, place, rules, unq, narrow, path ("join" = the physical plan holds a join: the subquery was
                   decorrelated | "rowbyrow"), layout ("mem1" | "memb" | "pq")}, case["cat"][t]["cuts"] = batch lengths.
    model  = IQE.Engine.Subquery with ALL switches off, run over the statement along the path the engine took:
             decorrelated IN / NOT IN / EXISTS / scalar-aggregate rewrites (`inRewrite`, `notInRewrite`, `existsRewrite`,
             `scalarLeftJoin`) or the row-by-row evaluators (`evalInSubquery`, `evalExistsCorr`, `evalScalarB`, `evalScalarCorr`,
             `typedFromFirst`), batch by batch; everything else of the statement through `Spec.eval`;
    K      = implementation rows = model rows as bags;
    O      = `Spec.acceptable plan tables impl_rows` (Driver.SQL machinery), an engine error is a failure (`strict_err`) —
             except where the reference itself raises the cardinality error of a scalar subquery: then the engine must fail too
             (rows = failure), and an uncorrelated >1-row scalar subquery may be reported even when the outer table is empty;
    attr   = id of the listed finding whose deviation switch(es), among those that apply to the statement's form and path,
             make the model reproduce the implementation's outcome exactly, while the all-off model satisfies the oracle.
             Switch sets are tried smallest first; a case needing several is reported under the first.  C23-F11 (a correlated
             IN that was not decorrelated fails "Column not found") has no switch: decidable signature over case + message.
-/
import Driver.SqlCore
import IQE.Engine.Subquery
open Lean IQE IQE.Spec IQE.Engine.Subquery

namespace Driver.C23
open Driver.SQL

def bagEq (a b : Table) : Bool :=
  a.length == b.length && (a.foldl (fun rest r => Spec.removeFirst r rest) b).isEmpty

structure Meta where
  kind : String
  place : String
  rules : String
  corr : String
  neg : Bool
  unq : Bool
  narrow : Bool
  path : String
  layout : String
  cuts0 : List Nat
  cuts1 : List Nat
  tys1 : List String
deriving Repr, Inhabited

def cutsOf (cat : Json) (t : Nat) : List Nat :=
  match cat.getArrVal? t with
  | .ok tj => (match tj.getObjVal? "cuts" with
      | .ok cj => (Driver.asNatList cj).toOption.getD []
      | .error _ => [])
  | .error _ => []

def tysOf (cat : Json) (t : Nat) : List String :=
  match cat.getArrVal? t with
  | .ok tj => (match tj.getObjValAs? (Array Json) "cols" with
      | .ok cols => cols.toList.map fun cj => (cj.getObjValAs? String "ty").toOption.getD "i64"
      | .error _ => [])
  | .error _ => []

def metaOf (cj : Json) : Meta :=
  let m := (cj.getObjVal? "c23").toOption.getD Json.null
  let s (k : String) (d : String) : String := (m.getObjValAs? String k).toOption.getD d
  let b (k : String) : Bool := (m.getObjValAs? Bool k).toOption.getD false
  let cat := (cj.getObjVal? "cat").toOption.getD Json.null
  { kind := s "kind" "in", place := s "place" "where", rules := s "rules" "default", corr := s "corr" "none",
    neg := b "neg", unq := b "unq", narrow := b "narrow", path := s "path" "rowbyrow", layout := s "layout" "mem1",
    cuts0 := cutsOf cat 0, cuts1 := cutsOf cat 1, tys1 := tysOf cat 1 }

/-- cut a table into the batches the layout registers -/
def batchesOf (layout : String) (cuts : List Nat) (t : Table) : List Table :=
  if layout == "mem1" then [t] else
  let rec go (cs : List Nat) (rest : Table) : List Table :=
    match cs with
    | [] => if rest.isEmpty then [] else [rest]
    | n :: cs => rest.take n :: go cs (rest.drop n)
  go cuts t

/-! ### the subquery, taken apart -/

def conjuncts : Expr → List Expr
  | .bin .and a b => conjuncts a ++ conjuncts b
  | e => [e]

partial def hasOuter : Expr → Bool
  | .outer _ _ => true
  | .un _ e | .cast e _ => hasOuter e
  | .bin _ a b | .nullif a b => hasOuter a || hasOuter b
  | .inList e es _ => hasOuter e || es.any hasOuter
  | .between a b c _ => hasOuter a || hasOuter b || hasOuter c
  | .case_ es | .coalesce es | .fn _ es => es.any hasOuter
  | .inSub e _ _ => hasOuter e
  | _ => false

def isCmp : BinOp → Bool
  | .eq | .ne | .lt | .le | .gt | .ge => true
  | _ => false

structure SubInfo where
  plan : Query                 -- the whole subquery
  base : Query                 -- its FROM (scan of t1)
  pred : Option Expr           -- its WHERE
  corr : List CorrPred         -- correlation conjuncts `outer.col op inner.col`, orientation outer op inner
  local_ : List Expr           -- the other conjuncts
  otherCorr : Bool             -- a conjunct reads the outer row in some other shape
  out : Expr                   -- the output expression over an inner row (non-aggregate subquery)
  agg : Option AggCall         -- the aggregate call (global aggregate subquery)
  correlated : Bool

def subInfo (sub : Query) : Option SubInfo :=
  let mk (base : Query) (pred : Option Expr) (out : Expr) (agg : Option AggCall) : SubInfo :=
    let cs := match pred with | some p => conjuncts p | none => []
    let classify (e : Expr) : Option CorrPred :=
      match e with
      | .bin op (.col j) (.outer 1 i) => if isCmp op then some { outerCol := i, innerCol := j, op := flipOp op } else none
      | .bin op (.outer 1 i) (.col j) => if isCmp op then some { outerCol := i, innerCol := j, op := op } else none
      | _ => none
    let corr := cs.filterMap classify
    let rest := cs.filter fun e => (classify e).isNone
    { plan := sub, base := base, pred := pred, corr := corr, local_ := rest.filter (fun e => !hasOuter e),
      otherCorr := rest.any hasOuter, out := out, agg := agg, correlated := cs.any hasOuter }
  match sub with
  | .project _ [e0] (.filter _ p q) => some (mk q (some p) e0 none)
  | .project _ [e0] (.agg [] [a] (.filter _ p q)) => some (mk q (some p) e0 (some a))
  | .project _ [e0] (.agg [] [a] q) => some (mk q none e0 (some a))
  | .project _ [e0] q => some (mk q none e0 none)
  | _ => none

def cx0 : EvalCtx := { fo := fo, fn := fns, runSub := fun _ _ => .error (.unsupported "subquery") }

def truthy : Except Err Val → Except Err Bool
  | .ok (.bool b) => .ok b
  | .ok .null => .ok false
  | .ok _ => .error (.type "predicate is not boolean")
  | .error e => .error e

/-- inner rows passing the uncorrelated conjuncts of the subquery's WHERE -/
def localRows (c : Case) (si : SubInfo) : Except Err Table := do
  let rows ← Spec.run fo fns c.tables si.base [] []
  rows.filterM fun r => si.local_.allM fun e => truthy (eval cx0 [r] e)

/-! ### the statement, taken apart -/

structure Stmt where
  es : List Expr               -- SELECT list
  subsP : List Query
  pred : Option Expr           -- WHERE
  subsF : List Query
  sub : Query                  -- the one subquery
  inWhere : Bool

def stmtOf (q : Query) : Option Stmt :=
  match q with
  | .project subsP es (.filter subsF p (.scan 0)) =>
    (match subsF, subsP with
     | [s], [] => some { es := es, subsP := subsP, pred := some p, subsF := subsF, sub := s, inWhere := true }
     | _, _ => none)
  | .project [s] es (.scan 0) => some { es := es, subsP := [s], pred := none, subsF := [], sub := s, inWhere := false }
  | _ => none

/-! ### row-by-row evaluation with the engine's subquery evaluators -/

/-- the subquery result for the outer row `l`, batch by batch of the inner table (non-aggregate subqueries keep the batch
    structure of the scan; an aggregate returns one batch) -/
def subBatches (m : Meta) (c : Case) (si : SubInfo) (l : Row) : Except Err (List Table) :=
  match si.agg with
  | some _ => do pure [← Spec.run fo fns c.tables si.plan [] [l]]
  | none =>
    match c.tables with
    | t0 :: t1 :: rest =>
      (batchesOf m.layout m.cuts1 t1).mapM fun b => Spec.run fo fns (t0 :: b :: rest) si.plan [] [l]
    | _ => do pure [← Spec.run fo fns c.tables si.plan [] [l]]

/-- ColumnNotFound: the correlated outer column was pruned from the operator's input (A.26) -/
def pruned (dev : Dev) (m : Meta) (si : SubInfo) : Bool :=
  dev.corrScalarInSelectNull && si.correlated && m.unq && m.narrow

/-- `substitute_correlated_columns` replaces a NULL outer value by an untyped NULL literal; compared with a DATE column the
    substituted plan fails to execute (an error the row-by-row paths then swallow) -/
def nullDateKey (dev : Dev) (m : Meta) (si : SubInfo) (l : Row) : Bool :=
  dev.corrErrorsSwallowed && si.corr.any fun p => (l.getD p.outerCol .null).isNull && m.tys1.getD p.innerCol "" == "date"

/-- value of the subquery expression at outer row `l` (scalar subqueries: before `typedFromFirst`) -/
def subValue (dev : Dev) (m : Meta) (c : Case) (si : SubInfo) (l : Row) : Expr → Except Err Val
  | .exists_ _ neg =>
    let r : Except Err Table := if pruned dev m si || nullDateKey dev m si l then .error (.bad "Column not found") else Spec.run fo fns c.tables si.plan [] [l]
    if si.correlated then evalExistsCorr dev r neg
    else match r with | .ok t => .ok (evalExists t neg) | .error e => .error e
  | .inSub x _ neg => do
    let xv ← eval cx0 [l] x
    let t ← Spec.run fo fns c.tables si.plan [] [l]
    evalInSubquery dev fo xv (t.map yOf) neg
  | .scalarSub _ =>
    let r : Except Err Val := if pruned dev m si || nullDateKey dev m si l then .error (.bad "Column not found") else do
      let bs ← subBatches m c si l
      evalScalarB dev bs
    if si.correlated then
      match r with
      | .ok v => .ok v
      | .error e => if dev.corrErrorsSwallowed then .ok .null else .error e
    else r
  | _ => .error (.unsupported "not a subquery expression")

/-- evaluate `e` at row `l` with the subquery expression's value given -/
partial def evalWith (sv : Val) (l : Row) : Expr → Except Err Val
  | .exists_ _ _ | .inSub _ _ _ | .scalarSub _ => .ok sv
  | .un op e => do unVal fo op (← evalWith sv l e)
  | .bin op a b => do
    let x ← evalWith sv l a
    let y ← evalWith sv l b
    binVal fo op x y
  | e => eval cx0 [l] e

partial def findSub : Expr → Option Expr
  | e@(.exists_ _ _) | e@(.inSub _ _ _) | e@(.scalarSub _) => some e
  | .un _ e => findSub e
  | .bin _ a b => (findSub a).orElse fun _ => findSub b
  | _ => none

/-- the per-row values of the subquery expression over the outer table, batch by batch -/
def subValues (dev : Dev) (m : Meta) (c : Case) (si : SubInfo) (se : Expr) (R : Table) (pre : List Expr := []) :
    Except Err (List (Row × Val)) := do
  let bs := batchesOf m.layout m.cuts0 R
  let parts ← bs.mapM fun b0 => do
    -- conjuncts without subquery are pushed into the scan: the evaluator sees the batch already filtered
    let b ← b0.filterM fun l => pre.allM fun e => truthy (eval cx0 [l] e)
    let vs ← b.mapM fun l => subValue dev m c si l se
    let isCorrScalar := si.correlated && (match se with | .scalarSub _ => true | _ => false)
    -- Int32 / Date32 results have no arm in `results_array_from_scalars`: NullArray
    let narrowTy : Bool := match si.agg, si.out with
      | none, .col j => let t := m.tys1.getD j "i64"; t == "i32" || t == "date"
      | _, _ => false
    let vs' := if isCorrScalar then
            (if dev.corrScalarFirstRowTyped && narrowTy then vs.map (fun _ => Val.null) else typedFromFirst dev vs)
          else vs
    pure (b.zip vs')
  pure parts.flatten

/-! ### the decorrelated paths -/

/-- inner rows with the subquery's output value in front (`yOf`), correlation predicates shifted accordingly -/
def shifted (si : SubInfo) (S : Table) : Except Err (Table × List CorrPred) := do
  let S' ← S.mapM fun r => do pure ((← eval cx0 [r] si.out) :: r)
  pure (S', si.corr.map fun p => { p with innerCol := p.innerCol + 1 })

/-- rows of the outer table the decorrelated join keeps -/
def joinKeep (dev : Dev) (c : Case) (si : SubInfo) (se : Expr) (R : Table) : Except Err (Table) := do
  let S ← localRows c si
  match se with
  | .exists_ _ neg => pure (existsRewrite (existsMatch dev fo si.corr) neg R S)
  | .inSub x _ neg => do
    let (S', ps) ← shifted si S
    let xs ← R.mapM fun l => eval cx0 [l] x
    -- `xv` by position: rows are looked up through their index column
    let keyed := (List.range R.length).zip (R.zip xs)
    let R' : Table := keyed.map fun (i, (l, _)) => .int i :: l
    let xv : Row → Val := fun l' => match l' with
      | .int i :: _ => (xs.getD i.toNat .null)
      | _ => .null
    let ps' := ps.map fun p => { p with outerCol := p.outerCol + 1 }
    let mm := inCorrMatch dev fo [0] ps'
    let kept := if neg then notInRewrite dev fo xv mm R' S' else inRewrite fo xv mm R' S'
    pure (kept.map fun l' => l'.drop 1)
  | _ => .error (.unsupported "not a join path")

/-- the scalar-aggregate rewrite: per outer row the value the Left join provides -/
def joinScalar (dev : Dev) (c : Case) (si : SubInfo) (R : Table) (Rf : Option Table) : Except Err (List Val) := do
  let S ← localRows c si
  match si.agg, si.corr with
  | some a, [p] =>
    let S := match Rf with
      | some rf => reducedInput dev fo (fun l => l.getD p.outerCol .null) (fun r => r.getD p.innerCol .null) rf S
      | none => S
    let evs ← S.mapM fun r => match a.fn with
      | .countStar => pure (Val.bool true)
      | _ => eval cx0 [r] a.arg
    let S' : Table := (S.zip evs).map fun (r, v) => v :: r
    let out ← scalarLeftJoin dev fo a.fn a.distinct (fun l => l.getD p.outerCol .null) (fun r => r.getD (p.innerCol + 1) .null) yOf R S'
    pure (out.map (·.2))
  | _, _ => .error (.unsupported "scalar join path with other than one equality correlation")

/-! ### the model of one statement -/

def modelRun (dev : Dev) (m : Meta) (c : Case) : Except Err Table := do
  let some st := stmtOf c.plan | .error (.unsupported "statement shape outside the C23 model")
  let some si := subInfo st.sub | .error (.unsupported "subquery shape outside the C23 model")
  let R ← Spec.run fo fns c.tables (.scan 0) [] []
  match st.pred with
  | some p =>
    -- WHERE: the conjunct holding the subquery, the others
    let cs := conjuncts p
    let some sc := cs.find? (fun e => (findSub e).isSome) | .error (.unsupported "no subquery conjunct")
    let others := cs.filter fun e => (findSub e).isNone
    let some se := findSub sc | .error (.unsupported "no subquery")
    let topLevel : Bool := match sc with
      | .exists_ _ _ | .inSub _ _ _ => true
      | .bin op a b => isCmp op && (match a, b with | .scalarSub _, _ => true | _, .scalarSub _ => true | _, _ => false)
      | _ => false
    let kept ← if m.path == "join" && topLevel then
        (match se with
         | .scalarSub _ => do
           -- the outer side as the rule sees it: filtered by the other conjuncts (pushed into the scan beforehand)
           let rf ← if others.isEmpty then pure none else do
             pure (some (← R.filterM fun l => others.allM fun e => truthy (eval cx0 [l] e)))
           let vs ← joinScalar dev c si R rf
           (R.zip vs).filterMapM fun (l, v) => do
             if ← truthy (evalWith v l sc) then pure (some l) else pure none
         | _ => joinKeep dev c si se R)
      else do
        let lvs ← subValues dev m c si se R others
        lvs.filterMapM fun (l, v) => do
          if ← truthy (evalWith v l sc) then pure (some l) else pure none
    let kept ← kept.filterM fun l => others.allM fun e => truthy (eval cx0 [l] e)
    kept.mapM fun l => evalList cx0 [l] st.es
  | none =>
    let some se := st.es.findSome? findSub | .error (.unsupported "no subquery in the SELECT list")
    let lvs ← subValues dev m c si se R
    lvs.mapM fun (l, v) => st.es.mapM fun e => evalWith v l e

/-! ### attribution -/

structure Sw where
  id : String
  set : Dev → Dev
  applies : Meta → SubInfo → Bool

def isJoin (m : Meta) : Bool := m.path == "join"

/-- the ACTIVE switches: findings still open.  Repaired in /repo and therefore no longer consulted (a recurrence is an
    unattributed failure = VIOLATION): C23-F1 notInPlainAnti (47485db), C23-F2 inSubquerySkipsNulls (08ac987),
    C23-F4 nonEqFilterFlipped (1caf07a), C23-F5 inDropsNonEqCorr and C23-F6 inDropsProjectedCorr (2272b7e),
    C23-F7 scalarCountBug (51cab70), C23-F9 scalarFirstBatchOnly (8fe594c), C23-F10 corrScalarFirstRowTyped (9a7f30b),
    C23-F12 scalarReductionDup (ba41c49), C23-F13 inSubqueryTypesLimited (69c41ef). -/
def switches : List Sw :=
  [ { id := "C23-F3", set := fun d => { d with corrScalarInSelectNull := true, corrErrorsSwallowed := true },
      applies := fun m si => !isJoin m && si.correlated && m.unq && m.narrow },
    { id := "C23-F8", set := fun d => { d with corrErrorsSwallowed := true }, applies := fun m si => !isJoin m && si.correlated && (m.kind == "scalar_row" || m.kind == "scalar_agg" || m.kind == "exists") } ]

def subsets {α} : List α → List (List α)
  | [] => [[]]
  | x :: xs => let r := subsets xs; r ++ r.map (x :: ·)

def switchSets (m : Meta) (si : SubInfo) : List (List Sw) :=
  let sw := switches.filter fun s => s.applies m si
  ((subsets sw).filter (fun s => !s.isEmpty && s.length ≤ 3)).mergeSort (fun a b => a.length ≤ b.length)

def sameOutcome (o : Outcome) (mres : Except Err Table) : Bool :=
  match o, mres with
  | .ok out, .ok t => bagEq out (normTable t)
  | .err _, .error (.card _) => true
  | .err _, .error (.unsupported _) => true
  | _, _ => false

/-- C23-F11: a correlated IN subquery that is evaluated row by row (under OR, in the SELECT list, or with the decorrelation
    rule off) fails "Column not found: <outer column>" — `evaluate_subquery_expr` has no correlated arm for IN. -/
def sigCorrInColumnNotFound (m : Meta) (si : SubInfo) (o : Outcome) (msg : String) : Bool :=
  match o with
  | .err _ => m.kind == "in" && si.correlated && !isJoin m && (msg.splitOn "Column not found").length > 1
  | _ => false

def acceptableOn (c : Case) (out : Table) : Bool :=
  match Spec.acceptable fo fns c.tables c.plan out with | .ok true => true | _ => false

def attrC23 (m : Meta) (msg : String) : AttrFn := fun c o _ =>
  match stmtOf c.plan with
  | none => none
  | some st =>
  match subInfo st.sub with
  | none => none
  | some si =>
    -- the model with all switches off must itself be a correct answer (or raise the reference's cardinality error)
    let okOff : Bool := match modelRun {} m c, specRun c with
      | .ok t, .ok _ => acceptableOn c (normTable t)
      | .error (.card _), .error (.card _) => true
      | _, _ => false
    if !okOff then none else
    if sigCorrInColumnNotFound m si o msg then some "C23-F11" else
    match (switchSets m si).find? (fun s => sameOutcome o (modelRun (s.foldl (fun d sw => sw.set d) {}) m c)) with
    | some (sw :: _) => some sw.id
    | _ => none

def handler : Driver.Handler := fun cj i => do
  let msg := (i.getObjValAs? String "msg").toOption.getD ""
  let m := metaOf cj
  let cj := cj.setObjVal! "strict_err" (Json.bool true)
  let c ← caseOfJson cj
  let o ← outcomeOfJson i
  let spec := specRun c
  let mres := modelRun {} m c
  let pathTag := s!"path:{m.path}"
  match spec with
  | .error (.card _) =>
    -- the reference raises the scalar subquery's cardinality error: so must the engine
    -- … unless the offending outer rows are removed by another conjunct of the WHERE first (conjuncts without subquery are
    -- pushed into the scan; SQL leaves the evaluation order of AND operands open): the model, which filters first, then
    -- answers with rows, and the engine must return exactly those
    let filteredFirst : Bool := match mres, o with
      | .ok t, .ok out => bagEq out (normTable t)
      | _, _ => false
    let k := match mres, o with
      | .error (.card _), _ => true
      | .ok _, .err _ => true          -- the engine raised what the reference raises; the model only filtered first
      | .ok _, _ => filteredFirst
      | _, _ => false
    let ofail : Option String := match o with
      | .err _ => none
      | .panic p => some s!"engine panicked: {p.take 120}"
      | .ok out => if filteredFirst then none else
          some s!"a scalar subquery returns more than one row: the statement must fail, the engine returned {out.length} rows"
    let attr := if ofail.isSome then attrC23 m msg c o spec else none
    pure { model := specJson (mres.map normTable), k := k, oracle := ofail, nt := true,
           tags := c.tags ++ [pathTag, "spec:card", match o with | .err _ => "impl:err:card" | .ok _ => (if filteredFirst then "impl:rows_filtered_first" else "impl:rows") | .panic _ => "impl:panic"],
           attr := attr }
  | _ =>
    -- an uncorrelated scalar subquery with more than one row may be reported although no outer row asks for it
    let cardOnEmpty : Bool := match o, stmtOf c.plan with
      | .err _, some st =>
        (msg.splitOn "Scalar subquery returned").length > 1 &&
          (match subInfo st.sub with
           | some si => !si.correlated && (match Spec.run fo fns c.tables si.plan [] [] with | .ok t => t.length > 1 | .error _ => false)
           | none => false)
      | _, _ => false
    if cardOnEmpty then
      pure { model := specJson spec, k := true, oracle := none, nt := false, tags := c.tags ++ [pathTag, "impl:err:card_unasked"] }
    else
      let v ← handlerWith (attrC23 m msg) cj i
      let k := match mres, o with
        | .ok t, .ok out => bagEq out (normTable t)
        | .error _, _ => true          -- Spec-level error (overflow …): the case is skipped by O as well
        | .ok _, _ => false
      pure { v with model := specJson (mres.map normTable), k := k, tags := v.tags ++ [pathTag],
                    attr := if v.oracle.isSome || !k then v.attr else none }

end Driver.C23
