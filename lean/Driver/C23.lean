/-
  Driver.C23.handler — subquery statements of harness/src/fam_c23.rs (draft: reference semantics only).
-/
import Driver.SqlCore
import IQE.Engine.Subquery
open Lean IQE IQE.Spec

namespace Driver.C23
open Driver.SQL

def handler : Driver.Handler := fun cj i => do
  let cj := cj.setObjVal! "strict_err" (Json.bool true)
  handlerWith noAttr cj i

end Driver.C23
