-- FAMILY: C15
/-
  C15 driver: one case = one whole operation history on `Membership`.
  case: {"self":str,"self_id":n,"universe":[str],"is_self":[bool],"ops":[op]}
        op = {"op":"set","addrs":[idx]} | {"op":"up","addr":idx,"node_id":n|null,"flight":n|null}
           | {"op":"down","addr":idx,"err":n} | {"op":"rerr","err":n}
  impl: {"obs":[obs]}  — obs[0] after `Membership::new`, obs[i+1] after ops[i];
        obs = {"members":[{"address","node_id","flight","is_self","status","seen","last_error","fails"}],
               "generation":n,"resolved":b,"peers":[str],"rerr":str|null,"changes":[["-"|"+",addr]]}
        flight strings are "f<n>", error strings "e<n>".
-/
import Driver.Util
import IQE.Engine.Membership
open Lean IQE.Engine IQE.Engine.Membership
namespace Driver.C15

structure Obs where
  members : List (Member String)
  generation : Nat
  resolved : Bool
  peers : List String
  rerr : Option Nat
  changes : List (Change String)
  deriving DecidableEq

def optNat (j : Json) (k : String) : Except String (Option Nat) :=
  match j.getObjVal? k with
  | .ok v => if v.isNull then pure none else do pure (some (← v.getNat?))
  | .error _ => pure none

/-- "f12" / "e3" → 12 / 3 -/
def optTok (j : Json) (k : String) : Except String (Option Nat) :=
  match j.getObjVal? k with
  | .ok v =>
    if v.isNull then pure none else do
      let s ← v.getStr?
      match (s.drop 1).toNat? with
      | some n => pure (some n)
      | none => throw s!"bad token {s}"
  | .error _ => pure none

def parseStatus (s : String) : Except String Status :=
  if s == "up" then pure .up else if s == "down" then pure .down else if s == "unknown" then pure .unknown
  else throw s!"bad status {s}"

def parseMember (j : Json) : Except String (Member String) := do
  pure { address := ← Driver.getStr j "address", nodeId := ← optNat j "node_id", flight := ← optTok j "flight",
         isSelf := ← Driver.getBool j "is_self", status := ← parseStatus (← Driver.getStr j "status"),
         seen := ← Driver.getBool j "seen", lastError := ← optTok j "last_error", fails := ← Driver.getNat j "fails" }

def parseChange (j : Json) : Except String (Change String) := do
  let a ← j.getArr?
  if a.size != 2 then throw "bad change"
  let t ← a[0]!.getStr?
  let x ← a[1]!.getStr?
  if t == "-" then pure (.removed x) else if t == "+" then pure (.added x) else throw "bad change tag"

def parseObs (j : Json) : Except String Obs := do
  let ms ← (← Driver.getArr j "members").toList.mapM parseMember
  let ps ← (← Driver.getArr j "peers").toList.mapM (fun x => x.getStr?)
  let cs ← (← Driver.getArr j "changes").toList.mapM parseChange
  pure { members := ms, generation := ← Driver.getNat j "generation", resolved := ← Driver.getBool j "resolved",
         peers := ps, rerr := ← optTok j "rerr", changes := cs }

def parseOp (univ : Array String) (j : Json) : Except String (Op String) := do
  let addr (k : String) : Except String String := do
    let i ← Driver.getNat j k
    match univ[i]? with | some a => pure a | none => throw "address index out of range"
  let kind ← Driver.getStr j "op"
  if kind == "set" then
    let idx ← Driver.asNatList (← Driver.getObj j "addrs")
    let as ← idx.mapM (fun i => match univ[i]? with | some a => pure a | none => throw "address index out of range")
    pure (.setMembers as)
  else if kind == "up" then pure (.recordUp (← addr "addr") (← optNat j "node_id") (← optNat j "flight"))
  else if kind == "down" then pure (.recordDown (← addr "addr") (← Driver.getNat j "err"))
  else if kind == "rerr" then pure (.resolveError (← Driver.getNat j "err"))
  else throw s!"unknown op {kind}"

/-! JSON rendering of the model's observation (for the evidence / replay files) -/
def jOptNat : Option Nat → Json | none => Json.null | some n => Json.num (JsonNumber.fromNat n)
def jStatus : Status → Json | .up => "up" | .down => "down" | .unknown => "unknown"
def jMember (m : Member String) : Json :=
  Json.mkObj [("address", m.address), ("node_id", jOptNat m.nodeId), ("flight", jOptNat m.flight), ("is_self", m.isSelf),
              ("status", jStatus m.status), ("seen", m.seen), ("last_error", jOptNat m.lastError),
              ("fails", Json.num (JsonNumber.fromNat m.fails))]
def jChange : Change String → Json
  | .removed a => Json.arr #["-", Json.str a]
  | .added a => Json.arr #["+", Json.str a]
def jObs (o : Obs) : Json :=
  Json.mkObj [("members", Json.arr (o.members.map jMember).toArray), ("generation", Json.num (JsonNumber.fromNat o.generation)),
              ("resolved", o.resolved), ("peers", Json.arr (o.peers.map Json.str).toArray), ("rerr", jOptNat o.rerr),
              ("changes", Json.arr (o.changes.map jChange).toArray)]

def observe (env : Env String) (s : State String) (changes : List (Change String)) : Obs :=
  { members := members env s, generation := s.generation, resolved := s.resolved, peers := peerAddresses s,
    rerr := s.resolveError, changes := changes }

/-- model observations obs[0..n] -/
def modelRun (env : Env String) : State String → List (Op String) → List Obs
  | _, [] => []
  | s, op :: ops =>
    let (s', ch) : State String × List (Change String) :=
      match op with
      | .setMembers as => setMembers env s as
      | op => (step env s op, [])
    observe env s' ch :: modelRun env s' ops

def strictlySorted : List String → Bool
  | a :: b :: rest => decide (a < b) && strictlySorted (b :: rest)
  | _ => true

/-- peer records of a view (everything but the self row) -/
def peerRows (o : Obs) : List (Member String) := o.members.filter (fun m => !m.isSelf)

/-- the property predicate on ONE observation of the implementation -/
def oracleObs (selfAddr : String) (isSelf : String → Bool) (o : Obs) : Option String :=
  let addrs := o.members.map (·.address)
  if !strictlySorted addrs then some "members() not strictly sorted by address (unsorted or duplicate)"
  else if (o.members.filter (·.isSelf)).length != 1 then some "members() does not flag exactly one entry as self"
  else if (addrs.filter (· == selfAddr)).length != 1 then some "members() does not list this node's address exactly once"
  else if o.members.any (fun m => m.isSelf != (m.address == selfAddr)) then some "the is_self flag is not on this node's address"
  else if o.peers.any isSelf then some "this node is listed as a peer"
  else if !strictlySorted o.peers then some "peer_addresses() not strictly sorted"
  else if (peerRows o).map (·.address) != o.peers then some "members() minus self differs from peer_addresses()"
  else none

/-- the property predicate on one transition of the implementation -/
def oracleStep (op : Op String) (a b : Obs) : Option String :=
  if b.generation < a.generation then some "generation decreased"
  else match op with
    | .resolveError _ =>
      if b.peers != a.peers then some "a resolve error changed the member set"
      else if peerRows b != peerRows a then some "a resolve error changed a peer record"
      else none
    | .setMembers _ =>
      if b.peers != a.peers then
        (if b.generation ≤ a.generation then some "member set changed without a generation advance" else none)
      else if peerRows b != peerRows a then some "re-resolving the same set changed a peer's probe state"
      else none
    | _ => none

def firstSome {β : Type} : List (Option β) → Option β
  | [] => none
  | some x :: _ => some x
  | none :: r => firstSome r

def zipSteps : List (Op String) → List Obs → List (Op String × Obs × Obs)
  | op :: ops, a :: b :: rest => (op, a, b) :: zipSteps ops (b :: rest)
  | _, _ => []

def handler : Driver.Handler := fun c i => do
  let selfAddr ← Driver.getStr c "self"
  let selfId ← Driver.getNat c "self_id"
  let univ ← (← Driver.getArr c "universe").mapM (fun x => x.getStr?)
  let flags ← (← Driver.getArr c "is_self").mapM (fun x => x.getBool?)
  if flags.size != univ.size then throw "is_self/universe length mismatch"
  let table := univ.toList.zip flags.toList
  let env := strEnv selfAddr selfId table
  let ops ← (← Driver.getArr c "ops").toList.mapM (parseOp univ)
  let mObs := observe env init [] :: modelRun env init ops
  let mJson := Json.arr (mObs.map jObs).toArray
  match i.getObjVal? "obs" with
  | .error _ =>
    -- panic / timeout of the real code: not a valid run of the model, and the property cannot hold of nothing
    pure { model := mJson, k := false, oracle := some s!"no observations: {i.compress}", nt := false, tags := ["no-obs"] }
  | .ok oj =>
    let iObs ← (← oj.getArr?).toList.mapM parseObs
    let k := decide (iObs = mObs)
    -- full model trace only when it is needed to read a disagreement
    let mJson := if k then (match mObs.getLast? with
        | some l => Json.mkObj [("observations", Json.num (JsonNumber.fromNat mObs.length)), ("last", jObs l)]
        | none => Json.null) else mJson
    let o : Option String :=
      if !env.isSelf selfAddr then some "is_self_address(self, self) is false"
      else if iObs.length != ops.length + 1 then some "wrong number of observations"
      else match firstSome (iObs.map (oracleObs selfAddr env.isSelf)) with
        | some w => some w
        | none => firstSome ((zipSteps ops iObs).map (fun (op, a, b) => oracleStep op a b))
    -- tags / non-triviality, judged on the implementation's observations
    let steps := zipSteps ops iObs
    let setChange := steps.any (fun (op, a, b) => match op with | .setMembers _ => a.peers != b.peers | _ => false)
    let setSame := steps.any (fun (op, a, b) => match op with | .setMembers _ => a.peers == b.peers && !a.peers.isEmpty | _ => false)
    let alias := ops.any (fun op => match op with | .setMembers as => as.any (fun a => env.isSelf a && a != selfAddr) | _ => false)
    let selfListed := ops.any (fun op => match op with | .setMembers as => as.contains selfAddr | _ => false)
    let probeHit := steps.any (fun (op, a, _) => match op with
      | .recordUp x _ _ => a.peers.contains x | .recordDown x _ => a.peers.contains x | _ => false)
    let probeMiss := steps.any (fun (op, a, _) => match op with
      | .recordUp x _ _ => !a.peers.contains x | .recordDown x _ => !a.peers.contains x | _ => false)
    let flip := steps.any (fun (op, a, b) => match op with
      | .recordUp _ _ _ => a.generation != b.generation | .recordDown _ _ => a.generation != b.generation | _ => false)
    let rerr := ops.any (fun op => match op with | .resolveError _ => true | _ => false)
    let survive := steps.any (fun (op, a, b) => match op with
      | .setMembers _ => a.peers != b.peers && (peerRows a).any (fun m => m.status != .unknown && (peerRows b).contains m) | _ => false)
    let tags := (if setChange then ["set-change"] else []) ++ (if setSame then ["reresolve-same"] else [])
      ++ (if alias then ["self-alias-in-set"] else []) ++ (if selfListed then ["self-in-set"] else [])
      ++ (if probeHit then ["probe-member"] else []) ++ (if probeMiss then ["probe-nonmember"] else [])
      ++ (if flip then ["status-flip"] else []) ++ (if rerr then ["resolve-error"] else [])
      ++ (if survive then ["churn-keeps-probed-peer"] else [])
    pure { model := mJson, k := k, oracle := o, nt := setChange && probeHit, tags := tags }

end Driver.C15
