-- FAMILY: C13
import Driver.Util
import Driver.C11
import Driver.C14
import IQE.Engine.Shard
open Lean IQE.Engine IQE.Engine.SplitEnum IQE.Engine.Shard
namespace Driver.C13

structure Filter where
  col : String
  op : String
  c : Int
  d : Int

def parseFilter (j : Json) : Except String (Option Filter) :=
  match j with
  | .null => pure none
  | _ => do pure (some { col := ← Driver.getStr j "col", op := ← Driver.getStr j "op", c := ← Driver.getInt j "c", d := ← Driver.getInt j "d" })

/-- SQL WHERE semantics on one row (k never NULL, v nullable): keep iff the predicate is TRUE -/
def keeps (f : Option Filter) (k : Int) (v : Option Int) : Bool :=
  match f with
  | none => true
  | some f =>
    let x : Option Int := if f.col == "k" then some k else v
    match f.op, x with
    | "isnull", x => x.isNone
    | "notnull", x => x.isSome
    | _, none => false
    | "<", some x => x < f.c
    | "<=", some x => x ≤ f.c
    | "=", some x => x == f.c
    | ">=", some x => x ≥ f.c
    | ">", some x => x > f.c
    | "<>", some x => x != f.c
    | "between", some x => f.c ≤ x && x ≤ f.d
    | _, _ => false

def jOptInt : Option Int → Json
  | some v => Json.num (JsonNumber.fromInt v)
  | none => Json.null

/-- rows [k, v|null] (v shown only when projected) of the keys `ks` that the filter keeps -/
def answer (vals : Array (Option Int)) (f : Option Filter) (showV : Bool) (ks : List Nat) : List (Nat × Option Int) :=
  (ks.filter fun (k : Nat) => keeps f (k : Int) (vals.getD k none)).map fun (k : Nat) => (k, if showV then vals.getD k none else none)

def rowsJson (l : List (Nat × Option Int)) : Json := Json.arr (l.map fun (k, v) => Json.arr #[Json.num (JsonNumber.fromNat k), jOptInt v]).toArray

def parseRows (j : Json) : Except String (List (Int × Option Int)) := do
  let a ← j.getArr?
  a.toList.mapM fun r => do
    let p ← r.getArr?
    let k ← (p.getD 0 Json.null).getInt?
    let v := match p.getD 1 Json.null with | .null => none | x => x.getInt?.toOption
    pure (k, v)

def handler : Driver.Handler := fun c i => do
  let tableS ← Driver.getStr c "table"
  let table := tableS.toUTF8.toList
  let nodes ← Driver.getNat c "nodes"
  let (files, rowsSpec) ← Driver.C14.parseFiles (← Driver.getObj c "files")
  let valsJ ← Driver.getArr c "vals"
  let vals : Array (Option Int) := valsJ.map fun v => match v with | .null => none | x => x.getInt?.toOption
  let queriesJ ← Driver.getArr c "queries"
  let queries ← queriesJ.toList.mapM fun q => do
    let cols ← (← Driver.getArr q "cols").toList.mapM (fun x => x.getStr?)
    let f ← parseFilter (← Driver.getObj q "filter")
    pure (cols, f)
  let N := max nodes 1
  let total := vals.size
  match i.getObjVal? "ok" with
  | .error _ =>
    pure { model := Json.null, k := false, oracle := some "the shard contexts could not be built or scanned", nt := false, tags := ["err"] }
  | .ok okJ =>
    let shardsJ ← Driver.getArr okJ "shards"
    -- model: C11 enumeration + C12 assignment + the keys each owned split denotes
    let cur : Dev := { dupNames := true }
    let mset := enumerate cur table files nodes
    let (mShards, mTags) : List (Nat × Int × Nat × List Nat) × List String :=
      match mset with
      | .error _ => ([], ["model-err"])
      | .ok set =>
        let a := Lpt.assign set.splits set.totalBytes nodes
        let sub := set.splits.any fun s => s.rowOffset > 0
        (a.perNode.map fun idx =>
          let owned := idx.map fun j => set.splits[j]!
          ((owned.map (·.bytes)).sum, (owned.map (·.numRows)).sum, owned.length, Driver.C14.keysOf files rowsSpec owned),
         (if sub then ["sub-row-group"] else []) ++ (if set.splits.length < N then ["idle-shards"] else []))
    -- implementation, per shard
    let impl ← shardsJ.toList.mapM fun s => do
      let st ← Driver.getObj s "stats"
      let raw := (Driver.asNatList (← Driver.getObj s "raw")).toOption
      let answers ← (← Driver.getArr s "answers").toList.mapM fun a => pure (parseRows a).toOption
      pure ((← Driver.getNat st "bytes", ← Driver.getInt st "rows", ← Driver.getNat st "splits"), raw, ← Driver.getBool s "files_none", answers)
    -- K: every shard returns exactly the model's rows, raw and per query
    let kShard (m : Nat × Int × Nat × List Nat) (im : (Nat × Int × Nat) × Option (List Nat) × Bool × List (Option (List (Int × Option Int)))) : Bool :=
      let (mb, mr, ms, mk) := m
      let ((ib, ir, is), raw, _, answers) := im
      mb == ib && mr == ir && ms == is && raw == some mk &&
      answers.length == queries.length &&
      (queries.zip answers).all fun ((cols, f), a) =>
        a == some ((answer vals f (cols.contains "v") mk).map fun (k, v) => ((k : Int), v))
    let k := mShards.length == impl.length && (mShards.zip impl).all fun (m, im) => kShard m im
    -- O: on the implementation's outputs only — union of the shards = the table (raw) / π σ_φ table (every query)
    let allKeys := List.range total
    let sortNat (l : List Nat) := l.mergeSort (fun a b => a ≤ b)
    let rawUnion : Option (List Nat) := impl.foldl (fun acc (_, raw, _, _) => match acc, raw with | some a, some r => some (a ++ r) | _, _ => none) (some [])
    let oRaw : Option String :=
      match rawUnion with
      | none => some "a shard's raw scan failed"
      | some u => if sortNat u == allKeys then none else some "union of the shards' raw scans is not the table (row lost or duplicated)"
    let oFiles : Option String := if impl.all (fun (_, _, fn, _) => fn) then none else some "a sharded provider exposes whole files (parquet_files is Some)"
    let oCount : Option String := if impl.length == N then none else some "not one shard per node"
    let oQueries : Option String := (List.range queries.length).findSome? fun qi =>
      let (cols, f) := queries.getD qi ([], none)
      let parts := impl.map fun (_, _, _, answers) => (answers.getD qi none)
      if parts.any (·.isNone) then some s!"query {qi} failed on a shard"
      else
        let u := (parts.flatMap fun p => p.getD []).mergeSort (fun a b => a.1 ≤ b.1)
        let expect := (answer vals f (cols.contains "v") allKeys).map fun (k, v) => ((k : Int), v)
        if u == expect then none else some s!"query {qi}: union of the shard answers differs from the table's answer (row lost, duplicated or wrong)"
    let o := oCount <|> oFiles <|> oRaw <|> oQueries
    let tags := ["shards"] ++ mTags ++ (if files.length ≥ 2 then ["multi-file"] else []) ++
      (if files.any (fun f => (f.footer.getD []).length ≥ 2) then ["multi-row-group"] else []) ++
      (if queries.any (fun (_, f) => f.isSome) then ["filter"] else []) ++ (if nodes == 0 then ["nodes0"] else []) ++
      (if queries.any (fun (_, f) => match f with | some f => f.col == "v" | none => false) then ["filter-nullable"] else [])
    pure { model := Json.arr (mShards.map fun (b, r, s, ks) => Json.mkObj [("bytes", b), ("rows", Json.num (JsonNumber.fromInt r)), ("splits", s), ("keys", Driver.jNatList ks)]).toArray,
           k := k, oracle := o, nt := N ≥ 2 && total ≥ 2, tags := tags }

end Driver.C13
