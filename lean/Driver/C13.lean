-- FAMILY: C13
import Driver.Util
import Driver.C11
import Driver.C14
import IQE.Engine.Shard
open Lean IQE.Engine IQE.Engine.SplitEnum IQE.Engine.Shard
namespace Driver.C13

structure Filter where
  col : String
  op : String
  c : Int
  d : Int

def parseFilter (j : Json) : Except String (Option Filter) :=
  match j with
  | .null => pure none
  | _ => do pure (some { col := ← Driver.getStr j "col", op := ← Driver.getStr j "op", c := ← Driver.getInt j "c", d := ← Driver.getInt j "d" })

def wOf (k : Int) : Int := 1000000 + 3 * k

def colIndex (c : String) : Nat := if c == "k" then 0 else if c == "v" then 1 else if c == "w" then 2 else 3

/-- value of column `c` in the row with key `k` (k, w never NULL; v nullable) -/
def colVal (vals : Array (Option Int)) (k : Nat) (c : String) : Option Int :=
  if c == "k" then some (k : Int) else if c == "w" then some (wOf k) else vals.getD k none

/-- SQL WHERE semantics on one row: keep iff the predicate is TRUE (comparison with NULL is not TRUE) -/
def keeps (vals : Array (Option Int)) (f : Option Filter) (k : Nat) : Bool :=
  match f with
  | none => true
  | some f =>
    let x := colVal vals k f.col
    match f.op, x with
    | "isnull", x => x.isNone
    | "notnull", x => x.isSome
    | _, none => false
    | "<", some x => x < f.c
    | "<=", some x => x ≤ f.c
    | "=", some x => x == f.c
    | ">=", some x => x ≥ f.c
    | ">", some x => x > f.c
    | "<>", some x => x != f.c
    | "between", some x => f.c ≤ x && x ≤ f.d
    | _, _ => false

abbrev Row := List (Option Int)

def optLe : Option Int → Option Int → Bool
  | none, _ => true
  | some _, none => false
  | some a, some b => a ≤ b
def optLt (a b : Option Int) : Bool := !optLe b a

def rowLe : Row → Row → Bool
  | [], _ => true
  | _ :: _, [] => false
  | a :: as, b :: bs => if optLt a b then true else if optLt b a then false else rowLe as bs

def sortRows (l : List Row) : List Row := l.mergeSort rowLe

/-- π_cols (σ_f rows-with-keys-ks), sorted -/
def answer (vals : Array (Option Int)) (f : Option Filter) (cols : List String) (ks : List Nat) : List Row :=
  sortRows ((ks.filter fun k => keeps vals f k).map fun k => cols.map (colVal vals k))

/-- π_cols of ALL rows with keys ks (no filter) -/
def project (vals : Array (Option Int)) (cols : List String) (ks : List Nat) : List Row :=
  ks.map fun k => cols.map (colVal vals k)

def parseRows (j : Json) : Except String (List Row) := do
  let a ← j.getArr?
  a.toList.mapM fun r => do
    let p ← r.getArr?
    pure (p.toList.map fun x => match x with | .null => none | y => y.getInt?.toOption)

/-- multiset inclusion of sorted row lists -/
def subMulti : List Row → List Row → Bool
  | [], _ => true
  | _ :: _, [] => false
  | a :: as, b :: bs => if a == b then subMulti as bs else if rowLe b a then subMulti (a :: as) bs else false

/-- the filter column sits at a different position in the scan's projected schema than in the file:
    some table column before it is neither projected nor the filter column -/
def movesFilterCol (cols : List String) (f : Option Filter) : Bool :=
  match f with
  | none => false
  | some f =>
    let needed := (f.col :: cols).map colIndex
    (List.range (colIndex f.col)).any fun j => !needed.contains j

def handler : Driver.Handler := fun c i => do
  let tableS ← Driver.getStr c "table"
  let table := tableS.toUTF8.toList
  let nodes ← Driver.getNat c "nodes"
  let (files, rowsSpec) ← Driver.C14.parseFiles (← Driver.getObj c "files")
  let valsJ ← Driver.getArr c "vals"
  let vals : Array (Option Int) := valsJ.map fun v => match v with | .null => none | x => x.getInt?.toOption
  let queriesJ ← Driver.getArr c "queries"
  let queries ← queriesJ.toList.mapM fun q => do
    let cols ← (← Driver.getArr q "cols").toList.mapM (fun x => x.getStr?)
    let f ← parseFilter (← Driver.getObj q "filter")
    pure (cols, f)
  let N := max nodes 1
  let total := vals.size
  match i.getObjVal? "ok" with
  | .error _ =>
    pure { model := Json.null, k := false, oracle := some "the shard contexts could not be built or scanned", nt := false, tags := ["err"] }
  | .ok okJ =>
    let shardsJ ← Driver.getArr okJ "shards"
    -- model: C11 enumeration + C12 assignment + the keys each owned split denotes
    let cur : Dev := { dupNames := true }
    let mset := enumerate cur table files nodes
    let (mShards, mTags) : List (Nat × Int × Nat × List Nat) × List String :=
      match mset with
      | .error _ => ([], ["model-err"])
      | .ok set =>
        let a := Lpt.assign set.splits set.totalBytes nodes
        let sub := set.splits.any fun s => s.rowOffset > 0
        (a.perNode.map fun idx =>
          let owned := idx.map fun j => set.splits[j]!
          ((owned.map (·.bytes)).sum, (owned.map (·.numRows)).sum, owned.length, Driver.C14.keysOf files rowsSpec owned),
         (if sub then ["sub-row-group"] else []) ++ (if set.splits.length < N then ["idle-shards"] else []))
    -- implementation, per shard
    let impl ← shardsJ.toList.mapM fun s => do
      let st ← Driver.getObj s "stats"
      let raw := (Driver.asNatList (← Driver.getObj s "raw")).toOption
      let answers ← (← Driver.getArr s "answers").toList.mapM fun a => pure (parseRows a).toOption
      let provider ← (← Driver.getArr s "provider").toList.mapM fun a => pure (match a with | .null => none | x => some (parseRows x).toOption)
      pure ((← Driver.getNat st "bytes", ← Driver.getInt st "rows", ← Driver.getNat st "splits"), raw, ← Driver.getBool s "files_none", answers, provider)
    -- K: every shard returns exactly the model's rows, raw and per query
    let kShard (m : Nat × Int × Nat × List Nat)
        (im : (Nat × Int × Nat) × Option (List Nat) × Bool × List (Option (List Row)) × List (Option (Option (List Row)))) : Bool :=
      let (mb, mr, ms, mk) := m
      let ((ib, ir, is), raw, _, answers, provider) := im
      mb == ib && mr == ir && ms == is && raw == some mk &&
      answers.length == queries.length && provider.length == queries.length &&
      ((queries.zip answers).all fun ((cols, f), a) => a == some (answer vals f cols mk)) &&
      ((queries.zip provider).all fun ((cols, f), a) =>
        match a with
        | none => true
        | some a => a == some (answer vals f cols mk))
    let k := mShards.length == impl.length && (mShards.zip impl).all fun (m, im) => kShard m im
    -- O: on the implementation's outputs only — union of the shards = the table (raw) / π σ_φ table (every query)
    let allKeys := List.range total
    let sortNat (l : List Nat) := l.mergeSort (fun a b => a ≤ b)
    let rawUnion : Option (List Nat) := impl.foldl (fun acc (_, raw, _, _, _) => match acc, raw with | some a, some r => some (a ++ r) | _, _ => none) (some [])
    let oRaw : Option String :=
      match rawUnion with
      | none => some "a shard's raw scan failed"
      | some u => if sortNat u == allKeys then none else some "union of the shards' raw scans is not the table (row lost or duplicated)"
    let oFiles : Option String := if impl.all (fun (_, _, fn, _, _) => fn) then none else some "a sharded provider exposes whole files (parquet_files is Some)"
    let oCount : Option String := if impl.length == N then none else some "not one shard per node"
    let oQueries : Option String := (List.range queries.length).findSome? fun qi =>
      let (cols, f) := queries.getD qi ([], none)
      let parts := impl.map fun (_, _, _, answers, _) => (answers.getD qi none)
      if parts.any (·.isNone) then some s!"query {qi} failed on a shard"
      else
        let u := sortRows (parts.flatMap fun p => p.getD [])
        if u == answer vals f cols allKeys then none
        else some s!"query {qi}: union of the shard answers differs from the table's answer (row lost, duplicated or wrong)"
    -- provider level: the pushed filter is a performance device, so every shard may return a superset of its qualifying rows,
    -- but the union must contain every qualifying row of the table and nothing that is not a row of the table
    let oProvider : Option String := (List.range queries.length).findSome? fun qi =>
      let (cols, f) := queries.getD qi ([], none)
      let parts := impl.map fun (_, _, _, _, provider) => (provider.getD qi none)
      if parts.all (·.isNone) then none
      else if parts.any (fun p => match p with | some none => true | _ => false) then some s!"query {qi}: scan_with_filter failed on a shard"
      else
        let u := sortRows (parts.flatMap fun p => match p with | some (some r) => r | _ => [])
        if !subMulti (answer vals f cols allKeys) u then some s!"query {qi}: scan_with_filter over the shards loses qualifying rows"
        else if !subMulti u (sortRows (project vals cols allKeys)) then some s!"query {qi}: scan_with_filter over the shards returns rows that are not in the table (or duplicates)"
        else none
    let o := oCount <|> oFiles <|> oRaw <|> oQueries <|> oProvider
    let tags := ["shards"] ++ mTags ++ (if files.length ≥ 2 then ["multi-file"] else []) ++
      (if files.any (fun f => (f.footer.getD []).length ≥ 2) then ["multi-row-group"] else []) ++
      (if queries.any (fun (_, f) => f.isSome) then ["filter"] else []) ++ (if nodes == 0 then ["nodes0"] else []) ++
      (if queries.any (fun (_, f) => match f with | some f => f.col == "v" | none => false) then ["filter-nullable"] else []) ++
      (if queries.any (fun (cols, f) => movesFilterCol cols f) then ["proj:nonprefix+filter"] else []) ++
      (if queries.any (fun (cols, _) => (cols.map colIndex).mergeSort (fun a b => a ≤ b) != cols.map colIndex) then ["proj:permuted"] else []) ++
      (if queries.any (fun (cols, f) => movesFilterCol cols f && (cols.map colIndex).mergeSort (fun a b => a ≤ b) == cols.map colIndex) then ["provider:nonprefix+filter"] else [])
    pure { model := Json.arr (mShards.map fun (b, r, s, ks) => Json.mkObj [("bytes", b), ("rows", Json.num (JsonNumber.fromInt r)), ("splits", s), ("keys", Driver.jNatList ks)]).toArray,
           k := k, oracle := o, nt := N ≥ 2 && total ≥ 2, tags := tags }

end Driver.C13
