-- FAMILY: SQLC28
/-
  Driver.SQLC28.handler — C28 (each CTE reference yields that CTE's rows): `Driver.SqlCore` (O = `Spec.acceptable` on the
  engine's rows) plus
  * the NAMED statement `NQ` rebuilt from the plan JSON (`"names"` of every WITH node, `"name"` of every reference), checked
    against the resolved plan the generator sent (`lexPlan [] nq` must print like `plan`);
  * K-side tie of `Engine.Cte.inlinedPlan`: `Spec.run` of the statement with every reference replaced by its definition must
    equal `Spec.run` of the plan (tags `inline:agree|disagree`; a disagreement breaks K);
  * attribution (DESIGN §3.4).  C28-F1 was repaired by /repo 91e8987 (WITH names lexically scoped, one materialisation per
    definition): `attrF1` below is what attributed it and is NO LONGER CONSULTED, so a recurrence is reported as a violation.
      C28-F1  (fixed, inactive) some name is defined twice in the statement AND the engine's rows are an acceptable answer of
              `Engine.Cte.enginePlan today pick` (global never-restored name map + cache keyed on the name) for one of the
              candidate choices `pick`, or of the never-restored name map alone (the planner does not consult the cache everywhere);
              where the engine's rows are not mirrored exactly (or it fails): signature = some name is defined twice,
              neutraliser = the CTE-free, lexically resolved rendering of the statement (`impl.neutral_inline`) passes the oracle;
      C28-F2  signature `f:dup_derived_names` (two derived relations with equal column names in one FROM, e.g. the same CTE
              twice) AND the neutralised rendering (every CTE reference wrapped in a column-renaming derived table,
              `impl.neutral_rename`) passes the oracle on the real engine;
      C28-F3  (defects of other properties inside the definitions: C21 / C22 / C23 findings) the CTE-free rendering of the
              statement (each reference replaced by a derived-table copy of its definition, `impl.neutral_inline`) returns
              the SAME rows on the real engine — every reference did yield what the engine computes for its definition.
-/
import Driver.SqlCore
import IQE.Engine.Cte
open Lean IQE IQE.Spec IQE.Engine.Cte Driver.SqlJson

namespace Driver.SQLC28
open Driver.SQL

/-- children of a plan node in the order of `Engine.Cte.kidsOf` (inputs, then the subqueries of its expressions) -/
def kidsJson (j : Json) : List Json :=
  let arr (o : Json) (k : String) : List Json := match o.getObjValAs? (Array Json) k with | .ok a => a.toList | .error _ => []
  let one (o : Json) (k : String) : List Json := match o.getObjVal? k with | .ok v => [v] | .error _ => []
  if let .ok o := j.getObjVal? "filter" then one o "q" ++ arr o "subs"
  else if let .ok o := j.getObjVal? "project" then one o "q" ++ arr o "subs"
  else if let .ok o := j.getObjVal? "join" then one o "l" ++ one o "r" ++ arr o "subs"
  else if let .ok o := j.getObjVal? "agg" then one o "q"
  else if let .ok o := j.getObjVal? "gsets" then one o "q"
  else if let .ok q := j.getObjVal? "distinct" then [q]
  else if let .ok o := j.getObjVal? "sort" then one o "q"
  else if let .ok o := j.getObjVal? "limit" then one o "q"
  else if let .ok o := j.getObjVal? "window" then one o "q"
  else if let .ok o := j.getObjVal? "setop" then one o "l" ++ one o "r"
  else []

/-- the named statement; `stack` = names in lexical scope (outermost first) -/
partial def nqOfJson (stack : List String) (j : Json) : Except String NQ := do
  if let .ok i := j.getObjValAs? Nat "cte" then
    match j.getObjValAs? String "name" with
    | .ok n => return .ref n
    | .error _ => match stack[i]? with
      | some n => return .ref n
      | none => throw s!"CTE reference {i} beyond the name stack"
  if let .ok o := j.getObjVal? "with" then
    let defsJ := (← getArr o "defs").toList
    let names : List String := match o.getObjValAs? (Array String) "names" with
      | .ok a => a.toList
      | .error _ => (List.range defsJ.length).map fun k => s!"w{stack.length + k}"
    if names.length != defsJ.length then throw "WITH: names and defs differ in length"
    let mut defs : List NQ := []
    let mut st := stack
    for (n, d) in names.zip defsJ do
      defs := defs ++ [← nqOfJson st d]
      st := st ++ [n]
    return .withN names defs (← nqOfJson st (← o.getObjVal? "body"))
  let sk ← queryOfJson j
  return .node sk (← (kidsJson j).mapM (nqOfJson stack))

mutual
partial def refNames : NQ → List String
  | .ref n => [n]
  | .node _ kids => refNamesL kids
  | .withN _ defs body => refNamesL defs ++ refNames body
partial def refNamesL : List NQ → List String
  | [] => []
  | k :: ks => refNames k ++ refNamesL ks
end

/-- number of CTE references inside subquery expressions -/
partial def refsInSubs (inSub : Bool) (j : Json) : Nat :=
  match j with
  | .arr a => a.foldl (fun acc x => acc + refsInSubs inSub x) 0
  | .obj kv =>
    (if inSub && (j.getObjVal? "cte").toOption.isSome then 1 else 0) +
      kv.foldl (fun acc k v => acc + refsInSubs (inSub || k == "subs") v) 0
  | _ => 0

def hasDup (l : List String) : Bool := l.eraseDups.length != l.length

structure Info where
  nq : NQ
  shadowed : Bool
  tags : List String
  inlineAgrees : Option Bool      -- none: not judged (reference semantics did not answer)

def planJson (c : Case) : Json := (c.raw.getObjVal? "plan").toOption.getD Json.null

def info (c : Case) : Except String Info := do
  let pj := planJson c
  let nq ← nqOfJson [] pj
  if toString (repr (lexPlan [] nq)) != toString (repr c.plan) then
    throw s!"named statement does not resolve to the plan sent (driver/generator convention mismatch): {c.sql.take 200}"
  let dn := defNames nq
  let rn := refNames nq
  let shadowed := hasDup dn
  let maxShare := rn.eraseDups.foldl (fun m n => max m (rn.count n)) 0
  let nsub := refsInSubs false pj
  let agrees : Option Bool :=
    match specRun c with
    | .ok sp => (match Spec.run fo fns c.tables (inlinedPlan nq) [] [] with
        | .ok t => some (normTable t == sp)
        | .error _ => some false)
    | .error _ => none
  let tags := [s!"defs:{min dn.length 4}", s!"refs:{min rn.length 6}", s!"share:{min maxShare 4}"]
    ++ (if shadowed then ["names:shadowed"] else ["names:unique"])
    ++ (if nsub > 0 then ["ref_in_subquery"] else [])
    ++ (match agrees with | some true => ["inline:agree"] | some false => ["inline:disagree"] | none => [])
  pure { nq, shadowed, tags, inlineAgrees := agrees }

/-- widths of the catalog's tables (from the case's `cat` description; a table may be empty) -/
def tableWidths (c : Case) : List Nat :=
  match c.raw.getObjValAs? (Array Json) "cat" with
  | .ok a => a.toList.map fun t => match t.getObjValAs? (Array Json) "cols" with | .ok cs => cs.size | .error _ => 0
  | .error _ => c.tables.map fun t => (t.headD []).length

def explains (c : Case) (nq : NQ) (out : Table) (dev : Dev) (pick : String → Nat) : Bool :=
  match Spec.acceptable fo fns c.tables (enginePlan dev (tableWidths c) pick nq) out with
  | .ok true => true
  | _ => false

/-- the neutralised rendering (every CTE reference wrapped in a column-renaming derived table) passes the oracle -/
def renamePasses (c : Case) : Bool :=
  match c.impl.getObjVal? "neutral_rename" with
  | .ok n =>
    match (do
      let o ← outcomeOfJson (← getObj n "impl")
      pure (judge c (specRun c) o)) with
    | .ok (label, none) => label == "right"
    | _ => false
  | .error _ => false

/-- the engine answers the CTE-free rendering of the statement with the same rows -/
def inlineSame (c : Case) (out : Table) : Bool :=
  match c.impl.getObjVal? "neutral_inline" with
  | .ok n =>
    match (do outcomeOfJson (← getObj n "impl")) with
    | .ok (.ok t) => (match Spec.sameAnswer fo fns c.plan out t with | .ok true => true | _ => false)
    | _ => false
  | .error _ => false

/-- the CTE-free rendering of the statement passes the oracle on the real engine -/
def inlinePasses (c : Case) : Bool :=
  match c.impl.getObjVal? "neutral_inline" with
  | .ok n =>
    match (do
      let o ← outcomeOfJson (← getObj n "impl")
      pure (judge c (specRun c) o)) with
    | .ok (label, none) => label == "right"
    | _ => false
  | .error _ => false

/-- C28-F1 (fixed by /repo 91e8987; kept for the record, not in the active set) -/
def attrF1 (c : Case) (out : Table) : Bool :=
    match info c with
      | .ok i => i.shadowed && ([0, 1, 2, 3].any (fun k => explains c i.nq out today (fun _ => k)) ||
          -- the planner does not always consult the cache (a reference inside a subquery expression that the optimizer rewrote): binder alone
          explains c i.nq out { scopeNeverRestored := true } (fun _ => 0) ||
          -- not mirrored exactly (name-based column lookup in a materialisation of the other definition mixes with C28-F2):
          -- signature (a name defined twice) + neutraliser (the CTE-free, lexically resolved rendering passes)
          inlinePasses c)
      | .error _ => false

def attrC28 : AttrFn := fun c o _ =>
  match o with
  | .ok out =>
    if c.tags.contains "f:dup_derived_names" && renamePasses c then some "C28-F2"
    else if inlineSame c out then some "C28-F3"
    else none
  | _ => none

def handler : Driver.Handler := fun cj i => do
  let v ← handlerWith attrC28 cj i
  let c := { (← caseOfJson cj) with impl := i }
  let inf ← info c
  let kInline := inf.inlineAgrees != some false
  let v := { v with tags := v.tags ++ inf.tags, k := v.k && kInline }
  -- C28-specific strictness: the engine ANSWERS the CTE-free rendering correctly but FAILS on the WITH statement itself —
  -- then some reference did not yield its definition's rows (before /repo 91e8987: a reference bound to the other definition
  -- of a re-used name looked for column names that definition does not have).
  match (← outcomeOfJson i) with
  | .err kind =>
    if v.oracle.isNone && !c.engineDefined && inlinePasses c then
      pure { v with oracle := some s!"engine error ({kind}) on the WITH statement although its CTE-free rendering is answered correctly",
                    k := false, tags := v.tags ++ ["with_only_error"], attr := none }
    else pure v
  | _ => pure v

end Driver.SQLC28
