-- FAMILY: C20
import Driver.Util
import IQE.Engine.Sidecar
open Lean
namespace Driver.C20

structure Row where
  k : Option Int
  s : Nat          -- the number in "v{..}"
  w : Option Nat   -- the number in "w{..}"

def genRg (n seed card nulld : Nat) : List Row :=
  (List.range n).map fun i =>
    let isNull := nulld > 0 && (i + seed) % nulld == 0
    { k := if isNull then none else some (((seed * 31 + i * 7) % 1000 : Nat) - 100 : Int),
      s := (i * 13 + seed) % card, w := if isNull then none else some i }

def sumOpt (l : List (Option Int)) : Option Int :=
  let nn := l.filterMap id
  if nn.isEmpty then none else some (nn.foldl (· + ·) 0)

def showOpt : Option Int → String | some i => toString i | none => "NULL"

def rowLt : List String → List String → Bool
  | [], [] => false
  | [], _ :: _ => true
  | _ :: _, [] => false
  | a :: as, b :: bs => if a < b then true else if b < a then false else rowLt as bs

def sortRows (l : List (List String)) : List (List String) := l.mergeSort (fun a b => !rowLt b a)

def summaryOf (rows : List Row) : List Int :=
  [rows.length, (rows.filterMap (·.k)).foldl (· + ·) 0, (rows.map (fun r => (r.s : Int))).foldl (· + ·) 0,
   ((rows.filterMap (·.w)).map (fun x => (x : Int))).foldl (· + ·) 0, (rows.filter (·.k.isNone)).length, (rows.filter (·.w.isNone)).length]

/-- group by s with an association list keyed by the small key space -/
def groupBy (rows : List Row) (card : Nat) : List (List String) :=
  let init : Array (Nat × List (Option Int)) := Array.replicate card (0, [])
  let acc := rows.foldl (fun (a : Array (Nat × List (Option Int))) r =>
    if h : r.s < a.size then a.set r.s ((a[r.s]).1 + 1, r.k :: (a[r.s]).2) else a) init
  (List.range card).filterMap fun g =>
    match acc[g]? with
    | some (n, ks) => if n == 0 then none else some [s!"v{g}", toString n, showOpt (sumOpt ks)]
    | none => none

inductive Ans where
  | rows (r : List (List String))
  | nums (n : List Int)
  | err
deriving BEq, Repr

def parseAns (j : Json) : Ans :=
  match j with
  | Json.arr a =>
    match a.toList with
    | [Json.arr inner] =>
      -- either one row of strings or one summary of numbers
      match inner.toList.mapM (fun (x : Json) => x.getInt?) with
      | .ok ns => if inner.toList.all (fun x => match x with | Json.num _ => true | _ => false) then .nums ns else
          .rows (sortRows [inner.toList.map fun x => (x.getStr?).toOption.getD "?"])
      | .error _ => .rows (sortRows [inner.toList.map fun x => (x.getStr?).toOption.getD "?"])
    | l => .rows (sortRows (l.map fun r => match r with
        | Json.arr cells => cells.toList.map fun x => (x.getStr?).toOption.getD "?"
        | _ => ["?"]))
  | _ => .err

def parseAnswers (j : Json) : List Ans :=
  match j with
  | Json.arr a => a.toList.map parseAns
  | _ => [.err]

def handler : Driver.Handler := fun c i => do
  let card ← Driver.getNat c "card"
  let nulld ← Driver.getNat c "nulld"
  let cst ← Driver.getInt c "c"
  let rgsJ ← Driver.getArr c "rgs"
  let rgs ← rgsJ.toList.mapM fun r => do pure (genRg (← Driver.getNat r "n") (← Driver.getNat r "seed") (max card 1) nulld)
  let all := rgs.flatten
  let gt := all.filter fun r => match r.k with | some k => k > cst | none => false
  let expected : List Ans := [
    .rows [[toString all.length, showOpt (sumOpt (all.map (·.k)))]],
    .rows [[toString gt.length, showOpt (sumOpt (gt.map (·.k)))]],
    .rows (sortRows (groupBy all (max card 1))),
    .rows [[toString (all.filter (·.s == 1)).length]],
    .rows [[toString (all.filter (·.w.isSome)).length]],
    .nums (summaryOf all)]
  if (i.getObjVal? "harness_error").toOption.isSome then
    return { model := Json.null, k := true, oracle := none, nt := false, tags := ["harness-lost-files"] }
  -- scheduled interleavings (yield points 40..46): every participant must read the whole table
  if let .ok kind := c.getObjValAs? String "sched" then
    let want := summaryOf all
    let schedOk := (i.getObjValAs? Bool "sched_ok").toOption.getD false
    let roles := if kind == "inproc" then ["A", "B", "C"] else ["A", "B", "R", "R2"]
    let res : List (String × Option (List Int)) := roles.map fun r =>
      (r, match i.getObjVal? r with | .ok v => (Driver.asIntList v).toOption | .error _ => none)
    let wrong := res.filter fun (_, v) => match v with | some ns => ns != want | none => false
    -- a participant the harness could not run ({"harness":..}) is not an observation
    let harnessLost := roles.any fun r => match i.getObjVal? r with | .ok v => (v.getObjVal? "harness").toOption.isSome | .error _ => true
    let failed := res.filter fun (r, v) => v.isNone && (match i.getObjVal? r with | .ok j => (j.getObjVal? "err").toOption.isSome | .error _ => false)
    let o : Option String :=
      match wrong, failed with
      | (r, _) :: _, _ => some s!"{kind}: participant {r} read WRONG rows"
      | [], (r, _) :: _ => some s!"{kind}: participant {r} failed with an I/O error while the sidecar was being (re)built by another process"
      | [], [] => none
    -- the protocol model's prediction: only the race schedule fails, and only its parked reader (C20_crossprocess_witness)
    -- (before /repo 87eecb0 the race schedule's parked reader failed: finding C20-F1, now fixed by the cross-process lock,
    --  so the prediction is the one of C20_crossprocess_of_shared_lock: nobody fails, under every schedule)
    let predictedFail : List String := []
    let k := wrong.isEmpty && (failed.map (·.1)) == predictedFail || !schedOk && wrong.isEmpty
    let attr : Option String := none
    return { model := Json.mkObj [("fails", Json.arr (predictedFail.map Json.str).toArray)], k := k, oracle := o, nt := true,
             tags := [s!"sched-{kind}"] ++ (if schedOk && !harnessLost then [] else ["sched-timeout"])
               ++ (if (i.getObjValAs? Bool "b_built_under_a").toOption.getD false then ["second-builder-not-excluded"] else []), attr := attr }
  let get (name : String) : Option (List Ans) := match i.getObjVal? name with | .ok v => some (parseAnswers v) | .error _ => none
  let modes := ["m0", "auto_nosidecar", "m1cold", "m1warm", "auto_sidecar"]
  let some m0 := get "m0" | throw "impl has no m0 answers (harness error)"
  -- O1: every mode answers exactly like QE_IPC_CACHE=0
  let modeFail : Option String := modes.foldl (fun acc m => match acc with
    | some e => some e
    | none => match get m with
      | none => some s!"mode {m}: no answers"
      | some a =>
        if a.any (· == Ans.err) then some s!"mode {m}: a query failed"
        else if a != m0 then
          let idx := (List.range a.length).find? (fun q => a[q]? != m0[q]?)
          some s!"mode {m} answers query #{idx.getD 0} differently from QE_IPC_CACHE=0"
        else none) none
  -- O2: sidecar content = the decoded row group, re-sliced views are a partition
  let sidecarFail : Option String :=
    match i.getObjVal? "sidecar" with
    | .ok (Json.arr a) =>
      if a.size != rgs.length then some s!"sidecar has {a.size} row groups, the file {rgs.length}" else
      (List.range a.size).foldl (fun acc r => match acc with
        | some e => some e
        | none =>
          let j := a[r]!
          match j.getObjVal? "sum", j.getObjVal? "lens" with
          | .ok sm, .ok ln =>
            let sums := (Driver.asIntList sm).toOption.getD []
            let lens := (Driver.asNatList ln).toOption.getD []
            let rows := rgs[r]!
            if sums != summaryOf rows then some s!"sidecar row group {r} holds {sums}, the parquet row group {summaryOf rows}"
            else if lens.foldl (· + ·) 0 != rows.length || lens.any (fun l => l == 0 || l > 65536) then some s!"sidecar row group {r}: batch lengths {lens} are not a partition into views of at most 65536 rows"
            else none
          | _, _ => some s!"sidecar row group {r} unreadable") none
    | _ => some "no sidecar was built under QE_IPC_CACHE=1"
  -- O3: concurrent in-process builders/readers all see the whole table
  let threadFail : Option String :=
    match i.getObjVal? "threads" with
    | .ok (Json.arr a) => a.toList.foldl (fun acc t => match acc with
        | some e => some e
        | none => match Driver.asIntList t with
          | .ok ns => if ns == summaryOf all then none else some s!"a racing thread read {ns}, the table holds {summaryOf all}"
          | .error _ => some s!"a racing thread failed: {t.compress}") none
    | _ => some "no thread results"
  let o := modeFail <|> sidecarFail <|> threadFail
  let dictStored := match i.getObjVal? "sidecar" with
    | .ok (Json.arr a) => a.any fun j => (j.getObjValAs? Bool "dict_s").toOption.getD false
    | _ => false
  let tags := (if dictStored then ["sidecar-dict"] else ["sidecar-plain"])
    ++ (if rgs.any (fun r => r.length > 65536) then ["rg>65536"] else [])
    ++ (if card > 4096 && rgs.any (fun r => r.length > 4096) then ["wide-dict"] else [])
    ++ (if nulld > 0 then ["nulls"] else []) ++ (if rgs.length > 4 then ["rg>4"] else [])
  pure { model := Json.arr (expected.map fun a => match a with
           | .rows r => Json.arr (r.map fun x => Json.arr (x.map Json.str).toArray).toArray
           | .nums n => Json.arr (n.map fun (x : Int) => Json.num (JsonNumber.fromInt x)).toArray
           | .err => Json.null).toArray,
         k := m0 == expected, oracle := o, nt := all.length ≥ 2, tags := tags }

end Driver.C20
