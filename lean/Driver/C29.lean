-- FAMILY: C29
import Driver.Util
import IQE.Engine.OptDriver
open Lean IQE.Engine
namespace Driver.C29

/-!
  C29 — no SQL text crashes or hangs the engine.
  kind "sql" / "batch": the model's prediction for *every* statement is the set {ok, err}; the oracle is the same predicate
  evaluated on what the child process reported (`outcome`, plus `bg` = panics on other threads while the statement ran).
  A failing case is attributed to a listed finding only by a signature over crash site + statement shape (+ a neutralised
  re-run where one exists), so a different crash of the same statement class is still a new VIOLATION.
  kind "opt": correspondence of the fix-point driver model (`IQE.Engine.OptDriver`) with `Optimizer::with_rules(..).optimize`.
-/

def contains (s pat : String) : Bool := (s.splitOn pat).length > 1
def count (s pat : String) : Nat := (s.splitOn pat).length - 1

/-- maximal nesting depth of `(` / `[` (string literals are not skipped: an over-approximation is fine for a signature) -/
def maxDepth (s : String) : Nat :=
  (s.toList.foldl (fun (acc : Nat × Nat) c =>
    if c == '(' || c == '[' then (acc.1 + 1, Nat.max acc.2 (acc.1 + 1))
    else if c == ')' || c == ']' then (acc.1 - 1, acc.2) else acc) (0, 0)).2

/-- number of infix operator tokens (left-deep chains are parsed iteratively and bound recursively) -/
def chainOps (s : String) : Nat :=
  count s " AND " + count s " OR " + count s " + " + count s " - " + count s " * " + count s " / " + count s " || " + count s " UNION "

/-- number of GROUP BY keys, approximated by the commas after the last GROUP BY -/
def groupKeys (s : String) : Nat :=
  match (s.splitOn "GROUP BY").getLast? with
  | some tail => if contains s "GROUP BY" then count tail "," + 1 else 0
  | none => 0

structure Obs where
  setup : String
  sql : String
  outcome : String
  kind : String
  detail : String
  phase : String
  bg : Nat
  bgkind : String
  bgdetail : String
  neutral : String

/-- C29-F9: (function, fragment of the panic message) pairs of out-of-domain arguments that panic in library code -/
def domainPairs : List (String × String) :=
  [("INVERSE_NORMAL_CDF", "x must be in"), ("INVERSE_BETA_CDF", "x must be in"),
   ("FORMAT_NUMBER", "Formatting argument out of range"), ("DATE_FORMAT", "Display implementation returned an error")]

/-- signatures of the listed findings (known_findings.json, property C29) -/
def attributeTo (o : Obs) : Option String :=
  let up := o.sql.toUpper
  -- (the frame is missing from `kind` when the binary was replaced while running: then the crash site is arrow_select::take + index out of bounds)
  if o.outcome == "panic" && (contains o.kind "streaming_k_way_merge" || (contains o.kind "arrow-select" && contains o.kind "take.rs" && contains o.detail "index out of bounds"))
     && o.setup.startsWith "spill" && contains up "ORDER BY"
     && (o.neutral == "ok" || o.neutral == "err") then some "C29-F1"
  else if chainOps up ≥ 2000 && ((o.outcome == "abort" && o.kind == "stack-overflow")
       || o.outcome == "timeout") then some "C29-F2"
  else if o.outcome == "timeout" && o.phase == "parse" && maxDepth o.sql ≥ 41 && (contains up "CAST(" || contains up "ARRAY[") then some "C29-F3"
  else if o.outcome == "panic" && (contains o.kind "physical::operators::filter::" || contains o.kind "hash_agg.rs" || contains o.kind "physical::morsel_agg::AccumulatorState")
     && contains o.detail "attempt to " && contains o.detail "with overflow"
     && ((contains up "FROM_UNIXTIME(" && contains o.detail "multiply") || ((contains up "SUM(" || contains up "AVG(") && contains o.detail "add")) then some "C29-F8"
  else if o.outcome == "panic" && domainPairs.any (fun (f, m) => contains up (f ++ "(") && contains o.detail m) then some "C29-F9"
  else if ((o.outcome == "abort" && o.kind == "alloc-failure") || (o.outcome == "timeout" && o.phase == "execute")
           || (o.outcome == "panic" && contains o.detail "capacity overflow"))
     && (contains up "REPEAT(" || contains up "LPAD(" || contains up "RPAD(") then some "C29-F11"
  else none

def strOr (j : Json) (k : String) (d : String := "") : String :=
  match j.getObjValAs? String k with | .ok s => s | .error _ => d

def natOr (j : Json) (k : String) : Nat :=
  match j.getObjValAs? Nat k with | .ok n => n | .error _ => 0

def sqlHandler (c i : Json) : Except String Driver.Verdict := do
  let kind ← Driver.getStr c "kind"
  let sql := if kind == "batch" then
      match c.getObjValAs? (Array String) "sqls" with | .ok a => (a.toList.getLast?).getD "" | .error _ => ""
    else strOr c "sql"
  let o : Obs := { setup := strOr c "setup" "std", sql := sql, outcome := ← Driver.getStr i "outcome", kind := strOr i "kind",
                   detail := strOr i "detail", phase := strOr i "phase", bg := natOr i "bg", bgkind := strOr i "bgkind", bgdetail := strOr i "bgdetail",
                   neutral := strOr i "neutral" }
  let fine := (o.outcome == "ok" || o.outcome == "err") && o.bg == 0
  let why : Option String :=
    if fine then none
    else if o.outcome == "panic" then some s!"the engine panicked at {o.kind}: {o.detail}"
    else if o.outcome == "abort" then some s!"the process died ({o.kind}) in phase {o.phase}"
    else if o.outcome == "timeout" then some s!"no answer within the time limit (phase {o.phase})"
    else if o.bg > 0 then some s!"{o.bg} panic(s) on background threads at {o.bgkind} while the statement returned {o.outcome}"
    else some s!"unknown outcome {o.outcome}"
  let stream := strOr c "stream" "replay"
  -- `utf8`: the statement works on multi-byte text (non-ASCII SQL text, the multi-byte fixture table `mb`, or one of the utf8 streams)
  let isUtf8 := stream.startsWith "utf8" || o.sql.toList.any (fun (ch : Char) => ch.toNat > 127) || contains o.sql " mb" || contains o.sql "mb."
  let tags := [s!"stream:{stream}", s!"outcome:{o.outcome}"] ++ (if isUtf8 then ["utf8"] else []) ++ (if o.outcome == "err" then [s!"err:{o.kind}"] else [])
              ++ (if o.bg > 0 then ["bg-panic"] else [])
  pure { model := Json.mkObj [("allowed", Json.arr #[Json.str "ok", Json.str "err"])], k := fine, oracle := why,
         nt := !(o.outcome == "err" && o.kind == "Parse"), tags := tags,
         attr := if fine then none else attributeTo o }

/-! ### optimizer driver correspondence -/

def ruleOfJson (j : Json) : Except String (OptDriver.Rule Nat String) := do
  let name ← Driver.getStr j "name"
  let kind ← Driver.getStr j "kind"
  let m := natOr j "m"
  let f : Nat → Except String Nat :=
    if kind == "inc" then fun n => .ok (if n < m then n + 1 else n)            -- changes the plan until it reaches m
    else if kind == "failAt" then fun n => if n == m then .error s!"rule {name} failed at {n}" else .ok n
    else if kind == "bump" then fun n => .ok (n + 1)                           -- always changes the plan (never converges)
    else if kind == "halve" then fun n => .ok (if n > m then n / 2 else n)
    else fun n => .ok n                                                        -- "id"
  pure { name := name, apply := f }

def optHandler (c i : Json) : Except String Driver.Verdict := do
  let rules ← (← Driver.getArr c "rules").toList.mapM ruleOfJson
  let start ← Driver.getNat c "start"
  let maxIter := 10
  let r := OptDriver.optimize (fun a b => a == b) maxIter rules start
  let bound := OptDriver.bound maxIter rules
  let mOut : Json := match r.out with
    | .ok n => Json.mkObj [("ok", Json.num (JsonNumber.fromNat n))]
    | .error e => Json.mkObj [("err", Json.str e.1)]
  let model := Json.mkObj [("out", mOut), ("apps", Json.num (JsonNumber.fromNat r.apps)), ("bound", Json.num (JsonNumber.fromNat bound))]
  let implApps := natOr i "apps"
  let implOut : Json := (i.getObjVal? "out").toOption.getD Json.null
  let same := implApps == r.apps && implOut == mOut
  let o : Option String :=
    if (i.getObjVal? "panic").toOption.isSome then some "the optimizer driver panicked"
    else if implApps > bound then some s!"{implApps} rule applications exceed max_iterations x |loop rules| + |final rules| = {bound}"
    else none
  pure { model := model, k := same, oracle := o, nt := r.apps > rules.length, tags := ["stream:opt", if r.out.isOk then "opt:ok" else "opt:err"] }

def handler : Driver.Handler := fun c i => do
  let kind ← Driver.getStr c "kind"
  if kind == "opt" then optHandler c i else sqlHandler c i

end Driver.C29
