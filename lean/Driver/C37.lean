-- FAMILY: C37
import Driver.Util
import IQE.Engine.VecCodec
open Lean IQE.Engine IQE.Engine.VecCodec
namespace Driver.C37

def parseTy : String → Except String Ty
  | "int32" => pure .int32 | "int64" => pure .int64 | "float64" => pure .float64 | "utf8" => pure .utf8 | "bool" => pure .bool
  | s => throw s!"unknown type {s}"

def parseRaw (ty : Ty) (j : Json) : Except String Raw :=
  match ty with
  | .int32 | .int64 => do pure (.i (← j.getInt?))
  | .float64 => do pure (.f (← j.getNat?).toUInt64)
  | .utf8 => do pure (.s (← j.getStr?))
  | .bool => do pure (.b ((← j.getNat?) == 1))

def parseSlots (ty : Ty) (j : Json) : Except String (List (Slot Raw)) := do
  let a ← j.getArr?
  a.toList.mapM fun s => do
    let v ← (← s.getArrVal? 0).getNat?
    let r ← parseRaw ty (← s.getArrVal? 1)
    pure (v == 1, r)

/-- The array as the harness builds it: a window at offset `pre` into longer buffers (the padding content is irrelevant to
    the model by C37's theorems; NULL/zero padding is used here). -/
def parseArr (ty : Ty) (j : Json) : Except String (Arr Raw) := do
  let slots ← parseSlots ty (← j.getObjVal? "slots")
  let pre := (j.getObjValAs? Nat "pre").toOption.getD 0
  let post := (j.getObjValAs? Nat "post").toOption.getD 0
  let pad := fun n => List.replicate n ((false, Raw.zero ty) : Slot Raw)
  pure { buf := pad pre ++ slots ++ pad post, off := pre, len := slots.length }

def jRaw : Raw → Json
  | .i n => Json.num (JsonNumber.fromInt n)
  | .f b => Json.num (JsonNumber.fromNat b.toNat)
  | .s s => Json.str s
  | .b v => Json.num (JsonNumber.fromNat (if v then 1 else 0))
def jOpt (o : Option Raw) : Json :=
  match o with
  | some r => Json.arr #[Json.num (JsonNumber.fromNat 1), jRaw r]
  | none => Json.arr #[Json.num (JsonNumber.fromNat 0), Json.null]
def tyStr : Ty → String | .int32 => "int32" | .int64 => "int64" | .float64 => "float64" | .utf8 => "utf8" | .bool => "bool"
def jArr (ty : Ty) (l : List (Option Raw)) : Json := Json.mkObj [("slots", Json.arr (l.map jOpt).toArray), ("ty", tyStr ty)]
def kindStr : ErrKind → String | .unsupported => "unsupported" | .len => "len" | .downcast => "downcast" | .other => "other"
def jOut {β : Type} (f : β → Json) : Out β → Json
  | .ok v => Json.mkObj [("ok", f v)]
  | .err k => Json.mkObj [("err", kindStr k)]
  | .panic => Json.mkObj [("panic", "")]

def isOk (j : Json) : Bool := (j.getObjVal? "ok").toOption.isSome
def isErr (j : Json) : Bool := (j.getObjVal? "err").toOption.isSome
def isPanic (j : Json) : Bool := (j.getObjVal? "panic").toOption.isSome
/-- canonical outcomes equal (a panic message is not compared) -/
def sameOutcome (x y : Json) : Bool :=
  if isPanic x || isPanic y then isPanic x && isPanic y else x.compress == y.compress
/-- value equality of two Ok outcomes / both rejected with an error (Arrow's error kind is not compared) -/
def agreesWithArrow (x arrow : Json) : Bool :=
  if isOk x || isOk arrow then x.compress == arrow.compress else isErr x && isErr arrow

/-- switches relevant to an operation with the finding that lists each -/
structure Sw where
  id : String
  set : Dev → Dev

def swRoundtrip : List Sw := [⟨"C37-F1", fun d => { d with constIgnoresValidity := true }⟩, ⟨"C37-F2", fun d => { d with encodeUnsupportedFails := true }⟩]
def swFilter : List Sw := [⟨"C37-F3", fun d => { d with filterDropsNulls := true }⟩]
def swCompare : List Sw := [⟨"C37-F4", fun d => { d with compareIgnoresValidity := true }⟩, ⟨"C37-F5", fun d => { d with compareFloatIeee := true }⟩]
def swArith : List Sw := [⟨"C37-F6", fun d => { d with arithIgnoresValidity := true }⟩, ⟨"C37-F7", fun d => { d with arithNoLenCheck := true }⟩]
def swSum : List Sw := [⟨"C37-F8", fun d => { d with sumNoValidIsZero := true }⟩]

/-- all subsets, smallest first (∅, singletons, …) -/
def subsets {β : Type} : List β → List (List β)
  | [] => [[]]
  | x :: xs => let r := subsets xs; r ++ r.map (x :: ·)
def subsetsBySize {β : Type} (l : List β) : List (List β) :=
  (List.range (l.length + 1)).flatMap fun n => (subsets l).filter (·.length == n)

/-- First switch set (smallest first) under which the model reproduces the implementation's outcome. -/
def explain (sws : List Sw) (run : Dev → Json) (impl : Json) : Option (List String × Json) :=
  (subsetsBySize sws).findSome? fun S =>
    let d := S.foldl (fun d s => s.set d) ({} : Dev)
    let m := run d
    if sameOutcome impl m then some (S.map (·.id), m) else none

def handler : Driver.Handler := fun c i => do
  let op ← Driver.getStr c "op"
  let ty ← parseTy (← Driver.getStr c "ty")
  let tyb ← match c.getObjValAs? String "tyb" with | .ok s => parseTy s | .error _ => pure ty
  let ja ← Driver.getObj c "a"
  let a ← parseArr ty ja
  let b ← match c.getObjVal? "b" with | .ok jb => parseArr tyb jb | .error _ => pure a
  let mask : List Bool := match c.getObjVal? "mask" with
    | .ok m => ((Driver.asNatList m).toOption.getD []).map (· == 1)
    | .error _ => []
  let implOut ← Driver.getObj i "out"
  let arrow ← Driver.getObj i "arrow"
  let enc := (i.getObjValAs? String "enc").toOption.getD "-"
  let hasNull := a.slots.any (!·.1) || (op != "roundtrip" && b.slots.any (!·.1))
  let baseTags := [op, tyStr ty, if hasNull then "nulls" else "nonulls", if a.off > 0 || b.off > 0 then "offset" else "offset0",
                   if isOk implOut then "impl-ok" else if isErr implOut then "impl-err" else "impl-panic"]
  -- the model under a switch set, as a canonical outcome
  let (sws, run) : List Sw × (Dev → Json) ← match op with
    | "roundtrip" => pure (swRoundtrip, fun d => jOut (fun s => jArr ty (logical s)) (roundtrip d ty (Raw.zero ty) a.slots))
    | "filter" => pure (swFilter, fun d => jOut (jArr ty) (filterSimd d ty a mask))
    | "compare" => do
      let cop ← match (← Driver.getStr c "cmp") with
        | "eq" => pure CmpOp.eq | "ne" => pure CmpOp.ne | "lt" => pure CmpOp.lt | "le" => pure CmpOp.le | "gt" => pure CmpOp.gt | "ge" => pure CmpOp.ge
        | s => throw s!"unknown cmp {s}"
      pure (swCompare, fun d => jOut (fun l => jArr .bool (l.map (·.map Raw.b))) (compareSimd d ty tyb (Raw.cmp d.compareFloatIeee) cop a b))
    | "add" => pure (swArith, fun d => jOut (jArr ty) (arithSimd d ty tyb Raw.add a b))
    | "mul" => pure (swArith, fun d => jOut (jArr ty) (arithSimd d ty tyb Raw.mul a b))
    | "sum" => pure (swSum, fun d => jOut jOpt (sumSimd d ty Raw.add (Raw.zero ty) a))
    | "count" => pure ([], fun _ => jOut (fun n => Json.num (JsonNumber.fromNat n)) (Out.ok (countSimd a) : Out Nat))
    | s => throw s!"unknown op {s}"
  let intended := run {}
  let typedRejection := intended.compress == (jOut (fun (_ : Unit) => Json.null) (Out.err .unsupported)).compress
  -- the harness must have built the array the case describes (checked on the round-trip reference, which is the input itself)
  let inputOk := op != "roundtrip" || arrow.compress == (Json.mkObj [("ok", jArr ty (logical a.slots))]).compress
  -- O: the property predicate on the implementation's outcome (no model involved except the declared type table)
  let oracle : Option String :=
    if op == "roundtrip" then
      if isPanic implOut then some "encode_optimal/decode panicked"
      else if isErr implOut then some "encode_optimal returned an error"
      else if implOut.compress == (Json.mkObj [("ok", jArr ty (logical a.slots))]).compress then none
      else some "decode(encode_optimal(a)) differs from a"
    else if isPanic implOut then some s!"{op} panicked"
    else if typedRejection && sameOutcome implOut intended then none       -- a declared `Unsupported type` rejection
    else if agreesWithArrow implOut arrow then none
    else some s!"{op}: result differs from the Arrow kernel"
  -- K: the implementation is the model under some set of listed switches, and the switch-off model is the Arrow kernel
  let ex := explain sws run implOut
  let modelIsArrow := op == "roundtrip" || typedRejection || agreesWithArrow intended arrow
  let k := ex.isSome && modelIsArrow && inputOk
  let intendedOk := if op == "roundtrip" then intended.compress == (Json.mkObj [("ok", jArr ty (logical a.slots))]).compress else modelIsArrow
  let attr : Option String := match oracle, ex with
    | some _, some (id :: _, _) => if intendedOk then some id else none
    | _, _ => none
  let swTags := match ex with | some (ids, _) => ids.map (fun s => "explained-by-" ++ s) | none => ["unexplained"]
  pure { model := (match ex with | some (_, m) => m | none => intended), k := k, oracle := oracle, attr := attr,
         nt := a.len ≥ 2 && !typedRejection,
         tags := baseTags ++ swTags ++ (if typedRejection then ["typed-rejection"] else []) ++ (if op == "roundtrip" then ["enc-" ++ enc] else []) }

end Driver.C37
