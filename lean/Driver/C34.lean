-- FAMILY: C34
import Driver.Util
import IQE.Engine.FrontDoor
open Lean IQE.Engine IQE.Engine.FrontDoor
namespace Driver.C34

/-- Flight's vocabulary and the two constants: hand-written copies, proved equal to the translator-generated
    `parse_mode`, `MAX_TICKET_BYTES`, `MAX_ENCODE_ROWS` in IQE.Props.C34 -/
def flightMode (v : String) : Option Mode := parseModeFlight v
def maxTicket : Nat := maxTicketBytes
def maxRows : Nat := maxEncodeRows

def optStr (j : Json) (k : String) : Option String :=
  match j.getObjVal? k with
  | .ok (Json.str s) => some s
  | _ => none

def natList? (j : Json) (k : String) : Option (List Nat) :=
  match j.getObjVal? k with
  | .ok a => (Driver.asNatList a).toOption
  | _ => none

def insertSorted (x : Nat) : List Nat → List Nat
  | [] => [x]
  | y :: ys => if x ≤ y then x :: y :: ys else y :: insertSorted x ys
def sortNats (l : List Nat) : List Nat := l.foldr insertSorted []

/-- outcome of one RPC: "ok" or the gRPC code -/
def rpc (i : Json) (k : String) : Option String :=
  match i.getObjVal? k with
  | .ok (Json.str s) => some s
  | .ok o => optStr o "code"
  | _ => none

def allSpace (s : String) : Bool := s.toList.all (fun ch => ch.isWhitespace)

def isErrorStatement (sql : String) (mode : Mode) : Bool :=
  sql.startsWith "SELEC " || (sql.splitOn "nope").length > 1 || (sql.splitOn "missing_table").length > 1 ||
  (sql == "SELECT 1 AS one" && mode == .force)

def reasonClass (t : Option String) : String :=
  match t with
  | none => "none"
  | some t => if t == "distributed=0 requested" then "off" else if t == "only one cluster member is up" then "one-member" else "plan-refused"

def verdictJson : TicketVerdict → Json
  | .refused => Json.str "refused"
  | .run .auto => Json.str "run-auto"
  | .run .force => Json.str "run-force"
  | .run .off => Json.str "run-off"

def handleTicket (c i : Json) : Except String Driver.Verdict := do
  let t ← Driver.getObj c "ticket"
  let form ← Driver.getStr t "form"
  let node ← Driver.getStr c "node"
  let modeStr := (optStr t "mode").getD "auto"
  let tk : Ticket :=
    { bytes := if form == "huge" then maxTicket + 1 else 100,
      jsonOk := form == "json" || form == "nomode" || form == "huge",
      version := if form == "json" then (t.getObjValAs? Nat "v").toOption.getD 0 else 1,
      mode := if form == "json" then flightMode modeStr else some .auto }
  let verdict := validateTicket maxTicket tk
  let got := rpc i "doget"
  let httpStatus : Option Nat := (i.getObjVal? "http").toOption.bind (fun h => (h.getObjValAs? Nat "status").toOption)
  let httpClass : String := match httpStatus with
    | some 200 => "ok" | some 501 => "Unimplemented" | some 503 => "Unavailable" | some 400 => "error" | some 500 => "Internal" | _ => "?"
  -- an accepted ticket must end as POST /sql ends for the same statement and mode
  let k : Bool := match verdict, got with
    | .refused, some g => g == "InvalidArgument"
    | .run _, some g =>
      if node == "X" then g == "Unavailable"
      else if httpClass == "ok" then g == "ok"
      else if httpClass == "error" then g == "InvalidArgument" || g == "NotFound" || g == "Internal"
      else g == httpClass
    | _, none => false
  let o : Option String :=
    match verdict, got with
    | .refused, some "ok" => some "a malformed / oversized / unknown-version / unknown-mode ticket was served"
    | .refused, some g => if g == "InvalidArgument" then none else some s!"a bad ticket was refused with {g} instead of InvalidArgument"
    | _, none => some "no DoGet outcome"
    | .run _, some _ => none
  pure { model := verdictJson verdict, k := k, oracle := o, nt := true,
         tags := ["ticket", s!"ticket-{form}", match verdict with | .refused => "ticket-refused" | .run _ => "ticket-run"] ++ (if node == "X" then ["not-ready"] else []) }

def handleQuery (c i : Json) : Except String Driver.Verdict := do
  let cmd ← Driver.getObj c "cmd"
  let form ← Driver.getStr cmd "form"
  let node ← Driver.getStr c "node"
  let sql := (optStr cmd "sql").getD ""
  let modeStr := (optStr cmd "mode").getD "auto"
  let co : FrontDoor.Command :=
    { bytes := if form == "huge" then maxTicket + 1 else 100, utf8 := form != "nonutf8", emptyAfterTrim := form == "empty" || (form == "raw" && allSpace sql),
      isJson := form == "json" || form == "badjson" || form == "nosql", jsonOk := form == "json", sqlEmpty := allSpace sql, mode := flightMode modeStr }
  let verdict := validateCommand maxTicket co
  let info := rpc i "info"
  let doget := rpc i "doget"
  let http := (i.getObjVal? "http").toOption
  let httpStatus : Option Nat := http.bind (fun h => (h.getObjValAs? Nat "status").toOption)
  match verdict with
  | .refused =>
    let o := match info with
      | some "ok" => some "a malformed / oversized / empty / unknown-mode command was accepted"
      | some "InvalidArgument" => none
      | some g => some s!"a bad command was refused with {g} instead of InvalidArgument"
      | none => some "no GetFlightInfo outcome"
    pure { model := verdictJson verdict, k := info == some "InvalidArgument", oracle := o, nt := true, tags := ["query", s!"cmd-{form}", "cmd-refused"] }
  | .run m =>
    if node == "X" then
      let o := if info == some "Unavailable" then none else some "a node whose tables failed to load did not answer Unavailable"
      pure { model := Json.str "Unavailable", k := info == some "Unavailable", oracle := o, nt := true, tags := ["query", "not-ready"] }
    else
      -- what the HTTP door said for the same statement and mode
      let flightOk := info == some "ok" && doget == some "ok"
      let flightCode : String := if info != some "ok" then info.getD "?" else doget.getD "?"
      let httpClass : String := match httpStatus with
        | some 200 => "ok" | some 501 => "Unimplemented" | some 503 => "Unavailable" | some 400 => "error" | some 500 => "Internal" | _ => "?"
      let sameOutcome : Bool :=
        if httpClass == "ok" then flightOk
        else if httpClass == "error" then !flightOk && (flightCode == "InvalidArgument" || flightCode == "NotFound" || flightCode == "Internal")
        else !flightOk && flightCode == httpClass
      if !flightOk || httpClass != "ok" then
        let o := if sameOutcome then none else some s!"Flight answered {if flightOk then "ok" else flightCode} where HTTP answered {httpStatus.getD 0}"
        pure { model := Json.str httpClass, k := sameOutcome, oracle := o, nt := true,
               tags := ["query", s!"cmd-{form}", s!"err-{flightCode}", match m with | .auto => "mode-auto" | .force => "mode-force" | .off => "mode-off"] }
      else
        let h := http.getD Json.null
        let msgs := (natList? i "msgs").getD []
        let metaAt := (natList? i "meta_at").getD []
        let metaElse := (i.getObjValAs? Nat "meta_elsewhere").toOption.getD 0
        let mdj := (i.getObjVal? "meta").toOption.getD Json.null
        let metaRows := (mdj.getObjValAs? Nat "rows").toOption
        let metaDist := (mdj.getObjValAs? Bool "distributed").toOption
        let httpBatches := (natList? h "batches").getD []
        let body := msgs.dropLast
        -- K: the message sequence is the model's slicing of the batches the engine returned (batch ORDER may differ between two runs)
        let modelStream := flightStream maxRows httpBatches
        let modelLens := modelStream.map (·.len)
        let k := sortNats body == sortNats (modelLens.dropLast) && msgs.getLast? == some 0 && metaAt == [msgs.length - 1]
        let rowsF := (i.getObjVal? "rows").toOption
        let rowsH := (h.getObjVal? "rows").toOption
        let nRows := match rowsH with | some (Json.arr a) => a.size | _ => 0
        let o : Option String :=
          if rowsF != rowsH || rowsF.isNone then some "Flight rows differ from the HTTP rows of the same statement"
          else if (i.getObjVal? "schema").toOption != (h.getObjVal? "schema").toOption then some "Flight stream schema differs from the HTTP schema"
          else if (i.getObjVal? "info_schema").toOption != (i.getObjVal? "schema").toOption then some "GetFlightInfo schema differs from the DoGet stream schema"
          else if metaDist != some (optStr h "distributed" == some "true") then some "the two doors took different distribution decisions"
          else if reasonClass (optStr mdj "skipped_reason") != reasonClass (optStr h "skipped") then some "the two doors give different reasons for answering locally"
          else if msgs.any (fun n => n > maxRows) then some s!"a Flight message carries more than {maxRows} rows"
          else if metaAt != [msgs.length - 1] || metaElse != 0 then some "the metadata does not ride on exactly one message, the last"
          else if msgs.getLast? != some 0 then some "the trailer is not a zero-row batch"
          else if metaRows != some msgs.sum || msgs.sum != nRows then some "trailer row count differs from the rows delivered"
          else if (optStr h "rows_hdr") != some (toString nRows) then some "x-qe-rows differs from the rows delivered"
          else none
        let sizeTag := if nRows == 0 then "rows-0" else if nRows == 1 then "rows-1" else if nRows == 4096 then "rows-4096" else if nRows == 4097 then "rows-4097"
                       else if nRows == 10000 then "rows-10000" else "rows-other"
        pure { model := Driver.jNatList modelLens, k := k, oracle := o, nt := nRows > 0,
               tags := ["query", s!"cmd-{form}", "answered", sizeTag, if metaDist == some true then "dist-true" else s!"dist-false-{reasonClass (optStr h "skipped")}",
                        match m with | .auto => "mode-auto" | .force => "mode-force" | .off => "mode-off",
                        if node == "S" then "cluster-1" else "cluster-3"] ++ (if msgs.length > httpBatches.length + 1 then ["resliced"] else []) ++ (if modeStr == "off" then ["mode-spelling-off"] else []) }

def handler : Driver.Handler := fun c i => do
  if (i.getObjVal? "setup_error").isOk || (i.getObjVal? "panic").isOk then
    pure { model := Json.str "n/a", k := false, oracle := if (i.getObjVal? "panic").isOk then some "panic" else none, nt := false, tags := ["c34-setup"] }
  else
    let kind ← Driver.getStr c "kind"
    if kind == "ticket" then handleTicket c i else handleQuery c i

end Driver.C34
