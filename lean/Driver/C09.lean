-- FAMILY: C09
/-
  Driver.C09.handler — a distributed answer equals the single-node answer.

  case : sqlgen meta case (see Driver/SqlCore.lean) + {"layout":{"files","rg"}}, "cfgs" = ["local", "d<N>s<K>" | "d<N>x", …]
  impl : {"runs":{cfg: outcome}, "dist":{cfg:{"shape","tables":[names],"active":{table:[shards]},"n","self"|null,…}},
          "neutral_noself":{cfg: outcome}?, "neutral_fullgather":{cfg: outcome}?}

  O (the property, on the IMPLEMENTATION's answers only): no run panics; the single-node run (`local`) succeeds iff every
    forced-distributed run succeeds; every distributed answer is the same answer as the single-node one up to the freedom
    `Spec.sameAnswer` leaves (row order outside ORDER BY, ties under LIMIT).
  K (model ∋ impl): whenever the implementation SCATTERS (Concat / TwoPhase / TopN over table T) the model of the capability
    check admits exactly that shape over T (`IQE.Engine.DistPlan.scatterShape T plan = some shape`) — the shapes for which
    the decomposition theorems of IQE.Props.C09 apply; a gather is always admissible.
  STATUS 2026-09-22: C09-F1, F2, F3, F4, F5, F7 are FIXED in /repo (5eedc1f, 0ffff93, a981e18, 1c600c2+6d3344d, 86e0558, faff63a):
    their ids are no longer open in known_findings.json, so ./check attributes nothing to them and a recurrence is a VIOLATION;
    the signatures / switches below stay as documentation of the witnesses in corpus/C09 and for the evidence tags.
  Attribution (a failing case is attributed only if EVERY failing run is explained; F2 / F3 are mirrored exactly by deviation
    switches of `Dev` — tags dev:F*:hit / miss / spurious measure the mirror —, the others by signature + neutraliser; the model
    with all switches off predicts no failure, i.e. satisfies O by construction):
    C09-F1 (signature `localEmptyNoSchema` + neutraliser) Concat / TopN, no ACTIVE shard is remote, and the statement's select
                                  block has no row (or TopN keeps 0 rows): merge() has no batch to take a schema from ("no shard
                                  returned a schema") when the initiator's own fragment ships NO batch — whether an empty result
                                  comes as no batch or as one empty batch depends on the operators, so the signature is
                                  necessary, not sufficient (tags sig:F1:hit / nofail); neutraliser where the initiator holds a
                                  shard: the same cluster with the initiator holding none answers like the single-node run.
    C09-F2 `havingFreshAggregate` TwoPhase with an aggregate inside IN (…) / BETWEEN of HAVING: the rewriter gives every
                                  occurrence of an aggregate a fresh alias, so the merge query's HAVING aggregate is not in its
                                  SELECT list, which the local engine cannot evaluate inside IN / BETWEEN.
    C09-F3 `closureReadsStrings`  TwoPhase whose HAVING / SELECT list carries a string literal: `verify_alias_closure` reads
                                  the words inside '…' as identifiers and raises Internal (no gather fallback).
    C09-F4 (signature + neutraliser) the gather path under-gathers (C45-F1/F2): the same statement over a FULL gather of
                                  every table (harness neutraliser `neutral_fullgather`) gives the single-node answer.
    C09-F5 (signature + neutraliser) TwoPhase with >= 2 GROUP BY keys: a WORKER's partial GROUP BY merges groups — its shard
                                  context reports the shard's row count with the whole table's `ndv_est`, so GroupKeyReduction's
                                  gate `ndv_est >= row_count` (C03-F1) takes a non-unique key for unique and drops the other
                                  keys; the same shards answered with that rule left out and merged by the unchanged merge
                                  statement (`neutral_twophase_nogkr`) give the single-node answer.
    C09-F7 (signature + neutraliser) TopN whose ORDER BY names an INPUT column by its qualified name (`ORDER BY t.a`) while another
                                  output column carries that bare name as its alias (`t.b AS a`): `plan_topn` maps the key to
                                  the output column `a`, the merge sorts (and cuts) by the wrong column; the same statement with
                                  the alias renamed (`neutral_unshadow`) answers like the single-node run.
    C09-F6 (signature + neutraliser) the statement's single-node outcome depends on the storage layout: single-node over
                                  IN-MEMORY tables (`neutral_mem1`) fails / answers exactly like the distributed run, whose
                                  gather and merge stages run over in-memory tables (a C04-class defect, not a split defect).
-/
import Driver.SqlCore
import IQE.Engine.DistPlan
open Lean IQE IQE.Spec Driver.SqlJson Driver.SQL IQE.Engine.DistPlan

namespace Driver.C09

structure Dev where
  localEmptyNoSchema : Bool := false
  havingFreshAggregate : Bool := false
  closureReadsStrings : Bool := false
deriving Repr

structure DistInfo where
  shape : String          -- Concat | TwoPhase | TopN | Gather | "" (no plan)
  tables : List String
  n : Nat
  self : Option Nat
  active : List (String × List Nat)
  /-- number of shards that returned at least one row (from the run's own report; 0 when the run failed) -/
  nonEmpty : Nat := 0

def distInfoOfJson (j : Json) : DistInfo :=
  let shape := (getStr j "shape").toOption.getD ""
  let tables := match j.getObjValAs? (Array String) "tables" with | .ok a => a.toList | .error _ => []
  let n := (getNat j "n").toOption.getD 0
  let self := (getNat j "self").toOption
  let active := match j.getObjVal? "active" with
    | .ok (.obj kv) => kv.toList.map fun (k, v) => (k, (asNatList v).toOption.getD [])
    | _ => []
  let nonEmpty := match j.getObjValAs? (Array Json) "nodes" with
    | .ok a => (a.toList.filter fun nd => match nd.getArr? with
        | .ok f => (match f[3]? with | some r => (r.getNat?.toOption.getD 0) > 0 | none => false)
        | .error _ => false).length
    | .error _ => 0
  { shape, tables, n, self, active, nonEmpty }

def tableIndex (c : Case) (name : String) : Option Nat :=
  match c.raw.getObjValAs? (Array Json) "cat" with
  | .ok a => (a.toList.map fun m => (getStr m "name").toOption.getD "").idxOf? name
  | .error _ => none

def shapeOfName : String → Option Shape
  | "Concat" => some .concat | "TwoPhase" => some .twoPhase | "TopN" => some .topN | _ => none

/-! ### structure of the statement -/

/-- (skip, fetch) of a trailing LIMIT, the sort keys, the select block -/
def peel : Query → (Option (Nat × Option Nat)) × List SortKey × Query
  | .limit s f (.sort ks b) => (some (s, f), ks, b)
  | .limit s f b => (some (s, f), [], b)
  | .sort ks b => (none, ks, b)
  | b => (none, [], b)

/-- HAVING predicate, projection, number of GROUP BY keys of an aggregated select block -/
def aggParts : Query → Option (Option Expr × List Expr × Nat)
  | .project _ es (.filter _ p (.agg keys _ _)) => some (some p, es, keys.length)
  | .project _ es (.agg keys _ _) => some (none, es, keys.length)
  | _ => none

/-- the aggregate node of an aggregated select block -/
def aggNode : Query → Option Query
  | .project _ _ (.filter _ _ (.agg keys aggs core)) => some (.agg keys aggs core)
  | .project _ _ (.agg keys aggs core) => some (.agg keys aggs core)
  | _ => none

mutual
/-- some node of the expression satisfies `f` (not descending into subqueries) -/
def anyE (f : Expr → Bool) : Expr → Bool
  | .lit v => f (.lit v)
  | .col i => f (.col i)
  | .outer d i => f (.outer d i)
  | .un op e => f (.un op e) || anyE f e
  | .bin op a b => f (.bin op a b) || anyE f a || anyE f b
  | .inList e items neg => f (.inList e items neg) || anyE f e || anyEL f items
  | .between e lo hi neg => f (.between e lo hi neg) || anyE f e || anyE f lo || anyE f hi
  | .case_ arms => f (.case_ arms) || anyEL f arms
  | .coalesce es => f (.coalesce es) || anyEL f es
  | .nullif a b => f (.nullif a b) || anyE f a || anyE f b
  | .cast e ty => f (.cast e ty) || anyE f e
  | .fn n args => f (.fn n args) || anyEL f args
  | .exists_ s neg => f (.exists_ s neg)
  | .inSub e s neg => f (.inSub e s neg) || anyE f e
  | .scalarSub s => f (.scalarSub s)
def anyEL (f : Expr → Bool) : List Expr → Bool
  | [] => false
  | e :: es => anyE f e || anyEL f es
end

def isAggCol (nkeys : Nat) : Expr → Bool
  | .col i => nkeys ≤ i
  | _ => false

/-- an aggregate of the statement sits inside an IN list or a BETWEEN -/
def aggUnderInBetween (nkeys : Nat) : Expr → Bool :=
  anyE fun e => match e with
    | .inList x items _ => anyE (isAggCol nkeys) x || anyEL (isAggCol nkeys) items
    | .between x lo hi _ => anyE (isAggCol nkeys) x || anyE (isAggCol nkeys) lo || anyE (isAggCol nkeys) hi
    | _ => false

def sqlKeywords : List String :=
  ["ORDER", "DESC", "ASC", "LIMIT", "OFFSET", "NULLS", "FIRST", "LAST", "SELECT", "FROM", "WHERE", "GROUP", "BY", "HAVING", "AS",
   "CASE", "WHEN", "THEN", "ELSE", "END", "AND", "OR", "NOT", "NULL", "IS", "IN", "BETWEEN", "CAST", "DOUBLE", "BIGINT", "INT",
   "INTEGER", "VARCHAR", "TEXT", "DECIMAL", "FLOAT", "REAL", "BOOLEAN", "DATE", "TIMESTAMP", "TRUE", "FALSE", "LIKE", "PRECISION"]

/-- `c.is_alphanumeric() || c == '_'` (non-ASCII letters count as alphanumeric) -/
def wordChar (c : Char) : Bool := c.isAlphanum || c == '_' || c.toNat > 127

def wordsOf (s : String) : List String :=
  (s.toList.splitBy (fun a b => wordChar a == wordChar b)).filterMap fun g =>
    match g with | c :: _ => if wordChar c then some (String.mk g) else none | [] => none

/-- `check_identifier` rejects the word -/
def offendingWord (w : String) : Bool :=
  !(match w.toList with | c :: _ => c.isDigit | [] => true) && !w.startsWith "qe_g" && !w.startsWith "qe_a" && w != "qe_dist_partial"
    && !sqlKeywords.contains w.toUpper

def offendingLit : Expr → Bool
  | .lit (.str s) => (wordsOf s).any offendingWord
  | _ => false

/-! ### the model's prediction of a failing merge step, per deviation switch -/

/-- rows the select block produces over the whole table (what the only active shard computes) -/
def bodyRows (c : Case) : Option Table :=
  let (_, _, body) := peel c.plan
  match Spec.run fo fns c.tables body [] [] with | .ok t => some t | .error _ => none

def predictsError (dev : Dev) (c : Case) (d : DistInfo) : Bool :=
  let (lim, _, body) := peel c.plan
  let noRemoteActive := d.active.all fun (_, shards) => shards.all fun s => some s == d.self
  (dev.localEmptyNoSchema && (d.shape == "Concat" || d.shape == "TopN") && noRemoteActive &&
      ((match bodyRows c with | some t => t.isEmpty | none => false) ||
       (d.shape == "TopN" && (match lim with | some (skip, some fetch) => skip + fetch == 0 | _ => false)))) ||
  (match aggParts body with
   | some (having, es, nkeys) =>
     -- HAVING is evaluated per merged group: no group (no partial row at all), no evaluation, no error
     (dev.havingFreshAggregate && (match having with | some p => aggUnderInBetween nkeys p | none => false) &&
        (match (aggNode body).map (fun a => Spec.run fo fns c.tables a [] []) with | some (.ok t) => !t.isEmpty | _ => false)) ||
     (dev.closureReadsStrings && ((match having with | some p => anyE offendingLit p | none => false) || anyEL offendingLit es))
   | none => false)

def msgOf (j : Json) : String := (getStr j "msg").toOption.getD ""

/-- which listed finding explains a distributed run that FAILED with an error where the single-node run succeeded -/
def explainError (c : Case) (d : DistInfo) (msg : String) (noselfOk : Bool) : Option String :=
  -- the neutraliser (same cluster, initiator without a shard) exists only when the initiator holds an active shard
  let noNeutraliser := d.self.isNone || d.active.all (fun (_, sh) => sh.isEmpty)
  if (msg.splitOn "no shard returned a schema").length > 1 && predictsError { localEmptyNoSchema := true } c d && (noselfOk || noNeutraliser) then some "C09-F1"
  else if (msg.splitOn "Expression not supported in filter: Aggregate").length > 1 && predictsError { havingFreshAggregate := true } c d then some "C09-F2"
  else if (msg.splitOn "distributed rewrite left").length > 1 && predictsError { closureReadsStrings := true } c d then some "C09-F3"
  else none

mutual
/-- the statement carries a subquery expression or a CTE (the constructs `collect_scans` under-gathers for, C45-F1/F2) -/
def hasSubqueryOrCte : Query → Bool
  | .scan _ => false
  | .cteRef _ => true
  | .values _ => false
  | .filter subs _ q => !subs.isEmpty || hasSubqueryOrCte q
  | .project subs _ q => !subs.isEmpty || hasSubqueryOrCte q
  | .join _ _ _ subs _ l r => !subs.isEmpty || hasSubqueryOrCte l || hasSubqueryOrCte r
  | .agg _ _ q => hasSubqueryOrCte q
  | .groupingSets _ _ _ q => hasSubqueryOrCte q
  | .distinct q => hasSubqueryOrCte q
  | .sort _ q => hasSubqueryOrCte q
  | .limit _ _ q => hasSubqueryOrCte q
  | .setop _ _ l r => hasSubqueryOrCte l || hasSubqueryOrCte r
  | .window _ q => hasSubqueryOrCte q
  | .withCte _ _ => true
end

/-- number of GROUP BY keys of the statement's aggregate (0 when there is none) -/
def groupKeys (q : Query) : Nat :=
  let (_, _, body) := peel q
  match aggParts body with | some (_, _, n) => n | none => 0

def sameAs (c : Case) (a b : Table) : Bool :=
  match Spec.sameAnswer fo fns c.plan a b with | .ok true => true | _ => false

/-- outcome of neutraliser `key` for run `k` (per-run neutralisers) -/
def neutralOf (i : Json) (key k : String) : Option Outcome :=
  match (getObj i key).toOption.bind (fun n => (getObj n k).toOption) with
  | some nj => (outcomeOfJson nj).toOption
  | none => none

def handler : Driver.Handler := fun cj i => do
  let c := { (← caseOfJson cj) with impl := i }
  let runsJ ← getObj i "runs"
  let runs ← match runsJ with
    | .obj kv => kv.toList.mapM (fun (k, v) => do pure (k, ← outcomeOfJson v, msgOf v))
    | _ => throw "runs is not an object"
  let distJ := (getObj i "dist").toOption.getD (Json.mkObj [])
  let infoOf (k : String) : DistInfo := distInfoOfJson ((getObj distJ k).toOption.getD (Json.mkObj []))
  let spec := specRun c
  match spec with
  | .error (.bad m) => throw s!"malformed plan (generator defect): {m} — {c.sql.take 200}"
  | .error (.type m) => throw s!"ill-typed plan (generator defect): {m} — {c.sql.take 200}"
  | _ => pure ()
  let skipSpec := c.engineDefined || (match spec with | .error _ => true | .ok _ => false)
  let localO : Option Outcome := (runs.find? fun (k, _, _) => k == "local").map (·.2.1)
  let dists := runs.filter fun (k, _, _) => k != "local"
  -- K: every scatter the implementation chose is admitted by the model
  let kBad : List String := dists.filterMap fun (k, _, _) =>
    let d := infoOf k
    match shapeOfName d.shape with
    | none => none                                   -- Gather (or no plan): always admissible
    | some sh =>
      match d.tables with
      | [t] =>
        (match tableIndex c t with
         | some T => if scatterShape T c.plan == some sh then none else some s!"{k}: {d.shape} over {t} is not admitted by the model"
         | none => some s!"{k}: unknown table {t}")
      | _ => some s!"{k}: a scatter plan names {d.tables.length} tables"
  let nTables := match c.raw.getObjValAs? (Array Json) "cat" with | .ok a => a.size | .error _ => 0
  let model := Json.mkObj [("admitted", Json.arr ((List.range nTables).map fun T =>
      Json.str (match scatterShape T c.plan with | some s => s.name | none => "-")).toArray)]
  -- O
  -- the single-node outcome over IN-MEMORY tables (neutraliser of C09-F6), with its message
  let mem1J := (getObj i "neutral_mem1").toOption
  let mem1O : Option Outcome := mem1J.bind fun j => (outcomeOfJson j).toOption
  let mem1Msg : String := match mem1J with | some j => msgOf j | none => ""
  let judgeDist (k : String) (o : Outcome) (msg : String) : Option (String × Option String) :=   -- (why, attribution)
    let d := infoOf k
    let okLike (x : Option Outcome) (t0 : Table) : Bool := match x with | some (.ok t) => sameAs c t0 t | _ => false
    match o, localO with
    | .panic m, _ => some (s!"engine panicked under {k}: {m.take 80}", none)
    | .err e, some (.ok t0) =>
      let noselfOk := okLike (neutralOf i "neutral_noself" k) t0
      let fullOk := okLike (neutralOf i "neutral_fullgather" k) t0
      let memSame := match mem1O with | some (.err _) => mem1Msg.take 60 == msg.take 60 | _ => false
      let attr := match explainError c d msg noselfOk with
        | some a => some a
        | none =>
          if d.shape == "Gather" && fullOk && hasSubqueryOrCte c.plan then some "C09-F4"
          else if memSame then some "C09-F6" else none
      some (s!"single-node run succeeds but {k} ({d.shape}) fails: {e}: {msg.take 100}", attr)
    | .ok _, some (.err e) => some (s!"single-node run fails ({e}) but {k} succeeds", none)
    | .ok t, some (.ok t0) =>
      if c.engineDefined then none else
      if sameAs c t0 t then none
      else
        let fullOk := okLike (neutralOf i "neutral_fullgather" k) t0
        let mergeOk := okLike (neutralOf i "neutral_twophase_nogkr" k) t0
        let memSame := match mem1O with | some (.ok tm) => sameAs c tm t | _ => false
        let attr :=
          if d.shape == "Gather" && fullOk && hasSubqueryOrCte c.plan then some "C09-F4"
          else if d.shape == "TwoPhase" && mergeOk && groupKeys c.plan ≥ 2 then some "C09-F5"
          else if d.shape == "TopN" && c.tags.contains "shadow_order" && okLike (neutralOf i "neutral_unshadow" k) t0 then some "C09-F7"
          else if memSame then some "C09-F6" else none
        some (s!"{k} ({d.shape}) and the single-node run disagree: {diffSummary t t0}", attr)
    | _, _ => none
  let localPanic : Option String := match localO with | some (.panic m) => some s!"engine panicked under local: {m.take 80}" | _ => none
  let fails := dists.filterMap fun (k, o, m) => judgeDist k o m
  let ofail : Option String := match localPanic with | some w => some w | none => fails.head?.map (·.1)
  let attr : Option String :=
    if localPanic.isSome || fails.isEmpty then none
    else if fails.all (fun f => f.2.isSome) then fails.head!.2 else none
  -- tags
  let labels := runs.map fun (k, o, _) => s!"cfg:{if k == "local" then "local" else "dist"}:{(judge c spec o).1}"
  let shapeTags := dists.flatMap fun (k, _, _) =>
    let d := infoOf k
    let act := d.active.map (·.2.length)
    [s!"shape:{if d.shape == "" then "none" else d.shape}", s!"n:{d.n}", (if d.self.isSome then "self" else "noself")] ++
    (if act.any (· < d.n) then ["idle_node"] else []) ++ (if act.any (· ≥ 2) then ["multi_shard"] else []) ++
    (if act.any (· == 0) then ["no_active_shard"] else []) ++
    (if d.nonEmpty ≥ 2 then ["nonempty_shards:2+"] ++ (c.tags.filter (·.startsWith "tail:")).map (· ++ ":multi") else [])
  -- how exactly do the deviation switches mirror the code?  (hit = predicted and observed, miss = observed only, spurious = predicted only)
  let devTags := dists.flatMap fun (k, o, m) =>
    let d := infoOf k
    let mk (name : String) (dev : Dev) (needle : String) : List String :=
      let pred := predictsError dev c d
      let obs := match o with | .err _ => (m.splitOn needle).length > 1 | _ => false
      if pred && obs then [s!"dev:{name}:hit"] else if obs then [s!"dev:{name}:miss"] else if pred then [s!"dev:{name}:spurious"] else []
    (mk "F1" { localEmptyNoSchema := true } "no shard returned a schema").map (fun t => (t.replace "dev:" "sig:").replace ":spurious" ":nofail") ++
    mk "F2" { havingFreshAggregate := true } "Expression not supported in filter: Aggregate" ++
    mk "F3" { closureReadsStrings := true } "distributed rewrite left"
  let allRight := labels.all (·.endsWith ":right")
  let tags := (c.tags ++ [topShape c.plan] ++ labels ++ shapeTags ++ devTags ++
    (if skipSpec then ["skip:spec"] else if allRight then ["spec:agree"] else ["spec:disagree"])).eraseDups
  let oks := runs.filterMap fun (_, o, _) => match o with | .ok t => some t | _ => none
  pure { model := model, k := kBad.isEmpty, oracle := ofail, nt := oks.length ≥ 2 && oks.any (!·.isEmpty), tags := tags,
         attr := if ofail.isSome then attr else (if kBad.isEmpty then none else none) }

end Driver.C09
