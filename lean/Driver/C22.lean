-- FAMILY: C22
/-
  Driver.C22.handler — join statements and operator-level hash-join cases of harness/src/fam_c22.rs
  (sqlgen case format, mode spec).
    model  = IQE.Engine.HashJoin.hashJoin with ALL switches off, configured from the plan: equi keys = the equality
             conjuncts of ON (of the EXISTS correlation) between a left and a right column, residual = the remaining
             conjuncts evaluated with `Spec.eval` (TRUE or not), inputs cut into the case's partitions × batches
             (operator-level cases) — then the statement's projection;
    K      = implementation rows = model rows as bags (an engine error or panic never agrees);
    O      = `Spec.acceptable plan tables impl_rows` (Driver.SQL machinery; engine error = failure: `strict_err`);
    attr   = id of the listed finding that fully explains a failing case, decided only when the all-off model satisfies the
             oracle on that case:
             * C22-F1 / F2 / F5: the model with exactly that finding's deviation switch(es) reproduces the implementation's
               rows as a bag; each switch is tried only where its code path is taken (`switchSets`: Semi/Anti with a
               residual; the 1000-probe-row gate; single BIGINT key and compiled residual; build side).  Over Parquet the
               build-row order and the raw value of NULL slots are not part of a case: F2 / F5 are then decided by the
               signature `sigServed` under the same gating;
             * C22-F3 (INTEGER/BIGINT key pair): signature over the case + the error text, and the neutralised twin (the
               INTEGER column declared BIGINT) is answered correctly;
             * C22-F4 (batch-less build input of a probe-preserving join): signature mirroring the failing arm of
               `create_joined_batch` + the error text.
             * C22-F6 (dictionary-encoded VARCHAR probe key): the right input of the join is itself a join, a key column holds
               strings, and the model with `dictProbeKeyNoMatch` reproduces the rows.
             * C22-F7 (COUNT over a join counts the NULLs of a build-side VARCHAR column): COUNT-over-join statement whose rows
               equal the model's over the tables with the VARCHAR NULLs of ONE side replaced by pairwise distinct strings.
             * C22-F8 (Semi/Anti over a join output with a dictionary-encoded VARCHAR column): signature = Semi/Anti, an input
               of the join is a join, and the error text of RecordBatch::try_new.
             C22-F1 … F6 are repaired in /repo (status fixed in known_findings.json): a case matching one of them is no longer
             attributed by ./check — it is reported as a VIOLATION carrying that label (a regression).
             Anything else is left unattributed (a new VIOLATION).
-/
import Driver.SqlCore
import IQE.Engine.HashJoin
open Lean IQE IQE.Spec IQE.Engine.HashJoin

namespace Driver.C22
open Driver.SQL

def cx0 : EvalCtx := { fo := fo, fn := fns, runSub := fun _ _ => .error (.unsupported "subquery") }

partial def conjuncts : Expr → List Expr
  | .bin .and a b => conjuncts a ++ conjuncts b
  | e => [e]

/-- what the model needs to know about the statement -/
structure JoinDesc where
  jt : JoinType
  lw : Nat
  rw : Nat
  L : Table
  R : Table
  lkeys : List Nat
  rkeys : List Nat
  /-- the non-key conjuncts; `exists_`: they are evaluated inside the subquery (row = right row, outer row = left row) -/
  rest : List Expr
  viaExists : Bool
  /-- the right input of the join is itself a join (its output reaches the probe dictionary-encoded) -/
  rNested : Bool := false
  lNested : Bool := false
  /-- output expressions over left ++ right (Semi/Anti: over the left row; COUNT form: over the aggregate's row) -/
  es : List Expr
  /-- `SELECT COUNT(*), COUNT(col)… FROM <join>`: the global aggregate applied to the join's rows before `es` -/
  aggs : Option (List AggCall) := none

def widthOf (t : Table) (dflt : Nat) : Nat := match t with | r :: _ => r.length | [] => dflt

/-- ON of a JOIN node: `.col i = .col j` with one index on each side is a key pair -/
def splitOn (lw : Nat) (on : Expr) : List Nat × List Nat × List Expr :=
  (conjuncts on).foldl (fun (acc : List Nat × List Nat × List Expr) e =>
    match e with
    | .bin .eq (.col i) (.col j) =>
      if i < lw && lw ≤ j then (acc.1 ++ [i], acc.2.1 ++ [j - lw], acc.2.2)
      else if j < lw && lw ≤ i then (acc.1 ++ [j], acc.2.1 ++ [i - lw], acc.2.2)
      else (acc.1, acc.2.1, acc.2.2 ++ [e])
    | _ => (acc.1, acc.2.1, acc.2.2 ++ [e])) ([], [], [])

/-- correlation predicate of an EXISTS subquery over the right table: `.col j = .outer 1 i` is a key pair -/
def splitCorr (p : Expr) : List Nat × List Nat × List Expr :=
  (conjuncts p).foldl (fun (acc : List Nat × List Nat × List Expr) e =>
    match e with
    | .bin .eq (.outer 1 i) (.col j) => (acc.1 ++ [i], acc.2.1 ++ [j], acc.2.2)
    | .bin .eq (.col j) (.outer 1 i) => (acc.1 ++ [i], acc.2.1 ++ [j], acc.2.2)
    | _ => (acc.1, acc.2.1, acc.2.2 ++ [e])) ([], [], [])

def tableAt (c : Case) (i : Nat) : Table := (c.tables[i]?).getD []

def descOf (c : Case) (lwCat rwCat : Nat) : Except String JoinDesc :=
  match c.plan with
  | .project _ es (.agg [] aggs (.join jt lw rw _ on (.scan a) (.scan b))) =>
    let (lk, rk, rest) := if jt == .cross then ([], [], []) else splitOn lw on
    pure { jt := jt, lw := lw, rw := rw, L := tableAt c a, R := tableAt c b, lkeys := lk, rkeys := rk, rest := rest,
           viaExists := false, es := es, aggs := some aggs }
  | .project _ es (.join jt lw rw _ on l r) =>
    -- the inputs of the (top) join: base tables, or the reference answer of a nested join
    let inputOf (q : Query) : Except String Table := match q with
      | .scan a => pure (tableAt c a)
      | q => match Spec.run fo fns c.tables q [] [] with
        | .ok t => pure (normTable t)
        | .error _ => throw "join input outside the C22 model"
    do
    let L ← inputOf l
    let R ← inputOf r
    let (lk, rk, rest) := if jt == .cross then ([], [], []) else splitOn lw on
    let rNested := match r with | .join .. => true | _ => false
    let lNested := match l with | .join .. => true | _ => false
    pure { jt := jt, lw := lw, rw := rw, L := L, R := R, lkeys := lk, rkeys := rk, rest := rest,
           viaExists := false, rNested := rNested, lNested := lNested, es := es }
  | .project _ es (.filter [sub] (.exists_ 0 neg) (.scan a)) =>
    match sub with
    | .project _ _ (.filter _ p (.scan b)) =>
      let (lk, rk, rest) := splitCorr p
      pure { jt := if neg then .anti else .semi, lw := lwCat, rw := rwCat, L := tableAt c a, R := tableAt c b,
             lkeys := lk, rkeys := rk, rest := rest, viaExists := true, es := es }
    | _ => throw "EXISTS subquery shape outside the C22 model"
  | _ => throw "statement shape outside the C22 model"

def residualOf (d : JoinDesc) : Row → Row → Bool := fun l r =>
  d.rest.all fun e =>
    let v := if d.viaExists then eval cx0 [r, l] e else eval cx0 [l ++ r] e
    match v with
    | .ok (.bool true) => true
    | _ => false

/-- what `CompiledFilter::evaluate` computes: the residual over the rows with every NULL cell read as its raw slot value 0 -/
def residualRawOf (d : JoinDesc) : Row → Row → Bool := fun l r =>
  let z (row : Row) : Row := row.map fun v => if v.isNull then .int 0 else v
  residualOf d (z l) (z r)

/-- cut the rows of a table into partitions × batches of the given lengths -/
def cutParts (rows : Table) (parts : List (List Nat)) : List (List Table) :=
  let step (acc : Table × List (List Table)) (p : List Nat) : Table × List (List Table) :=
    let r := p.foldl (fun (a : Table × List Table) n => (a.1.drop n, a.2 ++ [a.1.take n])) (acc.1, [])
    (r.1, acc.2 ++ [r.2])
  (parts.foldl step (rows, [])).2

def partsOfJson (j : Json) : Option (List (List Nat)) :=
  match j.getArr? with
  | .ok a => a.toList.mapM fun p => match p.getArr? with
      | .ok b => b.toList.mapM fun x => x.getNat?.toOption
      | .error _ => none
  | .error _ => none

structure Inputs where
  lp : List (List Table)
  rp : List (List Table)

def cfgOf (d : JoinDesc) (buildLeft : Bool) : Cfg :=
  { lkeys := d.lkeys, rkeys := d.rkeys, residual := residualOf d, residualRaw := residualRawOf d, lw := d.lw, rw := d.rw,
    buildLeft := buildLeft }

def modelRun (dev : Dev) (d : JoinDesc) (inp : Inputs) (buildLeft : Bool) : Except Err Table := do
  let rows := hashJoin dev d.jt (cfgOf d buildLeft) inp.lp inp.rp
  let rows ← match d.aggs with
    | some aggs => Spec.aggregate cx0 [] [] aggs rows
    | none => pure rows
  rows.mapM fun r => evalList cx0 [r] d.es

/-- evaluating the residual must not fail (overflow …) on any candidate pair; otherwise the case is outside the model -/
def residualTotal (d : JoinDesc) : Bool :=
  d.rest.isEmpty || d.L.all fun l => d.R.all fun r =>
    if keysEq (cfgOf d true) l r then
      d.rest.all fun e => match (if d.viaExists then eval cx0 [r, l] e else eval cx0 [l ++ r] e) with | .ok _ => true | .error _ => false
    else true

def acceptableOn (c : Case) (out : Table) : Bool :=
  match Spec.acceptable fo fns c.tables c.plan out with | .ok true => true | _ => false

def isSA (jt : JoinType) : Bool := jt == .semi || jt == .anti

/-- does the residual have the one shape `CompiledFilter::try_compile` accepts: a single comparison between a left and a
    right column -/
def residCompiles (d : JoinDesc) : Bool :=
  let cmp (op : BinOp) : Bool := op == .eq || op == .ne || op == .lt || op == .le || op == .gt || op == .ge
  match d.rest with
  | [.bin op (.col i) (.col j)] => cmp op && !d.viaExists && ((i < d.lw && d.lw ≤ j) || (j < d.lw && d.lw ≤ i))
  | [.bin op (.col _) (.outer 1 _)] => cmp op && d.viaExists
  | [.bin op (.outer 1 _) (.col _)] => cmp op && d.viaExists
  | _ => false

/-- the switch sets that may explain a failing case, with the build side they need: (finding, dev, buildLeft).
    Only for Semi/Anti WITH a residual (the filtered Semi/Anti probe paths of hash_join.rs):
    * C22-F1, the EMPTY generic hash table.  ≤ 1000 probe rows: always (`smallProbeEmptyTable`, generic loop of
      `probe_hash_table`).  > 1000 probe rows (`semiAntiEmptyTable`, `probe_semi_anti_parallel`): unless the key is a single
      BIGINT column on both sides and the residual compiles — only then are candidates served from the vectorized table;
    * C22-F2 `semiStopAtFirstPass` (+ `chainNewestFirst`, the vectorized table's chain order): > 1000 probe rows ∧ single
      BIGINT key ∧ compiled residual ∧ build = left (the probe side is the right input);
    * C22-F5 `compiledFilterRawNulls`: > 1000 probe rows ∧ single BIGINT key ∧ compiled residual, either build side (a
      case that needs F2's switches as well is reported under C22-F2). -/
def switchSets (d : JoinDesc) (buildLeftKnown : Option Bool) (singleI64 : Bool) : List (String × Dev × Bool) :=
  let hasResid := !d.rest.isEmpty
  if !(hasResid && isSA d.jt) then [] else
  let sides : List Bool := match buildLeftKnown with | some b => [b] | none => [true, false]
  let served := singleI64 && residCompiles d
  sides.flatMap fun bl =>
    let probeRows := if bl then d.R.length else d.L.length
    (if probeRows ≤ 1000 then [("C22-F1", ({ smallProbeEmptyTable := true } : Dev), bl)] else []) ++
    (if probeRows > 1000 && !served then [("C22-F1", ({ semiAntiEmptyTable := true } : Dev), bl)] else []) ++
    (if probeRows > 1000 && served && bl then
      [("C22-F2", ({ semiStopAtFirstPass := true, chainNewestFirst := true } : Dev), true),
       ("C22-F2", ({ semiStopAtFirstPass := true, chainNewestFirst := true, compiledFilterRawNulls := true } : Dev), true)] else []) ++
    (if probeRows > 1000 && served then [("C22-F5", ({ compiledFilterRawNulls := true } : Dev), bl)] else [])

/-- status of the residual on a key-equal pair: `some true` TRUE, `some false` not TRUE, `none` = an operand cell is NULL
    (what `CompiledFilter::evaluate` answers then depends on the raw slot value, which is not part of the case) -/
def residStatus (d : JoinDesc) (l r : Row) : Option Bool :=
  if residualOf d l r then some true
  else
    let nullInvolved := d.rest.any fun e =>
      match (if d.viaExists then eval cx0 [r, l] e else eval cx0 [l ++ r] e) with
      | .ok .null => true
      | _ => false
    if nullInvolved then none else some false

/-- Signature of C22-F2 / C22-F5 where the exact mirror is impossible (Parquet: build-row order and the raw values of
    NULL slots are not part of the case).  `out` must be the projections of a set M̂ of left rows (Semi: M̂ = marked rows,
    Anti: its complement) such that, with T / F / N the residual status of key-equal pairs:
      build = right (probe rows are the output):  ∃ r. T  ⇒  l ∈ M;   l ∈ M  ⇒  ∃ r. T or N;
      build = left  (stop at the first passing candidate):  l ∈ M ⇒ ∃ r. T or N;  every right row with a T candidate has a
        T-or-N candidate in M. -/
def sigServed (d : JoinDesc) (out : Table) (bl : Bool) : Bool :=
  let cfg := cfgOf d true
  let proj (l : Row) : Option Row := match evalList cx0 [l] d.es with | .ok r => some (normTable [r]).head! | .error _ => none
  let tagged : List (Row × Bool) := d.L.map fun l => (l, match proj l with | some pl => out.contains pl | none => false)
  let nIn := (tagged.filter (·.2)).length
  let inM (x : Row × Bool) : Bool := if d.jt == .semi then x.2 else !x.2
  let M := (tagged.filter inM).map (·.1)
  let st (l r : Row) : Option Bool := if keysEq cfg l r then residStatus d l r else some false
  let wellFormed := nIn == out.length
  let sound := M.all fun l => d.R.any fun r => st l r != some false
  let complete :=
    if bl then d.R.all fun r => !(d.L.any fun l => st l r == some true) || M.any fun l => st l r != some false
    else tagged.all fun x => !(d.R.any fun r => st x.1 r == some true) || inM x
  wellFormed && sound && complete

def colTyAt (cat : Json) (t i : Nat) : String :=
  match cat.getArrVal? t with
  | .ok tj => (match tj.getObjVal? "cols" with
      | .ok cols => (match cols.getArrVal? i with | .ok cj => (cj.getObjValAs? String "ty").toOption.getD "?" | .error _ => "?")
      | .error _ => "?")
  | .error _ => "?"

def mixedPair (d : JoinDesc) (cat : Json) : Bool :=
  (d.lkeys.zip d.rkeys).any fun (i, j) =>
    let a := colTyAt cat 0 i; let b := colTyAt cat 1 j
    (a == "i32" && b == "i64") || (a == "i64" && b == "i32")

def hasSub (msg pat : String) : Bool := (msg.splitOn pat).length > 1

/-- C22-F3 signature: a key pair joins an INTEGER (i32) with a BIGINT (i64) column and the engine either panicked with an
    index out of bounds (direct-address hash table of the BIGINT build key walked with the hashed bucket of the INTEGER
    probe key) or failed with "runtime filter column is not Int64" (the BIGINT build keys published to the INTEGER
    probe-side scan) -/
def sigMixedWidth (d : JoinDesc) (cat : Json) (o : Outcome) (msg : String) : Bool :=
  mixedPair d cat &&
  match o with
  | .panic m => hasSub m "index out of bounds"
  | .err _ => hasSub msg "runtime filter column is not Int64"
  | _ => false

/-- C22-F4 signature (mirrors `create_joined_batch`'s `build_batches.is_empty()` arm, which gathers NO build column):
    the build input is empty, the probe input is not, the join type NULL-extends unmatched probe rows, and the engine
    failed with the column-count error of `RecordBatch::try_new`. -/
def sigEmptyBuild (d : JoinDesc) (buildLeftKnown : Option Bool) (o : Outcome) (msg : String) : Bool :=
  let sides : List Bool := match buildLeftKnown with
    | some b => [b]
    | none => match d.jt with | .left => [true, false] | .right => [false] | _ => [true]
  let probePreserved (bl : Bool) : Bool := match d.jt with | .left => !bl | .full => true | _ => false
  let applies := sides.any fun bl =>
    let b := if bl then d.L.length else d.R.length
    let p := if bl then d.R.length else d.L.length
    b == 0 && p > 0 && probePreserved bl
  match o with
  | .err _ => applies && hasSub msg "must match number of fields"
  | _ => false

def attrC22 (d : JoinDesc) (inp : Inputs) (buildLeftKnown : Option Bool) (cat : Json) (neutral : Option Outcome) (msg : String)
    (parquet : Bool) : AttrFn :=
  fun c o _spec =>
  let okOff : Bool := match modelRun {} d inp true with
    | .ok t => acceptableOn c (normTable t)
    | .error _ => false
  if !okOff then none else
  let singleI64 := d.lkeys.length == 1 && (d.lkeys.zip d.rkeys).all fun (i, j) => colTyAt cat 0 i == "i64" && colTyAt cat 1 j == "i64"
  -- rows explained by one of the Semi/Anti switches (exact mirror, or over Parquet the signature)
  let bySwitch (out : Table) : Option String :=
    match (switchSets d buildLeftKnown singleI64).find? (fun (_, dev, bl) =>
        match modelRun dev d inp bl with | .ok t => Spec.bagEq out (normTable t) | .error _ => false) with
    | some (f, _, _) => some f
    | none =>
      let sets := switchSets d buildLeftKnown singleI64
      if parquet && isSA d.jt && sets.any (fun x => x.1 == "C22-F2") && sigServed d out true then some "C22-F2"
      else if parquet && isSA d.jt && sets.any (fun x => x.1 == "C22-F5" && !x.2.2) && sigServed d out false then some "C22-F5"
      else none
  -- C22-F6: the probe input is a join output and a key is a VARCHAR column: the dictionary-encoded probe key matches nothing
  let strKey : Bool := (d.lkeys.zip d.rkeys).any fun (i, j) =>
    (d.L.any fun l => match l.getD i .null with | .str _ => true | _ => false) ||
    (d.R.any fun r => match r.getD j .null with | .str _ => true | _ => false)
  let byDict (out : Table) : Option String :=
    if d.rNested && strKey then
      match modelRun { dictProbeKeyNoMatch := true } d inp true with
      | .ok t => if Spec.bagEq out (normTable t) then some "C22-F6" else none
      | .error _ => none
    else none
  -- C22-F7: COUNT(col) over a join counts the NULLs of a VARCHAR column gathered from the build side (the join emits a
  -- dictionary whose VALUES hold the NULLs; `null_count()` of the keys is 0).  Mirror: the same statement with those NULLs
  -- replaced by pairwise distinct strings (distinct from every key, so the join itself is unchanged).
  let strCols (t : Nat) : List Nat := (List.range 8).filter fun i => colTyAt cat t i == "str"
  let denull (t : Nat) (rows : Table) : Table :=
    let cs := strCols t
    (List.range rows.length).zip rows |>.map fun (n, r) =>
      r.mapIdx fun i v => if v.isNull && cs.contains i then .str s!"\u0000{t}:{n}:{i}" else v
  let byCountNull (out : Table) : Option String :=
    if d.aggs.isNone then none else
    let variants : List (Table × Table) := [(denull 0 d.L, d.R), (d.L, denull 1 d.R)]
    if variants.any (fun (l, r) => (l != d.L || r != d.R) &&
        (match modelRun {} { d with L := l, R := r } { lp := [[l]], rp := [[r]] } true with
         | .ok t => Spec.bagEq out (normTable t) | .error _ => false)) then some "C22-F7" else none
  match o with
  | .ok out => ((bySwitch out).orElse fun _ => byDict out).orElse fun _ => byCountNull out
  | _ =>
    if sigMixedWidth d cat o msg then
      -- neutralised twin: answered correctly, or wrong only by one of the listed Semi/Anti findings
      match neutral with
      | some (.ok nout) => if acceptableOn c nout || (bySwitch nout).isSome then some "C22-F3" else none
      | _ => none
    else if sigEmptyBuild d buildLeftKnown o msg then some "C22-F4"
    -- C22-F8: a Semi/Anti join emits the rows of an input that is itself a join output (dictionary-encoded VARCHAR
    -- column) under the declared Utf8 schema: RecordBatch::try_new rejects the column type
    else if isSA d.jt && (d.rNested || d.lNested) && (match o with | .err _ => true | _ => false) &&
        hasSub msg "expected Utf8 but found Dictionary" then some "C22-F8"
    else none

def jtName : JoinType → String
  | .inner => "inner" | .left => "left" | .right => "right" | .full => "full" | .semi => "semi" | .anti => "anti" | .cross => "cross"

def handler : Driver.Handler := fun cj i => do
  let cmeta := (cj.getObjVal? "c22").toOption.getD Json.null
  let kind := (cmeta.getObjValAs? String "kind").toOption.getD "sql"
  let cat := (cj.getObjVal? "cat").toOption.getD Json.null
  let cj := cj.setObjVal! "strict_err" (Json.bool true)
  let c ← caseOfJson cj
  let o ← outcomeOfJson i
  let lwCat := widthOf (tableAt c 0) 5
  let rwCat := widthOf (tableAt c 1) 5
  let d ← descOf c lwCat rwCat
  let buildLeftKnown : Option Bool :=
    if kind == "op" then some (!((cmeta.getObjValAs? Bool "build_right").toOption.getD false) && d.jt != .right) else none
  let inp : Inputs :=
    if kind == "op" then
      let lp := ((cmeta.getObjVal? "lparts").toOption.bind partsOfJson).getD [[d.L.length]]
      let rp := ((cmeta.getObjVal? "rparts").toOption.bind partsOfJson).getD [[d.R.length]]
      { lp := cutParts d.L lp, rp := cutParts d.R rp }
    else { lp := [[d.L]], rp := [[d.R]] }
  let neutral : Option Outcome := match i.getObjVal? "neutral" with
    | .ok nj => (outcomeOfJson nj).toOption
    | .error _ => none
  let msg := (i.getObjValAs? String "msg").toOption.getD ""
  let cfgS := (cj.getObjValAs? String "cfg").toOption.getD ""
  let v ← handlerWith (attrC22 d inp buildLeftKnown cat neutral msg (cfgS.startsWith "pq")) cj i
  let total := residualTotal d
  let m := modelRun {} d inp (buildLeftKnown.getD true)
  let k := match m, o with
    | .ok t, .ok out => !total || Spec.bagEq out (normTable t)
    | .error _, _ => true          -- Spec-level error while projecting: K not applicable, O skips the case as well
    | .ok _, _ => !total
  let mtags := [s!"model:{jtName d.jt}", s!"keys:{d.lkeys.length}", if d.rest.isEmpty then "residual:no" else "residual:yes"] ++
    (if d.viaExists then ["via:exists"] else []) ++ (if total then [] else ["skip:residual_error"])
  pure { v with model := specJson (m.map normTable), k := k, tags := v.tags ++ mtags,
                attr := if v.oracle.isSome || !k then v.attr else none }

end Driver.C22
