/-
  Driver.C22.handler — join statements and operator-level hash-join cases of harness/src/fam_c22.rs
  (sqlgen case format, mode spec).
    model  = IQE.Engine.HashJoin.hashJoin with ALL switches off, configured from the plan: equi keys = the equality
             conjuncts of ON (of the EXISTS correlation) between a left and a right column, residual = the remaining
             conjuncts evaluated with `Spec.eval` (TRUE or not), inputs cut into the case's partitions × batches
             (operator-level cases) — then the statement's projection;
    K      = implementation rows = model rows as bags (an engine error or panic never agrees);
    O      = `Spec.acceptable plan tables impl_rows` (Driver.SQL machinery; engine error = failure: `strict_err`);
    attr   = id of the listed finding whose deviation switch makes the model reproduce the implementation's rows
             exactly, tried only where the switch can apply (see `switchSets`), while the all-off model satisfies the
             oracle; the INTEGER/BIGINT key panic (C22-F3) is attributed by signature + neutralised twin.
-/
import Driver.SqlCore
import IQE.Engine.HashJoin
open Lean IQE IQE.Spec IQE.Engine.HashJoin

namespace Driver.C22
open Driver.SQL

def cx0 : EvalCtx := { fo := fo, fn := fns, runSub := fun _ _ => .error (.unsupported "subquery") }

partial def conjuncts : Expr → List Expr
  | .bin .and a b => conjuncts a ++ conjuncts b
  | e => [e]

/-- what the model needs to know about the statement -/
structure JoinDesc where
  jt : JoinType
  lw : Nat
  rw : Nat
  L : Table
  R : Table
  lkeys : List Nat
  rkeys : List Nat
  /-- the non-key conjuncts; `exists_`: they are evaluated inside the subquery (row = right row, outer row = left row) -/
  rest : List Expr
  viaExists : Bool
  /-- output expressions over left ++ right (Semi/Anti: over the left row) -/
  es : List Expr

def widthOf (t : Table) (dflt : Nat) : Nat := match t with | r :: _ => r.length | [] => dflt

/-- ON of a JOIN node: `.col i = .col j` with one index on each side is a key pair -/
def splitOn (lw : Nat) (on : Expr) : List Nat × List Nat × List Expr :=
  (conjuncts on).foldl (fun (acc : List Nat × List Nat × List Expr) e =>
    match e with
    | .bin .eq (.col i) (.col j) =>
      if i < lw && lw ≤ j then (acc.1 ++ [i], acc.2.1 ++ [j - lw], acc.2.2)
      else if j < lw && lw ≤ i then (acc.1 ++ [j], acc.2.1 ++ [i - lw], acc.2.2)
      else (acc.1, acc.2.1, acc.2.2 ++ [e])
    | _ => (acc.1, acc.2.1, acc.2.2 ++ [e])) ([], [], [])

/-- correlation predicate of an EXISTS subquery over the right table: `.col j = .outer 1 i` is a key pair -/
def splitCorr (p : Expr) : List Nat × List Nat × List Expr :=
  (conjuncts p).foldl (fun (acc : List Nat × List Nat × List Expr) e =>
    match e with
    | .bin .eq (.outer 1 i) (.col j) => (acc.1 ++ [i], acc.2.1 ++ [j], acc.2.2)
    | .bin .eq (.col j) (.outer 1 i) => (acc.1 ++ [i], acc.2.1 ++ [j], acc.2.2)
    | _ => (acc.1, acc.2.1, acc.2.2 ++ [e])) ([], [], [])

def tableAt (c : Case) (i : Nat) : Table := (c.tables[i]?).getD []

def descOf (c : Case) (lwCat rwCat : Nat) : Except String JoinDesc :=
  match c.plan with
  | .project _ es (.join jt lw rw _ on (.scan a) (.scan b)) =>
    let (lk, rk, rest) := if jt == .cross then ([], [], []) else splitOn lw on
    pure { jt := jt, lw := lw, rw := rw, L := tableAt c a, R := tableAt c b, lkeys := lk, rkeys := rk, rest := rest,
           viaExists := false, es := es }
  | .project _ es (.filter [sub] (.exists_ 0 neg) (.scan a)) =>
    match sub with
    | .project _ _ (.filter _ p (.scan b)) =>
      let (lk, rk, rest) := splitCorr p
      pure { jt := if neg then .anti else .semi, lw := lwCat, rw := rwCat, L := tableAt c a, R := tableAt c b,
             lkeys := lk, rkeys := rk, rest := rest, viaExists := true, es := es }
    | _ => throw "EXISTS subquery shape outside the C22 model"
  | _ => throw "statement shape outside the C22 model"

def residualOf (d : JoinDesc) : Row → Row → Bool := fun l r =>
  d.rest.all fun e =>
    let v := if d.viaExists then eval cx0 [r, l] e else eval cx0 [l ++ r] e
    match v with
    | .ok (.bool true) => true
    | _ => false

/-- cut the rows of a table into partitions × batches of the given lengths -/
def cutParts (rows : Table) (parts : List (List Nat)) : List (List Table) :=
  let step (acc : Table × List (List Table)) (p : List Nat) : Table × List (List Table) :=
    let r := p.foldl (fun (a : Table × List Table) n => (a.1.drop n, a.2 ++ [a.1.take n])) (acc.1, [])
    (r.1, acc.2 ++ [r.2])
  (parts.foldl step (rows, [])).2

def partsOfJson (j : Json) : Option (List (List Nat)) :=
  match j.getArr? with
  | .ok a => a.toList.mapM fun p => match p.getArr? with
      | .ok b => b.toList.mapM fun x => x.getNat?.toOption
      | .error _ => none
  | .error _ => none

structure Inputs where
  lp : List (List Table)
  rp : List (List Table)

def cfgOf (d : JoinDesc) (buildLeft : Bool) : Cfg :=
  { lkeys := d.lkeys, rkeys := d.rkeys, residual := residualOf d, lw := d.lw, rw := d.rw, buildLeft := buildLeft }

def modelRun (dev : Dev) (d : JoinDesc) (inp : Inputs) (buildLeft : Bool) : Except Err Table := do
  let rows := hashJoin dev d.jt (cfgOf d buildLeft) inp.lp inp.rp
  rows.mapM fun r => evalList cx0 [r] d.es

/-- evaluating the residual must not fail (overflow …) on any candidate pair; otherwise the case is outside the model -/
def residualTotal (d : JoinDesc) : Bool :=
  d.rest.isEmpty || d.L.all fun l => d.R.all fun r =>
    if keysEq (cfgOf d true) l r then
      d.rest.all fun e => match (if d.viaExists then eval cx0 [r, l] e else eval cx0 [l ++ r] e) with | .ok _ => true | .error _ => false
    else true

def acceptableOn (c : Case) (out : Table) : Bool :=
  match Spec.acceptable fo fns c.tables c.plan out with | .ok true => true | _ => false

def isSA (jt : JoinType) : Bool := jt == .semi || jt == .anti

/-- the switch sets that may explain a failing case, with the build side they need: (finding, dev, buildLeft).
    * C22-F1 `smallProbeEmptyTable`: residual ∧ Semi/Anti ∧ the probe side has ≤ 1000 rows (either build side);
    * C22-F2 `semiStopAtFirstPass` (+ `chainNewestFirst`, the vectorized table's chain order): residual ∧ Semi/Anti ∧
      > 1000 probe rows ∧ build = left (the probe side is the right input). -/
def switchSets (d : JoinDesc) (buildLeftKnown : Option Bool) : List (String × Dev × Bool) :=
  let hasResid := !d.rest.isEmpty
  if !(hasResid && isSA d.jt) then [] else
  let sides : List Bool := match buildLeftKnown with | some b => [b] | none => [true, false]
  sides.flatMap fun bl =>
    let probeRows := if bl then d.R.length else d.L.length
    (if probeRows ≤ 1000 then [("C22-F1", ({ smallProbeEmptyTable := true } : Dev), bl)] else []) ++
    (if probeRows > 1000 && bl then
      [("C22-F2", ({ semiStopAtFirstPass := true, chainNewestFirst := true } : Dev), true),
       ("C22-F2", ({ semiStopAtFirstPass := true } : Dev), true)] else [])

def colTyAt (cat : Json) (t i : Nat) : String :=
  match cat.getArrVal? t with
  | .ok tj => (match tj.getObjVal? "cols" with
      | .ok cols => (match cols.getArrVal? i with | .ok cj => (cj.getObjValAs? String "ty").toOption.getD "?" | .error _ => "?")
      | .error _ => "?")
  | .error _ => "?"

/-- C22-F3 signature: a key pair joins an INTEGER (i32) with a BIGINT (i64) column and the engine panicked with an
    index out of bounds (direct-address hash table walked with a hashed bucket index) -/
def sigMixedWidth (d : JoinDesc) (cat : Json) (o : Outcome) : Bool :=
  let mixedPair := (d.lkeys.zip d.rkeys).any fun (i, j) =>
    let a := colTyAt cat 0 i; let b := colTyAt cat 1 j
    (a == "i32" && b == "i64") || (a == "i64" && b == "i32")
  match o with
  | .panic m => mixedPair && (m.splitOn "index out of bounds").length > 1
  | _ => false

def attrC22 (d : JoinDesc) (inp : Inputs) (buildLeftKnown : Option Bool) (cat : Json) (neutral : Option Outcome) : AttrFn :=
  fun c o _spec =>
  let okOff : Bool := match modelRun {} d inp true with
    | .ok t => acceptableOn c (normTable t)
    | .error _ => false
  if !okOff then none else
  match o with
  | .ok out =>
    match (switchSets d buildLeftKnown).find? (fun (_, dev, bl) =>
        match modelRun dev d inp bl with | .ok t => Spec.bagEq out (normTable t) | .error _ => false) with
    | some (f, _, _) => some f
    | none => none
  | .panic _ =>
    if sigMixedWidth d cat o then
      match neutral with
      | some (.ok nout) => if acceptableOn c nout then some "C22-F3" else none
      | _ => none
    else none
  | .err _ => none

def jtName : JoinType → String
  | .inner => "inner" | .left => "left" | .right => "right" | .full => "full" | .semi => "semi" | .anti => "anti" | .cross => "cross"

def handler : Driver.Handler := fun cj i => do
  let cmeta := (cj.getObjVal? "c22").toOption.getD Json.null
  let kind := (cmeta.getObjValAs? String "kind").toOption.getD "sql"
  let cat := (cj.getObjVal? "cat").toOption.getD Json.null
  let cj := cj.setObjVal! "strict_err" (Json.bool true)
  let c ← caseOfJson cj
  let o ← outcomeOfJson i
  let lwCat := widthOf (tableAt c 0) 5
  let rwCat := widthOf (tableAt c 1) 5
  let d ← descOf c lwCat rwCat
  let buildLeftKnown : Option Bool :=
    if kind == "op" then some (!((cmeta.getObjValAs? Bool "build_right").toOption.getD false) && d.jt != .right) else none
  let inp : Inputs :=
    if kind == "op" then
      let lp := ((cmeta.getObjVal? "lparts").toOption.bind partsOfJson).getD [[d.L.length]]
      let rp := ((cmeta.getObjVal? "rparts").toOption.bind partsOfJson).getD [[d.R.length]]
      { lp := cutParts d.L lp, rp := cutParts d.R rp }
    else { lp := [[d.L]], rp := [[d.R]] }
  let neutral : Option Outcome := match i.getObjVal? "neutral" with
    | .ok nj => (outcomeOfJson nj).toOption
    | .error _ => none
  let v ← handlerWith (attrC22 d inp buildLeftKnown cat neutral) cj i
  let total := residualTotal d
  let m := modelRun {} d inp (buildLeftKnown.getD true)
  let k := match m, o with
    | .ok t, .ok out => !total || Spec.bagEq out (normTable t)
    | .error _, _ => true          -- Spec-level error while projecting: K not applicable, O skips the case as well
    | .ok _, _ => !total
  let mtags := [s!"model:{jtName d.jt}", s!"keys:{d.lkeys.length}", if d.rest.isEmpty then "residual:no" else "residual:yes"] ++
    (if d.viaExists then ["via:exists"] else []) ++ (if total then [] else ["skip:residual_error"])
  pure { v with model := specJson (m.map normTable), k := k, tags := v.tags ++ mtags,
                attr := if v.oracle.isSome || !k then v.attr else none }

end Driver.C22
