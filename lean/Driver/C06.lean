-- FAMILY: C06
import Driver.Util
import Driver.SqlJson
import Driver.FloatRt
import IQE.Engine.Compiled
open Lean IQE IQE.Spec IQE.Engine IQE.Engine.Compiled
namespace Driver.C06

/-
  case : {"schema":[ty…], "pattern":[[Val…]…], "n":N, "expr":E}
         ty: f64 int i32 date str bool; row i of the batch = pattern[i mod |pattern|], N rows (N = 0 allowed);
         E = SqlJson expression, with the extra literal {"lit":{"i32":k}} (an Int32 literal) inside the compiled subset.
  impl : {"compiled":bool, "ce":OUT|null, "interp":OUT, "pe":OUT, "pe0":OUT|null}   (pe0: PredicateEvaluator in a child process with QE_COMPILE=0)
         ce = CompiledPredicate::compile(..).evaluate(batch) (null when compile or evaluate declines),
         interp = evaluate_expr, pe = PredicateEvaluator::evaluate;  OUT = {"ok":[Val…]} | {"err":msg} | {"panic":msg}
  K      : compile-or-decline, ce, interp = the models (IQE.Engine.Compiled.evaluateNow with the unchanged tree's switches; IQE.Engine.Filter)
  oracle : ce = interp, pe = interp and pe = pe0, value bits at valid rows and validity (the property itself, on the implementation's outputs)
-/

def ctyOf : String → CTy
  | "f64" => .f64 | "int" => .i64 | "i32" => .i32 | "date" => .date32 | _ => .other

partial def pexprOfJson (j : Json) : Except String PExpr := do
  if let .ok v := j.getObjVal? "lit" then
    if let .ok n := v.getObjValAs? Int "i32" then return .litI32 n
    let w ← Driver.SqlJson.valOfJson v
    return match w with
      | .f64 x => .litF64 x | .int n => .litI64 n | .date n => .litDate n | w => .litOther w
  if let .ok i := j.getObjValAs? Nat "col" then return .col i
  if let .ok a := j.getObjValAs? (Array Json) "bin" then
    let op ← Driver.SqlJson.binOp (← (← Driver.SqlJson.idx a 0).getStr?)
    return .bin op (← pexprOfJson (← Driver.SqlJson.idx a 1)) (← pexprOfJson (← Driver.SqlJson.idx a 2))
  if let .ok a := j.getObjValAs? (Array Json) "un" then
    if (← (← Driver.SqlJson.idx a 0).getStr?) == "not" then return .not (← pexprOfJson (← Driver.SqlJson.idx a 1))
  if let .ok a := j.getObjValAs? (Array Json) "between" then
    return .between (← pexprOfJson (← Driver.SqlJson.idx a 0)) (← pexprOfJson (← Driver.SqlJson.idx a 1)) (← pexprOfJson (← Driver.SqlJson.idx a 2))
      (← (← Driver.SqlJson.idx a 3).getBool?)
  return .other (← Driver.SqlJson.exprOfJson j)

inductive Out | ok (vs : List Val) | err
deriving DecidableEq

def outOfJson (j : Json) : Except String Out :=
  match j.getObjVal? "ok" with
  | .ok a => do pure (.ok (← (← a.getArr?).toList.mapM Driver.SqlJson.valOfJson))
  | .error _ => pure .err

def optOut (i : Json) (k : String) : Except String (Option Out) :=
  match i.getObjVal? k with
  | .ok .null => pure none
  | .ok j => do pure (some (← outOfJson j))
  | .error _ => pure none

def outToJson : Out → Json
  | .ok vs => Json.mkObj [("ok", Json.arr (vs.map Driver.SqlJson.valToJson).toArray)]
  | .err => Json.mkObj [("err", "error")]

def allOk (l : List (Except Err Val)) : Out :=
  match l.mapM (fun x => x.toOption) with | some vs => .ok vs | none => .err

partial def tagsOf : PExpr → List String
  | .bin op a b =>
    (match op with
     | .and => "and" | .or => "or" | .add | .sub | .mul | .div => "arith"
     | .eq | .ne | .lt | .le | .gt | .ge => "cmp" | _ => "otherop") :: (tagsOf a ++ tagsOf b)
  | .not e => "not" :: tagsOf e
  | .between e lo hi _ => "between" :: (tagsOf e ++ tagsOf lo ++ tagsOf hi)
  | .litI32 _ => ["i32lit"]
  | .litDate _ => ["datelit"]
  | .other _ => ["outside-subset"]
  | _ => []

def isSpecial (v : Val) : Bool :=
  match v with
  | .f64 x => x.isNaN || x.isZero || x.mag == F64.expMax
  | _ => false

def handler : Driver.Handler := fun c i => do
  let schema := (← (← Driver.getArr c "schema").toList.mapM (·.getStr?)).map ctyOf
  let pattern ← Driver.SqlJson.tableOfJson (← Driver.getObj c "pattern")
  let n ← Driver.getNat c "n"
  let e ← pexprOfJson (← Driver.getObj c "expr")
  let rows : List Row := if pattern.isEmpty then [] else (List.range n).map (fun k => pattern.getD (k % pattern.length) [])
  let implCompiled ← Driver.getBool i "compiled"
  let implCe ← optOut i "ce"
  let implInterp ← outOfJson (← Driver.getObj i "interp")
  let implPe ← outOfJson (← Driver.getObj i "pe")
  let implPe0 ← optOut i "pe0"
  let fo := Driver.floatRt
  -- models
  let prog := compile schema e
  let mCe (dev : Dev) : Option Out := prog.bind (fun p => (evaluateNow dev fo p rows).map Out.ok)
  let mInterp := allOk (rows.map (fun r => Filter.eval Filter.Dev.current fo r e.toExpr))
  let kCompile := prog.isSome == implCompiled
  let kCe := implCe == mCe Dev.current
  let kInterp := implInterp == mInterp
  let k := kCompile && kCe && kInterp
  -- oracle: the property on the implementation's own outputs
  let diff (what : String) (a b : Out) : Option String :=
    if a == b then none else
    match a, b with
    | .ok x, .ok y =>
      if x.length != y.length then some s!"{what}: different lengths"
      else if (x.zip y).any (fun (p, q) => p.isNull != q.isNull) then some s!"{what}: validity differs from the interpreter's"
      else some s!"{what}: mask bit differs from the interpreter's at a valid row"
    | _, _ => some s!"{what}: one side raises"
  let o1 := match implCe with | some ce => diff "compiled" ce implInterp | none => none
  let o2 := diff "PredicateEvaluator" implPe implInterp
  let o3 := match implPe0 with | some p0 => diff "QE_COMPILE=0 vs default (PredicateEvaluator)" implPe p0 | none => none
  let oracle := match o1 with | some w => some w | none => (match o2 with | some w => some w | none => o3)
  -- finding C06-F1 (IEEE f64 comparison) is fixed (7400978): nothing is attributed; a recurrence is a violation, tagged below
  let attr : Option String := none
  let regressed := oracle.isSome && implCe == mCe Dev.ieee && mCe Dev.ieee != mCe Dev.none
  let special := rows.any (fun r => r.any isSpecial)
  let hasNull := rows.any (fun r => r.any Val.isNull)
  let tags := (tagsOf e).eraseDups ++ [if implCompiled then "compiled" else "declined"]
    ++ (if n == 0 then ["len0"] else if n % 1024 == 0 then ["len-multiple"] else if n > 1024 then ["len-remainder"] else ["len-short"])
    ++ (if special then ["special-floats"] else []) ++ (if hasNull then ["nulls"] else [])
    ++ (if mCe Dev.ieee != mCe Dev.none then ["ieee-visible"] else []) ++ (if regressed then ["C06-F1-regressed"] else [])
  pure { model := match mCe Dev.current with | some o => outToJson o | none => Json.null,
         k := k, oracle := oracle, nt := implCompiled && n > 0, tags := tags, attr := attr }

end Driver.C06
