-- FAMILY: C43
/-
  Driver.C43 — handler of family C43 (exact vector search is the literal ORDER BY … LIMIT).  Case / impl format: harness/src/fam_c43.rs.

  kind "sql":
    K  = (a) for every application of VectorSearchPushdown inside the production fixpoint, the plan after it is what
             `VectorSearch.canonicalKnn` predicts from the plan before it: a VectorSearch node exactly where the matcher accepts, carrying
             the extracted table / column / query / k / skip / metric / outputs, and nothing changed elsewhere;
         (b) the production answer and the answer with the rule removed are both pointwise tied (exact integer keys) with the model's
             `window (mergeSort …)` of the query's literal meaning, and consist of table rows.
    O  = the production answer is an acceptable `ORDER BY … LIMIT k OFFSET s` answer by RANK COUNTING on the exact keys (no sort: position i
         holds a row with at most s+i rows strictly before it and at least s+i+1 rows not after it), each returned row is a table row
         that passes the WHERE, projected as the SELECT list says; a dimension mismatch is an error naming the column; a VectorSearch
         node is present only if the statement (its AST, independent of the plan model) has the canonical shape; in mode Exact the
         provider's index is never consulted.
  kind "exec":
    K  = rows / error / batch lengths / fallback partitions opened / `k` asked of the provider equal `VectorSearch.execute {}`.
    O  = mode Exact, no provider, or a provider that declines ⇒ the output is every row of every declared fallback partition, in order;
         mode Exact ⇒ scan_knn was not called.
-/
import Driver.Util
import Driver.PlanJson
import IQE.Engine.VectorSearch
open Lean IQE.Engine IQE.Engine.PlanWf IQE.Engine.VectorSearch
namespace Driver.C43

def trunc (s : String) (n : Nat) : String := String.ofList (s.toList.take n)

/-! ### plan shape -/

def kindOf : Plan → String
  | .scan .. => "scan" | .filter .. => "filter" | .project .. => "project" | .join .. => "join" | .agg .. => "agg" | .window .. => "window"
  | .sort .. => "sort" | .limit .. => "limit" | .distinct .. => "distinct" | .union .. => "union" | .alias .. => "alias" | .empty .. => "empty"
  | .values .. => "values" | .delimJoin .. => "delimjoin" | .delimGet .. => "delimget" | .vsearch .. => "vsearch"

def children : Plan → List Plan
  | .filter _ i => [i] | .project _ _ i => [i] | .join _ _ _ _ _ l r => [l, r] | .agg _ _ _ i => [i] | .window _ _ _ i => [i]
  | .sort _ _ i => [i] | .limit _ _ i => [i] | .distinct i => [i] | .union _ _ is => is | .alias _ _ _ i => [i]
  | .delimJoin _ _ _ _ _ l r => [l, r] | .vsearch _ _ _ _ _ _ i => [i] | _ => []

/-- `rewrite` of the rule, checked against the exported result: `none` = the plan after is the model's prediction -/
partial def agree (before after : Plan) : Option String :=
  match canonicalKnn before with
  | some s =>
    match after with
    | .vsearch info filter _ desc nf _ _ =>
      if s.describes info filter desc nf then none
      else some s!"VectorSearch node differs from the matcher's extraction: model table={s.table} column={s.column} k={s.k} skip={s.skip} metric={s.fn.metric.name} outputs={s.outputs.map (·.1)}; node table={info.table} column={info.column} k={info.k} skip={info.skip} metric={info.metric} outputs={info.outputs.map (·.1)}"
    | _ => some s!"the matcher accepts this {kindOf before} node but the rule left a {kindOf after}"
  | none =>
    match before with
    | .vsearch .. => if kindOf after == "vsearch" then none else some "a VectorSearch node was rewritten"
    | _ =>
      if kindOf after != kindOf before then some s!"the matcher refuses this {kindOf before} node but the rule produced a {kindOf after}"
      else
        let cb := children before
        let ca := children after
        if cb.length != ca.length then some "child count changed"
        else (cb.zip ca).findSome? (fun p => agree p.1 p.2)

partial def countVs (p : Plan) : Nat :=
  (match p with | .vsearch .. => 1 | _ => 0) + ((children p).map countVs).sum

/-- the first `Limit(Sort)` pair / VectorSearch of a plan, top down (diagnostics: which gate refuses) -/
partial def findLimitSort (p : Plan) : Option Plan :=
  match p with
  | .limit _ _ (.sort ..) => some p
  | _ => (children p).findSome? findLimitSort

def gate (p : Plan) : String :=
  match p with
  | .limit _ fetch (.sort keys flags input) =>
    match fetch with
    | none => "no_fetch"
    | some 0 => "fetch0"
    | some _ =>
      match keys, flags with
      | [key], [(desc, nf)] =>
        if nf then "nulls_first"
        else
          match stripAlias key with
          | .op "fn" tag [a0, a1] =>
            match DistFn.ofName tag with
            | none => "not_distance"
            | some f =>
              if desc != f.nearestDesc then "wrong_direction"
              else
                match splitArgs a0 a1 with
                | none => "no_literal"
                | some (ce, q) =>
                  match stripAlias ce with
                  | .col _ c =>
                    match walk c q.length ((schemaOf input).map (fun f => (f.name, f.name))) input with
                    | some _ => "accepted"
                    | none =>
                      -- which part of the walk: a dimension mismatch is visible when the walk succeeds for some other width
                      if ((List.range 40).any fun n => (walk c n ((schemaOf input).map (fun f => (f.name, f.name))) input).isSome) then "dim_mismatch" else "chain"
                  | _ => "not_column"
          | _ => "not_distance"
      | _, _ => "multi_key"
  | _ => "no_limit_sort"

/-! ### the statement's literal meaning on exact keys -/

inductive KeyV | null | score (s : Score) | int (i : Int)
deriving Repr, Inhabited

structure Src where
  id : Int
  g : Option Int
  emb : Option (List Int)
  e2 : Option (List Int)
  /-- the ORDER BY keys of the row, evaluated once -/
  keys : List KeyV := []
deriving Repr, Inhabited

structure OrdKey where
  desc : Bool
  nf : Bool
  eval : Src → KeyV
  isDist : Bool
  fn : String := ""
  col : String := ""
  litLen : Nat := 0
  wrap : String := ""

def cmpKeyV (desc nf : Bool) (a b : KeyV) : Ordering :=
  match a, b with
  | .null, .null => .eq
  | .null, _ => if nf then .lt else .gt
  | _, .null => if nf then .gt else .lt
  | .score x, .score y =>
    let o : Ordering := if scoreLe x y then (if scoreLe y x then .eq else .lt) else .gt
    if desc then o.swap else o
  | .int x, .int y =>
    let o := compare x y
    if desc then o.swap else o
  | _, _ => .eq

def cmpKeyList : List OrdKey → List KeyV → List KeyV → Ordering
  | k :: ks, x :: xs, y :: ys =>
    match cmpKeyV k.desc k.nf x y with
    | .eq => cmpKeyList ks xs ys
    | o => o
  | _, _, _ => .eq

/-- lexicographic ORDER BY comparison on the cached keys -/
def cmpRows (keys : List OrdKey) (a b : Src) : Ordering := cmpKeyList keys a.keys b.keys

structure Pred where
  c : String
  op : String
  v : Int

def Pred.holds (p : Pred) (r : Src) : Bool :=
  let x : Option Int := if p.c == "id" then some r.id else r.g
  match p.op, x with
  | "isnull", x => x.isNone
  | "notnull", x => x.isSome
  | "ge", some x => decide (x ≥ p.v)
  | "lt", some x => decide (x < p.v)
  | _, _ => false

def predOf (j : Json) : Except String (Option Pred) := do
  if j.isNull then return none
  pure (some { c := ← Driver.getStr j "c", op := ← Driver.getStr j "op", v := (j.getObjValAs? Int "v").toOption.getD 0 })

def optIntList (j : Json) : Option (List Int) := (Driver.asIntList j).toOption

def srcOf (j : Json) : Except String Src := do
  let a ← j.getArr?
  let cell (i : Nat) : Json := a.getD i Json.null
  pure { id := ← (cell 0).getInt?, g := (cell 1).getInt?.toOption, emb := optIntList (cell 2), e2 := optIntList (cell 3) }

def distFnOf : String → DistFn
  | "l2" => .l2 | "cos" => .cosDist | "sim" => .cosSim | _ => .dot

def keyOf (j : Json) : Except String OrdKey := do
  let desc := (j.getObjValAs? Bool "desc").toOption.getD false
  let nf := (j.getObjValAs? String "nulls").toOption == some "first"
  if (← Driver.getStr j "k") == "col" then
    let c ← Driver.getStr j "c"
    pure { desc, nf, isDist := false, col := c, eval := fun r => match (if c == "id" then some r.id else r.g) with | some i => .int i | none => .null }
  else
    let f ← Driver.getStr j "fn"
    let col ← Driver.getStr j "col"
    let lit ← Driver.asIntList (← Driver.getObj j "lit")
    let wrap := (j.getObjValAs? String "wrap").toOption.getD ""
    pure { desc, nf, isDist := true, fn := f, col, litLen := lit.length, wrap,
           eval := fun r => match (if col == "e2" then r.e2 else r.emb) with
             | some xs => let s := score (distFnOf f) lit xs; .score (if wrap == "neg" then { s with num := -s.num } else s)
             | none => .null }

structure Q where
  sel : List (String × Option String)
  where_ : Option Pred
  order : List OrdKey
  limit : Option Nat
  offset : Option Nat
  outer : Option Pred

def qOf (j : Json) : Except String Q := do
  let sel ← (← Driver.getArr j "sel").toList.mapM (fun s => do pure (← Driver.getStr s "c", (s.getObjValAs? String "as").toOption))
  let order ← (← Driver.getArr j "order").toList.mapM keyOf
  pure { sel, where_ := ← predOf ((j.getObjVal? "where").toOption.getD Json.null), order,
         limit := (j.getObjValAs? Nat "limit").toOption, offset := (j.getObjValAs? Nat "offset").toOption,
         outer := ← predOf ((j.getObjVal? "outer").toOption.getD Json.null) }

/-- the AST has the canonical shape (independent of the plan model): one distance key over (column, literal) of the column's width, unwrapped,
    direction = nearest first, not NULLS FIRST, a LIMIT ≥ 1, only bare columns selected -/
def astCanonical (q : Q) (dim : Nat) (dim2 : Option Nat) : Bool :=
  match q.order with
  | [k] =>
    k.isDist && k.wrap == "" && !k.nf && k.desc == (distFnOf k.fn).nearestDesc
      && (match q.limit with | some n => n ≥ 1 | none => false)
      && q.sel.all (fun s => s.1 != "dist")
      && (some k.litLen == (if k.col == "e2" then dim2 else some dim))
  | _ => false

/-- rows the ORDER BY sees; `pushOuter` = deviation C43-F1 (the filter above the limit evaluated below it) -/
def inputRows (q : Q) (pushOuter : Bool) (rows : List Src) : List Src :=
  let r := match q.where_ with | some p => rows.filter p.holds | none => rows
  if pushOuter then (match q.outer with | some p => r.filter p.holds | none => r) else r

def leRows (keys : List OrdKey) (a b : Src) : Bool := cmpRows keys a b != .gt

/-- the model's answer (stable sort), before projection -/
def modelWindow (q : Q) (pushOuter : Bool) (rows : List Src) : List Src :=
  let w := window (leRows q.order) (q.offset.getD 0) q.limit (inputRows q pushOuter rows)
  if pushOuter then w else match q.outer with | some p => w.filter p.holds | none => w

inductive OutCell | null | int (i : Int) | vec (xs : List Int) | f64 (bits : Nat) | other
deriving BEq, Repr, Inhabited

def outCellOf (j : Json) : OutCell :=
  if j.isNull then .null
  else if let .ok i := j.getObjValAs? Int "i" then .int i
  else if let .ok v := j.getObjVal? "v" then (match Driver.asIntList v with | .ok l => .vec l | .error _ => .other)
  else if let .ok b := j.getObjValAs? Nat "f" then .f64 b
  else .other

def expectCell (c : String) (r : Src) : Option OutCell :=
  match c with
  | "id" => some (.int r.id)
  | "g" => some (match r.g with | some g => .int g | none => .null)
  | "emb" => some (match r.emb with | some v => .vec v | none => .null)
  | "e2" => some (match r.e2 with | some v => .vec v | none => .null)
  | _ => none

/-- map the returned rows back to table rows (by the selected `id`), checking every selected bare column -/
def identify (q : Q) (rows : List Src) (out : List (List OutCell)) : Except String (List Src) := do
  let some idPos := q.sel.findIdx? (fun s => s.1 == "id") | throw "no id column selected"
  out.mapM fun o => do
    if o.length != q.sel.length then throw s!"row of width {o.length}, SELECT list of {q.sel.length}"
    let id ← match o[idPos]? with
      | some (OutCell.int id) => pure id
      | _ => throw "NULL / non-integer id returned"
    let some r := rows.find? (fun r => r.id == id) | throw s!"returned id {id} is not a row of the table"
    for (c, cell) in (q.sel.map (·.1)).zip o do
      match expectCell c r with
      | some e => if e != cell then throw s!"row id {id}: column {c} returned {repr cell}, the table holds {repr e}"
      | none =>  -- computed distance: NULL exactly when the key is NULL
        match q.order.find? (·.isDist) with
        | some k => (match k.eval r, cell with
            | .null, .null => pure ()
            | .null, _ => throw s!"row id {id}: distance of a NULL vector is not NULL"
            | _, .null => throw s!"row id {id}: NULL distance of a non-NULL vector"
            | _, _ => pure ())
        | none => pure ()
    pure r

def hasDup (l : List Int) : Bool := match l with | [] => false | x :: xs => xs.contains x || hasDup xs

/-- RANK-COUNT acceptance of `out` as the `[skip, skip+fetch)` window of `S` ordered by `keys` (no sorting involved) -/
def rankAccept (keys : List OrdKey) (skip : Nat) (fetch : Option Nat) (S out : List Src) : Option String :=
  let n := S.length
  let expected := match fetch with | some k => min k (n - skip) | none => n - skip
  if out.length != expected then some s!"{out.length} rows returned, the window holds {expected} (rows after WHERE: {n}, offset {skip}, limit {fetch})"
  else
    (List.range out.length).findSome? fun i =>
      let x := out[i]!
      let lt := S.countP (fun r => cmpRows keys r x == .lt)
      let le := S.countP (fun r => cmpRows keys r x != .gt)
      if lt > skip + i then some s!"position {i} (id {x.id}): {lt} rows sort strictly before it, at most {skip + i} may"
      else if le < skip + i + 1 then some s!"position {i} (id {x.id}): only {le} rows sort at or before it, position {skip + i} needs {skip + i + 1}"
      else none

/-- acceptance with a filter above the limit: every returned row passes it and may be in the window; every row that MUST be in the
    window and passes is returned; no tie class contributes more rows than it has positions inside the window -/
def outerAccept (keys : List OrdKey) (skip : Nat) (fetch : Option Nat) (p : Pred) (S out : List Src) : Option String :=
  let n := S.length
  let len := match fetch with | some k => min k (n - skip) | none => n - skip
  let lo := skip
  let hi := skip + len
  let lt (x : Src) := S.countP (fun r => cmpRows keys r x == .lt)
  let le (x : Src) := S.countP (fun r => cmpRows keys r x != .gt)
  let possible (x : Src) := decide (lt x < hi) && decide (le x > lo)
  let forced (x : Src) := decide (lt x ≥ lo) && decide (le x ≤ hi)
  match out.find? (fun x => !p.holds x) with
  | some x => some s!"row id {x.id} does not pass the outer filter"
  | none =>
  match out.find? (fun x => !possible x) with
  | some x => some s!"row id {x.id} cannot be among rows {lo}..{hi} of the inner ORDER BY (ranks {lt x}..{le x})"
  | none =>
  match S.find? (fun x => forced x && p.holds x && !(out.any (·.id == x.id))) with
  | some x => some s!"row id {x.id} is among rows {lo}..{hi} of the inner ORDER BY in every tie-break and passes the outer filter, but is missing"
  | none =>
  match out.find? (fun x => out.countP (fun y => cmpRows keys x y == .eq) > min (le x) hi - max (lt x) lo) with
  | some x => some s!"more rows tied with id {x.id} returned than its tie class has positions inside the window"
  | none => none

/-- the model-side (sort based) comparison: same length, tied at every position, same multiset within the table -/
def tiedWith (keys : List OrdKey) (model out : List Src) : Bool :=
  model.length == out.length && (model.zip out).all (fun p => cmpRows keys p.1 p.2 == .eq)

def answerRows (j : Json) : Except String (Option (List (List OutCell))) := do
  match j.getObjVal? "ok" with
  | .ok rows => pure (some (← (← rows.getArr?).toList.mapM (fun r => do pure ((← r.getArr?).toList.map outCellOf))))
  | .error _ => pure none

def errMsg (j : Json) : Option String :=
  match j.getObjValAs? String "err" with
  | .ok k => some (k ++ ": " ++ (j.getObjValAs? String "msg").toOption.getD "")
  | .error _ => (j.getObjValAs? String "panic").toOption.map ("panic: " ++ ·)

def contains (s sub : String) : Bool := (s.splitOn sub).length > 1

/-- judgement of one answer against the statement's literal meaning: (O-style failure, K-style agreement with the sort model) -/
def judgeAnswer (q : Q) (pushOuter : Bool) (rows : List Src) (ans : Json) : Except String (Option String × Bool) := do
  match ← answerRows ans with
  | none => pure (some s!"the statement failed: {trunc ((errMsg ans).getD "?") 160}", false)
  | some out =>
    match identify q rows out with
    | .error e => pure (some e, false)
    | .ok srcs =>
      if hasDup (srcs.map (·.id)) then return (some "a table row is returned twice", false)
      let S := inputRows q pushOuter rows
      match srcs.find? (fun r => !(S.any (·.id == r.id))) with
      | some r => pure (some s!"row id {r.id} does not pass the WHERE clause", false)
      | none =>
        let skip := q.offset.getD 0
        let o := match (if pushOuter then none else q.outer) with
          | none => rankAccept q.order skip q.limit S srcs
          | some p => outerAccept q.order skip q.limit p S srcs
        let m := modelWindow q pushOuter rows
        let k := match (if pushOuter then none else q.outer) with
          | none => tiedWith q.order m srcs
          | some _ => o.isNone     -- bag-valued: the sort model fixes one tie-break, acceptance is the rank rule
        pure (o, k)

/-- What mode Indexed returns when the harness's mock index answers: rows skip..skip+k of the table in table order (`C43_index_window`), each
    output column looked up in the provider's batch by name — `byOutputName = true` is the operator as coded (the query's output name: finding
    C43-F2), `false` the intended lookup by the scan column the rule extracted.  `none`: the VectorSearch node is not at the root. -/
def indexPredict (byOutputName : Bool) (dim : Nat) (dim2 : Option Nat) (rows : List Src) (final : Plan) : Option (Except String (List (List OutCell))) :=
  let go (info : VsInfo) (top : Option (List PExpr)) : Except String (List (List OutCell)) := do
    let scanCols := info.outputs.map (·.1)
    let tyOf (c : String) : String := if c == "emb" then s!"fsl<f32,{dim}>" else if c == "e2" then s!"fsl<f32,{dim2.getD 0}>" else "i64"
    let matched ← info.outputs.mapM fun (o : String × Field) => do
      let want := if byOutputName then o.2.name else o.1
      match scanCols.find? (fun c => eqIgnoreAsciiCase c want) with
      | none => throw "missing column"
      | some m => if tyOf m != o.2.ty then throw "plan expects" else pure m
    let win := ((rows.take (info.skip + info.k)).drop info.skip).take info.k
    let vsRows := win.map fun r => matched.map fun m => (expectCell m r).getD .other
    match top with
    | none => pure vsRows
    | some exprs =>
      let pos ← exprs.mapM fun e => match stripAlias e with
        | .col _ c => (match info.outputs.findIdx? (fun o => o.2.name == c) with | some i => pure i | none => throw "top projection")
        | _ => throw "top projection"
      pure (vsRows.map fun r => pos.map fun i => r.getD i .other)
  match final with
  | .vsearch info .. => some (go info none)
  | .project exprs _ (.vsearch info ..) => some (go info (some exprs))
  | _ => none

/-! ### the plan-level meaning (the object of C43_canonical_shape) evaluated on the exported plan -/

def cellOfOpt (v : Option (List Int)) : Cell := match v with | some xs => .vec xs | none => .null
def vrowOf (r : Src) (withE2 : Bool) : VRow :=
  [.int r.id, (match r.g with | some g => .int g | none => .null), cellOfOpt r.emb] ++ (if withE2 then [cellOfOpt r.e2] else [])

def outCellOfCell : Cell → OutCell
  | .null => .null | .int i => .int i | .vec xs => .vec xs | .other _ => .other

/-- the pushed scan filters the generator can produce: comparisons of a column with an integer literal, IS [NOT] NULL -/
def predSupported : PExpr → Bool
  | .op "bin" o [.col _ _, .lit _ (.int _)] => o == "ge" || o == "lt" || o == "gt" || o == "le" || o == "eq"
  | .op "un" o [.col _ _] => o == "isnull" || o == "isnotnull"
  | _ => false

def evalPred (schema : Schema) (r : VRow) : PExpr → Bool
  | .op "bin" o [.col _ c, .lit _ (.int v)] =>
    match (colIndex schema c).map (fun i => r.getD i .null) with
    | some (.int x) => if o == "ge" then x ≥ v else if o == "lt" then x < v else if o == "gt" then x > v else if o == "le" then x ≤ v else x == v
    | _ => false
  | .op "un" o [.col _ c] =>
    match (colIndex schema c).map (fun i => r.getD i .null) with
    | some .null => o == "isnull"
    | some _ => o == "isnotnull"
    | none => false
  | _ => false

def predFn (filters : List PExpr) (schema : Schema) (r : VRow) : Bool := filters.all (evalPred schema r)

/-- integer value of an f64 bit pattern (the generated literals are integer-valued) -/
def litIntsFn (bits : List Nat) : List Int := bits.map (fun b => (Float.ofBits b.toUInt64).toInt64.toInt)

partial def scanFilters (p : Plan) : List PExpr :=
  match p with
  | .scan _ _ _ f => f
  | _ => (children p).flatMap scanFilters

partial def scanSchemas (p : Plan) : List Schema :=
  match p with
  | .scan _ s _ _ => [s]
  | _ => (children p).flatMap scanSchemas

/-- every spec the matcher extracts anywhere in the plan -/
partial def specsOf (p : Plan) : List KnnSpec :=
  match canonicalKnn p with
  | some s => [s]
  | none => (children p).flatMap specsOf

def handleSql (c i : Json) : Except String Driver.Verdict := do
  let dim ← Driver.getNat c "dim"
  let dim2 := (c.getObjValAs? Nat "dim2").toOption
  let rows0 ← (← Driver.getArr c "rows").toList.mapM srcOf
  let q ← qOf (← Driver.getObj c "q")
  let rows := rows0.map (fun r => { r with keys := q.order.map (·.eval r) })
  let mode ← Driver.getStr c "mode"
  let provider ← Driver.getStr c "provider"
  let shape := (Driver.getStr c "shape").toOption.getD "?"
  let mut tags : List String := ["sql", "shape:" ++ shape, "mode:" ++ mode, "provider:" ++ provider]
  -- ---- plan shape (K)
  let steps ← Driver.getArr i "steps"
  let mut shapeBad : Option String := none
  let mut fired := false
  for s in steps.toList do
    let before ← PlanJson.planOfJson (← Driver.getObj s "before")
    let afterJ ← Driver.getObj s "after"
    if !tags.any (fun t => "gate:".isPrefixOf t) then
      if let some ls := findLimitSort before then tags := tags ++ ["gate:" ++ gate ls]
    let after? : Except String Plan := match afterJ with
      | .str "same" => pure before
      | j => match PlanJson.planOrErr j with
        | .ok (.ok p) => pure p
        | .ok (.error e) => throw s!"the rule failed: {trunc e 120}"
        | .error e => throw e
    match after? with
    | .error e => shapeBad := shapeBad <|> some e
    | .ok after =>
      if countVs after > countVs before then fired := true
      match agree before after with
      | some w => shapeBad := shapeBad <|> some w
      | none => pure ()
  if !((Driver.getBool i "trace_agrees").toOption.getD true) then shapeBad := shapeBad <|> some "the rule-by-rule replay did not reach the production plan"
  -- the plan-level `meaning` of the plan the rule saw (first application) against the statement's meaning computed from the AST
  let mismatchAny := q.order.any (fun k => k.isDist && some k.litLen != (if k.col == "e2" then dim2 else some dim))
  if let some s0 := steps.toList.head? then
    let before ← PlanJson.planOfJson (← Driver.getObj s0 "before")
    let specs := specsOf before
    if !specs.isEmpty then
      tags := tags ++ [if specs.all (fun s => chainOk s.input && noCiDup ((schemaOf s.input).map (·.name))) then "hyp:chain_ok" else "hyp:chain_violated"]
    if (scanFilters before).all predSupported && !mismatchAny then
      let schema := (scanSchemas before).headD []
      let cat : List VTable := [{ name := "vt", schema, rows := rows.map (fun r => vrowOf r dim2.isSome) }]
      match meaning predFn litIntsFn cat before with
      | some (_, out) =>
        let want := (modelWindow q false rows).map (fun r => q.sel.map (fun se => (expectCell se.1 r).getD .other))
        if out.map (·.map outCellOfCell) == want then tags := tags ++ ["meaning:agrees"]
        else shapeBad := shapeBad <|> some s!"IQE.Engine.VectorSearch.meaning of the exported plan differs from the statement's meaning: {out.length} rows vs {want.length}"
        -- C43_canonical_shape, evaluated: the spec's answer on the table is the meaning of the accepted node
        for s in specs do
          match findLimitSort before with
          | some node =>
            match meaning predFn litIntsFn cat node, knnAnswer predFn litIntsFn cat s with
            | some (_, o1), some o2 => if o1 == o2 then tags := tags ++ ["knn_answer=meaning"] else shapeBad := shapeBad <|> some "knnAnswer differs from the meaning of the accepted node"
            | _, _ => tags := tags ++ ["knn_answer:undefined"]
          | none => pure ()
      | none => tags := tags ++ ["meaning:outside_fragment"]
  let finalVs : Nat := match (do PlanJson.planOrErr (← Driver.getObj i "final")) with | .ok (.ok p) => countVs p | _ => 0
  tags := tags ++ [if finalVs > 0 then "vs:present" else "vs:absent"] ++ (if fired then ["vs:fired"] else [])
  let canon := astCanonical q dim dim2
  tags := tags ++ [if canon then "ast:canonical" else "ast:other"]
  -- ---- answers
  let prod ← Driver.getObj i "prod"
  let base ← Driver.getObj i "base"
  let calls := (Driver.getNat i "knn_calls").toOption.getD 0
  let mismatch := q.order.find? (fun k => k.isDist && some k.litLen != (if k.col == "e2" then dim2 else some dim))
  let mut oracle : Option String := none
  let mut kAns := true
  let mut nt := false
  let mut attr : Option String := none
  let modelIds := (modelWindow q false rows).map (·.id)
  if finalVs > 0 && !canon then oracle := some s!"a VectorSearch node was planted for a statement that is not the canonical k-NN shape (shape {shape})"
  if mode == "exact" && calls > 0 then oracle := oracle <|> some s!"mode Exact consulted the provider's index ({calls} scan_knn calls)"
  match mismatch with
  | some k =>
    tags := tags ++ ["dim_mismatch"]
    for (nm, a) in [("production", prod), ("rule removed", base)] do
      match errMsg a with
      | some m =>
        if !(contains m k.col && contains m "dimension") then oracle := oracle <|> some s!"{nm}: dimension mismatch reported without naming the column: {trunc m 160}"
        else tags := tags ++ ["err:dimension"]
      | none =>
        let n := match ← answerRows a with | some r => r.length | none => 0
        if n > 0 then oracle := oracle <|> some s!"{nm}: {n} rows returned although the query vector has {k.litLen} elements and column {k.col} another width"
        else tags := tags ++ ["dim_mismatch_empty_ok"]
    nt := true
  | none =>
    let indexAnswers := mode == "indexed" && provider == "wrongindex" && finalVs > 0
    if indexAnswers then
      -- the index path answers (approximate by permission): the mock returns the first skip+k rows of the table in table order
      tags := tags ++ ["path:index"]
      if calls == 0 then kAns := false
      let implRows ← answerRows prod
      let implErr := errMsg prod
      let fin : Option Plan := match (do PlanJson.planOrErr (← Driver.getObj i "final")) with | .ok (.ok p) => some p | _ => none
      let same (p : Except String (List (List OutCell))) : Bool := match p, implRows, implErr with
        | .ok r, some out, _ => r == out
        | .error e, none, some m => contains m e
        | _, _, _ => false
      -- O (no model): the statement must not fail, and every returned row must be a table row projected as the SELECT list says
      let oIdx : Option String := match implRows with
        | none => some s!"mode Indexed failed on a statement the rule rewrote: {trunc (implErr.getD "?") 140}"
        | some out => match identify q rows out with | .error e => some s!"mode Indexed: {e}" | .ok _ => none
      match fin.bind (fun f => (indexPredict false dim dim2 rows f).bind fun a => (indexPredict true dim dim2 rows f).map fun b => (a, b)) with
      | some (intended, coded) =>
        nt := true
        if same intended then pure ()
        else
          kAns := false
          -- known finding C43-F2: outputs looked up in the provider's batch by the query's output name
          if same coded then attr := some "C43-F2"
        if !same coded then tags := tags ++ ["idx:not-as-coded"]
        if q.sel.any (fun s => s.2.isSome) then tags := tags ++ ["idx:aliased"]
      | none => tags := tags ++ ["idx-nested"]
      match oIdx with
      | some w => oracle := oracle <|> some w
      | none => pure ()
    else
      if finalVs > 0 then tags := tags ++ [if mode == "indexed" then "path:declined" else "path:exact"]
      let (oP, kP) ← judgeAnswer q false rows prod
      let (oB, kB) ← judgeAnswer q false rows base
      kAns := kP && kB
      match oP with
      | some w =>
        -- known finding C43-F1: the filter above the limit is evaluated below it (PredicatePushdown pushes through Limit)
        let (oDev, _) ← if q.outer.isSome then judgeAnswer q true rows prod else pure (some "", false)
        if q.outer.isSome && oDev.isNone then attr := some "C43-F1"
        oracle := oracle <|> some s!"production answer: {w}"
      | none => pure ()
      if oP.isNone && oB.isSome then kAns := false
      let S := inputRows q false rows
      nt := S.length ≥ 2 && (match ← answerRows prod with | some r => r.length ≥ 1 | none => false)
      -- coverage tags
      let skip := q.offset.getD 0
      if S.any (fun r => q.order.any (fun k => k.isDist && (match k.eval r with | .null => true | _ => false))) then tags := tags ++ ["null_vectors"]
      let sortedS := S.mergeSort (leRows q.order)
      if (sortedS.zip (sortedS.drop 1)).any (fun p => cmpRows q.order p.1 p.2 == .eq) then tags := tags ++ ["ties"]
      match q.limit with
      | some k =>
        let lenS := S.length
        if skip + k > lenS then tags := tags ++ ["window_past_end"]
        if skip ≥ lenS && lenS > 0 then tags := tags ++ ["offset_past_end"]
        if skip + k < lenS && skip + k > 0 then
          let m := sortedS
          if cmpRows q.order (m[skip + k - 1]!) (m[skip + k]!) == .eq then tags := tags ++ ["tie_at_boundary"]
      | none => pure ()
      if skip > 0 then tags := tags ++ ["offset"]
      if rows.length ≥ 1000 then tags := tags ++ ["multi_partition_scan"]
      if q.where_.isSome then tags := tags ++ ["where"]
  for k in q.order do if k.isDist then tags := tags ++ ["fn:" ++ k.fn]
  let kAll := shapeBad.isNone && kAns
  let model := Json.mkObj [("ids", Json.arr (modelIds.map (fun (x : Int) => Json.num (JsonNumber.fromInt x))).toArray), ("shape", Json.str (shapeBad.getD "agrees")),
                           ("canonical_ast", Json.bool canon)]
  pure { model, k := kAll, oracle, nt, tags, attr }

/-! ### operator level -/

def idxBatchOf (j : Json) : Except String (IdxBatch Int) := do
  let ids ← Driver.asIntList (← Driver.getObj j "ids")
  let cols := (Driver.getStr j "cols").toOption.getD "plain"
  pure { rows := ids, bad := if cols == "missing" then some .missingColumn else if cols == "wrongtype" then some .typeDrift else none }

def handleExec (c i : Json) : Except String Driver.Verdict := do
  let mode := if (← Driver.getStr c "mode") == "indexed" then Mode.indexed else Mode.exact
  let provider ← Driver.getStr c "provider"
  let k ← Driver.getNat c "k"
  let skip ← Driver.getNat c "skip"
  let fallback ← (← Driver.getArr c "fallback").toList.mapM (fun p => do (← p.getArr?).toList.mapM Driver.asIntList)
  let index ← (← Driver.getArr c "index").toList.mapM idxBatchOf
  let prov : Option (ScanKnn Int) := match provider with
    | "none" => none
    | "noindex" => some (fun _ => none)
    | _ => some (fun _ => some index)
  let e : Exec Int := { mode, provider := prov, k, skip, usizeMax := 2 ^ 64 - 1, fallback }
  let m := execute {} e
  let rowsJ ← Driver.getObj i "rows"
  let implRows : Option (List Int × List Nat) := match rowsJ.getObjVal? "ids" with
    | .ok ids =>
      match Driver.asIntList ids, (Driver.getObj rowsJ "batches").bind Driver.asNatList with
      | .ok a, .ok b => some (a, b)
      | _, _ => none
    | .error _ => none
  let implErr := errMsg rowsJ
  let calls ← Driver.getNat i "calls"
  let wanted ← Driver.asNatList (← Driver.getObj i "wanted")
  let opened ← Driver.asNatList (← Driver.getObj i "opened")
  let consistent := (rowsJ.getObjValAs? Bool "consistent").toOption.getD true
  let kRes : Bool := match m.result, implRows, implErr with
    | .ok bs, some (ids, lens), _ => bs.flatten == ids && bs.map List.length == lens
    | .error .missingColumn, none, some msg => contains msg "missing column"
    | .error .typeDrift, none, some msg => contains msg "plan expects"
    | _, _, _ => false
  let kk := kRes && wanted == m.asked && opened == m.opened && calls == m.asked.length
  let all := fallback.flatten.flatten
  let mustFallback := mode == .exact || provider == "none" || provider == "noindex"
  let oracle : Option String :=
    if mode == .exact && calls > 0 then some s!"mode Exact called scan_knn {calls} times"
    else if mustFallback then
      match implRows with
      | some (ids, _) =>
        if ids != all then some s!"the exact path returned {ids.length} rows, the fallback's partitions hold {all.length} (partitions opened: {opened})"
        else if !consistent then some "columns of a row do not belong together" else none
      | none => some s!"the exact path failed: {trunc (implErr.getD "?") 120}"
    else if !consistent then some "columns of a row do not belong together" else none
  let tags := ["exec", if mode == .exact then "mode:exact" else "mode:indexed", "provider:" ++ provider,
               match m.path with | .index => "path:index" | .fallback => "path:fallback"]
    ++ (if fallback.length > 1 then ["fallback_parts>1"] else [])
    ++ (match m.result with | .error _ => ["index_err"] | .ok _ => [])
    ++ (if mode == .indexed && provider == "index" && m.path == .fallback then ["overflow_fallback"] else [])
    ++ (if m.path == .index && skip > 0 then ["index_offset"] else [])
  let model := Json.mkObj [("path", Json.str (match m.path with | .index => "index" | .fallback => "fallback")),
    ("rows", match m.result with | .ok bs => Json.arr (bs.flatten.map (fun (x : Int) => Json.num (JsonNumber.fromInt x))).toArray | .error e => Json.str (reprStr e)),
    ("asked", Driver.jNatList m.asked), ("opened", Driver.jNatList m.opened)]
  pure { model, k := kk, oracle, nt := all.length ≥ 2 || m.path == .index, tags }

def handler : Driver.Handler := fun c i => do
  if (i.getObjVal? "panic").toOption.isSome then
    return { model := Json.null, k := false, oracle := some s!"panic: {trunc ((i.getObjValAs? String "panic").toOption.getD "") 160}", nt := true, tags := ["panic"] }
  if (← Driver.getStr c "kind") == "exec" then handleExec c i else handleSql c i

end Driver.C43
