-- FAMILY: C17
import Driver.Util
import IQE.Engine.Iceberg
open Lean IQE.Engine.Iceberg
namespace Driver.C17

def parseOp (j : Json) : Except String HOp := do
  let k ← Driver.getStr j "op"
  if k == "append" then pure (.append (← Driver.asNatList (← Driver.getObj j "files")))
  else if k == "remove" then pure (.remove (← Driver.asNatList (← Driver.getObj j "files")))
  else if k == "rewrite" then pure .rewriteManifests
  else pure .metadataOnly

def creates : HOp → Bool
  | .metadataOnly => false
  | _ => true

def parseEntry (j : Json) : Except String Entry := do
  let uri ← Driver.getStr j "uri"
  pure { status := ← Driver.getNat j "st", content := ← Driver.getNat j "ct", parquet := ← Driver.getBool j "pq",
         uri := if uri == "remote" then .remote else .fileTriple, file := ← Driver.getNat j "file" }

def parseMeta (j : Json) : Except String MetaFile := do
  let snaps ← (← Driver.getArr j "snaps").toList.mapM fun s => do
    let ms ← (← Driver.getArr s "manifests").toList.mapM fun m => do
      let es ← m.getArr?
      es.toList.mapM parseEntry
    pure ({ id := ← Driver.getNat s "id", timestampMs := ← Driver.getNat s "ts", manifests := ms } : SnapRef)
  pure { name := ← Driver.getNat j "name", version := (j.getObjValAs? Nat "version").toOption, lastUpdatedMs := ← Driver.getNat j "ms",
         current := (j.getObjValAs? Nat "current").toOption, snaps := snaps }

def rowsOf (id : Nat) : Nat := 1 + id % 3
def sumOf (id : Nat) : Nat := (List.range (rowsOf id)).foldl (fun a j => a + id * 1000 + j) 0

def errName : Err → String
  | .deleteFiles => "deleteFiles" | .notParquet => "notParquet" | .remoteUri => "remoteUri" | .unknownSnapshot => "unknownSnapshot"
  | .noCurrentSnapshot => "noCurrentSnapshot" | .emptySnapshot => "emptySnapshot" | .noMetadata => "noMetadata" | .hintMissing => "hintMissing"

inductive Out where
  | ok (snap : Nat) (files : List Nat) (n s : Nat)
  | err (kind : String)
deriving BEq, Repr

def Out.toJson : Out → Json
  | .ok sn fs n s => Json.mkObj [("ok", Json.mkObj [("snapshot", sn), ("files", Driver.jNatList fs), ("n", n), ("s", s)])]
  | .err k => Json.mkObj [("err", k)]

def ofFiles (snap : Nat) (fs : List Nat) : Out := .ok snap fs (fs.foldl (fun a f => a + rowsOf f) 0) (fs.foldl (fun a f => a + sumOf f) 0)

/-- index of the metadata file the SPECIFICATION makes current (independent of `pickLatest`): greatest (ms, name) -/
def specCurrent (metas : List MetaFile) : Option Nat :=
  let idx := List.range metas.length
  idx.foldl (fun best i => match best, metas[i]? with
    | none, some _ => some i
    | some b, some m => match metas[b]? with
      | some mb => if m.lastUpdatedMs > mb.lastUpdatedMs || (m.lastUpdatedMs == mb.lastUpdatedMs && m.name > mb.name) then some i else some b
      | none => some i
    | b, none => b) none

def handler : Driver.Handler := fun c i => do
  let ops ← (← Driver.getArr c "ops").toList.mapM parseOp
  let metas ← (← Driver.getArr c "metas").toList.mapM parseMeta
  let hintJ := (c.getObjVal? "hint").toOption.getD Json.null
  let hint : Option Nat := (hintJ.getObjValAs? Nat "v").toOption
  let snapshot : Option Nat := (c.getObjValAs? Nat "snapshot").toOption
  let injJ := (c.getObjVal? "inject").toOption.getD Json.null
  let injKind := (injJ.getObjValAs? String "kind").toOption.getD ""
  let injSnap : Option Nat := (injJ.getObjValAs? Nat "snap").toOption
  -- implementation
  let impl : Out ← match i.getObjVal? "ok" with
    | .ok o => pure (Out.ok (← Driver.getNat o "snapshot") (← Driver.asNatList (← Driver.getObj o "files")) (← Driver.getNat o "n") (← Driver.getNat o "s"))
    | .error _ => match i.getObjValAs? String "err" with
      | .ok k => pure (Out.err k)
      | .error _ => throw "impl is neither ok nor err (harness error / panic)"
  -- model: the reader on the concrete encoding
  let model : Out := match openTable hint metas snapshot with
    | .ok (sn, fs) => ofFiles sn fs
    | .error e => .err (errName e)
  -- specification: which prefix of the history the opened snapshot stands for
  let metaIdx : Option Nat := match hint with
    | some v => if v ≥ 1 && v ≤ metas.length then some (v - 1) else none
    | none => specCurrent metas
  let spec : Option Out :=   -- none = must be refused
    match metaIdx with
    | none => none
    | some p =>
      -- snapshots listed by metadata p: those created by ops 0..p
      let snapOps := (List.range (p + 1)).filter fun j => match ops[j]? with | some o => creates o | none => false
      let chosenOp : Option Nat := match snapshot with
        | some id => snapOps.find? (fun j => 1000 + j * 7 == id)
        | none => snapOps.getLast?
      match chosenOp with
      | none => none
      | some j =>
        if injSnap == some j && (injKind == "delete" || injKind == "format" || injKind == "remote") then none
        else
          let l := sortDedup (live (ops.take (j + 1)))
          if l.isEmpty then none else some (ofFiles (1000 + j * 7) l)
  let o : Option String :=
    match spec, impl with
    | none, .err _ => none
    | none, .ok sn fs _ _ => some s!"must be refused, but snapshot {sn} was served with files {fs}"
    | some (.ok sn fs n s), .ok sn' fs' n' s' =>
      if sn != sn' then some s!"opened snapshot {sn'} instead of {sn}"
      else if fs != fs' then some s!"snapshot {sn}: served files {fs'}, live files are {fs}"
      else if n != n' || s != s' then some s!"snapshot {sn}: SELECT returned n={n'} s={s'}, the live files hold n={n} s={s}"
      else none
    | some _, .err k => some s!"a readable snapshot was refused ({k})"
    | _, _ => none
  -- the harness' writer encodes like the Lean encoder (for the un-injected snapshots)
  let encAgree : Bool := match metas.getLast? with
    | none => true
    | some m => m.snaps.all fun s =>
        let j := (s.id - 1000) / 7
        if injSnap == some j then true
        else (encManifests (fun _ => .fileTriple) (ops.take (j + 1))).map (·.map fun e => (e.status, e.file)) == s.manifests.map (·.map fun e => (e.status, e.file))
  let tags := [match impl with | .ok .. => "served" | .err k => s!"refused-{k}"]
    ++ (if hint.isSome then ["hint"] else ["scan-metadata"]) ++ (if snapshot.isSome then ["time-travel"] else ["current"])
    ++ (if injKind != "" then [s!"inject-{injKind}"] else []) ++ (if !encAgree then ["encoder-mismatch"] else [])
    ++ (if ops.any (fun o => match o with | .remove _ => true | _ => false) then ["has-remove"] else [])
    ++ (if ops.any (fun o => o == .rewriteManifests) then ["has-rewrite"] else [])
    ++ (if (c.getObjValAs? Bool "ml_counts").toOption.getD false then ["mlist:counts"] else ["mlist:v1"])
    ++ (if (c.getObjValAs? Bool "forced_remove_append").toOption.getD false then ["remove-then-append"] else [])
  pure { model := model.toJson, k := (impl == model) && encAgree, oracle := o,
         nt := ops.length ≥ 2 && (match impl with | .ok .. => true | _ => false), tags := tags }

end Driver.C17
