-- FAMILY: C41
import Driver.Util
import IQE.Engine.Dechunk
open Lean IQE.Engine IQE.Engine.Dechunk
namespace Driver.C41

/-- Switches of the findings that are still open in /repo (`known_findings.json`): the model the
    correspondence K is run against.  C41-F1..F3 were repaired by /repo commit 9d62852 (`fix: dechunk …`),
    so no switch is on any more; a case that now shows one of the old behaviours is a VIOLATION. -/
def current : Dev := Dev.fixed

/-- finding id ↦ the single switch that must explain a failing case completely -/
def findings : List (String × Dev) :=
  [("C41-F1", { extInSize := true }), ("C41-F2", { uncheckedAdd := true }), ("C41-F3", { skipDataCrlf := true })]

inductive Obs where
  | some (b : List UInt8) | none | panic | sock (s : String)
deriving BEq, Repr

def Obs.ofOutcome : Outcome → Obs
  | .some b => .some b
  | .none => .none
  | .panic => .panic

def Obs.toJson : Obs → Json
  | .some b => Json.mkObj [("some", Driver.jBytes b)]
  | .none => Json.mkObj [("none", true)]
  | .panic => Json.mkObj [("panic", true)]
  | .sock s => Json.mkObj [("sock", s)]

def Obs.kind : Obs → String
  | .some _ => "out:some" | .none => "out:none" | .panic => "out:panic" | .sock s => "out:sock-" ++ (s.takeWhile (· != ':'))

def parseImpl (i : Json) : Except String Obs :=
  match i.getObjVal? "some" with
  | .ok b => do pure (.some (← Driver.asBytes b))
  | .error _ =>
    match i.getObjVal? "none", i.getObjVal? "panic", i.getObjVal? "sock" with
    | .ok _, _, _ => pure .none
    | _, .ok _, _ => pure .panic
    | _, _, .ok s => do pure (.sock (← s.getStr?))
    | _, _, _ => throw "unrecognised impl output"

def isPrefix : List UInt8 → List UInt8 → Bool
  | [], _ => true
  | _, [] => false
  | a :: as, b :: bs => a == b && isPrefix as bs

/-- what the caller of `http_get` sees (`GravitinoSource::catalog_type`), given what `dechunk` returns -/
def sockView (body : List UInt8) (ty : String) : Outcome → Option Obs
  | .none => some (.sock "err:chunked")
  | .panic => some .panic
  | .some b => if b == body then some (.sock s!"ok:{ty}")
               else if isPrefix b body then some (.sock "err:json")   -- a proper prefix of a JSON object is never JSON
               else none

/-- the property predicate on an observed output; `none` = holds -/
def oracle (kind : String) (expect : Option (List UInt8)) (sockOk : String) : Obs → Option String
  | .panic => some "the decoder panicked"
  | o =>
    if kind == "junk" then none
    else if kind == "sock" then
      match expect, o with
      | some _, .sock s => if s == sockOk then none else some s!"well-formed chunked response not decoded ({s})"
      | none, .sock s => if s == "err:chunked" then none else some s!"malformed framing not rejected by the decoder ({s})"
      | _, _ => some "unexpected output shape"
    else
      match expect, o with
      | some b, .some b' => if b == b' then none else some "decoded bytes differ from the encoded body"
      | some _, .none => some "well-formed chunked body rejected"
      | none, .none => none
      | none, .some _ => some "malformed framing accepted"
      | _, _ => some "unexpected output shape"

def handler : Driver.Handler := fun c i => do
  let kind ← Driver.getStr c "kind"
  let raw ← Driver.asBytes (← Driver.getObj c "raw")
  let imp ← parseImpl i
  let isSock := kind == "sock"
  let body : List UInt8 ← (match c.getObjVal? "body" with
    | .ok b => Driver.asBytes b
    | .error _ => pure [])
  let ty := (c.getObjValAs? String "ty").toOption.getD ""
  let expectSome : Bool :=
    kind == "enc" || (isSock && (c.getObjValAs? String "expect").toOption == some "some")
  let expect : Option (List UInt8) := if expectSome then some body else none
  let view (d : Dev) : Option Obs :=
    let o := dechunk d raw
    if isSock then sockView body ty o else some (Obs.ofOutcome o)
  let sockOk := s!"ok:{ty}"
  let m := view current
  let k := m == some imp
  let o := oracle kind expect sockOk imp
  -- attribution: exactly one listed switch reproduces the implementation's output, and the intended
  -- algorithm (all switches off) satisfies the oracle on this case
  let attr : Option String :=
    if o.isNone && k then none
    else
      match view Dev.fixed with
      | some f =>
        if (oracle kind expect sockOk f).isSome then none
        else (findings.find? (fun (_, d) => view d == some imp)).map (·.1)
      | none => none
  let cls := (c.getObjValAs? String "class").toOption
  let ext := (c.getObjValAs? Bool "ext").toOption.getD false
  let nchunks := (c.getObjValAs? Nat "chunks").toOption.getD 0
  let tags := [kind, imp.kind] ++ (match cls with | some s => [s!"{kind}:{s}"] | none => []) ++ (if ext then ["ext"] else [])
  pure { model := (match m with | some x => x.toJson | none => Json.null), k := k, oracle := o,
         nt := (kind == "enc" && nchunks ≥ 2) || kind == "bad" || isSock || (kind == "junk" && imp != .none),
         tags := tags, attr := attr }

end Driver.C41
