/-
  Driver.PlanJson — decoder of the plan exporter's JSON (harness/src/planexport.rs) into IQE.Engine.PlanWf.Plan.

  The exporter walks the PUBLIC `LogicalPlan` / `Expr` enums of query_engine and renders them structurally;
  nothing is interpreted on the Rust side.

  Field   : {"n":name, "r":qualifier|null, "t":type, "nullable":bool}
            type: i64 i32 i16 i8 u64 u32 f64 f32 str date bool null  fsl<T,n>  list<T>  | Debug text of other Arrow types
  Schema  : [Field…]
  Lit     : {"t":type, "v": null | {"b":bool} | {"i":int} | {"f":u64 bits of the f64} | {"s":string} | {"d":days}
                              | {"list":[Lit…]} | {"other":text}}
  Expr    : {"col":[qualifier|null, name]}
            {"lit":Lit}
            {"bin":[op,E,E]}          op: add sub mul div mod eq ne lt le gt ge and or like notlike concat
            {"un":[op,E]}             op: not neg isnull isnotnull
            {"agg":{"f":NAME,"args":[E…],"distinct":bool}}       NAME = Display of AggregateFunction (COUNT, SUM, …)
            {"fn":{"f":Name,"args":[E…]}}                        Name = Debug of ScalarFunction (L2Distance, Abs, …)
            {"cast":[E,type]}
            {"case":{"operand":E|null,"wt":[[E,E]…],"else":E|null}}
            {"inlist":[E,[E…],negated]}   {"between":[E,lo,hi,negated]}
            {"scalar_sub":Plan}   {"exists":[Plan,negated]}   {"insub":[E,Plan,negated]}
            {"alias":[E,name]}
            {"window":{"fn":name,"args":[E…],"partition":[E…],"order":[Sort…],"frame":{…}}}
            "wildcard"   {"qwild":qualifier}
  Sort    : {"e":E,"desc":bool,"nf":bool}                      nf = NULLS FIRST
  Plan    : {"k":"scan","table":name,"schema":Schema,"proj":[idx…]|null,"filter":E|null}
            {"k":"filter","pred":E,"in":Plan}
            {"k":"project","exprs":[E…],"schema":Schema,"in":Plan}
            {"k":"join","jt":JT,"on":[[E,E]…],"filter":E|null,"schema":Schema,"l":Plan,"r":Plan}
                                      JT: inner left right full semi anti cross single mark
            {"k":"agg","group":[E…],"aggs":[E…],"schema":Schema,"in":Plan}
            {"k":"window","wexprs":[{"name":n,"w":Window}…],"schema":Schema,"in":Plan}
            {"k":"sort","keys":[Sort…],"in":Plan}
            {"k":"limit","skip":n,"fetch":n|null,"in":Plan}
            {"k":"distinct","in":Plan}
            {"k":"union","all":bool,"schema":Schema,"ins":[Plan…]}
            {"k":"alias","alias":name,"cte":name|null,"schema":Schema,"in":Plan}
            {"k":"empty","one_row":bool,"schema":Schema}
            {"k":"values","rows":[[E…]…],"schema":Schema}
            {"k":"delimjoin","jt":JT,"delim":[E…],"on":[[E,E]…],"schema":Schema,"l":Plan,"r":Plan}
            {"k":"delimget","cols":[E…],"schema":Schema,"id":n}
            {"k":"vsearch","table":t,"column":c,"qlen":n,"query":[f64 bits of each f32…],"kk":k,"skip":n,"metric":"l2"|"cosine"|"dot",
             "filter":E|null,"outputs":[[column,Field]…],"sort_key":Sort,"schema":Schema,"in":Plan}
  A plan that could not be produced is {"err":kind,"msg":text}.

  Decoding into the model (IQE.Engine.PlanWf): scalar constructs become `op kind tag args`
    bin → op "bin" <op> [a,b];  un → op "un" <op> [e];  agg → op "agg" <NAME>[":distinct"] args;  fn → op "fn" <Name> args
    cast → op "cast" <type> [e];  case → op "case" "o<0|1>:w<n>:e<0|1>" ([operand]? ++ w₁,t₁,… ++ [else]?)
    inlist → op "inlist" <"not"|""> (e :: items);  between → op "between" <"not"|""> [e,lo,hi]
    window → op "window" <fn> (args ++ partition ++ order keys)
  subqueries → sub "scalar"|"exists"|"in" neg args plan.
-/
import Lean.Data.Json
import IQE.Engine.PlanWf
open Lean IQE.Engine.PlanWf

namespace Driver.PlanJson

def optStr (j : Json) : Option String := match j with | .str s => some s | _ => none

def fieldOfJson (j : Json) : Except String Field := do
  let n ← j.getObjValAs? String "n"
  let r := match j.getObjVal? "r" with | .ok x => optStr x | .error _ => none
  let t := (j.getObjValAs? String "t").toOption.getD "?"
  pure { name := n, rel := r, ty := t }

def schemaOfJson (j : Json) : Except String Schema := do (← j.getArr?).toList.mapM fieldOfJson

def jtOf : String → Except String JT
  | "inner" => pure .inner | "left" => pure .left | "right" => pure .right | "full" => pure .full
  | "semi" => pure .semi | "anti" => pure .anti | "cross" => pure .cross | "single" => pure .single | "mark" => pure .mark
  | s => throw s!"bad join type {s}"

partial def litOfJson (j : Json) : Except String (String × Lit) := do
  let t := (j.getObjValAs? String "t").toOption.getD "?"
  let v := (j.getObjVal? "v").toOption.getD Json.null
  if v.isNull then return (t, .null)
  if let .ok b := v.getObjValAs? Bool "b" then return (t, .bool b)
  if let .ok i := v.getObjValAs? Int "i" then return (t, .int i)
  if let .ok n := v.getObjValAs? Nat "f" then return (t, .f64 n)
  if let .ok s := v.getObjValAs? String "s" then return (t, .str s)
  if let .ok d := v.getObjValAs? Int "d" then return (t, .date d)
  if let .ok a := v.getObjValAs? (Array Json) "list" then
    let items ← a.toList.mapM litOfJson
    let floats := items.filterMap (fun (_, l) => match l with | .f64 b => some b | .int i => some (Float.ofInt i).toBits.toNat | _ => none)
    if floats.length == items.length then return (t, .vec floats) else return (t, .other "list")
  if let .ok s := v.getObjValAs? String "other" then return (t, .other s)
  return (t, .other v.compress)

def idx (a : Array Json) (i : Nat) : Except String Json :=
  match a[i]? with | some j => pure j | none => throw "array too short"

mutual
partial def exprOfJson (j : Json) : Except String PExpr := do
  let list (x : Json) : Except String (List PExpr) := do (← x.getArr?).toList.mapM exprOfJson
  let opt (x : Json) : Except String (List PExpr) := do if x.isNull then pure [] else pure [← exprOfJson x]
  if let .str "wildcard" := j then return .star none
  if let .ok r := j.getObjValAs? String "qwild" then return .star (some r)
  if let .ok a := j.getObjValAs? (Array Json) "col" then return .col (optStr (← idx a 0)) (← (← idx a 1).getStr?)
  if let .ok l := j.getObjVal? "lit" then let (t, v) ← litOfJson l; return .lit t v
  if let .ok a := j.getObjValAs? (Array Json) "bin" then
    return .op "bin" (← (← idx a 0).getStr?) [← exprOfJson (← idx a 1), ← exprOfJson (← idx a 2)]
  if let .ok a := j.getObjValAs? (Array Json) "un" then return .op "un" (← (← idx a 0).getStr?) [← exprOfJson (← idx a 1)]
  if let .ok o := j.getObjVal? "agg" then
    let f ← o.getObjValAs? String "f"
    let d := (o.getObjValAs? Bool "distinct").toOption.getD false
    return .op "agg" (if d then f ++ ":distinct" else f) (← list (← o.getObjVal? "args"))
  if let .ok o := j.getObjVal? "fn" then return .op "fn" (← o.getObjValAs? String "f") (← list (← o.getObjVal? "args"))
  if let .ok a := j.getObjValAs? (Array Json) "cast" then return .op "cast" (← (← idx a 1).getStr?) [← exprOfJson (← idx a 0)]
  if let .ok o := j.getObjVal? "case" then
    let operand ← opt ((o.getObjVal? "operand").toOption.getD Json.null)
    let els ← opt ((o.getObjVal? "else").toOption.getD Json.null)
    let wt ← (← o.getObjValAs? (Array Json) "wt").toList.mapM (fun p => do
      let a ← p.getArr?
      pure [← exprOfJson (← idx a 0), ← exprOfJson (← idx a 1)])
    return .op "case" s!"o{operand.length}:w{wt.length}:e{els.length}" (operand ++ wt.flatten ++ els)
  if let .ok a := j.getObjValAs? (Array Json) "inlist" then
    let neg ← (← idx a 2).getBool?
    return .op "inlist" (if neg then "not" else "") ((← exprOfJson (← idx a 0)) :: (← list (← idx a 1)))
  if let .ok a := j.getObjValAs? (Array Json) "between" then
    let neg ← (← idx a 3).getBool?
    return .op "between" (if neg then "not" else "") [← exprOfJson (← idx a 0), ← exprOfJson (← idx a 1), ← exprOfJson (← idx a 2)]
  if let .ok p := j.getObjVal? "scalar_sub" then return .sub "scalar" false [] (← planOfJson p)
  if let .ok a := j.getObjValAs? (Array Json) "exists" then return .sub "exists" (← (← idx a 1).getBool?) [] (← planOfJson (← idx a 0))
  if let .ok a := j.getObjValAs? (Array Json) "insub" then
    return .sub "in" (← (← idx a 2).getBool?) [← exprOfJson (← idx a 0)] (← planOfJson (← idx a 1))
  if let .ok a := j.getObjValAs? (Array Json) "alias" then return .alias (← exprOfJson (← idx a 0)) (← (← idx a 1).getStr?)
  if let .ok w := j.getObjVal? "window" then return (← windowOfJson w)
  throw s!"bad plan expression {j.compress.take 120}"

partial def windowOfJson (w : Json) : Except String PExpr := do
  let list (x : Json) : Except String (List PExpr) := do (← x.getArr?).toList.mapM exprOfJson
  let order ← (← w.getObjValAs? (Array Json) "order").toList.mapM (fun s => do exprOfJson (← s.getObjVal? "e"))
  pure (.op "window" (← w.getObjValAs? String "fn") ((← list (← w.getObjVal? "args")) ++ (← list (← w.getObjVal? "partition")) ++ order))

partial def planOfJson (j : Json) : Except String Plan := do
  let list (x : Json) : Except String (List PExpr) := do (← x.getArr?).toList.mapM exprOfJson
  let opt (x : Json) : Except String (List PExpr) := do if x.isNull then pure [] else pure [← exprOfJson x]
  let field (k : String) : Except String Json := j.getObjVal? k
  let optField (k : String) : Json := (j.getObjVal? k).toOption.getD Json.null
  let schema : Except String Schema := do schemaOfJson (← field "schema")
  let pairs (x : Json) : Except String (List PExpr × List PExpr) := do
    let ps ← (← x.getArr?).toList.mapM (fun p => do
      let a ← p.getArr?
      pure (← exprOfJson (← idx a 0), ← exprOfJson (← idx a 1)))
    pure (ps.map (·.1), ps.map (·.2))
  let sortKeys (x : Json) : Except String (List PExpr × List (Bool × Bool)) := do
    let ks ← (← x.getArr?).toList.mapM (fun s => do
      pure (← exprOfJson (← s.getObjVal? "e"), ((s.getObjValAs? Bool "desc").toOption.getD false, (s.getObjValAs? Bool "nf").toOption.getD false)))
    pure (ks.map (·.1), ks.map (·.2))
  let k ← j.getObjValAs? String "k"
  match k with
  | "scan" =>
    let proj := match (optField "proj").getArr? with
      | .ok a => some (a.toList.filterMap (fun x => x.getNat?.toOption))
      | .error _ => none
    pure (.scan (← j.getObjValAs? String "table") (← schema) proj (← opt (optField "filter")))
  | "filter" => pure (.filter (← exprOfJson (← field "pred")) (← planOfJson (← field "in")))
  | "project" => pure (.project (← list (← field "exprs")) (← schema) (← planOfJson (← field "in")))
  | "join" =>
    let (l, r) ← pairs (← field "on")
    pure (.join (← jtOf (← j.getObjValAs? String "jt")) l r (← opt (optField "filter")) (← schema) (← planOfJson (← field "l")) (← planOfJson (← field "r")))
  | "agg" => pure (.agg (← list (← field "group")) (← list (← field "aggs")) (← schema) (← planOfJson (← field "in")))
  | "window" =>
    let ws ← (← j.getObjValAs? (Array Json) "wexprs").toList.mapM (fun w => do
      pure (← w.getObjValAs? String "name", ← windowOfJson (← w.getObjVal? "w")))
    pure (.window (ws.map (·.1)) (ws.map (·.2)) (← schema) (← planOfJson (← field "in")))
  | "sort" =>
    let (es, fl) ← sortKeys (← field "keys")
    pure (.sort es fl (← planOfJson (← field "in")))
  | "limit" =>
    let f := match (optField "fetch").getNat? with | .ok n => some n | .error _ => none
    pure (.limit (← j.getObjValAs? Nat "skip") f (← planOfJson (← field "in")))
  | "distinct" => pure (.distinct (← planOfJson (← field "in")))
  | "union" =>
    pure (.union (← j.getObjValAs? Bool "all") (← schema) (← (← j.getObjValAs? (Array Json) "ins").toList.mapM planOfJson))
  | "alias" => pure (.alias (← j.getObjValAs? String "alias") (optStr (optField "cte")) (← schema) (← planOfJson (← field "in")))
  | "empty" => pure (.empty (← j.getObjValAs? Bool "one_row") (← schema))
  | "values" =>
    let rows ← (← j.getObjValAs? (Array Json) "rows").toList.mapM list
    let s ← schema
    pure (.values rows.flatten s.length s)
  | "delimjoin" =>
    let (l, r) ← pairs (← field "on")
    pure (.delimJoin (← jtOf (← j.getObjValAs? String "jt")) (← list (← field "delim")) l r (← schema) (← planOfJson (← field "l")) (← planOfJson (← field "r")))
  | "delimget" => pure (.delimGet (← list (← field "cols")) (← schema) (← j.getObjValAs? Nat "id"))
  | "vsearch" =>
    let sk ← field "sort_key"
    let outs ← (← j.getObjValAs? (Array Json) "outputs").toList.mapM (fun o => do
      let a ← o.getArr?
      pure (← (← idx a 0).getStr?, ← fieldOfJson (← idx a 1)))
    let q := ((optField "query").getArr?.toOption.getD #[]).toList.filterMap (fun x => x.getNat?.toOption)
    let info : VsInfo := { table := ← j.getObjValAs? String "table", column := ← j.getObjValAs? String "column", query := q,
                           k := ← j.getObjValAs? Nat "kk", skip := ← j.getObjValAs? Nat "skip", metric := ← j.getObjValAs? String "metric", outputs := outs }
    pure (.vsearch info (← opt (optField "filter")) (← exprOfJson (← sk.getObjVal? "e")) ((sk.getObjValAs? Bool "desc").toOption.getD false)
            ((sk.getObjValAs? Bool "nf").toOption.getD false) (← schema) (← planOfJson (← field "in")))
  | other => throw s!"bad plan node kind {other}"
end

/-- a plan, or the error the engine returned instead of one -/
def planOrErr (j : Json) : Except String (Except String Plan) := do
  match j.getObjValAs? String "err" with
  | .ok kind => pure (.error (kind ++ ": " ++ (j.getObjValAs? String "msg").toOption.getD ""))
  | .error _ => pure (.ok (← planOfJson j))

end Driver.PlanJson
