-- FAMILY: C42
import Driver.Util
import IQE.Engine.CpuList
open Lean IQE.Engine
namespace Driver.C42

/-- Oracle for `parse_cpulist` on the *implementation's* output, given the generator's
    intended set (when the case is a rendering of a known set): output must be
    strictly sorted and equal the denoted set. For junk inputs only sortedness is judged
    (plus K against the model). -/
def strictlySorted : List Nat → Bool
  | a :: b :: rest => a < b && strictlySorted (b :: rest)
  | _ => true

def handler : Driver.Handler := fun c i => do
  let kind ← Driver.getStr c "kind"
  if kind == "cpulist" then
    let s ← Driver.getStr c "s"
    let implOut ← Driver.asNatList (← Driver.getObj i "out")
    let m := CpuList.parse s.toList
    let denotes : Option (List Nat) :=
      match c.getObjVal? "denotes" with
      | .ok d => (Driver.asNatList d).toOption
      | .error _ => none
    let o : Option String :=
      if !strictlySorted implOut then some "output not strictly sorted"
      else match denotes with
        | some d => if implOut == d then none else some "output differs from the denoted set"
        | none => none
    pure { model := Driver.jNatList m, k := (m == implOut), oracle := o,
           nt := implOut.length ≥ 2, tags := [if denotes.isSome then "rendered" else "junk"] }
  else if kind == "workers" then
    let w ← Driver.getNat c "work"
    let p ← Driver.getNat c "pool"
    let implOut ← Driver.getNat i "out"
    let m := CpuList.workersFor w p
    let o : Option String :=
      if implOut < 1 then some "fan-out below one worker"
      else if implOut > Nat.max p 1 then some "fan-out exceeds the pool"
      else if implOut > Nat.max w 1 then some "fan-out exceeds the work"
      else none
    pure { model := Json.num (JsonNumber.fromNat m), k := (m == implOut), oracle := o, nt := w ≥ 1 && p ≥ 1, tags := ["workers"] }
  else throw s!"unknown kind {kind}"

end Driver.C42
