-- FAMILY: C31
import Driver.Util
import Driver.PlanJson
import IQE.Engine.PlanWf
import IQE.Engine.PlanQual
open Lean IQE.Engine IQE.Engine.PlanWf
namespace Driver.C31

def trunc (s : String) (n : Nat) : String := String.ofList (s.toList.take n)

/-- first ill-formed spot of a plan, for the failure message (the checker itself is `PlanWf.wf`) -/
def describe (p : Plan) : String :=
  let root := match p with
    | .scan t _ _ _ => s!"Scan {t}" | .filter _ _ => "Filter" | .project _ _ _ => "Project" | .join _ _ _ _ _ _ _ => "Join"
    | .agg _ _ _ _ => "Aggregate" | .window _ _ _ _ => "Window" | .sort _ _ _ => "Sort" | .limit _ _ _ => "Limit"
    | .distinct _ => "Distinct" | .union _ _ _ => "Union" | .alias n _ _ _ => s!"SubqueryAlias {n}" | .empty _ _ => "EmptyRelation"
    | .values _ _ _ => "Values" | .delimJoin _ _ _ _ _ _ _ => "DelimJoin" | .delimGet _ _ _ => "DelimGet" | .vsearch _ _ _ _ _ _ _ => "VectorSearch"
  s!"root {root}, reported schema {(schemaOf p).map (·.qname)}"

/-- unresolved column references of an expression list in the given scopes (diagnostics only) -/
partial def unresolved (scopes : List Schema) : List PExpr → List String
  | [] => []
  | e :: es =>
    (match e with
     | .col rel name => if scopes.any (fun s => (resolve s rel name).isSome) then [] else [s!"{rel.getD ""}.{name}"]
     | .op _ _ args => unresolved scopes args
     | .alias e' _ => unresolved scopes [e']
     | .sub _ _ args _ => unresolved scopes args
     | _ => []) ++ unresolved scopes es

/-- where the checker's local conditions fail (diagnostics only; the verdict is `PlanWf.wf`) -/
partial def diag (outer : List Schema) (p : Plan) : List String :=
  let sch (q : Plan) := (outSchema q).map (·.qname)
  match p with
  | .scan t s proj filter =>
    let ps := match proj with | some idx => projectSchema s idx | none => s
    let u := unresolved (ps :: outer) filter
    (if u.isEmpty then [] else [s!"Scan {t} (projection {proj}): filter references {u}, scan emits {ps.map (·.qname)}"])
  | .filter pred i => diag outer i ++ (let u := unresolved (outSchema i :: outer) [pred]; if u.isEmpty then [] else [s!"Filter: {u} not in {sch i}"])
  | .project exprs s i => diag outer i ++ (let u := unresolved (outSchema i :: outer) exprs; if u.isEmpty then [] else [s!"Project: {u} not in {sch i}"])
      ++ (if exprs.length != s.length then [s!"Project: {exprs.length} expressions, schema of {s.length}"] else [])
  | .join jt onL onR filter _ l r => diag outer l ++ diag outer r
      ++ (let u := unresolved (outSchema l :: outer) onL; if u.isEmpty then [] else [s!"Join {repr jt}: left keys {u} not in {sch l}"])
      ++ (let u := unresolved (outSchema r :: outer) onR; if u.isEmpty then [] else [s!"Join {repr jt}: right keys {u} not in {sch r}"])
      ++ (let u := unresolved ((outSchema l ++ outSchema r) :: outer) filter; if u.isEmpty then [] else [s!"Join filter: {u} not in {sch l ++ sch r}"])
  | .agg group aggs s i => diag outer i ++ (let u := unresolved (outSchema i :: outer) (group ++ aggs); if u.isEmpty then [] else [s!"Aggregate: {u} not in {sch i}"])
      ++ (if group.length + aggs.length != s.length then [s!"Aggregate: {group.length}+{aggs.length} outputs, schema of {s.length}"] else [])
  | .window _ w s i => diag outer i ++ (let u := unresolved (outSchema i :: outer) w; if u.isEmpty then [] else [s!"Window: {u} not in {sch i}"])
      ++ (if (outSchema i).length + w.length != s.length then [s!"Window: arity"] else [])
  | .sort keys _ i => diag outer i ++ (let u := unresolved (outSchema i :: outer) keys; if u.isEmpty then [] else [s!"Sort: {u} not in {sch i}"])
  | .limit _ _ i => diag outer i
  | .distinct i => diag outer i
  | .union _ s inputs => inputs.flatMap (diag outer) ++ (inputs.filterMap fun q => if (outSchema q).length != s.length then some s!"Union: input emits {(outSchema q).length} columns, union has {s.length}" else none)
  | .alias _ _ _ i => diag outer i
  | .delimJoin _ _ _ _ _ l r => diag outer l ++ diag outer r
  | .vsearch _ _ _ _ _ s i => diag outer i ++ (if (outSchema i).length != s.length then ["VectorSearch: arity"] else [])
  | _ => []

structure Judged where
  fail : Option String := none     -- property violated by this (before, after) pair
  tags : List String := []
  wfAfter : Option Bool := none

/-- where the offending qualified references sit and what they read instead (diagnostics only; the verdict is `PlanWf.noNewBad`) -/
partial def qdiag (outer : List QScope) (p : Plan) : List String :=
  let rep (what : String) (sc : QScope) (es : List PExpr) : List String :=
    let u := badEs (sc :: outer) es
    if u.isEmpty then [] else
      let reads := u.map fun x => match x.splitOn "." with
        | [r, n] => ((firstScope (sc :: outer) r n).bind (fun (s : QScope) => (resolve s.1 (some r) n).bind (fun i => (s.1[i]?).map Field.qname)) : Option String)
        | _ => none
      [s!"{what}: {u} read {reads} of the input {sc.1.map (·.qname)}"]
  match p with
  | .scan t s proj filter => let ps := (match proj with | some idx => projectSchema s idx | none => s); rep s!"Scan {t} filter" (ps, ps) filter
  | .filter pred i => qdiag outer i ++ rep "Filter" (qscope i) [pred]
  | .project exprs _ i => qdiag outer i ++ rep "Project" (qscope i) exprs
  | .join jt onL onR filter _ l r => qdiag outer l ++ qdiag outer r ++ rep s!"Join {repr jt} left keys" (qscope l) onL
      ++ rep s!"Join {repr jt} right keys" (qscope r) onR ++ rep s!"Join {repr jt} filter" (outSchema l ++ outSchema r, logSchema l ++ logSchema r) filter
  | .agg group aggs _ i => qdiag outer i ++ rep "Aggregate" (qscope i) (group ++ aggs)
  | .window _ w _ i => qdiag outer i ++ rep "Window" (qscope i) w
  | .sort keys _ i => qdiag outer i ++ rep "Sort" (qscope i) keys
  | .limit _ _ i => qdiag outer i
  | .distinct i => qdiag outer i
  | .union _ _ inputs => inputs.flatMap (qdiag outer)
  | .alias _ _ _ i => qdiag outer i
  | .delimJoin _ delim onL onR _ l r => qdiag outer l ++ qdiag outer r ++ rep "DelimJoin left keys" (qscope l) (delim ++ onL) ++ rep "DelimJoin right keys" (qscope r) onR
  | .vsearch _ _ sortKey _ _ _ i => qdiag outer i ++ rep "VectorSearch" (qscope i) [sortKey]
  | _ => []

/-- one rule application: `after` must exist, be well-formed and keep the reported schema -/
def judge (label : String) (before : Plan) (after : Json) : Except String (Judged × Option Plan) := do
  if let .str "same" := after then return ({ tags := [label ++ ":same"] }, some before)
  match ← PlanJson.planOrErr after with
  | .error e => pure ({ fail := some s!"{label}: the rule failed on a valid plan: {trunc e 160}", tags := [label ++ ":err"] }, none)
  | .ok a =>
    let w := wf a
    let p := preserved before a
    -- the qualifier check: the rule introduces no qualified reference that reads another relation's column
    let q := noNewBad before a
    let f := if w && !q then some s!"{label}: the returned plan evaluates a qualified column reference against an input that has no column of that qualified name (the executor silently falls back to another relation's column of the same bare name): {(qdiag [] a).take 2}"
             else if !w then some s!"{label}: the returned plan is not well-formed (a column reference does not resolve in its input, or an arity does not match): {(diag [] a).take 2}; {describe a}"
             else if !p then some s!"{label}: output schema changed from {nameTy (schemaOf before)} to {nameTy (schemaOf a)}"
             else none
    pure ({ fail := f, tags := [label ++ ":changed"], wfAfter := some w }, some a)

def ruleTag (r : String) : String := "r:" ++ r

def handler : Driver.Handler := fun c i => do
  let layout := (Driver.getStr c "layout").toOption.getD "?"
  let src := (Driver.getStr c "src").toOption.getD "?"
  let caseTags := match c.getObjValAs? (Array Json) "tags" with | .ok a => a.toList.filterMap (fun (j : Json) => j.getStr?.toOption) | .error _ => []
  let baseTags := ["layout_" ++ layout, "src_" ++ src] ++ caseTags.filter (fun t => t.startsWith "s:" || t.startsWith "shape:" || t.startsWith "f:side_" || t.startsWith "f:from_")
  if let .ok e := i.getObjValAs? String "harness_err" then throw s!"harness: {e}"
  if let .ok m := i.getObjValAs? String "panic" then throw s!"harness panic: {m}"
  match ← PlanJson.planOrErr (← Driver.getObj i "bound") with
  | .error e =>
    -- the statement does not bind: no valid plan, nothing to judge
    return { model := Json.mkObj [("unbound", Json.str (trunc e 120))], k := true, nt := false, tags := baseTags ++ ["unbound"] }
  | .ok bound =>
    let wfB := wf bound
    if !wfB then
      -- the binder's own plan does not pass the checker: not a rule's fault; reported as a correspondence problem of the wf model
      return { model := Json.mkObj [("bound_wf", false), ("bound", describe bound)], k := false, nt := false, tags := baseTags ++ ["bound_not_wf"] }
    let mut fails : List String := []
    let mut tags : List String := baseTags ++ (if qualP bound then [] else ["bound_misqualified"])
    let mut modelItems : List (String × Json) := []
    let mut planOf : List (String × Plan) := [("bound", bound)]
    -- each rule alone on the bound plan
    for a in (← Driver.getArr i "alone").toList do
      let r ← Driver.getStr a "rule"
      let (j, p) ← judge s!"alone {r}" bound (← Driver.getObj a "after")
      if let some f := j.fail then fails := fails ++ [f]
      if j.tags.any (·.endsWith ":changed") then tags := tags ++ [ruleTag r ++ ":alone_fired"]
      if let some pl := p then planOf := planOf ++ [("alone:" ++ r, pl)]
      modelItems := modelItems ++ [("alone:" ++ r, match j.wfAfter with | some w => Json.bool w | none => Json.null)]
    -- the production fixpoint step by step
    let mut cur := bound
    let mut nsteps := 0
    for st in (← Driver.getArr i "steps").toList do
      let r ← Driver.getStr st "rule"
      let it := (Driver.getNat st "iter").toOption.getD 0
      let (j, p) ← judge s!"step {r} (iteration {it})" cur (← Driver.getObj st "after")
      if let some f := j.fail then fails := fails ++ [f]
      tags := tags ++ [ruleTag r ++ ":step_fired"]
      nsteps := nsteps + 1
      match p with
      | some pl => cur := pl
      | none => pure ()
    -- the production optimizer as a whole
    let (jf, pf) ← judge "production optimizer" bound (← Driver.getObj i "final")
    if let some f := jf.fail then fails := fails ++ [f]
    if let some pl := pf then planOf := planOf ++ [("final", pl)]
    let traceAgrees := (Driver.getBool i "trace_agrees").toOption.getD false
    -- K: what the wf model predicts about running the plans against what happened.  The baseline is the bound plan's own run:
    -- when the UNOPTIMIZED plan already fails with ColumnNotFound the defect is in the binder / an operator, not in a rule,
    -- and the case says nothing about the rules (tag `bound_run_cnf`).
    let runs := (← Driver.getArr i "runs").toList
    let boundCnf := runs.any (fun run => (Driver.getStr run "of").toOption == some "bound" &&
      ((Driver.getObj run "out").toOption.bind (fun o => (o.getObjValAs? String "err").toOption)) == some "column_not_found")
    let mut kOk := true
    let mut kNotes : List Json := []
    for run in runs do
      let which ← Driver.getStr run "of"
      let out ← Driver.getObj run "out"
      match planOf.lookup which with
      | none => pure ()
      | some pl =>
        let errKind := (out.getObjValAs? String "err").toOption
        let cnf := errKind == some "column_not_found"
        if cnf && wf pl && !boundCnf then
          kOk := false
          kNotes := kNotes ++ [Json.mkObj [("run", which), ("problem", "ColumnNotFound at run time although the checker accepts the plan and the unoptimized plan runs")]]
        if let .ok w := out.getObjValAs? Nat "width" then
          if w != (outSchema pl).length then
            kOk := false
            kNotes := kNotes ++ [Json.mkObj [("run", which), ("problem", s!"result has {w} columns, the model's output schema {(outSchema pl).length}")]]
        tags := tags ++ [match errKind with | some k => s!"run_err:{k}" | none => if (out.getObjVal? "panic").toOption.isSome then "run_panic" else "run_ok"]
    if boundCnf then tags := tags ++ ["bound_run_cnf"]
    let changedAny := tags.any (fun t => t.endsWith ":alone_fired" || t.endsWith ":step_fired")
    let model := Json.mkObj ([("bound_wf", Json.bool true), ("steps", Json.num (JsonNumber.fromNat nsteps)), ("trace_agrees", Json.bool traceAgrees), ("k_notes", Json.arr kNotes.toArray)] ++ modelItems)
    pure { model := model, k := kOk, oracle := fails.head?, nt := changedAny,
           tags := tags.eraseDups ++ (if traceAgrees then [] else ["trace_differs"]) }

end Driver.C31
