-- FAMILY: C05
import Driver.Util
import Driver.SqlJson
import Driver.FloatRt
import IQE.Engine.Pruning
import IQE.Engine.Filter
import IQE.Core.Utf8
open Lean IQE IQE.Spec IQE.Engine IQE.Engine.Pruning
namespace Driver.C05

/-
  case : {"cols":[{"ty","stats"}…], "rgs":[[[Val…]…]…], "preds":[E…]}       E = SqlJson + {"lit":{"i32":k}}
  impl : {"meta":[[STAT|null…]…], "preds":[{"keep":[i…],"might":[b…],"def":[b…],"mask":[OUT…]}…]}   (see harness/src/fam_c05.rs)
  K      : might / def / keep = IQE.Engine.Pruning on the statistics read back from the file (switches of the unchanged tree);
           mask = IQE.Engine.Filter on the case's rows (the decoded row group is the written one) = `Pruning.sem` (the
           reference semantics the C05 theorems are stated over) on every predicate inside the fragment
  oracle : on the implementation's own outputs — a row group outside `keep` has no row whose mask is TRUE; a row group with
           `def` has only rows whose mask is TRUE; `keep` = the row groups with `might`
-/

def genOp : Spec.BinOp → BinaryOp
  | .add => .Add | .sub => .Subtract | .mul => .Multiply | .div => .Divide | .mod => .Modulo
  | .eq => .Eq | .ne => .NotEq | .lt => .Lt | .le => .LtEq | .gt => .Gt | .ge => .GtEq
  | .and => .And | .or => .Or | .like => .Like | .notLike => .NotLike | .concat => .StringConcat

def litOfJson (v : Json) : Lit :=
  if let .ok n := v.getObjValAs? Int "i32" then .i32 n
  else if let .ok n := v.getObjValAs? Int "i" then .i64 n
  else if let .ok n := v.getObjValAs? Nat "f" then .f64 ⟨n.toUInt64⟩
  else if let .ok s := v.getObjValAs? String "s" then .str ⟨s.toUTF8.toList⟩
  else if let .ok n := v.getObjValAs? Int "d" then .date n
  else .other

def opdOfJson (j : Json) : Opd :=
  if let .ok v := j.getObjVal? "lit" then .lit (litOfJson v)
  else if let .ok i := j.getObjValAs? Nat "col" then .col i
  else .other

partial def peOfJson (j : Json) : PE :=
  if let .ok a := j.getObjValAs? (Array Json) "bin" then
    match (a[0]?.bind (·.getStr?.toOption)).bind (fun s => (Driver.SqlJson.binOp s).toOption), a[1]?, a[2]? with
    | some .and, some x, some y => .and (peOfJson x) (peOfJson y)
    | some .or, some x, some y => .or (peOfJson x) (peOfJson y)
    | some op, some x, some y => .cmp (genOp op) (opdOfJson x) (opdOfJson y)
    | _, _, _ => .other
  else if let .ok a := j.getObjValAs? (Array Json) "un" then
    match a[0]?.bind (·.getStr?.toOption), a[1]? with
    | some "not", some x => .not (peOfJson x)
    | _, _ => .other
  else if let .ok a := j.getObjValAs? (Array Json) "between" then
    match a[0]?, a[1]?, a[2]?, a[3]?.bind (·.getBool?.toOption) with
    | some e, some lo, some hi, some neg => .between (opdOfJson e) (opdOfJson lo) (opdOfJson hi) neg
    | _, _, _, _ => .other
  else if let .ok a := j.getObjValAs? (Array Json) "inlist" then
    match a[0]?, a[1]?.bind (·.getArr?.toOption), a[2]?.bind (·.getBool?.toOption) with
    | some e, some items, some neg => .inList (opdOfJson e) (items.toList.map opdOfJson) neg
    | _, _, _ => .other
  else .other

/-- {"i32":k} literals → {"i":k} for the interpreter's expression -/
partial def plain (j : Json) : Json :=
  match j with
  | .obj m =>
    match j.getObjVal? "i32" with
    | .ok n => Json.mkObj [("i", n)]
    | .error _ => Json.mkObj (m.toList.map (fun (k, v) => (k, plain v)))
  | .arr a => .arr (a.map plain)
  | x => x

def optInt (j : Json) (k : String) : Option Int := (j.getObjValAs? Int k).toOption
def optBits (j : Json) (k : String) : Option F64 := (j.getObjValAs? Nat k).toOption.map (fun n => ⟨n.toUInt64⟩)
def optBytes (j : Json) (k : String) : Option (Option Rs.Str) :=
  match j.getObjVal? k with
  | .ok .null => none
  | .ok b => match Driver.asBytes b with
    | .ok l => some (if (Utf8.decode l).isSome then some ⟨l⟩ else none)
    | .error _ => none
  | .error _ => none

def colMetaOfJson (j : Json) : Option ColMeta :=
  match j with
  | .null => none
  | _ =>
    let nulls := (j.getObjValAs? Nat "nulls").toOption
    let st : Stats := match (j.getObjValAs? String "t").toOption with
      | some "i64" => .int64 (optInt j "min") (optInt j "max")
      | some "i32" => .int32 (optInt j "min") (optInt j "max")
      | some "f64" => .double (optBits j "min") (optBits j "max")
      | some "bytes" => .bytes (optBytes j "min") (optBytes j "max")
      | _ => .other
    some { stats := st, nullCount := nulls }

inductive Out | ok (vs : List Val) | err
deriving DecidableEq
def outOfJson (j : Json) : Except String Out :=
  match j.getObjVal? "ok" with
  | .ok a => do pure (.ok (← (← a.getArr?).toList.mapM Driver.SqlJson.valOfJson))
  | .error _ => pure .err
def allOk (l : List (Except Err Val)) : Out :=
  match l.mapM (fun x => x.toOption) with | some vs => .ok vs | none => .err

def boolList (j : Json) : Except String (List Bool) := do (← j.getArr?).toList.mapM (·.getBool?)

/-- the two soundness conditions, on one row group: returns a reason when violated -/
def judgeRg (kept defn : Bool) (mask : Out) : Option String :=
  match mask with
  | .err => none
  | .ok vs =>
    if !kept && vs.any (· == .bool true) then some "a pruned row group holds a row the predicate keeps"
    else if defn && !(vs.all (· == .bool true)) then some "row filter dropped for a row group in which the predicate is not TRUE on every row"
    else none

def firstSome {α} (l : List (Option α)) : Option α := l.findSome? id

def floatCorner (v : Val) : Bool := match v with | .f64 x => x.isNaN || x.isZero | _ => false

def opdZeroLit : Opd → Bool | .lit (.f64 x) => x.isZero | _ => false
/-- the predicate holds a float literal that is a zero (its sign is visible to the kernels' total order, not to IEEE statistics) -/
def zeroLit : PE → Bool
  | .cmp _ l r => opdZeroLit l || opdZeroLit r
  | .and a b => zeroLit a || zeroLit b
  | .or a b => zeroLit a || zeroLit b
  | .not e => zeroLit e
  | .between e lo hi _ => opdZeroLit e || opdZeroLit lo || opdZeroLit hi
  | .inList e items _ => opdZeroLit e || items.any opdZeroLit
  | .other => false

def cellOfVal : Val → Cell
  | .int n => .int n | .date n => .int n | .f64 x => .f64 x | .str s => .str ⟨s.toUTF8.toList⟩ | _ => .null

def opdIn : Opd → Bool | .other => false | .lit .other => false | _ => true
/-- inside the fragment whose meaning `Pruning.sem` fixes (no conservative `other` parts) -/
def inFrag : PE → Bool
  | .cmp op l r => isCmpOp op && opdIn l && opdIn r
  | .and a b => inFrag a && inFrag b
  | .or a b => inFrag a && inFrag b
  | .not e => inFrag e
  | .between e lo hi _ => opdIn e && opdIn lo && opdIn hi
  | .inList e items _ => opdIn e && items.all opdIn
  | .other => false

def valOfSem : Option Bool → Val | some b => .bool b | none => .null

def handler : Driver.Handler := fun c i => do
  let rgsRows ← (← Driver.getArr c "rgs").toList.mapM Driver.SqlJson.tableOfJson
  let predsJ := (← Driver.getArr c "preds").toList
  let metaJ := (← Driver.getArr i "meta").toList
  let rgs : List Rg ← metaJ.mapM (fun m => do pure ((← m.getArr?).toList.map colMetaOfJson))
  let implPreds := (← Driver.getArr i "preds").toList
  let fo := Driver.floatRt
  let n := rgs.length
  let mut kAll := true
  let mut oracle : Option String := none
  let mut attr : Option String := none
  let mut unattributed := false
  let mut tags : List String := []
  let mut modelOut : List Json := []
  for (pj, ip) in predsJ.zip implPreds do
    let pe := peOfJson pj
    let e ← Driver.SqlJson.exprOfJson (plain pj)
    let keep ← Driver.asNatList (← Driver.getObj ip "keep")
    let might ← boolList (← Driver.getObj ip "might")
    let defn ← boolList (← Driver.getObj ip "def")
    let masks ← (← Driver.getArr ip "mask").toList.mapM outOfJson
    let run (dev : Pruning.Dev) : List Bool × List Bool :=
      (rgs.map (fun rg => mightMatch dev fo.ofInt rg pe), rgs.map (fun rg => definitelyMatches dev fo.ofInt rg pe))
    let (mMight, mDef) := run Pruning.Dev.current
    let mKeep := (List.range n).filter (fun k => mMight.getD k true)
    let mMasks := rgsRows.map (fun rows => allOk (rows.map (fun r => Filter.eval Filter.Dev.current fo r e)))
    -- the theorems' reference semantics `Pruning.sem` must be the interpreter's on this fragment
    let semOk := !inFrag pe || mMasks == rgsRows.map (fun rows => Out.ok (rows.map (fun r =>
      valOfSem (sem fo.ofInt (fun _ => .null) (fun _ => none) (r.map cellOfVal) pe))))
    let k := might == mMight && defn == mDef && keep == mKeep && masks == mMasks && semOk
    kAll := kAll && k
    modelOut := modelOut ++ [Json.mkObj [("might", Json.arr (mMight.map Json.bool).toArray), ("def", Json.arr (mDef.map Json.bool).toArray)]]
    -- oracle on the implementation's outputs
    let judgeAll (kp : List Nat) (df : List Bool) (ms : List Out) : Option String :=
      firstSome ((List.range n).map (fun g => judgeRg (kp.contains g) (df.getD g false) (ms.getD g .err)))
    let o := match judgeAll keep defn masks with
      | some w => some w
      | none => if keep != (List.range n).filter (fun g => might.getD g true) then some "prune_row_groups differs from row_group_might_match" else none
    if o.isSome then
      oracle := match oracle with | some w => some w | none => o
      -- attribution: which listed deviation explains it?
      let passes (dev : Pruning.Dev) (ms : List Out) : Bool :=
        let (mm, dd) := run dev
        (judgeAll ((List.range n).filter (fun g => mm.getD g true)) dd ms).isNone
      let a : Option String :=
        if !k then none
        else if passes Pruning.Dev.none masks then none      -- C05-F1 / C05-F2 are fixed (e356a0a): a recurrence is a violation
        else
          -- float statistics follow IEEE order without NaN, the predicate follows the total order: neutralise by removing the rows that hold NaN / a zero
          -- (a zero float literal makes an integer 0 cell a corner too: it is widened to +0.0)
          let corner (v : Val) : Bool := floatCorner v || (zeroLit pe && v == .int 0)
          let ms' := (rgsRows.zip mMasks).map (fun (rows, m) => match m with
            | .ok vs => Out.ok (((rows.zip vs).filter (fun (r, _) => !r.any corner)).map (·.2))
            | .err => .err)
          if rgsRows.any (fun rows => rows.any (fun r => r.any corner)) && passes Pruning.Dev.none ms' then some "C05-F3" else none
      match a with
      | some id => attr := some id
      | none => unattributed := true
    -- coverage tags
    let pruned := n - keep.length
    tags := tags ++ (if pruned > 0 then ["pruned"] else []) ++ (if defn.any id then ["definite"] else [])
      ++ (if (run Pruning.Dev.old).1 != (run Pruning.Dev.none).1 || (run Pruning.Dev.old).2 != (run Pruning.Dev.none).2 then ["switch-visible"] else [])
  let hasNull := rgsRows.any (fun rows => rows.any (fun r => r.any Val.isNull))
  let tys := ((← Driver.getArr c "cols").toList.filterMap (fun x => (x.getObjValAs? String "ty").toOption)).map (fun t => s!"ty-{t}")
  let nostats := rgs.any (fun rg => rg.any Option.isNone)
  pure { model := Json.arr modelOut.toArray, k := kAll, oracle := oracle, nt := n > 0,
         tags := (tags ++ tys ++ (if hasNull then ["nulls"] else []) ++ (if nostats then ["no-statistics"] else [])
                  ++ (if rgsRows.any (fun rows => rows.any (fun r => r.any floatCorner)) then ["float-corner"] else [])).eraseDups,
         attr := if unattributed then none else attr }

end Driver.C05
